#!/bin/bash
# Build the framework once, offline. Filled in as components land.
set -e
cd "$(dirname "$0")"
exit 0
