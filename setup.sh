#!/bin/bash
# Build the framework once, offline: Lean model + proofs + driver, fact extractor, harness.
set -e
cd "$(dirname "$0")"
export GOFLAGS=-mod=mod GOPROXY=off GOSUMDB=off GOTOOLCHAIN=local CGO_ENABLED=0
mkdir -p bin work evidence replays
(cd go/extract && go build -o ../../bin/pwextract .)
mkdir -p lean/Pw/Generated
./bin/pwextract "${VERIF_REPO:-/repo}" > lean/Pw/Generated/Facts.lean.new
if ! cmp -s lean/Pw/Generated/Facts.lean.new lean/Pw/Generated/Facts.lean; then mv lean/Pw/Generated/Facts.lean.new lean/Pw/Generated/Facts.lean; else rm lean/Pw/Generated/Facts.lean.new; fi
(cd lean && lake build Pw pwdriver Pw.Conformance Pw.Props.All)
cp "${VERIF_REPO:-/repo}/go.sum" go/harness/go.sum
(cd go/harness && go build -tags verif -o ../../bin/pwharness .)
echo "setup done"
