#!/bin/bash
# Build the framework once, offline: Lean model + proofs + driver, fact extractor, harness.
set -e
cd "$(dirname "$0")"
export GOFLAGS=-mod=mod GOPROXY=off GOSUMDB=off GOTOOLCHAIN=local CGO_ENABLED=0
mkdir -p bin work evidence replays
(cd go/extract && go build -o ../../bin/pwextract .)
(cd go/translate && go build -o ../../bin/pwtranslate .)
mkdir -p lean/Pw/Generated
./bin/pwtranslate "${VERIF_REPO:-/repo}" > lean/Pw/Generated/Trans.lean.new
if ! cmp -s lean/Pw/Generated/Trans.lean.new lean/Pw/Generated/Trans.lean; then mv lean/Pw/Generated/Trans.lean.new lean/Pw/Generated/Trans.lean; else rm lean/Pw/Generated/Trans.lean.new; fi
./bin/pwtranslate -copy "${VERIF_REPO:-/repo}" > lean/Pw/Generated/TransCopy.lean.new
if ! cmp -s lean/Pw/Generated/TransCopy.lean.new lean/Pw/Generated/TransCopy.lean; then mv lean/Pw/Generated/TransCopy.lean.new lean/Pw/Generated/TransCopy.lean; else rm lean/Pw/Generated/TransCopy.lean.new; fi
./bin/pwtranslate -error "${VERIF_REPO:-/repo}" > lean/Pw/Generated/TransError.lean.new
if ! cmp -s lean/Pw/Generated/TransError.lean.new lean/Pw/Generated/TransError.lean; then mv lean/Pw/Generated/TransError.lean.new lean/Pw/Generated/TransError.lean; else rm lean/Pw/Generated/TransError.lean.new; fi
./bin/pwtranslate -writer "${VERIF_REPO:-/repo}" > lean/Pw/Generated/TransWriter.lean.new
if ! cmp -s lean/Pw/Generated/TransWriter.lean.new lean/Pw/Generated/TransWriter.lean; then mv lean/Pw/Generated/TransWriter.lean.new lean/Pw/Generated/TransWriter.lean; else rm lean/Pw/Generated/TransWriter.lean.new; fi
./bin/pwtranslate -cache "${VERIF_REPO:-/repo}" > lean/Pw/Generated/TransCache.lean.new
if ! cmp -s lean/Pw/Generated/TransCache.lean.new lean/Pw/Generated/TransCache.lean; then mv lean/Pw/Generated/TransCache.lean.new lean/Pw/Generated/TransCache.lean; else rm lean/Pw/Generated/TransCache.lean.new; fi
./bin/pwtranslate -startup "${VERIF_REPO:-/repo}" > lean/Pw/Generated/TransStartup.lean.new
if ! cmp -s lean/Pw/Generated/TransStartup.lean.new lean/Pw/Generated/TransStartup.lean; then mv lean/Pw/Generated/TransStartup.lean.new lean/Pw/Generated/TransStartup.lean; else rm lean/Pw/Generated/TransStartup.lean.new; fi
./bin/pwextract "${VERIF_REPO:-/repo}" > lean/Pw/Generated/Facts.lean.new
if ! cmp -s lean/Pw/Generated/Facts.lean.new lean/Pw/Generated/Facts.lean; then mv lean/Pw/Generated/Facts.lean.new lean/Pw/Generated/Facts.lean; else rm lean/Pw/Generated/Facts.lean.new; fi
(cd lean && lake build Pw pwdriver Pw.Conformance Pw.Props.All Pw.Props.Tie Pw.Props.TieFraming Pw.Props.TieWriter Pw.Props.TieCopy Pw.Props.TieSlurp Pw.Props.TieError Pw.Props.TieCopy2 Pw.Props.TieDataWriter Pw.Props.TieCache Pw.Props.TieStartup)
cp "${VERIF_REPO:-/repo}/go.sum" go/harness/go.sum
(cd go/harness && go build -tags verif -o ../../bin/pwharness .)
echo "setup done"
