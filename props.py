"""Per-property configuration of the checks: Lean module + property theorems (audited),
conformance modules the proofs rely on, campaigns (name, quick n, thorough n)."""

def P(module, theorems, campaigns, conformance=(), **kw):
    d = dict(module=module, theorems=list(theorems), campaigns=list(campaigns), conformance=list(conformance))
    d.update(kw)
    return d

PROPS = {
    "C02": P("Pw.Props.C02",
             ["Pw.Props.C02.C02_roundtrip", "Pw.Props.C02.C02_stream", "Pw.Props.C02.C02_model_output_shape",
              "Pw.Props.C02.C02_abandon"],
             [("session", 3000, 120000)], ["Consts", "Writer"], wf_oracle=True,
             design_ref="§7 C02",
             level_text="Lean theorems: the strict backend grammar parser inverts the encoding of every structured message "
                        "(all 14 builders) and of every sequence of them; an abandoned/failed frame never leaks into the next "
                        "message (Writer model). The model emits structured messages only; it is tied to the Go code by the "
                        "differential campaign (byte-exact transcripts of random sessions incl. failing rows, decorated errors, "
                        "faults) and by pinned facts (message type bytes, error field bytes, Writer.Start/End/Reset bodies). The same "
                        "strict parser is run on the implementation's real output of every case.",
             level_note="Trusted: Lean kernel; extractor+Conformance (Consts, Writer); harness transport and scripted handlers; "
                        "the session-level invariant 'every emitted message is WF under representable handler data' is checked "
                        "on generated cases (oracle), not yet proved for all handler programs.",
             technique="Lean 4 proof (round-trip of encode/strict-parse, induction on message lists) + differential correspondence"),
}
