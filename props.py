"""Per-property configuration of the checks: Lean module + property theorems (audited),
conformance modules the proofs rely on, campaigns (name, quick n, thorough n)."""

def P(module, theorems, campaigns, conformance=(), **kw):
    d = dict(module=module, theorems=list(theorems), campaigns=list(campaigns), conformance=list(conformance))
    d.update(kw)
    return d

PROPS = {
    "C02": P("Pw.Props.C02", [], [("session", 3000, 120000)], ["Consts", "Writer"], wf_oracle=True),
}
