"""Per-property configuration of the checks: Lean module + property theorems (audited),
conformance modules the proofs rely on, campaigns (name, quick n, thorough n)."""

def P(module, theorems, campaigns, conformance=(), **kw):
    d = dict(module=module, theorems=list(theorems), campaigns=list(campaigns), conformance=list(conformance))
    d.update(kw)
    return d

def seg_group_oracle(rows, ck):
    """C03: every segmentation of the same byte stream must give the identical implementation result."""
    groups = {}
    for c, r, d in rows:
        ckv = ck.kv(c)
        g = ckv.get("grp")
        if g is None:
            continue
        g = ckv.get("camp", "") + ":" + g
        rk = ck.kv(r)
        groups.setdefault(g, []).append((rk.get("out", ""), rk.get("ev", ""), rk.get("end", "")))
    bad = {g for g, v in groups.items() if len(set(v)) > 1}
    out = []
    for c, r, d in rows:
        ckv = ck.kv(c)
        g = ckv.get("camp", "") + ":" + ckv.get("grp", "-")
        if g in bad and d.get("oracle", "ok") == "ok":
            d = dict(d, oracle="rej", why="C03:result-depends-on-%s:group=%s" % ("segmentation" if ckv.get("camp") == "seg" else "bytes-no-handler-reads", g))
        out.append((c, r, d))
    return out


PROPS = {
    "C02": P("Pw.Props.C02Session",
             ["Pw.Props.C02.C02_session", "Pw.Props.C02.C02_output_parses", "Pw.Props.C02.C02_roundtrip",
              "Pw.Props.C02.C02_stream", "Pw.Props.C02.C02_model_output_shape", "Pw.Props.C02.C02_abandon",
              "Pw.runProg_wf", "Pw.loop_wf", "Pw.serveAfterVersion_wf", "Pw.handleCommand_wf", "Pw.copyRead_nf",
              "Pw.binRead_nf", "Pw.serverParams_nf", "Pw.quoteByte_nf", "Pw.colFormats_wf", "Pw.decodeBindTail_rep",
              "Pw.Props.C02.exHandlers_rep"],
             [("session", 3000, 120000), ("paramsd", 300, 8000)], ["Consts", "Writer", "Session"], wf_oracle=True,
             design_ref="§7 C02",
             level_text="Lean theorem C02_session: for every representable configuration and set of callbacks (ConfigRep, "
                        "HandlersRep: the strings they supply are NUL-free, counts fit their 16-bit fields, row values fit a field - "
                        "exactly what the wire format can carry) and for EVERY client input, fault position and handler program, "
                        "every message the model of Server.serve writes is well-formed (BMsg.WF); with C02_stream the whole output "
                        "then parses under the strict grammar, message for message (C02_output_parses). The proof is an invariant "
                        "over the whole session: library-made error texts are NUL-free (decimal renderings, quoted kind bytes, names "
                        "taken from NUL-terminated fields), every result the library hands to a handler is representable "
                        "(copyRead_nf, binRead_nf, ...), a representable handler program keeps the output well-formed and hands "
                        "back representable errors and panic texts (runProg_wf, by induction on the program), statements and "
                        "portals stored in the session stay representable, format codes decoded from Bind are < 2^16 "
                        "(decodeBindTail_rep), ParameterStatus pairs are NUL-free (serverParams_nf). C02_roundtrip: the strict "
                        "parser inverts all 14 builders; C02_abandon: an abandoned frame never leaks into the next message. "
                        "exHandlers_rep: the hypotheses are satisfiable by a concrete handler set that also forwards library "
                        "errors. Tie: byte-exact differential campaign of random sessions, pinned facts (type bytes, error field "
                        "bytes, Writer.Start/End/Reset, dispatch tables); the same strict parser runs on the real output of every case.",
             level_note="Trusted: Lean kernel; extractor+Conformance (Consts, Writer, Session); harness transport and scripted "
                        "handlers. Bodies of 4 GiB and more (not expressible in the length field) are excluded by an explicit "
                        "hypothesis of C02_output_parses.",
             technique="Lean 4 proof (session-wide well-formedness invariant by induction on handler programs and loop iterations; round-trip of encode/strict-parse) + differential correspondence"),
    "C17": P("Pw.Props.C17",
             ["Pw.Props.C17.C17_fields", "Pw.Props.C17.C17_wellformed", "Pw.Props.C17.C17_codes_nodup", "Pw.Props.C17.C17_nil",
              "Pw.Props.C17.getCode_outer", "Pw.Props.C17.getSev_outer", "Pw.Props.C17.getSource_outer", "Pw.Props.C17.text_spec"],
             [("errors", 3000, 200000)], ["Consts"],
             design_ref="§7 C17",
             level_text="Lean theorem C17_fields: for EVERY error term (any nesting depth, order, repetition of the six decorators and of "
                        "%w-wrapping) with NUL-free texts, the ErrorResponse body of the model parses under the strict field grammar to "
                        "exactly the specification's field list (outermost value of each decoration, defaults ERROR / XXUUU, source line "
                        "as decimal text, each field at most once); C17_nil for the nil error. The model's Flatten/Get*/builder are tied to "
                        "errors/*.go and error.go by the differential campaign over random decorator trees (depth <= 16) and by pinned "
                        "error-field bytes; the oracle parses the implementation's ErrorResponse strictly and compares it with the "
                        "specification computed from the scripted error term.",
             level_note="Trusted: Lean kernel; harness (scripted ParseFn builds the Go error value from the same term); fmt.Errorf(%w) is "
                        "modelled as prefix/suffix wrapping with Unwrap; codes.Uncategorized etc. pinned by Conformance.Consts.",
             technique="Lean 4 proof by induction on the error term + differential correspondence"),
    "C20": P("Pw.Props.C20",
             ["Pw.Props.C20.C20_bounded", "Pw.Props.C20.C20_positional", "Pw.Props.C20.C20_anonymous",
              "Pw.Props.C20.C20_unspecified", "Pw.Props.C20.C20_work", "Pw.Props.C20.C20_describe"],
             [("params", 6000, 400000), ("paramsd", 1500, 60000)], ["Params", "Consts"],
             design_ref="§7 C20",
             level_text="Lean theorems over ALL query strings: the model of ParseParameters is a total structurally recursive function "
                        "(no panic outcome), its result length is min(highest $n index, 65535) for positional queries and "
                        "min(#markers, 65535) for ?-queries, never exceeds 65535, all entries are OID 0, the scan yields at most one "
                        "marker per byte, and the ParameterDescription built from it announces exactly that length. The scanner model of "
                        "the regular expression and the growth loop are tied to options.go by calling the real function (child process, "
                        "panics kill the child and are reported) on generated strings incl. indexes 0, gaps, repeats, 65535/65536, "
                        "2^63-1, 2^63, 30 digits, and by the pinned regexp literal; a second campaign checks the Describe count end to end.",
             level_note="Trusted: Lean kernel; Go regexp (RE2) for the one pinned literal and strconv.Atoi saturation are modelled, not "
                        "verified; harness.",
             technique="Lean 4 proof (induction over the marker list, omega) + differential correspondence on the real function"),
    "C10": P("Pw.Props.C10",
             ["Pw.Props.C10.C10_default", "Pw.Props.C10.C10_verdict", "Pw.Props.C10.C10_accept", "Pw.Props.C10.C10_skip",
              "Pw.Props.C10.C10_skip_partial", "Pw.Props.C10.C10_submin", "Pw.Props.C10.C10_error_class",
              "Pw.Props.C10.C10_session_step", "Pw.Props.C10.C10_startup", "Pw.Props.C10.slurpChunks_le",
              "Pw.Props.C10.slurpChunks_sum"],
             [("limit", 4000, 160000), ("limitbig", 0, 12), ("copy", 1200, 60000), ("tls", 600, 20000)], ["Reader", "Consts", "Session"],
             design_ref="§7 C10",
             level_text="Lean theorems for EVERY limit L and every 32-bit declared length: a body of at most L bytes is read exactly "
                        "(C10_accept), a larger one is never delivered, its declared body is consumed in full and the stream resumes at "
                        "the following message (C10_skip), a partially arrived one keeps skipping (C10_skip_partial), declared lengths "
                        "< 4 are rejected without reading anything and without negative sizes (C10_submin); the session answers with one "
                        "ErrorResponse 54000/ERROR (+ReadyForQuery only for a simple Query) and goes on with the next item "
                        "(C10_session_step); during startup the connection ends silently (C10_startup); Slurp's chunks are <= L and sum "
                        "to the declared size. Tie: pinned guard `size > reader.MaxMessageSize || size < 0`, ReadMsgSize/reset/Slurp "
                        "facts; differential + expectation oracle over limits {16..8192} x lengths {L-1,L,L+1,L+2,2L,2L+1,3L+7, 0..3} x "
                        "15 type bytes x positions, injected protocol frames inside skipped bodies, thorough: the 16 MiB default boundary. Campaigns tls and copy place the oversized message inside a TLS session and inside COPY-in.",
             level_note="Trusted: Lean kernel; bufio/io.ReadFull semantics (flat-stream reading, see C03); harness.",
             technique="Lean 4 proof (arithmetic on the length guard, omega) + differential correspondence with expectation oracle"),
    "C03": P("Pw.Props.C03",
             ["Pw.Props.C03.readFull_flat", "Pw.Props.C03.C03_readFull_segmentation", "Pw.Props.C03.C03_segmentation",
              "Pw.Props.C03.C03_exact_consumption", "Pw.Props.C03.C03_framing", "Pw.Props.C03.C03_accessors"],
             [("seg", 2500, 100000), ("surplus", 1500, 60000), ("accessor", 4000, 300000), ("limit", 800, 40000)], ["Reader", "Accessors"],
             group_oracle=seg_group_oracle,
             design_ref="§7 C03",
             level_text="Lean theorems: io.ReadFull over ANY segmentation of a stream returns the flat stream's prefix and leaves the flat "
                        "remainder (readFull_flat, induction over raw reads that return arbitrary non-empty prefixes), so the connection "
                        "model - a function of the flat bytes - is segmentation independent; every complete message is consumed in "
                        "exactly its declared length whatever it contains (C03_exact_consumption, C03_framing); for every body and every "
                        "list of accessor calls the reader's accessors equal an independent cursor (body,pos), never pass the end, "
                        "and leave Msg = body.drop pos (C03_accessors). Tie: pinned read primitive of every read site (io.ReadFull / "
                        "ReadByte), pinned accessor bodies; campaign runs each session under 5 segmentations (1-byte, dense, random, "
                        "every 3rd byte, single) and requires identical real transcripts, plus direct calls of the real accessors.",
             level_note="Trusted: Lean kernel; bufio.Reader is an instance of 'raw read returns a non-empty prefix'; harness transport "
                        "delivers exactly the prescribed segments. Connection FATE (not output/events) after plaintext stuffed behind an "
                        "accepted SSLRequest is segmentation dependent and excluded (see C11, DESIGN §7).",
             technique="Lean 4 proof (induction over reads / message lists / accessor lists) + differential correspondence"),
    "C08": P("Pw.Props.C08",
             ["Pw.Props.C08.C08_roundtrip", "Pw.Props.C08.C08_formats_admissible", "Pw.Props.C08.C08_result_rule",
              "Pw.Props.C08.C08_announced_is_used", "Pw.Props.C08.C08_paramdesc", "Pw.Props.C08.readValues_enc",
              "Pw.Props.C08.formatRule", "Pw.Props.C08.C08_sound", "Pw.Props.C08.readValues_sound"],
             [("bind", 3000, 200000)], ["Accessors", "Consts", "Row"],
             design_ref="§7 C08",
             level_text="Lean theorems for EVERY admissible Bind (any count < 2^16, any values incl. empty, NUL-containing and NULL, any "
                        "format codes): the model of readParameters/readColumnTypes returns exactly the parameters sent - count, order, "
                        "bytes, NULL vs empty - each tagged by the protocol rule (0 codes: text, 1: all, n: positional), returns the "
                        "result codes as sent and leaves surplus bytes untouched (C08_roundtrip, induction on the parameter list); the "
                        "result-format rule used for RowDescription and DataRow is one function equal to the protocol rule "
                        "(C08_result_rule, C08_announced_is_used); ParameterDescription round-trips the declared OIDs. Conversely "
                        "(C08_sound): whenever the decoder accepts a body, that body IS the encoding of exactly the parameters and "
                        "codes it returns plus the untouched rest - every value handed to the statement function is a contiguous "
                        "piece of the message of the declared length; a lying count or length can only make it reject. Tie: differential "
                        "campaign Parse/Describe/Bind/Describe/Execute; the oracle compares what the real statement function received, "
                        "what Describe announced and how the DataRow was encoded with expectations the generator derives from how it built "
                        "the message (independent of library and model), incl. decoding through Parameter.Scan.",
             level_note="Trusted: Lean kernel; pgx codecs behind Parameter.Scan are modelled for int4/text only in the oracle; row.go holds "
                        "two textual copies of the format rule (Define/Write) which the model represents by one function - their agreement "
                        "in the code is checked by the campaign, not proved.",
             technique="Lean 4 proof (encode/decode round trip by induction) + differential correspondence with expectation oracle"),
    "C09": P("Pw.Props.C09",
             ["Pw.Props.C09.C09_null_iff", "Pw.Props.C09.C09_null_wire", "Pw.Props.C09.encodeRow_length",
              "Pw.Props.C09.encodeRow_fields", "Pw.Props.C09.C09_row_message", "Pw.Props.C09.C09_int_binary",
              "Pw.Props.C09.C09_int_text", "Pw.Props.C09.C09_text", "Pw.Props.C09.C09_bytea_binary",
              "Pw.Props.C09.C09_bool_binary", "Pw.Props.C09.C09_uuid_binary", "Pw.parseIntText_decInt"],
             [("values", 3000, 150000), ("simple", 800, 30000), ("bind", 500, 20000)], ["Writer", "Consts", "Row"],
             design_ref="§7 C09",
             level_text="Lean theorems about the model of DataWriter.Row and the codecs it uses, for EVERY row: a successful Row writes "
                        "exactly one DataRow with one field per declared column, field k being the encoding of value k for column k's "
                        "type in the format the portal's result codes assign to column k; any other outcome writes nothing "
                        "(C09_row_message, encodeRow_length/_fields); for every supported type and both formats the encoder yields "
                        "NULL (length -1, no payload) exactly for the three NULL forms and a value (length 0 for empty) otherwise "
                        "(C09_null_iff, C09_null_wire); integers of every width round-trip over their whole range in binary and in "
                        "decimal text (C09_int_binary, C09_int_text via parseIntText_decInt: ParseInt inverts FormatInt, strong "
                        "induction on digits), text/varchar in both formats, bytea/bool/uuid in binary. Framing of the DataRow itself "
                        "is C02_roundtrip. Tie: 'values' differential campaign over all ten supported types, simple and extended "
                        "protocol, result formats none/one/per-column, boundary values, 64 KiB-crossing strings, NULL forms in every "
                        "position; oracle = an independent client-side decoder (Spec/Values.lean: PostgreSQL text formats for bool, "
                        "bytea, uuid; binary layouts) applied to the implementation's real output and compared with the values the "
                        "handler was told to write.",
             level_note="Trusted: Lean kernel. The pgx codecs are library code: the Lean codec model (Model/Codec.lean) is tied to them "
                        "only by the campaign. float4/float8 are covered in binary format (bit patterns incl. NaN, infinities, -0, "
                        "denormals); float TEXT format is outside the Lean model and not generated. bool/bytea/uuid text round trips "
                        "are checked by the campaign's decoder, not proved.",
             technique="Lean 4 proof (codec round trips, row/column correspondence) + differential correspondence with client-side decoding oracle"),
    "C04": P("Pw.Props.C04",
             ["Pw.Props.C04.C04_no_crash", "Pw.Props.C04.runProg_no_panic", "Pw.Props.C04.encodeRow_no_panic",
              "Pw.Props.C04.loop_safe", "Pw.Props.C04.handleExecute_safe", "Pw.Props.C04.handleCommand_safe",
              "Pw.Props.C04.serveAfterVersion_safe", "Pw.Props.C04.C04_ends", "Pw.Props.C04.loop_ends",
              "Pw.Props.C04.loop_fuel", "Pw.Props.C04.stepCommand_progress", "Pw.runProg_progress",
              "Pw.copyRead_spec", "Pw.binFill_spec", "Pw.binRead_good",
              "Pw.Props.C08.C08_sound", "Pw.Props.C14.C14_count_mismatch", "Pw.Props.C14.C14_truncated_count",
              "Pw.Props.C20.C20_bounded", "Pw.Props.C18.C18_alloc_bound"],
             [("hostile", 4000, 300000), ("alloc", 600, 20000), ("session", 1200, 100000), ("limit", 600, 40000),
              ("bincopy", 600, 40000), ("copy", 600, 40000), ("paramsd", 200, 6000), ("startup", 500, 40000),
              ("bind", 500, 20000)],
             ["Panics", "Reader", "Params", "Accessors", "Session"],
             design_ref="§7 C04",
             level_text="PARTIAL. Lean theorem C04_no_crash: for EVERY configuration, EVERY handler program and EVERY client byte "
                        "string (plaintext or inside TLS), in every phase and with the transport failing at any read or write "
                        "position, the model of Server.serve never ends in an unrecovered panic: the simple-query path cannot make "
                        "the row encoder panic (runProg_no_panic: format codes stay in {0,1}), a panic raised under Execute by hostile "
                        "result-format codes is contained (handleExecute_safe), and no other step of the loop can reach the crashed "
                        "state (structural induction over handler programs, statements and loop iterations). Theorem C04_ends: once the "
                        "client's input has ended (reads fail or EOF after ANY byte, any phase) serving ends with the connection "
                        "closed - no step blocks (copyRead_spec, binFill_spec, binRead_good, runProg_progress: the library's COPY "
                        "readers and every handler program only consume input and block only on a merely silent stream), every loop "
                        "iteration that continues has consumed a message (stepCommand_progress), and the fuel of the model's loops is "
                        "never what stops them (loop_fuel, loop_ends). Nothing fabricated: an accepted Bind body IS the encoding of "
                        "the parameters delivered (C08_sound), a binary COPY row with a lying field count or a stream ending inside "
                        "a row is an error (C14_count_mismatch, C14_truncated_count), ParseParameters is total and capped "
                        "(C20_bounded), the message buffer is sized by min(declared, limit) (C18_alloc_bound). The model is total: "
                        "every function is structurally recursive. Tie: the "
                        "'hostile' differential campaign (valid, lying and bit-damaged messages in every phase incl. text and binary "
                        "COPY through the library's own readers and ParseParameters; read faults / EOF after the n-th byte, write "
                        "faults at the k-th Write) run against the real server through Server.Serve in child processes: a panic kills "
                        "the child and is reported with its trace, a connection that neither blocks in a read nor closes is a hang, a "
                        "connection not released after the client hung up, a bystander connection not served meanwhile, and (campaign "
                        "'alloc') more than 4 MiB + 16 x limit bytes allocated while serving a connection that announces up to 4 GiB "
                        "are violations; model/implementation agreement on output and callback trace shows that nothing fabricated "
                        "reached a callback. The regenerated facts list every index/slice expression of the library "
                        "(Conformance/Panics.lean).",
             level_note="Partial: process survival, goroutine scheduling, heap growth and 'other connections keep being accepted' are "
                        "runtime behaviour; the theorem is about the model, the runtime part is observed by the campaigns only "
                        "(crash/hang/allocation/bystander oracles). Allocation: the proved bound is C18_alloc_bound for reader.Msg; "
                        "other allocations (Bind parameter slices, CopyReader chunk, pgx) are measured, not proved. Trusted: Lean "
                        "kernel; the model of pgx's encoder panic (format code outside {0,1}).",
             technique="Lean 4 proof (no-crash invariant by structural induction) + differential correspondence under fault injection in isolated child processes"),
    "C11": P("Pw.Props.C11",
             ["Pw.Props.C11.C11_upgrade", "Pw.Props.C11.C11_plaintext_ignored", "Pw.Props.C11.C11_refused",
              "Pw.Props.C11.C11_reply_fails", "Pw.Props.C11.C11_equivalent", "Pw.Props.C11.C11_cancel_inside_tls",
              "Pw.Props.C11.read_sslRequest", "Pw.Props.C11.sav_cfg", "Pw.Props.C11.sav_fields"],
             [("tls", 2500, 150000), ("startup", 800, 40000), ("session", 600, 40000)], ["Startup", "Consts"],
             design_ref="§7 C11",
             level_text="PARTIAL. Lean theorems about the model of Server.serve, which keeps the raw byte stream (inp) and the "
                        "plaintext inside the TLS session (tin) apart: with certificates an SSLRequest is answered by the single byte "
                        "'S' and the connection is then served from tin and from nothing else - for EVERY raw byte string that "
                        "followed the SSLRequest the replies, callbacks and parameters are identical (C11_plaintext_ignored); the "
                        "result equals that of serving the same bytes on a plaintext connection, for every configuration, handler "
                        "and session (C11_equivalent); a CancelRequest inside TLS is refused without a reply "
                        "(C11_cancel_inside_tls); without certificates the answer is 'N' and the bytes behind the SSLRequest are read "
                        "as a fresh startup packet (C11_refused). Tie: the 'tls' campaign runs the real server with a real crypto/tls "
                        "handshake (TLS 1.2 and 1.3) over an in-memory duplex connection with a wire tap: SSLRequest alone / byte by "
                        "byte / with plaintext stuffed in the same segment / plaintext instead of a ClientHello, then a random "
                        "session inside TLS (auth, simple and extended query, COPY, CancelRequest, second SSLRequest, truncated "
                        "input); compared with the model on plaintext output and callback trace; the tap oracle checks that after "
                        "the 'S' every raw byte from the server is a TLS record and that no protocol plaintext is visible. The tap oracle also rejects a deadline left armed on a connection that stays open; FITS/BIG/AFTER probes check the configured limit inside the TLS session.",
             level_note="Partial: confidentiality and the TLS handshake are crypto/tls (Go standard library), trusted, not modelled; "
                        "the theorem's 'inside TLS' is the model's separation of the two streams, tied to the code by the tap oracle "
                        "and the differential campaign. The fate of a connection whose client stuffs plaintext (handshake failure "
                        "or not depends on segmentation and on the reader's buffer size) is not compared.",
             technique="Lean 4 proof (stream separation and plaintext equivalence by unfolding) + differential correspondence over real TLS with a wire tap"),
    "C05": P("Pw.Props.C05",
             ["Pw.Props.C05.runProg_facts", "Pw.Props.C05.C05_rows_delivered", "Pw.Props.C05.C05_written",
              "Pw.Props.C05.C05_after_completion_silent", "Pw.Props.C05.C05_one_complete", "Pw.Props.C05.C05_handler_no_ready",
              "Pw.Props.C05.C05_bad_row_silent", "Pw.Props.C05.C05_cycle", "Pw.Props.C05.C05_blank_no_parse",
              "Pw.Props.C05.C05_error_stops"],
             [("simple", 3000, 250000)], ["Consts", "Writer", "Session", "Row"],
             design_ref="§7 C05",
             level_text="Lean theorems, by induction over ALL handler programs (interaction trees, adaptive ones included): DataRows "
                        "emitted = Row calls that returned success; every Written() answer = rows delivered so far; wrong-arity, "
                        "unencodable and post-completion rows emit nothing and are not counted; at most one CommandComplete; after "
                        "completion nothing at all is emitted; a statement function can never emit ReadyForQuery; and for every query "
                        "text, parser result and program, an answered simple Query contains exactly one ReadyForQuery, last in the cycle "
                        "(C05_cycle); a blank query is answered without consulting the parser; an error return stops the statement loop. "
                        "Tie: differential campaign of multi-statement queries with writer programs (good/bad/unencodable rows, Empty, "
                        "Complete, calls after completion, Written probes, error returns, Unicode-blank queries); the oracle checks the "
                        "cycle grammar and the writer relations on the real transcript and on the results observed inside the real "
                        "statement functions. Script-level oracle on the real run: no statement of a query runs after an earlier one returned an error; a row with the wrong number of values is refused; a blank query is answered EmptyQueryResponse+ReadyForQuery without consulting the parser (parser calls = non-blank queries).",
             level_note="Trusted: Lean kernel; strings.TrimSpace (Unicode White_Space over UTF-8) is modelled; harness scripted handlers.",
             technique="Lean 4 proof (structural induction on handler programs and statement lists) + differential correspondence"),
    "C06": P("Pw.Props.C06Refine",
             ["Pw.Props.C06.C06_skip", "Pw.Props.C06.C06_sync", "Pw.Props.C06.C06_error_one", "Pw.Props.C06.C06_bind_unknown",
              "Pw.Props.C06.C06_execute_unknown", "Pw.Props.C06.C06_parse_reply", "Pw.Props.C06.C06_flush",
              "Pw.Props.C06.C06_execute_no_ready",
              "Pw.C06_refines", "Pw.C06_history", "Pw.C06_terminate_refines", "Pw.runProg_shape", "Pw.runStatements_shape",
              "Pw.simpleShape_ok", "Pw.executeShape_plain", "Pw.executeShape_err", "Pw.Rel_init"],
             [("ext", 3000, 250000), ("multi", 400, 12000)], ["Consts", "Session"],
             design_ref="§7 C06",
             level_text="REFINEMENT: Lean theorem C06_refines - every message the command loop of the model handles and survives is a "
                        "step of the reference machine ExtSpec (Spec/Ext.lean: designated reply per message type, Z only for Sync and "
                        "at the end of a simple-query cycle, one E then silence until Sync, unknown names are errors, nothing for Flush "
                        "and stray COPY messages), for every handler set, session state and message, with the abstraction relation "
                        "(names defined, skipping) re-established; C06_history lifts it to whole histories by induction (the output is "
                        "the concatenation of one accepted reply group per message, in request order); runProg_shape / "
                        "runStatements_shape: a statement function adds only DataRow/CommandComplete/CopyInResponse, a simple-query "
                        "cycle is (T? D* C? G?)* E? Z, for every handler program. The SAME machine is the oracle replayed over the real "
                        "server's per-message reply groups, so model and implementation are held to one specification. Plus the "
                        "per-handler theorems: while discarding, every message "
                        "except Sync/Terminate changes nothing at all (no reply, no callback); Sync emits exactly one ReadyForQuery and "
                        "ends discarding; a failing message emits exactly one ErrorResponse, no ReadyForQuery, and starts discarding; Bind "
                        "to an unknown statement and Execute of an unknown portal are such errors; Parse answers ParseComplete or fails; "
                        "Flush and stray COPY messages answer nothing; Execute never emits ReadyForQuery whatever the statement function "
                        "does (via the C05 invariant over all programs). Tie: differential campaign of histories (<= 25 messages, 3 names, "
                        "failing parsers/handlers, unknown names, oversized/unknown messages) delivered ONE MESSAGE PER SEGMENT; the "
                        "oracle replays the history through the ExtSpec reference machine using the replies the real server wrote while "
                        "exactly that message had been delivered (so a reply held back until later input is a violation) and the "
                        "callbacks it ran then.",
             level_note="Trusted: Lean kernel; harness transport's delivered-byte stamps; ExtSpec (Pw/Spec/Ext.lean, ~100 lines) is the "
                        "reading of the property, incl. DESIGN §7 readings (oversized: E, plus Z only for Query; unknown type: E Z). The "
                        "ReadyForQuery-count statement is proved per message, not yet lifted to whole histories.",
             technique="Lean 4 proof (case analysis of handlers + C05 induction) + differential correspondence with reference-machine oracle"),
    "C07": P("Pw.Props.C07",
             ["Pw.Props.C07.C07_store_refines", "Pw.Props.C07.C07_remove_refines", "Pw.Props.C07.lookup_store_same",
              "Pw.Props.C07.lookup_store_other", "Pw.Props.C07.lookup_remove_same", "Pw.Props.C07.lookup_remove_other",
              "Pw.Props.C07.C07_parse", "Pw.Props.C07.C07_bind", "Pw.Props.C07.C07_execute"],
             [("names", 3000, 200000), ("bind", 600, 20000)], ["Startup", "Session"],
             design_ref="§7 C07",
             level_text="Lean theorems: the statement and portal maps refine partial functions name -> definition (store replaces exactly "
                        "that name, remove makes exactly that name unresolvable, all other names untouched - for all maps and names, the "
                        "empty name included); Parse never touches a portal; Bind snapshots the statement VALUE currently stored under the "
                        "name together with this Bind's parameters and result formats and leaves all other portals alone; Execute runs "
                        "exactly the bound statement with the bound parameters. Per-connection isolation holds by construction of the "
                        "model (the maps are components of one connection's state) and is tied to the code by the pinned serve() phase "
                        "order (srv.Statements()/srv.Portals() per connection) and by C15's concurrent campaign. Tie: differential "
                        "campaign of histories (<= 33 ops over names {'', a, b}); the generator keeps its own abstract maps (NameSpec) "
                        "and the oracle compares which statement function actually ran with which parameters, and every Describe reply.",
             level_note="Trusted: Lean kernel; custom StatementCache/PortalCache implementations are out of scope (default caches only).",
             technique="Lean 4 proof (association-list refinement + handler case analysis) + differential correspondence with NameSpec oracle"),
    "C13": P("Pw.Props.C13",
             ["Pw.Props.C13.C13_skip_flush_sync", "Pw.Props.C13.C13_data", "Pw.Props.C13.C13_done", "Pw.Props.C13.C13_fail",
              "Pw.Props.C13.C13_foreign", "Pw.Props.C13.C13_copyin_response", "Pw.Props.C13.C13_handler_emits_no_error",
              "Pw.Props.C13.C13_one_cycle"],
             [("copy", 3000, 200000), ("bincopy", 1000, 40000)], ["Consts", "Session", "Row"],
             design_ref="§7 C13",
             level_text="Lean theorems: in COPY mode any run of Flush/Sync messages is skipped, a CopyData payload reaches the handler "
                        "byte-exact and only that message is consumed, CopyDone is end-of-stream, CopyFail and every other message type "
                        "are a non-nil non-EOF error; the COPY reader is a function of the input only (it cannot write: by type); "
                        "CopyInResponse announces the requested format for each declared column; no handler program - COPY reads "
                        "included - can emit an ErrorResponse or ReadyForQuery, and every answered simple-query cycle (aborted COPY or not) "
                        "contains at most one ErrorResponse and exactly one ReadyForQuery (C13_one_cycle, via the C05 invariant over all "
                        "programs). Stray COPY messages outside COPY mode: C06_flush. Tie: differential campaign (CopyData/CopyDone/"
                        "CopyFail/Flush/Sync/foreign/oversized during COPY, handlers that stop early or return the error, stray COPY "
                        "messages afterwards); the oracle compares the reads the real handler observed and the reply notation with a "
                        "simulation done by the generator. The bincopy campaign covers the binary reader's end-of-stream handling (empty and shorter-than-signature streams); Terminate and Query are among the foreign messages.",
             level_note="Trusted: Lean kernel; harness. Extended-protocol COPY (Execute) shares the same reader; its cycle end is Sync.",
             technique="Lean 4 proof (induction on the message list / handler programs) + differential correspondence with expectation oracle"),
    "C14": P("Pw.Props.C14RoundTrip",
             ["Pw.Props.C14.fill_spec", "Pw.Props.C14.fill_rel", "Pw.Props.C14.take_sim", "Pw.Props.C14.takeLength_sim",
              "Pw.Props.C14.fields_sim", "Pw.Props.C14.row_sim", "Pw.Props.C14.skipHeader_sim", "Pw.Props.C14.first_sim",
              "Pw.Props.C14.later_sim", "Pw.Props.C14.C14_chunking", "Pw.Props.C14.C14_count_mismatch",
              "Pw.Props.C14.C14_truncated_count", "Pw.Props.C14.C14_roundtrip", "Pw.Props.C14.fFields_roundtrip"],
             [("bincopy", 3000, 200000)], ["Consts"],
             group_oracle=seg_group_oracle,
             design_ref="§7 C14",
             level_text="Lean theorems (refinement): for EVERY way of cutting the COPY stream into CopyData messages, the row reader "
                        "(fill/take/takeLength/skipHeader/field loop/Read, which pull messages on demand) returns exactly what a decoder "
                        "working on the CONCATENATED stream returns - the optional header incl. its extension area, each row, NULL "
                        "fields, end-of-data at a row boundary or at the -1 trailer, and the errors (field count differs from the "
                        "declared columns, truncated header/field, over-long length, data after the trailer); hence two chunkings of the "
                        "same bytes give the same Read results (C14_chunking). The decoder is total: no panic outcome exists. Proof by "
                        "induction over the chunk list (fill) and the column list (fields) with the simulation relation 'pending ++ "
                        "remaining payloads = remaining stream'. Tie: differential campaign of table shapes/row sets over "
                        "int2/4/8,text,bytea,bool,uuid, header/trailer optional, 5 chunkings per stream (single, 1-byte, random, per "
                        "row, cuts inside signature/length words/values), corruptions; oracles: rows returned by the real reader = rows "
                        "encoded, and identical results across the chunkings of a stream. Oracle expectations for damaged streams: a lying field count yields exactly the rows before it and then an error; a truncated stream never yields a row the client did not encode; a stream cut inside a row is never reported as complete. Column types include a user-registered type (ExtendTypes).",
             level_note="Trusted: Lean kernel; pgx binary decoders (DecodeValue) are modelled (Codec.lean), tied by the campaign. The "
                        "reassembling reader is the repaired code (fix: commit 'decode binary COPY rows independently of CopyData "
                        "boundaries').",
             technique="Lean 4 proof (simulation/refinement to a flat-stream decoder, induction on chunk and column lists) + differential correspondence"),
    "C01": P("Pw.Props.C01",
             ["Pw.Props.C01.C01_only_if", "Pw.Props.C01.C01_gate", "Pw.Props.C01.C01_class28", "Pw.Props.C01.C01_no_session"],
             [("auth", 3000, 200000)], ["Startup", "Consts"],
             design_ref="§7 C01",
             level_text="Lean theorems for every configuration, handler set, startup packet and continuation: with an authentication "
                        "strategy configured the connection gets past authentication ONLY IF the first message is a well-formed password "
                        "message whose content the validator accepts (C01_only_if); in every other case (validator false or failing, "
                        "other message type, malformed/oversized message, nothing more) the exchange has written nothing but the password "
                        "request and at most one ErrorResponse (SQLSTATE 28P01 for a wrong password), no AuthenticationOk / "
                        "ParameterStatus / ReadyForQuery, has run nothing but the validator, and ends the connection (or waits for the "
                        "missing bytes) (C01_gate); the connection's whole result is then that of the authentication exchange, whatever "
                        "bytes follow (C01_no_session). Tie: pinned serve() phase order and handleAuth call shape; differential campaign "
                        "(accept/reject/fail x message kinds in place of the password x pipelined continuations); the oracle recomputes "
                        "acceptance from the input and checks the real output, callbacks and connection fate.",
             level_note="Trusted: Lean kernel; the scripted validator decides by password content; custom AuthStrategy implementations other "
                        "than ClearTextPassword are out of scope.",
             technique="Lean 4 proof (exhaustive case analysis of the authentication phase) + differential correspondence"),
    "C12": P("Pw.Props.C12",
             ["Pw.Props.C12.C12_client_params", "Pw.Props.C12.C12_missing_terminator", "Pw.Props.C12.C12_param_values",
              "Pw.Props.C12.C12_params_present", "Pw.Props.C12.C12_cancel", "Pw.Props.C12.C12_cancel_after_N"],
             [("startup", 3000, 200000), ("multi", 400, 20000), ("tls", 600, 30000), ("auth", 600, 20000)], ["Startup", "Consts", "Shared"],
             design_ref="§7 C12",
             level_text="Lean theorems: for every list of startup key/value pairs (duplicates, empty values) the handlers' client "
                        "parameters are exactly the pairs sent, last value winning, bytes after the terminator ignored; a packet without "
                        "terminator reaches no callback; every ParameterStatus carries the prescribed value (UTF8 for both encodings "
                        "whatever is configured, off, the connecting user, the configured version) or comes unchanged from the configured "
                        "map, and the fixed ones are always present; a CancelRequest as first packet or after a refused SSL negotiation "
                        "closes the connection with no reply (other than 'N') and no callback. The shared configured map is an INPUT of "
                        "the model (never part of its result): non-mutation is tied to the code by the pinned writeParameters body "
                        "(maps.Clone before the stores), the pinned list of Server-field writes, and checked at run time (user's map "
                        "compared before/after). Tie: differential campaign (startup shapes, cancel stages, configured maps/versions) "
                        "with the oracle reading the parameters inside real callbacks and on the wire, plus a multi-connection campaign "
                        "(2-4 users on one server, phased and concurrent) checking that no connection sees another one's values. Also: overlapping clear-text authentications (the validator must be asked about THIS connection's user and database), exactly one AuthenticationOk, Cancel inside TLS.",
             level_note="Trusted: Lean kernel; Go map semantics (iteration order canonicalised by sorting ParameterStatus runs); harness.",
             technique="Lean 4 proof (induction on the pair list, membership reasoning on the parameter map) + differential correspondence"),
    "C19": P("Pw.Props.C19",
             ["Pw.Props.C19.C19_chain", "Pw.Props.C19.C19_failure_ends", "Pw.Props.C19.C19_terminate", "Pw.Props.C19.mwEvents_succ"],
             [("lifecycle", 3000, 150000), ("multi", 300, 10000), ("auth", 600, 20000)], ["Startup", "Session"],
             design_ref="§7 C19",
             level_text="Lean theorems: for ANY number of registered middlewares they run once each, in registration order, up to and "
                        "including the first failing one, write nothing, and the chain succeeds exactly when none fails (induction on the "
                        "chain); a middleware failure ends the connection with no ReadyForQuery and no parser/statement callback whatever "
                        "is pipelined; Terminate runs the hook exactly once (when configured), closes the connection and stops the command "
                        "loop. Context PROPAGATION (each middleware receiving its predecessor's context, callbacks receiving the resulting "
                        "context with client/server parameters, remote address, type map; per-command cancellation) is a property of Go's "
                        "context values that the model does not represent: it is decided by the campaign oracle, which inspects the "
                        "context inside the real callbacks (markers of every middleware, parameter maps, address, type map, alive during "
                        "the call, cancelled after the command). Tie: pinned serve() phase order; differential campaign over chains of "
                        "0..6 middlewares with a failure at any position, with/without terminate hook, command histories.",
             level_note="partial: context propagation and cancellation are checked on generated cases, not proved (runtime behaviour of "
                        "context.Context). Trusted: Lean kernel; harness.",
             technique="Lean 4 proof (induction on the middleware chain) + differential correspondence with context-inspecting oracle"),
    "C15": P("Pw.Props.C15",
             ["Pw.Props.C15.loop_eq_iterate", "Pw.Props.C15.C15_noninterference", "Pw.Props.C15.C15_solo_equivalence"],
             [("multi", 600, 30000)], ["Shared", "Startup"], race=True,
             design_ref="§7 C15",
             level_text="Lean theorem (noninterference): the connection model takes configuration and handlers as values and owns "
                        "everything it mutates, so a server with N connections is a product of N machines; for ANY N and ANY "
                        "interleaving of their steps, connection i's state (transcript, callback trace, name maps, fate) equals what i "
                        "reaches served alone (C15_noninterference, induction on the schedule; C15_solo_equivalence links it to the "
                        "command loop). That the Go code has this shape - no unsynchronised shared write - is tied by pinned facts "
                        "(no Server-field writes outside construction, per-connection pgtype.NewMap in serve(), maps.Clone in "
                        "writeParameters, caches created per connection) and by the campaign: 2-4 concurrent sessions (overlapping "
                        "statement/portal names, different users and row values, phased and freely concurrent with random pacing) on a "
                        "harness BUILT WITH -race; every connection's real transcript and trace must equal the solo model run, and any "
                        "race report (halt_on_error) is a violation with the session set as replay. Solo oracle on the real code: after the concurrent run every connection's traffic is served again alone by a fresh server of the same configuration and transcript and callback trace are compared (solo=).",
             level_note="partial: the Go memory model is not formalised; freedom from data races in the real code (incl. pgx) is observed "
                        "by the race detector on generated schedules, not proved. Trusted: Lean kernel; harness.",
             technique="Lean 4 proof (noninterference of a product system, induction on schedules) + differential correspondence under the race detector"),
    "C16": P("Pw.Props.C16Fine",
             ["Pw.ConcF.inv_init", "Pw.ConcF.inv_step", "Pw.ConcF.inv_run", "Pw.ConcF.F_no_double_close", "Pw.ConcF.F_mutex",
              "Pw.ConcF.F_waits", "Pw.ConcF.F_final", "Pw.ConcF.F_no_deadlock", "Pw.ConcF.returned_mono",
              "Pw.Props.C16.inv_init", "Pw.Props.C16.inv_step", "Pw.Props.C16.inv_run", "Pw.Props.C16.C16_no_double_close",
              "Pw.Props.C16.C16_waits", "Pw.Props.C16.C16_final", "Pw.Props.C16.closing_mono", "Pw.Props.C16.C16_no_deadlock"],
             [("close", 500, 40000)], ["Close"],
             design_ref="§7 C16",
             level_text="Lean theorems about TWO thread models of Server.Close / Server.admit / the Serve helper goroutine, for ANY number "
                        "of closers and commands and ANY schedule. Fine-grained (Model/ConcF.lean): every synchronisation operation "
                        "- mu.Lock, closing.Load, closing.Store, close(closer), mu.Unlock, wg.Add, wg.Wait, wg.Done - is its own step "
                        "and the mutex is explicit; inductive invariant (one thread at most between Lock and Unlock; chan closes + "
                        "closers between Store and close = [closing]; wg = admitted unfinished commands + [helper pending]; what a "
                        "thread read under the lock is still true while it holds it; once a Close returned no command is counted): "
                        "the channel is closed at most once (F_no_double_close), Close returns only when no admitted command is "
                        "unfinished (F_waits), after any Close has returned no command is admitted or running again under EVERY "
                        "continuation, whatever operation of admit other goroutines were in (F_final), and some thread can always "
                        "step while a Close is pending (F_no_deadlock). Coarse (Model/Conc.lean, one atomic step per critical "
                        "section - the abstraction the forced schedules replay) with the same guarantees (inductive invariant: chan closes = [closing], wg = running handlers + "
                        "[helper pending], every closer past its critical section implies closing): the closer channel is closed at most "
                        "once (no double-close panic); a Close call can return only when no admitted handler is running and the listener "
                        "has been closed; once any Close has returned every later admission is refused (closing is monotone); and while "
                        "some Close has not returned some thread can always step (no deadlock). Tie: pinned bodies of Close and admit and the pinned call "
                        "order of consumeSingleCommand/Serve; forced-schedule replay through the verif hooks: generated schedules "
                        "(1-3 concurrent Close calls x commands on 1-2 connections incl. failing extended batches) are executed on the "
                        "real server by parking goroutines at the hook points, including inside admit right after the closing check while "
                        "a Close arrives and tries to return (wP/wG/cT); per-step outcomes (admitted/refused/returned) are compared "
                        "with the model and the properties are checked directly with a logical clock (handler start vs Close return, "
                        "Close return vs running handlers, hangs, Serve() == nil).",
             level_note="partial: sync.Mutex, sync.WaitGroup, channels and the Go scheduler are trusted; 'Serve returns nil' is observed, "
                        "not proved. Trusted: Lean kernel; hooks (build tag verif) add schedule points only.",
             technique="Lean 4 proof (inductive invariant over an interleaving thread model) + forced-schedule correspondence through build-tag hooks"),
    "C18": P("Pw.Props.C18",
             ["Pw.Props.C18.inv_init", "Pw.Props.C18.inv_reset", "Pw.Props.C18.inv_take", "Pw.Props.C18.inv_run",
              "Pw.Props.C18.C18_write_disjoint", "Pw.Props.C18.C18_never_overwritten", "Pw.Props.C18.C18_alloc_bound"],
             [("heap", 2000, 200000), ("retain", 2000, 150000), ("names", 600, 20000), ("multi", 400, 12000)], ["Reader", "Accessors"],
             design_ref="§7 C18",
             level_text="Lean theorems about a heap model of reader.Msg (arenas, window = (arena, offset, len, cap), reset as in "
                        "reader.go): for EVERY history of message reads (any sizes: around the 4 KiB granule, chunks of skipped oversized "
                        "messages, COPY data) and accessor calls, every zero-copy view handed out is disjoint from the memory written by "
                        "every later read (C18_never_overwritten; inductive invariant: views lie in allocated arenas and, in the current "
                        "arena, below the end of the current window) and reset never asks for more than max(size, 4096) bytes. Tie: "
                        "pinned body of reset and of the accessors; the real buffer.Reader's (arena, len, cap) after every operation is "
                        "compared with the model (arena identity from the slice's end address), views returned by GetBytes are "
                        "re-checked; end to end, scripted callbacks RETAIN query texts, parameter values, passwords, user names and COPY "
                        "payloads and compare them with private copies after later traffic incl. oversized (non-multiple-of-limit) "
                        "messages, failed batches and COPY. The multi campaign adds a connection that is closed before the others start (its retained data must survive their traffic) and the names campaign parameter values held by portals.",
             level_note="Trusted: Lean kernel; Go slice/allocator semantics (a window never outlives its arena while referenced); the "
                        "unsafe string view of GetString is the same memory as the byte view modelled here.",
             technique="Lean 4 proof (inductive invariant over a heap model) + differential correspondence on the real reader's layout"),
}


# ---- tie theorems: pkg/buffer translated from the source on every run (go/translate -> Pw/Generated/Trans.lean)
# and proved equal to the definitions the model uses in its place (DESIGN §4.3).
_T = "Pw.Tie."
TIE_ACCESSORS = [_T + n for n in ("tie_GetBytes", "tie_GetUint16", "tie_GetUint32", "tie_GetString", "tie_GetPrepareType")]
TIE_LAYOUT = [_T + n for n in ("tie_reset", "resetSpec_heap", "resetSpec_frame", "adv_heap")]
TIE_READ = [_T + n for n in ("tie_ReadType", "tie_ReadMsgSize_full", "tie_ReadMsgSize_short", "ioReadFullSl_enough", "ioReadFullSl_short")]
TIE_FRAMING = [_T + n for n in ("tie_ReadUntypedMsg_ok", "tie_ReadUntypedMsg_big", "tie_ReadTypedMsg_msg")]
TIE_WRITER = [_T + n for n in ("tie_Writer_Reset", "tie_Writer_Start", "tie_Writer_AddByte", "tie_Writer_AddNullTerminate",
                               "tie_Writer_AddBytes", "tie_Writer_AddString", "tie_Writer_AddInt16", "tie_Writer_AddInt32",
                               "tie_Writer_End_err", "tie_Writer_End_ok", "putbuf_init")]
PROPS["C02"].update(tie=["TieWriter"], tie_theorems=TIE_WRITER)
PROPS["C03"].update(tie=["Tie", "TieFraming"], tie_theorems=TIE_ACCESSORS + TIE_READ + TIE_FRAMING)
PROPS["C04"].update(tie=["Tie", "TieFraming", "TieWriter"], tie_theorems=TIE_ACCESSORS + TIE_LAYOUT + TIE_READ + TIE_FRAMING + TIE_WRITER)
PROPS["C05"].update(tie=["TieWriter"], tie_theorems=TIE_WRITER)
PROPS["C09"].update(tie=["TieWriter"], tie_theorems=TIE_WRITER)
PROPS["C10"].update(tie=["Tie", "TieFraming"], tie_theorems=TIE_READ + TIE_FRAMING)
PROPS["C18"].update(tie=["Tie"], tie_theorems=TIE_ACCESSORS + TIE_LAYOUT)


def _addcamp(pid, camp, nq, nt):
    if camp not in [c[0] for c in PROPS[pid]["campaigns"]]:
        PROPS[pid]["campaigns"].append((camp, nq, nt))


# wave 4: names, parameter values and client parameters are zero-copy views into the reader's memory, so the
# properties about them depend on the reader never writing a handed-out window again (tie: layout theorems;
# campaign: `retain`, histories that cross the 4 KiB granules and carry message bodies above 4 KiB)
for _p in ("C03", "C06", "C07", "C08", "C12"):
    _addcamp(_p, "retain", 500, 30000)
for _p in ("C06", "C07", "C08", "C12"):
    PROPS[_p].update(tie=["Tie"], tie_theorems=TIE_ACCESSORS + TIE_LAYOUT)
PROPS["C01"].update(tie=["Tie", "TieFraming"], tie_theorems=[_T + "tie_GetString"] + TIE_READ + TIE_FRAMING)
PROPS["C17"].update(tie=["TieWriter"], tie_theorems=TIE_WRITER)
# an oversized message must be skipped and answered whatever the state of a server shutdown (forced schedules)
_addcamp("C10", "close", 200, 6000)
# wave 5: a connection's verdict must be its own even while another login of the same role is still being
# validated (multi variant `hold`: a held validator, overlapping logins with right and wrong passwords)
_addcamp("C01", "multi", 500, 15000)

# ---- session 5: copy.go translated (Pw/Generated/TransCopy.lean over Pw/Go/RtCopy.lean) and tied to the model's COPY
# readers (Props/TieCopy.lean); Slurp's loop and the remaining cases of ReadTypedMsg tied to readItem (Props/TieSlurp.lean)
TIE_COPYREAD = [_T + n for n in ("tie_CopyRead_fuel0", "tie_CopyRead_data", "tie_CopyRead_done", "tie_CopyRead_skip",
                                 "tie_CopyRead_fail", "tie_CopyRead_other", "tie_CopyRead_exceeded", "tie_CopyRead_err",
                                 "tie_CopyRead_nonok", "readTyped_msg", "tie_CopyRead_msg", "tie_CopyRead_msg_skip")]
TIE_BINCOPY = [_T + n for n in ("tie_fill_enough", "tie_fill_done", "tie_fill_step_data", "tie_fill_step_eof",
                                "tie_fill_step_err", "tie_fill_step_block", "fill_post", "tie_take_ok", "tie_take_eof",
                                "tie_take_err", "tie_take_block", "take_no_panic", "tie_takeLength_err", "tie_takeLength_block",
                                "absErr_lengthExceeds", "lengthFmt_eq", "tie_skipHeader_err", "tie_skipHeader_noSig",
                                "hasPrefix_model")]
TIE_SLURP = [_T + n for n in ("tie_Slurp", "tie_Slurp_full", "tie_Slurp_short", "tie_Slurp_nonpos", "tie_Slurp_total",
                              "slurp_zero_limit_spins", "tie_ReadTypedMsg_big", "tie_big_then_Slurp",
                              "tie_ReadUntypedMsg_shorthdr", "tie_ReadUntypedMsg_shortbody", "tie_ReadTypedMsg_short",
                              "tie_ReadTypedMsg_fine", "tie_ReadTypedMsg_total", "tie_ReadTypedMsg_keeps_ok")]


def _addtie(pid, mods, thms):
    p = PROPS[pid]
    p["tie"] = list(p.get("tie", [])) + [m for m in mods if m not in p.get("tie", [])]
    p["tie_theorems"] = list(p.get("tie_theorems", [])) + [t for t in thms if t not in p.get("tie_theorems", [])]


_addtie("C13", ["TieCopy"], TIE_COPYREAD)
_addtie("C14", ["TieCopy"], TIE_COPYREAD + TIE_BINCOPY)
_addtie("C04", ["TieCopy", "TieSlurp"], TIE_COPYREAD + TIE_BINCOPY + TIE_SLURP)
_addtie("C10", ["TieCopy", "TieSlurp"], [_T + "tie_CopyRead_exceeded", _T + "absErr_lengthExceeds", _T + "lengthFmt_eq"] + TIE_SLURP)
_addtie("C03", ["TieSlurp"], TIE_SLURP)
# wave 5 (continued): a transient write fault must not leave partial bytes in front of the next message (C02);
# what a connection makes of its bytes must not depend on what other connections read in between (C03);
# an oversized CopyData inside a binary COPY (C14: the `copy` campaign places one in every position)
_addcamp("C02", "wfonce", 300, 6000)
_addcamp("C03", "multi", 300, 10000)
_addcamp("C14", "copy", 800, 30000)
# names of one connection are never visible to another (C07): overlapping connections that prepare the same name
_addcamp("C07", "multi", 500, 20000)
# a `$n` placeholder chosen by the client bounds what ParseParameters allocates (C04): direct calls, every magnitude
_addcamp("C04", "params", 1200, 60000)

# ---- session 5 (continued): the ErrorResponse builder of error.go (writeErrorResponse, ErrorCode, readyForQuery) translated on
# every run (Pw/Generated/TransError.lean over Pw/Go/RtError.lean) and proved to send exactly the model's ErrorResponse
TIE_ERROR = [_T + n for n in ("error_untranslatable_nil", "error_struct_layout", "tie_writeErrorResponse_frame",
                              "tie_writeErrorResponse", "tie_writeErrorResponse_sent", "tie_writeErrorResponse_sent_counted",
                              "tie_writeErrorResponse_writeFails", "tie_writeErrorResponse_noPanic",
                              "tie_writeErrorResponse_latch", "tie_writeErrorResponse_model", "tie_readyForQuery",
                              "tie_ErrorCode", "tie_ErrorCode_sent", "tie_ErrorCode_writeFails", "tie_ErrorCode_readyFails")]
_addtie("C17", ["TieError"], TIE_ERROR)
_addtie("C02", ["TieError"], TIE_ERROR)
_addtie("C05", ["TieError"], [_T + n for n in ("tie_readyForQuery", "tie_ErrorCode", "tie_ErrorCode_sent",
                                                "tie_ErrorCode_writeFails", "tie_ErrorCode_readyFails")])
_addtie("C04", ["TieError"], [_T + "tie_writeErrorResponse_noPanic"])

# ---- session 5 (continued): the translated binary COPY reader end to end against the model (Props/TieCopy2.lean):
# takeLength, skipHeader with a signature, fill / take over a stream of complete messages (simulation relation c2_Sim),
# BinaryCopyReader.Read against binRead
TIE_BINCOPY2 = [_T + n for n in (
    "tie_takeLength_ok", "tie_takeLength_ok_abs", "tie_skipHeader_flags_err", "tie_skipHeader_flags_block",
    "tie_skipHeader_extlen_err", "tie_skipHeader_extlen_block", "tie_skipHeader_ext_null", "tie_skipHeader_ext",
    "tie_skipHeader_ext_cases", "tie_binRead_ctx", "tie_binRead_started", "tie_binRead_fresh", "tie_rowPart_eof",
    "tie_rowPart_err", "tie_rowPart_block", "tie_rowPart_body", "tie_rowBody_take_err", "tie_rowBody_take_block",
    "tie_rowBody_trailer", "absErr_fieldCount", "tie_rowBody_count_mismatch", "tie_rowBody_fields", "absErr_wrap",
    "tie_fieldLoop_done", "tie_fieldLoop_len_err", "tie_fieldLoop_len_block", "tie_fieldLoop_null",
    "tie_fieldLoop_null_noscan", "tie_fieldLoop_value_err", "tie_fieldLoop_value", "tie_fill_stream", "tie_take_stream",
    "tie_fill_sim", "tie_take_sim", "tie_takeLength_sim", "tie_headerRest_sim", "tie_skipHeader_sim", "tie_fields_sim",
    "tie_rowBody_sim", "tie_rowStart_sim", "tie_binRead_sim")]
_addtie("C14", ["TieCopy2"], TIE_BINCOPY2)
_addtie("C13", ["TieCopy2"], [_T + "tie_fill_stream", _T + "tie_take_stream", _T + "tie_binRead_sim"])
_addtie("C04", ["TieCopy2"], [_T + "tie_binRead_sim", _T + "tie_fill_sim", _T + "tie_take_sim"])

# ---- session 5 (continued): the result writer (writer.go, row.go) and the statement / portal caches (cache.go) translated on
# every run (-writer -> TransWriter.lean over RtWriter.lean; -cache -> TransCache.lean over RtCache.lean)
TIE_DATAWRITER = [_T + n for n in (
    "dw_untranslatable_nil", "dw_struct_layout", "dw_ErrClosedWriter", "dw_ErrDataWritten", "dw_send_model", "dw_tie_Written",
    "dw_tie_Empty", "dw_tie_Empty_model", "dw_Empty_fresh", "dw_tie_commandComplete", "dw_tie_Complete_closed",
    "dw_tie_Complete", "dw_tie_Complete_closes", "dw_tie_Complete_model", "dw_tie_Row_closed", "dw_tie_Row_arity",
    "dw_keeps_Columns_Write", "dw_tie_Row_open", "dw_tie_Row_counter", "dw_tie_after_Complete", "dw_tie_Empty_after_rows")]
TIE_CACHE = [_T + n for n in (
    "cache_untranslatable_nil", "cache_struct_layout", "ca_mapGet_lookup", "ca_mapSet_store", "ca_mapSet_nil",
    "ca_mapDelete_remove", "tie_ca_StatementCache_Set", "tie_ca_StatementCache_Set_nil", "tie_ca_StatementCache_Get",
    "tie_ca_StatementCache_Get_shared", "tie_ca_StatementCache_Close", "tie_ca_StatementCache_held",
    "tie_ca_Set_refines_store", "tie_ca_Close_refines_remove", "tie_ca_Get_refines_lookup", "tie_ca_Get_fresh_cache",
    "tie_ca_Set_Get_same", "tie_ca_Set_Get_other", "tie_ca_Set_fresh", "tie_ca_Close_Get", "tie_ca_PortalCache_Bind",
    "tie_ca_PortalCache_Get", "tie_ca_PortalCache_Close", "tie_ca_Bind_refines_store", "tie_ca_PortalClose_refines_remove",
    "tie_ca_PortalGet_fresh_cache", "tie_ca_PortalClose_Get", "tie_ca_Bind_snapshot", "tie_ca_Set_keeps_portals",
    "tie_ca_StmtClose_keeps_portals", "tie_ca_Execute_unknown", "tie_ca_Execute_known", "tie_ca_Execute_nil_statement",
    "tie_ca_Execute_total", "tie_cache_locks_released", "tie_cache_no_panic", "tie_ca_Set_refines_model",
    "tie_ca_Close_refines_model", "tie_ca_Get_refines_model")]
_addtie("C05", ["TieDataWriter"], TIE_DATAWRITER)
_addtie("C02", ["TieDataWriter"], [_T + "dw_tie_commandComplete", _T + "dw_tie_Complete_model", _T + "dw_send_model"])
_addtie("C07", ["TieCache"], TIE_CACHE)
_addtie("C06", ["TieCache"], [_T + n for n in ("tie_ca_Execute_unknown", "tie_ca_Execute_known", "tie_ca_Execute_total",
                                                 "tie_ca_Get_fresh_cache", "tie_ca_PortalGet_fresh_cache")])
_addtie("C04", ["TieDataWriter", "TieCache"], [_T + "tie_cache_locks_released", _T + "tie_cache_no_panic", _T + "dw_tie_Row_counter"])

# ---- session 5 (continued): the start-up parsing of handshake.go (readVersion, readClientParameters) translated on every run
# (-startup -> TransStartup.lean over RtStartup.lean) and tied to the model's readClientParams / version constants
TIE_STARTUP = [_T + n for n in (
    "su_tie_VersionCancel", "su_tie_VersionSSLRequest", "su_mapSet_store", "su_mapGet_lookup", "su_scan_model", "su_scan_le",
    "su_tie_loop", "su_tie_readClientParameters", "su_tie_readClientParameters_model", "su_tie_readClientParameters_anyfuel",
    "su_readClientParameters_returns", "su_readClientParameters_error", "su_tie_readVersion", "su_tie_readVersion_value",
    "su_tie_readVersion_exceeded", "su_tie_readVersion_short")]
_addtie("C12", ["TieStartup"], TIE_STARTUP)
_addtie("C11", ["TieStartup"], [_T + "su_tie_readVersion_value", _T + "su_tie_VersionSSLRequest", _T + "su_tie_VersionCancel"])
_addtie("C04", ["TieStartup"], [_T + n for n in ("su_readClientParameters_returns", "su_tie_readVersion",
                                                   "su_tie_readVersion_exceeded", "su_tie_readVersion_short")])
# timestamp / date columns (outside the Lean model's ten types; `nomodel`): the wall clock written is the wall clock sent,
# in text and in binary format - expectation computed by the generator independently of the library (C09)
_addcamp("C09", "times", 400, 20000)
