import Pw.Driver

partial def loop (h : IO.FS.Stream) (out : IO.FS.Stream) : IO Unit := do
  let line ← h.getLine
  if line.isEmpty then return ()
  let line := (line.dropEndWhile (· == '\n')).toString
  if line.isEmpty ∨ line.startsWith "START " then
    loop h out
  else
    out.putStrLn (Pw.Driver.processLine line)
    loop h out

def main : IO Unit := do
  let stdin ← IO.getStdin
  let stdout ← IO.getStdout
  loop stdin stdout
