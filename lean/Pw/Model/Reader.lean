import Pw.Model.Bytes
/-
  Model of pkg/buffer/reader.go on a flat byte stream.

  `Item` is what one call of `ReadTypedMsg` (followed, for an oversized message, by `Slurp`)
  makes of the stream.  `deframe` cuts a whole stream into items using declared lengths only.
  The justification for working on the flat stream (instead of on read segments) is
  `Pw.Stream.readFull_flat` (Model/Stream.lean) together with the `readSites` fact.
-/
namespace Pw

/-- effective limit: `NewReader` replaces a non-positive size by `DefaultBufferSize` -/
def defaultBufferSize : Nat := 16777216

def effLimit (cfg : Int) : Nat := if cfg ≤ 0 then defaultBufferSize else cfg.toNat

inductive Item where
  /-- a complete message whose declared body size is within the limit -/
  | msg (t : UInt8) (body : Bytes)
  /-- declared size (after subtracting 4) is negative or above the limit.
      `full = true`: the declared body (if any) was present and has been skipped. -/
  | big (t : UInt8) (size : Int) (full : Bool)
  deriving Repr, DecidableEq, Inhabited

/-- `ReadUntypedMsg` header logic: `size := int(uint32) - 4`, rejected when
    `size > Max || size < 0`. Returns the verdict for a 4-byte header value. -/
inductive SizeVerdict where
  | ok (n : Nat)
  | exceeded (size : Int)
  deriving Repr, DecidableEq

def sizeVerdict (L : Nat) (declared : Nat) : SizeVerdict :=
  let size : Int := (declared : Int) - 4
  if size > (L : Int) ∨ size < 0 then .exceeded size else .ok size.toNat

/-- the part of `ReadTypedMsg` (+ `Slurp` when oversized) after the 5-byte header: `declared`
    is the header's length field, `r` the stream behind the header -/
def readBody (L : Nat) (t : UInt8) (declared : Nat) (r : Bytes) : Option (Item × Bytes) :=
  match sizeVerdict L declared with
  | .ok n => if r.length < n then none else some (.msg t (r.take n), r.drop n)
  | .exceeded size =>
    if size < 0 then some (.big t size true, r)
    else if r.length < size.toNat then some (.big t size false, [])
    else some (.big t size true, r.drop size.toNat)

/-- One `ReadTypedMsg` (+ `Slurp` when oversized) on a flat stream.
    `none`: the stream ends before the message (or its skipped body) is complete. -/
def readItem (L : Nat) (inp : Bytes) : Option (Item × Bytes) :=
  match inp with
  | [] => none
  | t :: r =>
    match rd32 r with
    | none => none
    | some (declared, r') => readBody L t declared r'

/-- every item consumes at least the 5 header bytes, so `inp.length` is enough fuel -/
def deframeAux (L : Nat) : Nat → Bytes → List Item
  | 0, _ => []
  | fuel + 1, inp =>
    match readItem L inp with
    | none => []
    | some (it, rest) => it :: deframeAux L fuel rest

def deframe (L : Nat) (inp : Bytes) : List Item := deframeAux L inp.length inp

/-- the bytes behind the last complete item (an incomplete message, possibly empty) -/
def leftoverAux (L : Nat) : Nat → Bytes → Bytes
  | 0, inp => inp
  | fuel + 1, inp =>
    match readItem L inp with
    | none => inp
    | some (_, rest) => leftoverAux L fuel rest

def leftover (L : Nat) (inp : Bytes) : Bytes := leftoverAux L inp.length inp

/-- client-side framing (used by specs and round-trip theorems) -/
def frame (t : UInt8) (body : Bytes) : Bytes := t :: be32 (body.length + 4) ++ body

/-! ### accessors on the current message (`reader.Msg`) -/

def getString (m : Bytes) : Option (Bytes × Bytes) := cstr m

def getBytes (n : Nat) (m : Bytes) : Option (Bytes × Bytes) :=
  if m.length < n then none else some (m.take n, m.drop n)

def getU16 (m : Bytes) : Option (Nat × Bytes) := rd16 m
def getU32 (m : Bytes) : Option (Nat × Bytes) := rd32 m

end Pw
