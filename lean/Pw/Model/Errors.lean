import Pw.Model.Bytes
/-
  Model of errors/*.go (decorators, Get* walks, Flatten) and of the error values the
  library itself constructs (command.go, pkg/buffer/error.go, writer.go, row.go, copy.go).
-/
namespace Pw

inductive Err where
  | base (text : Bytes)
  | code (c : Bytes) (e : Err)
  | sev (s : Bytes) (e : Err)
  | hint (h : Bytes) (e : Err)
  | detail (d : Bytes) (e : Err)
  | source (file : Bytes) (line : Int) (fn : Bytes) (e : Err)
  | constr (n : Bytes) (e : Err)
  /-- `fmt.Errorf(pre + "%w" + post, e)` -/
  | wrap (pre post : Bytes) (e : Err)
  deriving Repr, DecidableEq, Inhabited

namespace Err

/-- `err.Error()` -/
def text : Err → Bytes
  | base t => t
  | code _ e | sev _ e | hint _ e | detail _ e | source _ _ _ e | constr _ e => text e
  | wrap pre post e => pre ++ text e ++ post

/-- `errors.Unwrap` -/
def inner : Err → Option Err
  | base _ => none
  | code _ e | sev _ e | hint _ e | detail _ e | source _ _ _ e | constr _ e | wrap _ _ e => some e

def uncategorized : Bytes := ascii "XXUUU"

/-- `GetCode`: the outermost `withCode`; `combineCodes(inner, Uncategorized) = inner`. -/
def getCode : Err → Bytes
  | base _ => uncategorized
  | code c _ => c
  | sev _ e | hint _ e | detail _ e | source _ _ _ e | constr _ e | wrap _ _ e => getCode e

/-- `GetSeverity`: value of the outermost `withSeverity` node (possibly empty). -/
def getSev : Err → Bytes
  | base _ => []
  | sev s _ => s
  | code _ e | hint _ e | detail _ e | source _ _ _ e | constr _ e | wrap _ _ e => getSev e

def getHint : Err → Bytes
  | base _ => []
  | hint h _ => h
  | code _ e | sev _ e | detail _ e | source _ _ _ e | constr _ e | wrap _ _ e => getHint e

def getDetail : Err → Bytes
  | base _ => []
  | detail d _ => d
  | code _ e | sev _ e | hint _ e | source _ _ _ e | constr _ e | wrap _ _ e => getDetail e

def getConstr : Err → Bytes
  | base _ => []
  | constr n _ => n
  | code _ e | sev _ e | hint _ e | detail _ e | source _ _ _ e | wrap _ _ e => getConstr e

def getSource : Err → Option (Bytes × Int × Bytes)
  | base _ => none
  | source f l r _ => some (f, l, r)
  | code _ e | sev _ e | hint _ e | detail _ e | constr _ e | wrap _ _ e => getSource e

end Err

/-- `errors.Error` as produced by `Flatten` -/
structure Flat where
  code : Bytes
  message : Bytes
  detail : Bytes
  hint : Bytes
  severity : Bytes
  constr : Bytes
  source : Option (Bytes × Int × Bytes)
  deriving Repr, DecidableEq

def levelError : Bytes := ascii "ERROR"
def levelFatal : Bytes := ascii "FATAL"

/-- `Flatten(err)`; `none` is Go's nil error. -/
def flatten : Option Err → Flat
  | none => { code := ascii "XX000",
              message := ascii "unknown error, an internal process attempted to throw an error",
              detail := [], hint := [], severity := levelFatal, constr := [], source := none }
  | some e => { code := e.getCode, message := e.text, detail := e.getDetail, hint := e.getHint,
                severity := if e.getSev = [] then levelError else e.getSev,
                constr := e.getConstr, source := e.getSource }

/-- one `code text NUL` field -/
def errField (c : Char) (v : Bytes) : Bytes := UInt8.ofNat c.toNat :: v ++ [0]

/-- body of the ErrorResponse written by `writeErrorResponse` (error.go) -/
def errorBody (f : Flat) : Bytes :=
  errField 'S' f.severity ++ errField 'C' f.code ++ errField 'M' f.message
  ++ (if f.hint = [] then [] else errField 'H' f.hint)
  ++ (if f.detail = [] then [] else errField 'D' f.detail)
  ++ (match f.source with
      | none => []
      | some (file, line, fn) => errField 'F' file ++ errField 'L' (decInt line) ++ errField 'R' fn)
  ++ (if f.constr = [] then [] else errField 'n' f.constr)
  ++ [0]

/-! ### the library's own error values -/

def mkErr (text : String) (code : String) (sev : Bytes) : Err :=
  .sev sev (.code (ascii code) (.base (ascii text)))

/-- `NewErrUnimplementedMessageType(t)`: `%d` of the type byte -/
def errUnimplemented (t : UInt8) : Err :=
  .sev levelFatal (.code (ascii "08003")
    (.base (ascii "unimplemented client message type: " ++ decNat t.toNat)))

def errUnknownStatement (name : Bytes) : Err :=
  .sev levelFatal (.code (ascii "42P14") (.base (ascii "unknown executeable: " ++ name)))

def errUnknownPortal (name : Bytes) : Err :=
  .sev levelError (.code (ascii "34000") (.base (ascii "unknown portal: " ++ name)))

def errUndefinedStatement : Err := mkErr "no statement has been defined" "42601" levelError
def errMultipleCommands : Err :=
  mkErr "cannot insert multiple commands into a prepared statement" "42601" levelError

def errCopyFailed (desc : Bytes) : Err :=
  .sev levelError (.code Err.uncategorized (.base (ascii "client aborted copy: " ++ desc)))

/-- `NewMessageSizeExceeded(max, size)` -/
def errSizeExceeded (max : Nat) (size : Int) : Err :=
  .sev levelError (.code (ascii "54000")
    (.base (ascii "message size " ++ decInt size ++
            ascii ", bigger than maximum allowed message size " ++ decNat max)))

def errMissingNul : Err := mkErr "NUL terminator not found" "XX001" levelFatal

/-- `NewInsufficientData(len)` : `fmt.Errorf("length: %d %w", …)` -/
def errInsufficient (len : Nat) : Err :=
  .sev levelFatal (.code (ascii "XX001")
    (.wrap (ascii "length: " ++ decNat len ++ ascii " ") [] (.base (ascii "insufficient data"))))

def errClosedWriter : Err := .base (ascii "closed writer")
def errDataWritten : Err := .base (ascii "data has already been written")
def errNoColumns : Err :=
  .base (ascii "at least one column needs to be defined within the prepared statement")
def errInvalidPassword : Err := .code (ascii "28P01") (.base (ascii "invalid username/password"))

def errArity (ncols nvals : Nat) : Err :=
  .base (ascii "unexpected columns, " ++ decNat ncols ++
    ascii " columns are defined inside the given table but " ++ decNat nvals ++ ascii " were given")

end Pw
