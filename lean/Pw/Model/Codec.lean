import Pw.Model.Bytes
/-
  Model of the pgx `pgtype` codecs *as used by* Column.Write (Map.Encode), Parameter.Scan and
  NewScanner (Codec.DecodeValue) for the supported column types.  This is a model of library
  code outside the repository: it is tied by the differential check only ("modelled, not
  verified", DESIGN §8).  `unsupported` marks combinations the Lean model does not cover
  (the harness never compares those).
-/
namespace Pw

namespace Oid
def bool : Nat := 16
def bytea : Nat := 17
def int8 : Nat := 20
def int2 : Nat := 21
def int4 : Nat := 23
def text : Nat := 25
def float4 : Nat := 700
def float8 : Nat := 701
def varchar : Nat := 1043
def uuid : Nat := 2950
/-- a user-registered type (the harness registers it through `ExtendTypes` with the text codec) -/
def ztext : Nat := 90001
end Oid

def supportedOid (o : Nat) : Bool :=
  o = Oid.bool || o = Oid.bytea || o = Oid.int8 || o = Oid.int2 || o = Oid.int4 || o = Oid.text
  || o = Oid.float4 || o = Oid.float8 || o = Oid.varchar || o = Oid.uuid || o = Oid.ztext

/-- values a handler hands to `DataWriter.Row`, and values decoders return -/
inductive Val where
  | null                 -- untyped nil
  | tnull                -- nil pointer of the column's Go type
  | invalid              -- invalid (not Valid) pgtype value of the column's type
  | bool (b : Bool)
  | int (i : Int)        -- Go int64 on the way in; int16/int32/int64 on the way out
  | text (s : Bytes)     -- Go string
  | bytea (s : Bytes)    -- Go []byte, non-nil
  | uuid (s : Bytes)     -- Go [16]byte
  | f4 (bits : Nat)      -- Go float32, by IEEE bit pattern
  | f8 (bits : Nat)
  | junk                 -- a value no codec accepts (struct{}{})
  deriving Repr, DecidableEq, Inhabited

inductive EncRes where
  | ok (v : Option Bytes)   -- `none`: the encoder returned a nil buffer (SQL NULL)
  | err
  /-- pgx indexes a two-element plan array with the client-chosen format code: any other
      code panics inside `Map.PlanEncode` ("index out of range [fmt] with length 2") -/
  | panic (fmt : Nat)
  | unsupported
  deriving Repr, DecidableEq

def hexLower (b : Bytes) : Bytes :=
  b.flatMap fun x => [UInt8.ofNat (hexDigit (x.toNat / 16)).toNat, UInt8.ofNat (hexDigit (x.toNat % 16)).toNat]

def uuidText (b : Bytes) : Bytes :=
  let h := hexLower b
  h.take 8 ++ [45] ++ (h.drop 8).take 4 ++ [45] ++ (h.drop 12).take 4 ++ [45]
    ++ (h.drop 16).take 4 ++ [45] ++ h.drop 20

def intRange (o : Nat) : Option (Int × Int) :=
  if o = Oid.int2 then some (-32768, 32767)
  else if o = Oid.int4 then some (-2147483648, 2147483647)
  else if o = Oid.int8 then some (-9223372036854775808, 9223372036854775807)
  else none

def intWidth (o : Nat) : Nat := if o = Oid.int2 then 2 else if o = Oid.int4 then 4 else 8

def beInt (width : Nat) (i : Int) : Bytes :=
  if width = 2 then be16 (toU16 i) else if width = 4 then be32 (toU32 i) else be64 (toU64 i)

/-- the per-type encode plans, once the format code and the column type are accepted -/
def encodeTyped (o : Nat) (fmt : Nat) : Val → EncRes
  | .null => .ok none
  | .tnull => .ok none
  | .invalid => .ok none
  | .junk => .err
  | .bool b =>
    if o = Oid.bool then
      (if fmt = 1 then .ok (some [if b then 1 else 0]) else .ok (some [if b then 116 else 102]))
    else .err
  | .int i =>
    match intRange o with
    | some (lo, hi) =>
      if i < lo ∨ i > hi then .err
      else if fmt = 1 then .ok (some (beInt (intWidth o) i)) else .ok (some (decInt i))
    | none => .err
  | .text s => if o = Oid.text ∨ o = Oid.varchar ∨ o = Oid.ztext then .ok (some s) else .err
  | .bytea s =>
    if o = Oid.bytea then
      (if fmt = 1 then .ok (some s) else .ok (some ([92, 120] ++ hexLower s)))
    else .err
  | .uuid s =>
    if o = Oid.uuid ∧ s.length = 16 then
      (if fmt = 1 then .ok (some s) else .ok (some (uuidText s)))
    else .err
  | .f4 bits => if o = Oid.float4 then (if fmt = 1 then .ok (some (be32 bits)) else .unsupported) else .err
  | .f8 bits => if o = Oid.float8 then (if fmt = 1 then .ok (some (be64 bits)) else .unsupported) else .err

/-- `pgtype.Map.Encode(oid, format, value, buf)`: an untyped nil is NULL before anything else is
    looked at; then the format code indexes the plan array (panic outside {0,1}) -/
def encodeVal (o : Nat) (fmt : Nat) (v : Val) : EncRes :=
  if v = .null then .ok none
  else if fmt ≠ 0 ∧ fmt ≠ 1 then .panic fmt
  else if !supportedOid o then .unsupported
  else encodeTyped o fmt v

inductive DecRes where
  | ok (v : Val)      -- `Val.null` for a nil source (NULL)
  | err
  | unsupported
  deriving Repr, DecidableEq

/-- `strconv.ParseInt(s, 10, bits)` : optional sign, at least one digit, range check -/
def parseDigits : Bytes → Option Nat
  | [] => none
  | ds => ds.foldl (fun acc d => match acc with
      | none => none
      | some n => if 48 ≤ d.toNat ∧ d.toNat ≤ 57 then some (n * 10 + (d.toNat - 48)) else none) (some 0)

def splitSign : Bytes → Bool × Bytes
  | 43 :: r => (false, r)
  | 45 :: r => (true, r)
  | r => (false, r)

def signed (neg : Bool) (n : Nat) : Int := if neg then -(n : Int) else n

def parseIntText (s : Bytes) (lo hi : Int) : Option Int :=
  match parseDigits (splitSign s).2 with
  | none => none
  | some n =>
    if signed (splitSign s).1 n < lo ∨ signed (splitSign s).1 n > hi then none
    else some (signed (splitSign s).1 n)

/-- `Codec.DecodeValue(m, oid, format, src)`; `src = none` is a nil slice -/
def decodeVal (o : Nat) (fmt : Nat) (src : Option Bytes) : DecRes :=
  if !supportedOid o then .unsupported else
  match src with
  | none => .ok .null
  | some b =>
    if fmt ≠ 0 ∧ fmt ≠ 1 then .unsupported
    else if o = Oid.text ∨ o = Oid.varchar ∨ o = Oid.ztext then .ok (.text b)
    else if o = Oid.int2 ∨ o = Oid.int4 ∨ o = Oid.int8 then
      if fmt = 1 then
        (if b.length ≠ intWidth o then .err
         else if o = Oid.int2 then (match rd16 b with | some (n, _) => .ok (.int (ofU16 n)) | none => .err)
         else if o = Oid.int4 then (match rd32 b with | some (n, _) => .ok (.int (ofU32 n)) | none => .err)
         else (match rd64 b with | some (n, _) => .ok (.int (ofU64 n)) | none => .err))
      else match intRange o with
        | some (lo, hi) => (match parseIntText b lo hi with | some i => .ok (.int i) | none => .err)
        | none => .err
    else if o = Oid.bool then
      (if fmt = 1 then (match b with | [x] => .ok (.bool (x = 1)) | _ => .err) else .unsupported)
    else if o = Oid.bytea then (if fmt = 1 then .ok (.bytea b) else .unsupported)
    else if o = Oid.uuid then
      (if fmt = 1 then (if b.length = 16 then .ok (.uuid b) else .err) else .unsupported)
    else if o = Oid.float4 then
      (if fmt = 1 then (match b with | [_, _, _, _] => (match rd32 b with | some (n, _) => .ok (.f4 n) | none => .err) | _ => .err) else .unsupported)
    else if o = Oid.float8 then
      (if fmt = 1 then (if b.length = 8 then (match rd64 b with | some (n, _) => .ok (.f8 n) | none => .err) else .err) else .unsupported)
    else .unsupported

end Pw
