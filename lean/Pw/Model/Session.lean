import Pw.Model.Prog
import Pw.Model.Params
/-
  Model of command.go, cache.go, writer.go, row.go, copy.go: one authenticated session over a
  list of deframed client messages, with the user's callbacks as `Handlers`.
-/
namespace Pw

/-- what a read finds after the last available item -/
inductive Tail where
  | wait   -- nothing more has arrived: the server blocks in Read
  | rerr   -- the transport fails reads from here on
  /-- the client has closed its side: reads return EOF (`partial`: bytes of an incomplete
      message are pending, so `io.ReadFull` reports an unexpected EOF) -/
  | eof (midMessage : Bool)
  deriving Repr, DecidableEq

structure Portal where
  stmt : Stmt
  params : List Param
  formats : List Nat

/-- error values of the (harness) transport; their text is fixed by the harness -/
def errWrite : Err := .base (ascii "verif: write fault")
def errRead : Err := .base (ascii "verif: read fault")
def errUnexpectedEOF : Err := .base (ascii "unexpected EOF")

/-- the input side of a connection: what has arrived and not been consumed yet.  The COPY
    readers work on this component only, so they can neither write to the client nor log. -/
structure Inp where
  L : Nat
  items : List Item
  tail : Tail
  msg : Bytes := []
  /-- set when the run touched a codec combination the Lean model does not cover -/
  unsup : Bool := false

structure Sess where
  inp : Inp
  /-- backend messages whose `Write` call succeeded, newest first.  Every write of the
      session phase is `Writer.End` of one message (Model/Writer.lean models the frame buffer) -/
  out : List BMsg := []
  /-- number of further `Write` calls that succeed (`none`: all) -/
  wleft : Option Nat := none
  /-- callback / handler-observation trace, newest first -/
  ev : List Event := []
  stmts : List (Bytes × Stmt) := []
  portals : List (Bytes × Portal) := []
  discard : Bool := false

namespace Sess

/-- one `Writer.End`: the `Write` call either succeeds (message recorded) or the transport
    has started failing -/
def send (s : Sess) (m : BMsg) : Sess × Bool :=
  match s.wleft with
  | some 0 => (s, false)
  | some (n + 1) => ({ s with out := m :: s.out, wleft := some n }, true)
  | none => ({ s with out := m :: s.out }, true)

def log (s : Sess) (e : Event) : Sess := { s with ev := e :: s.ev }

/-- advance within the current message (`reader.Msg = reader.Msg[n:]`) -/
def setMsg (s : Sess) (m : Bytes) : Sess := { s with inp := { s.inp with msg := m } }

def markUnsup (s : Sess) : Sess := { s with inp := { s.inp with unsup := true } }

end Sess

inductive Rd where
  | item (it : Item)
  | blocked
  | rerr

/-- `ReadTypedMsg`.  For an oversized message the header has been read; whether the declared
    body could be skipped in full (`Slurp`) is the item's `full` flag, consulted by the
    callers that skip (the command loop and `CopyReader.Read`; authentication never skips). -/
def Inp.next (s : Inp) : Rd × Inp :=
  match s.items with
  | .msg t b :: r => (.item (.msg t b), { s with items := r, msg := b })
  | .big t size full :: r => (.item (.big t size full), { s with items := r, msg := [] })
  | [] => (match s.tail with | .wait => .blocked | _ => .rerr, s)

/-! ### result writer (writer.go, row.go) -/

structure Bin where
  pending : Bytes := []
  started : Bool := false
  done : Bool := false
  oids : List Nat

structure DW where
  cols : List ColDesc
  formats : List Nat
  closed : Bool := false
  written : Nat := 0
  copy : Bool := false
  bin : Option Bin := none

/-- the per-column format rule of row.go (`Define` and `Write` each carry a copy of it) -/
def formatFor (formats : List Nat) (index : Nat) : Nat :=
  if formats.length = 0 then 0
  else if formats.length > index then formats.getD index 0 else formats.getD 0 0

def colFormats (formats : List Nat) (cols : List ColDesc) : List (ColDesc × Nat) :=
  (List.range cols.length).zipWith (fun i c => (c, formatFor formats i)) cols

inductive EncRow where
  | ok (fields : List (Option Bytes))
  | err
  | panic (fmt : Nat)
  | unsupported

/-- `Columns.Write` loop over `Column.Write`: stops at the first value that fails to encode -/
def encodeRow (formats : List Nat) : Nat → List ColDesc → List Val → EncRow
  | _, [], _ => .ok []
  | _, _ :: _, [] => .ok []      -- unreachable: arity is checked first
  | i, c :: cs, v :: vs =>
    match encodeVal c.oid (formatFor formats i) v with
    | .err => .err
    | .panic f => .panic f
    | .unsupported => .unsupported
    | .ok f => match encodeRow formats (i + 1) cs vs with
      | .ok fs => .ok (f :: fs)
      | r => r

/-- text of the Go runtime panic raised by indexing `[2]EncodePlan` with format code `fmt`
    (an `int16`) -/
def panicText (fmt : Nat) : Bytes :=
  ascii "runtime error: index out of range [" ++ decInt (ofU16 fmt) ++ ascii "] with length 2"

inductive RowOut where
  | res (r : Option OpErr)
  | panic (msg : Bytes)

/-- `dataWriter.Row` -/
def dwRow (d : DW) (s : Sess) (vals : List Val) : RowOut × DW × Sess :=
  if d.closed then (.res (some (.lib errClosedWriter)), d, s)
  else if vals.length ≠ d.cols.length then (.res (some (.lib (errArity d.cols.length vals.length))), d, s)
  else match encodeRow d.formats 0 d.cols vals with
    | .unsupported => (.res (some .pgxEnc), d, s.markUnsup)
    | .err => (.res (some .pgxEnc), d, s)
    | .panic f => (.panic (panicText f), d, s)
    | .ok fields =>
      match s.send (.dataRow fields) with
      | (s', true) => (.res none, { d with written := d.written + 1 }, s')
      | (s', false) => (.res (some (.lib errWrite)), d, s')

/-- `dataWriter.Empty` -/
def dwEmpty (d : DW) : Option OpErr × DW :=
  if d.closed then (some (.lib errClosedWriter), d)
  else if d.written ≠ 0 then (some (.lib errDataWritten), d)
  else (none, { d with closed := true })

/-- `dataWriter.Complete` -/
def dwComplete (d : DW) (s : Sess) (tag : Bytes) : Option OpErr × DW × Sess :=
  if d.closed then (some (.lib errClosedWriter), d, s)
  else
    let d := { d with closed := true }
    match s.send (.complete tag) with
    | (s', true) => (none, d, s')
    | (s', false) => (some (.lib errWrite), d, s')

/-- `dataWriter.CopyIn` + `NewCopyReader` (which drops the rest of the current message) -/
def dwCopyIn (d : DW) (s : Sess) (fmt : Nat) : Option OpErr × DW × Sess :=
  if d.closed then (some (.lib errClosedWriter), d, s)
  else if d.cols.length = 0 then (some (.lib errNoColumns), d, s)
  else match s.send (.copyIn (fmt % 256) d.cols.length) with   -- see `copyInBody`
    | (s', true) => (none, { d with copy := true }, s'.setMsg [])
    | (s', false) => (some (.lib errWrite), d, s')

/-! ### COPY-in (copy.go) -/

/-- `CopyReader.Read`; `none` = blocked waiting for input -/
def copyRead : Nat → Inp → Option CopyRes × Inp
  | 0, s => (none, s)
  | fuel + 1, s =>
    match s.next with
    | (.blocked, s) => (none, s)
    | (.rerr, s) =>
      (match s.tail with
       | .eof false => (some .eof, s)                              -- io.EOF looks like CopyDone
       -- the bytes of the incomplete message are consumed by the failing read: the next
       -- read meets a clean end of stream
       | .eof true => (some (.err (.lib errUnexpectedEOF)), { s with tail := .eof false })
       | _ => (some (.err (.lib errRead)), s))
    | (.item (.big _ size full), s) =>
      if full then (some (.err (.lib (errSizeExceeded s.L size))), s)
      else (match s.tail with
        | .wait => (none, s)                                   -- blocked inside Slurp
        | .eof _ => (some (.err (.lib errUnexpectedEOF)), { s with tail := .eof false })
        | .rerr => (some (.err (.lib errRead)), s))
    | (.item (.msg t body), s) =>
      if t = ch 'H' ∨ t = ch 'S' then copyRead fuel s
      else if t = ch 'd' then (some (.data body), s)
      else if t = ch 'c' then (some .eof, s)
      else if t = ch 'f' then
        match cstr body with
        | none => (some (.err (.lib errMissingNul)), s)
        | some (desc, rest) => (some (.err (.lib (errCopyFailed desc))), { s with msg := rest })
      else (some (.err (.lib (errUnimplemented t))), s)

def copySignature : Bytes := [80, 71, 67, 79, 80, 89, 10, 255, 13, 10, 0]

inductive FillRes where
  | ok | eof | err (e : OpErr) | blocked

/-- `BinaryCopyReader.fill` -/
def binFill (size : Nat) : Nat → Bin → Inp → FillRes × Bin × Inp
  | 0, b, s => (.blocked, b, s)
  | fuel + 1, b, s =>
    if b.pending.length ≥ size then (.ok, b, s)
    else if b.done then (.eof, b, s)
    else match copyRead (s.items.length + 1) s with
      | (none, s') => (.blocked, b, s')
      | (some .eof, s') => (.eof, { b with done := true }, s')
      | (some (.err e), s') => (.err e, b, s')
      | (some (.data p), s') => binFill size fuel { b with pending := b.pending ++ p } { s' with msg := [] }

def binFuel (s : Inp) : Nat := s.items.length + 2

inductive TakeRes where
  | ok (v : Bytes) | err (e : OpErr) | blocked

/-- `BinaryCopyReader.take` -/
def binTake (size : Nat) (b : Bin) (s : Inp) : TakeRes × Bin × Inp :=
  match binFill size (binFuel s) b s with
  | (.ok, b, s) => (.ok (b.pending.take size), { b with pending := b.pending.drop size }, s)
  | (.eof, b, s) => (.err (.lib errUnexpectedEOF), b, s)
  | (.err e, b, s) => (.err e, b, s)
  | (.blocked, b, s) => (.blocked, b, s)

def errLengthExceeds (len max : Nat) : Err :=
  .base (ascii "length " ++ decNat len ++ ascii " exceeds the maximum message size " ++ decNat max)

inductive LenRes where
  | ok (n : Nat) | err (e : OpErr) | blocked

/-- `BinaryCopyReader.takeLength` -/
def binTakeLength (b : Bin) (s : Inp) : LenRes × Bin × Inp :=
  match binTake 4 b s with
  | (.ok v, b, s) =>
    (match rd32 v with
     | some (n, _) =>
        if n ≠ 4294967295 ∧ n > s.L then (.err (.lib (errLengthExceeds n s.L)), b, s) else (.ok n, b, s)
     | none => (.err (.lib errUnexpectedEOF), b, s))   -- unreachable: `v.length = 4`
  | (.err e, b, s) => (.err e, b, s)
  | (.blocked, b, s) => (.blocked, b, s)

def wrapOp (pre : String) : OpErr → OpErr
  | .lib e => .lib (.wrap (ascii pre) [] e)
  | e => e

inductive StepRes where
  | ok | err (e : OpErr) | blocked

/-- `BinaryCopyReader.skipHeader` once the signature has been recognised: flags, extension
    area length, extension area -/
def binHeaderRest (b : Bin) (s : Inp) : StepRes × Bin × Inp :=
  match binTake (copySignature.length + 4) b s with
  | (.blocked, b, s) => (.blocked, b, s)
  | (.err e, b, s) => (.err e, b, s)
  | (.ok _, b, s) =>
    match binTakeLength b s with
    | (.blocked, b, s) => (.blocked, b, s)
    | (.err e, b, s) => (.err e, b, s)
    | (.ok ext, b, s) =>
      if ext = 4294967295 then
        (.err (.lib (.base (ascii "unexpected header extension area length"))), b, s)
      else match binTake ext b s with
        | (.blocked, b, s) => (.blocked, b, s)
        | (.err e, b, s) => (.err e, b, s)
        | (.ok _, b, s) => (.ok, b, s)

def binHeaderCheck (b : Bin) (s : Inp) : StepRes × Bin × Inp :=
  if b.pending.take copySignature.length ≠ copySignature then (.ok, b, s) else binHeaderRest b s

/-- `BinaryCopyReader.skipHeader` -/
def binSkipHeader (b : Bin) (s : Inp) : StepRes × Bin × Inp :=
  match binFill copySignature.length (binFuel s) b s with
  | (.blocked, b, s) => (.blocked, b, s)
  | (.err e, b, s) => (.err e, b, s)
  | (.eof, b, s) => binHeaderCheck b s
  | (.ok, b, s) => binHeaderCheck b s

inductive FieldsRes where
  | ok (vals : List Val) | err (e : OpErr) | blocked | unsupported

/-- the field loop of `BinaryCopyReader.Read` -/
def binFields : List Nat → Bin → Inp → FieldsRes × Bin × Inp
  | [], b, s => (.ok [], b, s)
  | oid :: oids, b, s =>
    match binTakeLength b s with
    | (.blocked, b, s) => (.blocked, b, s)
    | (.err e, b, s) => (.err (wrapOp "unexpected field length: " e), b, s)
    | (.ok len, b, s) =>
      if len = 4294967295 then
        match binFields oids b s with
        | (.ok vs, b, s) => (.ok (.null :: vs), b, s)
        | r => r
      else match binTake len b s with
        | (.blocked, b, s) => (.blocked, b, s)
        | (.err e, b, s) => (.err (wrapOp "unexpected value: " e), b, s)
        | (.ok v, b, s) =>
          match decodeVal oid 1 (some v) with
          | .unsupported => (.unsupported, b, s)
          | .err => (.err .pgxDec, b, s)
          | .ok val =>
            match binFields oids b s with
            | (.ok vs, b, s) => (.ok (val :: vs), b, s)
            | r => r

def errFieldCount (ncols nfields : Nat) : Err :=
  .base (ascii "unexpected number of fields, " ++ decNat ncols ++
    ascii " columns are defined but " ++ decNat nfields ++ ascii " fields were given")

/-- `binary.BigEndian.Uint16` of the two bytes `take(2)` returned -/
def fieldCount (v : Bytes) : Nat := match rd16 v with | some (n, _) => n | none => 0

/-- `BinaryCopyReader.Read` from the field count on -/
def binRowBody (b : Bin) (s : Inp) : Option BinRes × Bin × Inp :=
  match binTake 2 b s with
  | (.blocked, b, s) => (none, b, s)
  | (.err e, b, s) => (some (.err e), b, s)
  | (.ok v, b, s) =>
    if fieldCount v = 65535 then
      match binFill 1 (binFuel s) b s with
      | (.blocked, b, s) => (none, b, s)
      | (.eof, b, s) => (some .eof, b, s)
      | (.err e, b, s) => (some (.err e), b, s)
      | (.ok, b, s) =>
        (some (.err (.lib (.base (ascii "unexpected copy data after the file trailer")))), b, s)
    else if fieldCount v ≠ b.oids.length then
      (some (.err (.lib (errFieldCount b.oids.length (fieldCount v)))), b, s)
    else match binFields b.oids b s with
      | (.blocked, b, s) => (none, b, s)
      | (.unsupported, b, s) => (some (.err .pgxDec), b, { s with unsup := true })
      | (.err e, b, s) => (some (.err e), b, s)
      | (.ok vals, b, s) => (some (.row vals), b, s)

/-- `BinaryCopyReader.Read` after the header: the stream may end between two rows -/
def binRowStart (b : Bin) (s : Inp) : Option BinRes × Bin × Inp :=
  match binFill 2 (binFuel s) b s with
  | (.blocked, b, s) => (none, b, s)
  | (.err e, b, s) => (some (.err e), b, s)
  | (.eof, b, s) => if b.pending.isEmpty then (some .eof, b, s) else binRowBody b s
  | (.ok, b, s) => binRowBody b s

/-- `BinaryCopyReader.Read`; `none` = blocked -/
def binRead (b : Bin) (s : Inp) : Option BinRes × Bin × Inp :=
  let hdr : StepRes × Bin × Inp :=
    if b.started then (.ok, b, s) else binSkipHeader { b with started := true } s
  match hdr with
  | (.blocked, b, s) => (none, b, s)
  | (.err e, b, s) => (some (.err (wrapOp "unexpected header: " e)), b, s)
  | (.ok, b, s) => binRowStart b s

/-! ### running a handler program -/

inductive Outcome where
  | done (e : Option Err)
  | blocked
  /-- a Go panic unwound the statement function -/
  | panicked (msg : Bytes)

def errNoReader : OpErr := .lib (.base (ascii "verif: no copy reader"))

/-- interpret a handler program against the result writer and the session -/
def runProg : Prog → DW → Sess → Outcome × Sess
  | .ret e, _, s => (.done e, s)
  | .note n k, d, s => runProg k d (s.log (.note n))
  | .row vals k, d, s =>
    match dwRow d s vals with
    | (.panic msg, _, s) => (.panicked msg, s)
    | (.res r, d, s) => runProg (k r) d (s.log (.rowRes r))
  | .complete tag k, d, s =>
    let (r, d, s) := dwComplete d s tag
    runProg (k r) d (s.log (.completeRes r))
  | .empty k, d, s =>
    let (r, d) := dwEmpty d
    runProg (k r) d (s.log (.emptyRes r))
  | .written k, d, s => runProg (k d.written) d (s.log (.written d.written))
  | .copyIn fmt k, d, s =>
    let (r, d, s) := dwCopyIn d s fmt
    runProg (k r) d (s.log (.copyInRes r))
  | .copyRead k, d, s =>
    if !d.copy then runProg (k (.err errNoReader)) d (s.log (.copyRes (.err errNoReader)))
    else match copyRead (s.inp.items.length + 1) s.inp with
      | (none, i) => (.blocked, { s with inp := i })
      | (some r, i) => runProg (k r) d ({ s with inp := i }.log (.copyRes r))
  | .binNew k, d, s =>
    if !d.copy then runProg (k (some errNoReader)) d (s.log (.binNewRes (some errNoReader)))
    else
      let s := if d.cols.all (fun c => supportedOid c.oid) then s else s.markUnsup
      runProg (k none) { d with bin := some { oids := d.cols.map (·.oid) } } (s.log (.binNewRes none))
  | .binRead k, d, s =>
    match d.bin with
    | none => runProg (k (.err errNoReader)) d (s.log (.binRes (.err errNoReader)))
    | some b =>
      match binRead b s.inp with
      | (none, _, i) => (.blocked, { s with inp := i })
      | (some r, b, i) => runProg (k r) { d with bin := some b } ({ s with inp := i }.log (.binRes r))

/-! ### the command loop (command.go) -/

/-- why a connection stopped being served -/
inductive End where
  | waiting   -- blocked in a read: the client has sent nothing further
  | closed    -- serve() returned; the deferred conn.Close() ran
  | crashed   -- an unrecovered panic in the connection goroutine: the process dies
  deriving Repr, DecidableEq

inductive Step where
  | cont (s : Sess)
  | stop (s : Sess) (e : End)

def lookup {α} (name : Bytes) : List (Bytes × α) → Option α
  | [] => none
  | (k, v) :: r => if k = name then some v else lookup name r

def remove {α} (name : Bytes) (m : List (Bytes × α)) : List (Bytes × α) :=
  m.filter (fun kv => kv.1 ≠ name)

def store {α} (name : Bytes) (v : α) (m : List (Bytes × α)) : List (Bytes × α) :=
  (name, v) :: remove name m

/-- a write result turned into control flow: a failed write ends the connection -/
def afterWrite : Sess × Bool → Step
  | (s, true) => .cont s
  | (s, false) => .stop s .closed

/-- `writeErrorResponse` then continue -/
def sendError (s : Sess) (e : Option Err) : Sess × Bool := s.send (.error (errorBody (flatten e)))

/-- `ErrorCode`: ErrorResponse + ReadyForQuery -/
def errorCode (s : Sess) (e : Option Err) : Step :=
  match sendError s e with
  | (s, false) => .stop s .closed
  | (s, true) => afterWrite (s.send (.ready (ch 'I')))

/-- `Session.extendedError` -/
def extendedError (s : Sess) (e : Option Err) : Step :=
  afterWrite (sendError { s with discard := true } e)

/-- Go's `strings.TrimSpace(q) == ""` for a NUL-free byte string: the string is a
    concatenation of UTF-8 encodings of Unicode White_Space code points. -/
def isBlankAux : Nat → Bytes → Bool
  | 0, b => b = []
  | fuel + 1, b =>
    match b with
    | [] => true
    | x :: r =>
      if x = 9 ∨ x = 10 ∨ x = 11 ∨ x = 12 ∨ x = 13 ∨ x = 32 then isBlankAux fuel r
      else match b with
        | 0xC2 :: y :: r' => if y = 0x85 ∨ y = 0xA0 then isBlankAux fuel r' else false
        | 0xE1 :: 0x9A :: 0x80 :: r' => isBlankAux fuel r'
        | 0xE2 :: 0x80 :: z :: r' =>
            if (0x80 ≤ z ∧ z ≤ 0x8A) ∨ z = 0xA8 ∨ z = 0xA9 ∨ z = 0xAF then isBlankAux fuel r' else false
        | 0xE2 :: 0x81 :: 0x9F :: r' => isBlankAux fuel r'
        | 0xE3 :: 0x80 :: 0x80 :: r' => isBlankAux fuel r'
        | _ => false

def isBlank (q : Bytes) : Bool := isBlankAux q.length q

def labelStmts (q : Bytes) (sts : List Stmt) : List Stmt :=
  (List.range sts.length).zipWith (fun i st => { st with q := q, idx := i }) sts

/-- the statement loop of `handleSimpleQuery` -/
def runStatements : List Stmt → Sess → Step
  | [], s => afterWrite (s.send (.ready (ch 'I')))
  | st :: rest, s =>
    let defined : Sess × Bool :=
      if st.cols.length = 0 then (s, true) else s.send (.rowDesc (colFormats [] st.cols))
    match defined with
    | (s, false) => errorCode s (some errWrite)
    | (s, true) =>
      let s := s.log (.exec st.q st.idx [])
      match runProg (st.body []) { cols := st.cols, formats := [] } s with
      | (.blocked, s) => .stop s .waiting
      | (.panicked _, s) => .stop s .crashed      -- no recover on the simple query path
      | (.done (some e), s) => errorCode s (some e)
      | (.done none, s) => runStatements rest s

def handleSimpleQuery (h : Handlers) (s : Sess) : Step :=
  match getString s.inp.msg with
  | none => .stop s .closed
  | some (q, rest) =>
    let s := (s.setMsg rest)
    if isBlank q then
      match s.send .emptyQuery with
      | (s, false) => .stop s .closed
      | (s, true) => afterWrite (s.send (.ready (ch 'I')))
    else
      let s := s.log (.parse q)
      match h.parse q with
      | .error e => errorCode s (some e)
      | .ok [] => errorCode s (some errUndefinedStatement)
      | .ok sts => runStatements (labelStmts q sts) s

def handleParse (h : Handlers) (s : Sess) : Step :=
  match getString s.inp.msg with
  | none => .stop s .closed
  | some (name, r1) =>
    match getString r1 with
    | none => .stop (s.setMsg r1) .closed
    | some (q, r2) =>
      match getU16 r2 with
      | none => .stop (s.setMsg r2) .closed
      | some (_, r3) =>
        let s := (s.setMsg r3)
        let s := s.log (.parse q)
        match h.parse q with
        | .error e => extendedError s (some e)
        | .ok [] => extendedError s (some errUndefinedStatement)
        | .ok [st] =>
          let st := { st with q := q, idx := 0 }
          afterWrite ({ s with stmts := store name st s.stmts }.send .parseComplete)
        | .ok _ => extendedError s (some errMultipleCommands)

/-- `strconv.QuoteRune(rune(b))` as produced by `%q` for a byte -/
def quoteByte (b : UInt8) : Bytes :=
  let n := b.toNat
  let hex2 := [UInt8.ofNat (hexDigit (n / 16)).toNat, UInt8.ofNat (hexDigit (n % 16)).toNat]
  let inner : Bytes :=
    if n = 7 then ascii "\\a" else if n = 8 then ascii "\\b" else if n = 12 then ascii "\\f"
    else if n = 10 then ascii "\\n" else if n = 13 then ascii "\\r" else if n = 9 then ascii "\\t"
    else if n = 11 then ascii "\\v" else if n = 39 then ascii "\\'" else if n = 92 then ascii "\\\\"
    else if n < 32 ∨ n = 127 then ascii "\\x" ++ hex2
    else if n < 127 then [b]
    else if n < 161 ∨ n = 173 then ascii "\\u00" ++ hex2
    else [UInt8.ofNat (192 + n / 64), UInt8.ofNat (128 + n % 64)]
  [39] ++ inner ++ [39]

def describeCols (s : Sess) (formats : List Nat) (cols : List ColDesc) : Sess × Bool :=
  if cols.length = 0 then s.send .noData else s.send (.rowDesc (colFormats formats cols))

def handleDescribe (s : Sess) : Step :=
  match getBytes 1 s.inp.msg with
  | none => .stop s .closed
  | some (d, r1) =>
    match getString r1 with
    | none => .stop (s.setMsg r1) .closed
    | some (name, r2) =>
      let s := (s.setMsg r2)
      let kind := d.headD 0
      if kind = ch 'S' then
        match lookup name s.stmts with
        | none => extendedError s (some (.base (ascii "unknown statement")))
        | some st =>
          match s.send (.paramDesc st.params) with
          | (s, false) => .stop s .closed
          | (s, true) => afterWrite (describeCols s [] st.cols)
      else if kind = ch 'P' then
        match lookup name s.portals with
        | none => extendedError s (some (.base (ascii "unknown portal")))
        | some p => afterWrite (describeCols s p.formats p.stmt.cols)
      else extendedError s (some (.base (ascii "unknown describe command: " ++ quoteByte kind)))

/-- read `n` 16-bit codes -/
def readCodes : Nat → Bytes → Option (List Nat × Bytes)
  | 0, m => some ([], m)
  | n + 1, m => match getU16 m with
    | none => none
    | some (c, r) => match readCodes n r with
      | none => none
      | some (cs, r') => some (c :: cs, r')

/-- the value loop of `readParameters` (index `i`, format rule inlined as in the Go code) -/
def readValues (formats : List Nat) (dflt : Nat) : Nat → Nat → Bytes → Option (List Param × Bytes)
  | 0, _, m => some ([], m)
  | n + 1, i, m =>
    match getU32 m with
    | none => none
    | some (len, r) =>
      let fmt := if formats.length > i then formats.getD i 0 else dflt
      if len = 4294967295 then
        match readValues formats dflt n (i + 1) r with
        | none => none
        | some (ps, r') => some ((fmt, none) :: ps, r')
      else match getBytes len r with
        | none => none
        | some (v, r') => match readValues formats dflt n (i + 1) r' with
          | none => none
          | some (ps, r'') => some ((fmt, some v) :: ps, r'')

/-- `readParameters` followed by `readColumnTypes` -/
def decodeBindTail (m : Bytes) : Option (List Param × List Nat × Bytes) :=
  match getU16 m with
  | none => none
  | some (nf, r) =>
    match readCodes nf r with
    | none => none
    | some (formats, r) =>
      let dflt := if nf = 1 then formats.getD 0 0 else 0
      match getU16 r with
      | none => none
      | some (np, r) =>
        match readValues formats dflt np 0 r with
        | none => none
        | some (params, r) =>
          match getU16 r with
          | none => none
          | some (nr, r) =>
            match readCodes nr r with
            | none => none
            | some (rfmts, r) => some (params, rfmts, r)

def handleBind (s : Sess) : Step :=
  match getString s.inp.msg with
  | none => .stop s .closed
  | some (pname, r1) =>
    match getString r1 with
    | none => .stop (s.setMsg r1) .closed
    | some (sname, r2) =>
      match decodeBindTail r2 with
      | none => .stop (s.setMsg r2) .closed
      | some (params, rfmts, r3) =>
        let s := (s.setMsg r3)
        match lookup sname s.stmts with
        | none => extendedError s (some (errUnknownStatement sname))
        | some st =>
          afterWrite ({ s with portals := store pname { stmt := st, params, formats := rfmts } s.portals }.send .bindComplete)

def handleExecute (s : Sess) : Step :=
  match getString s.inp.msg with
  | none => .stop s .closed
  | some (name, r1) =>
    match getU32 r1 with
    | none => .stop (s.setMsg r1) .closed
    | some (_, r2) =>
      let s := (s.setMsg r2)
      match lookup name s.portals with
      | none => extendedError s (some (errUnknownPortal name))
      | some p =>
        let s := s.log (.exec p.stmt.q p.stmt.idx p.params)
        match runProg (p.stmt.body p.params) { cols := p.stmt.cols, formats := p.formats } s with
        | (.blocked, s) => .stop s .waiting
        | (.panicked msg, s) =>     -- recovered by DefaultPortalCache.Execute
          extendedError s (some (.base (ascii "unexpected panic: " ++ msg)))
        | (.done (some e), s) => extendedError s (some e)
        | (.done none, s) => .cont s

def handleClose (s : Sess) : Step :=
  match getBytes 1 s.inp.msg with
  | none => .stop s .closed
  | some (d, r1) =>
    match getString r1 with
    | none => .stop (s.setMsg r1) .closed
    | some (name, r2) =>
      let s := (s.setMsg r2)
      let kind := d.headD 0
      if kind = ch 'S' then afterWrite ({ s with stmts := remove name s.stmts }.send .closeComplete)
      else if kind = ch 'P' then afterWrite ({ s with portals := remove name s.portals }.send .closeComplete)
      else extendedError s (some (.base (ascii "unknown close command: " ++ quoteByte kind)))

/-- `handleCommand` for a complete, in-limit message -/
def handleCommand (h : Handlers) (t : UInt8) (s : Sess) : Step :=
  if s.discard ∧ t ≠ ch 'S' ∧ t ≠ ch 'X' then .cont s
  else if t = ch 'Q' then handleSimpleQuery h s
  else if t = ch 'E' then handleExecute s
  else if t = ch 'P' then handleParse h s
  else if t = ch 'D' then handleDescribe s
  else if t = ch 'S' then afterWrite ({ s with discard := false }.send (.ready (ch 'I')))
  else if t = ch 'B' then handleBind s
  else if t = ch 'H' then .cont s
  else if t = ch 'd' ∨ t = ch 'c' ∨ t = ch 'f' then .cont s
  else if t = ch 'C' then handleClose s
  else if t = ch 'X' then
    match h.terminate with
    | none => .stop s .closed
    | some _ => .stop (s.log .terminate) .closed
  else errorCode s (some (errUnimplemented t))

/-- `handleMessageSizeExceeded` after the skip -/
def handleOversize (t : UInt8) (size : Int) (s : Sess) : Step :=
  let e := errSizeExceeded s.inp.L size
  if t = ch 'Q' ∧ !s.discard then errorCode s (some e) else afterWrite (sendError s (some e))

/-- `consumeSingleCommand` -/
def stepCommand (h : Handlers) (s : Sess) : Step :=
  match s.inp.next with
  | (.blocked, i) => .stop { s with inp := i } .waiting
  | (.rerr, i) => .stop { s with inp := i } .closed
  | (.item (.big t size full), i) =>
    let s := { s with inp := i }
    if full then handleOversize t size s
    else .stop s (match i.tail with | .wait => .waiting | _ => .closed)   -- Slurp did not complete
  | (.item (.msg t _), i) => handleCommand h t { s with inp := i }

/-- `consumeCommands` after the initial ReadyForQuery.  Every iteration consumes at least one
    item or stops, so `items.length + 1` iterations always suffice (`loop_fuel`, Props). -/
def loop (h : Handlers) : Nat → Sess → Sess × End
  | 0, s => (s, .waiting)
  | fuel + 1, s =>
    match stepCommand h s with
    | .stop s e => (s, e)
    | .cont s => loop h fuel s

def runSession (h : Handlers) (s : Sess) : Sess × End :=
  match s.send (.ready (ch 'I')) with
  | (s, false) => (s, .closed)
  | (s, true) => loop h (s.inp.items.length + 1) s

end Pw
