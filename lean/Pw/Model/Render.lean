import Pw.Model.Script
/-
  Canonical rendering of results (identical to the Go harness's rendering of the
  implementation's behaviour) and parsing of case lines.
-/
namespace Pw.Render
open Pw

def renderOpErr : OpErr → String
  | .lib e => "L" ++ hexOf e.text
  | .pgxEnc => "enc"
  | .pgxDec => "dec"

def renderRes (tag : String) : Option OpErr → String
  | none => tag ++ "+"
  | some e => tag ++ "-" ++ renderOpErr e

def renderParam (p : Param) : String :=
  toString p.1 ++ "." ++ (match p.2 with | none => "~" | some v => hexOf v)

def renderEvent : Event → String
  | .validate db user pw => "V:" ++ hexOf db ++ ":" ++ hexOf user ++ ":" ++ hexOf pw
  | .mw i => "M" ++ toString i
  | .parse q => "P:" ++ hexOf q
  | .exec q idx ps => "X:" ++ hexOf q ++ ":" ++ toString idx ++ ":" ++ ",".intercalate (ps.map renderParam)
  | .rowRes r => renderRes "r" r
  | .completeRes r => renderRes "c" r
  | .emptyRes r => renderRes "e" r
  | .written n => "w" ++ toString n
  | .copyInRes r => renderRes "g" r
  | .copyRes (.data p) => "k+" ++ hexOf p
  | .copyRes .eof => "k."
  | .copyRes (.err e) => "k-" ++ renderOpErr e
  | .binNewRes r => renderRes "B" r
  | .binRes (.row vs) => "b+" ++ ",".intercalate (vs.map Script.renderVal)
  | .binRes .eof => "b."
  | .binRes (.err e) => "b-" ++ renderOpErr e
  | .note b => "N" ++ hexOf b
  | .terminate => "T"

def isParamStatus (b : Bytes) : Bool := b.length ≥ 5 && b.head? = some (ch 'S')

/-- number of ParameterStatus chunks at the end of the write list -/
def trailingS (chunks : List Bytes) : Nat := (chunks.reverse.takeWhile isParamStatus).length

/-- writes as `hex.hex.…`; a ParameterStatus run at the very end of the output (a write
    fault cut it short in Go map order) is rendered as `S*n` -/
def renderOut (chunks : List Bytes) : String :=
  let n := trailingS chunks
  let head := chunks.take (chunks.length - n)
  let parts := head.map hexOf ++ (if n = 0 then [] else ["S*" ++ toString n])
  ".".intercalate parts

def renderKV (m : List (Bytes × Bytes)) : String :=
  ",".intercalate (m.map fun kv => hexOf kv.1 ++ "=" ++ hexOf kv.2)

def ctxSig (r : Result) (nmw : Nat) : String :=
  "@c[" ++ renderKV r.clientParams ++ "]s[" ++ renderKV r.serverParams ++ "]m"
    ++ ".".intercalate ((List.range nmw).map toString) ++ "r1t1a1"

def renderEvents (r : Result) (cx : Bool) (nmw : Nat) : String :=
  let sig := if cx then ctxSig r nmw else ""
  ";".intercalate (r.ev.map fun e => match e with
    | .parse _ | .exec _ _ _ => renderEvent e ++ sig
    | _ => renderEvent e)

def renderEnd : End → String
  | .waiting => "w"
  | .closed => "c"
  | .crashed => "crash"

end Pw.Render
