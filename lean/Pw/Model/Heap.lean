/-
  Model of the memory behind `buffer.Reader.Msg` (pkg/buffer/reader.go `reset`): arenas
  allocated by `make([]byte, size, max(size, 4096))`, the current window `Msg` as
  (arena, offset, length, capacity), and the zero-copy views handed to callbacks.
-/
namespace Pw.Heap

structure Region where
  arena : Nat
  lo : Nat
  hi : Nat      -- exclusive
  deriving Repr, DecidableEq

def Region.disjoint (a b : Region) : Prop := a.arena ≠ b.arena ∨ a.hi ≤ b.lo ∨ b.hi ≤ a.lo

instance (a b : Region) : Decidable (a.disjoint b) := by unfold Region.disjoint; infer_instance

/-- `reader.Msg`: a window into arena `arena`, `cap` counted from `off` to the arena's end -/
structure Win where
  arena : Nat
  off : Nat
  len : Nat
  cap : Nat
  deriving Repr, DecidableEq

structure St where
  /-- number of arenas allocated so far (arena ids are 0 … nArenas-1) -/
  nArenas : Nat := 0
  /-- `none`: `reader.Msg == nil` -/
  cur : Option Win := none
  /-- every view handed out so far -/
  views : List Region := []
  /-- allocation sizes requested from `make` (C04/C10: never above max(size, 4096)) -/
  allocs : List Nat := []
  deriving Repr

def granule : Nat := 4096

/-- `reset(size)`: advance past the current message, reuse spare capacity or allocate -/
def reset (size : Nat) (s : St) : St :=
  let adv : Option Win := s.cur.map fun w => { w with off := w.off + w.len, len := 0, cap := w.cap - w.len }
  let capNow := match adv with | some w => w.cap | none => 0
  if capNow ≥ size then
    match adv with
    | some w => { s with cur := some { w with len := size } }
    | none => { s with cur := none }      -- Msg == nil and size == 0: stays nil
  else
    let alloc := if size < granule then granule else size
    { s with nArenas := s.nArenas + 1, cur := some { arena := s.nArenas, off := 0, len := size, cap := alloc },
             allocs := alloc :: s.allocs }

/-- the bytes `io.ReadFull(reader.Buffer, reader.Msg)` writes after `reset` -/
def window (s : St) : Option Region := s.cur.map fun w => { arena := w.arena, lo := w.off, hi := w.off + w.len }

/-- an accessor consuming `n ≤ len` bytes and handing out a view of them (`GetBytes`;
    `GetString` additionally consumes the terminator) -/
def take (n extra : Nat) (s : St) : St :=
  match s.cur with
  | none => s
  | some w =>
    if n + extra ≤ w.len then
      { s with cur := some { w with off := w.off + (n + extra), len := w.len - (n + extra), cap := w.cap - (n + extra) },
               views := { arena := w.arena, lo := w.off, hi := w.off + n } :: s.views }
    else s

inductive Op where
  | read (size : Nat)          -- reset(size) followed by ReadFull into the window
  | take (n extra : Nat)       -- accessor
  deriving Repr, DecidableEq

def step (s : St) : Op → St
  | .read size => reset size s
  | .take n e => take n e s

end Pw.Heap
