import Pw.Model.Bytes
/-
  Model of `ParseParameters` (options.go): the scanner for the regular expression
  `\$(\d+)|\?` (leftmost match, greedy digits, as Go's RE2 `FindAllStringSubmatch`),
  `strconv.Atoi` with saturation, and the growth loop of the repaired function.
-/
namespace Pw

inductive Marker where
  | anon            -- `?`
  | pos (n : Nat)   -- `$n` with the exact (unbounded) decimal value of the digits
  deriving Repr, DecidableEq

def isDigit (b : UInt8) : Bool := 48 ≤ b.toNat && b.toNat ≤ 57

/-- take the maximal run of ASCII digits, returning its value and the rest -/
def takeDigits : Bytes → Nat → Nat × Bytes
  | [], acc => (acc, [])
  | b :: r, acc => if isDigit b then takeDigits r (acc * 10 + (b.toNat - 48)) else (acc, b :: r)

/-- all non-overlapping matches, left to right.  Structural on fuel = length. -/
def markersAux : Nat → Bytes → List Marker
  | 0, _ => []
  | fuel + 1, s =>
    match s with
    | [] => []
    | b :: r =>
      if b = 63 then .anon :: markersAux fuel r                      -- '?'
      else if b = 36 then                                            -- '$'
        match r with
        | d :: _ => if isDigit d then
              let (n, rest) := takeDigits r 0
              .pos n :: markersAux fuel rest
            else markersAux fuel r
        | [] => []
      else markersAux fuel r

def markers (q : Bytes) : List Marker := markersAux q.length q

def maxArgs : Nat := 65535

/-- one iteration of the loop body, on the current length of `parameters` -/
def paramStep (len : Nat) : Marker → Nat
  | .anon => if len < maxArgs then len + 1 else len
  | .pos n => let p := if n > maxArgs then maxArgs else n   -- Atoi saturates at MaxInt64 ≥ 65535
              if len < p then p else len

def paramCount (q : Bytes) : Nat := (markers q).foldl paramStep 0

/-- `ParseParameters(query)`: a list of zero OIDs -/
def parseParameters (q : Bytes) : List Nat := List.replicate (paramCount q) 0

end Pw
