/-
  Byte-level primitives shared by every layer of the model.
  Go `string` and `[]byte` are both `Bytes`; Lean `String` never appears in the model.
-/
namespace Pw

abbrev Bytes := List UInt8

/-- Big-endian encodings, as `binary.BigEndian.PutUint16/32` after the Go conversions
    `uint16(int16(x))`, `uint32(int32(x))` (i.e. reduction modulo 2^16 / 2^32). -/
def be16 (n : Nat) : Bytes :=
  [UInt8.ofNat (n / 256 % 256), UInt8.ofNat (n % 256)]

def be32 (n : Nat) : Bytes :=
  [UInt8.ofNat (n / 16777216 % 256), UInt8.ofNat (n / 65536 % 256),
   UInt8.ofNat (n / 256 % 256), UInt8.ofNat (n % 256)]

/-- `binary.BigEndian.Uint16` on the first two bytes; `none` when fewer are present. -/
def rd16 : Bytes → Option (Nat × Bytes)
  | a :: b :: r => some (a.toNat * 256 + b.toNat, r)
  | _ => none

def rd32 : Bytes → Option (Nat × Bytes)
  | a :: b :: c :: d :: r =>
      some (a.toNat * 16777216 + b.toNat * 65536 + c.toNat * 256 + d.toNat, r)
  | _ => none

/-- Split at the first NUL byte: `bytes.IndexByte(msg, 0)`; the NUL is consumed. -/
def cstr : Bytes → Option (Bytes × Bytes)
  | [] => none
  | b :: r => if b = 0 then some ([], r) else
      match cstr r with
      | some (s, t) => some (b :: s, t)
      | none => none

def nulFree (s : Bytes) : Prop := ∀ b ∈ s, b ≠ 0

instance (s : Bytes) : Decidable (nulFree s) := by unfold nulFree; infer_instance

/-- ASCII helper for model-side literals (every literal in the model is plain ASCII, for
    which this is the UTF-8 encoding); defined through `String.toList` so that the kernel can
    evaluate it (`decide`). -/
def ascii (s : String) : Bytes := s.toList.map fun c => UInt8.ofNat c.toNat

/-- `strconv.Itoa` / `%d` for a natural number. -/
def natDigits : Nat → Nat → List UInt8
  | 0, _ => []
  | fuel + 1, n => if n < 10 then [UInt8.ofNat (48 + n)]
      else natDigits fuel (n / 10) ++ [UInt8.ofNat (48 + n % 10)]

def decNat (n : Nat) : Bytes := natDigits (n + 1) n

def decInt (i : Int) : Bytes :=
  if i < 0 then 45 :: decNat i.natAbs else decNat i.toNat

/-- Two's complement views used by the wire encodings. -/
def toU16 (i : Int) : Nat := (i % 65536).toNat
def toU32 (i : Int) : Nat := (i % 4294967296).toNat
def toU64 (i : Int) : Nat := (i % 18446744073709551616).toNat
def ofU16 (n : Nat) : Int := if n < 32768 then n else (n : Int) - 65536
def ofU32 (n : Nat) : Int := if n < 2147483648 then n else (n : Int) - 4294967296
def ofU64 (n : Nat) : Int := if n < 9223372036854775808 then n else (n : Int) - 18446744073709551616

def be64 (n : Nat) : Bytes := be32 (n / 4294967296 % 4294967296) ++ be32 (n % 4294967296)

def rd64 (b : Bytes) : Option (Nat × Bytes) :=
  match rd32 b with
  | some (hi, r) => match rd32 r with
    | some (lo, r') => some (hi * 4294967296 + lo, r')
    | none => none
  | none => none

/-- lower-case hex, used only for rendering / driver I/O -/
def hexDigit (n : Nat) : Char := if n < 10 then Char.ofNat (48 + n) else Char.ofNat (87 + n)
def hexOf (b : Bytes) : String :=
  String.ofList (b.flatMap fun x => [hexDigit (x.toNat / 16), hexDigit (x.toNat % 16)])

def hexVal (c : Char) : Option Nat :=
  if '0' ≤ c ∧ c ≤ '9' then some (c.toNat - 48)
  else if 'a' ≤ c ∧ c ≤ 'f' then some (c.toNat - 87)
  else if 'A' ≤ c ∧ c ≤ 'F' then some (c.toNat - 55)
  else none

def unhexList : List Char → Option Bytes
  | [] => some []
  | a :: b :: r => do
      let x ← hexVal a; let y ← hexVal b; let t ← unhexList r
      pure (UInt8.ofNat (x * 16 + y) :: t)
  | _ => none

def unhex (s : String) : Option Bytes := unhexList s.toList

end Pw
