import Pw.Model.Session
/-
  Model of wire.go `serve`, handshake.go, ssl.go, auth.go: one connection from its first byte.
-/
namespace Pw

structure Config where
  /-- `BufferedMsgSize` as configured (non-positive: default) -/
  L : Int := 0
  auth : Bool := false
  /-- 0: no TLS config, 1: TLS config without certificates, 2: certificates present -/
  tls : Nat := 0
  version : Bytes := []
  /-- `Server.Parameters`: `none` is a nil map -/
  gparams : Option (List (Bytes × Bytes)) := none
  wleft : Option Nat := none
  tail : Tail := .wait

structure Result where
  /-- the raw one-byte reply to an SSLRequest ('S' or 'N'), when its write succeeded -/
  ssl : Option UInt8 := none
  /-- backend messages written successfully, oldest first -/
  msgs : List BMsg
  ev : List Event
  ending : End
  unsup : Bool := false
  /-- what `ClientParameters(ctx)` / `ServerParameters(ctx)` return inside callbacks -/
  clientParams : List (Bytes × Bytes) := []
  serverParams : List (Bytes × Bytes) := []
  /-- plaintext followed an accepted SSLRequest in the raw stream (connection fate then
      depends on segmentation; out/ev do not) -/
  stuffed : Bool := false

inductive URead where
  | msg (body rest : Bytes)
  | exceeded
  | short

/-- `ReadUntypedMsg` on a flat stream -/
def readUntyped (L : Nat) (inp : Bytes) : URead :=
  match rd32 inp with
  | none => .short
  | some (declared, r) =>
    match sizeVerdict L declared with
    | .exceeded _ => .exceeded
    | .ok n => if r.length < n then .short else .msg (r.take n) (r.drop n)

def versionCancel : Nat := 80877102
def versionSSL : Nat := 80877103

def endOf : Tail → End
  | .wait => .waiting
  | _ => .closed

/-- `readClientParameters`: key/value pairs up to an empty key; `none` on a missing NUL.
    The map is represented with `store` (last value wins). -/
def readClientParams : Nat → Bytes → List (Bytes × Bytes) → Option (List (Bytes × Bytes))
  | 0, _, _ => none
  | fuel + 1, m, acc =>
    match cstr m with
    | none => none
    | some (k, r) =>
      if k = [] then some acc
      else match cstr r with
        | none => none
        | some (v, r') => readClientParams fuel r' (store k v acc)

def bytesLt : Bytes → Bytes → Bool
  | [], [] => false
  | [], _ :: _ => true
  | _ :: _, [] => false
  | a :: as, b :: bs => if a < b then true else if b < a then false else bytesLt as bs

def insertSorted (kv : Bytes × Bytes) : List (Bytes × Bytes) → List (Bytes × Bytes)
  | [] => [kv]
  | x :: r => if bytesLt kv.1 x.1 then kv :: x :: r else x :: insertSorted kv r

def sortParams (m : List (Bytes × Bytes)) : List (Bytes × Bytes) := m.foldr insertSorted []

/-- the parameter map built by `writeParameters` (on a clone of the configured map) -/
def serverParams (cfg : Config) (user : Bytes) : List (Bytes × Bytes) :=
  let base := match cfg.gparams with | none => [] | some m => m.foldl (fun acc kv => store kv.1 kv.2 acc) []
  let m := store (ascii "server_encoding") (ascii "UTF8") base
  let m := store (ascii "client_encoding") (ascii "UTF8") m
  let m := if cfg.version = [] then m else store (ascii "server_version") cfg.version m
  let m := store (ascii "is_superuser") (ascii "off") m
  let m := store (ascii "session_authorization") user m
  sortParams m

def sendParams : List (Bytes × Bytes) → Sess → Sess × Bool
  | [], s => (s, true)
  | (k, v) :: r, s =>
    match s.send (.paramStatus k v) with
    | (s, false) => (s, false)
    | (s, true) => sendParams r s

def runMiddlewares : List Bool → Nat → Sess → Sess × Bool
  | [], _, s => (s, true)
  | ok :: r, i, s =>
    let s := s.log (.mw i)
    if ok then runMiddlewares r (i + 1) s else (s, false)

def finish (s : Sess) (e : End) (cp sp : List (Bytes × Bytes)) (stuffed : Bool := false)
    (ssl : Option UInt8 := none) : Result :=
  { ssl, msgs := s.out.reverse, ev := s.ev.reverse, ending := e, unsup := s.inp.unsup,
    clientParams := cp, serverParams := sp, stuffed }

/-- all bytes the server wrote, as separate `Write` calls -/
def Result.out (r : Result) : List Bytes :=
  (match r.ssl with | some b => [[b]] | none => []) ++ r.msgs.map BMsg.encode

/-- the raw `conn.Write(sslSupported / sslUnsupported)` -/
def writeRaw (s : Sess) : Sess × Bool :=
  match s.wleft with
  | some 0 => (s, false)
  | some (n + 1) => ({ s with wleft := some n }, true)
  | none => (s, true)

/-- the session state once the startup packet has been read: the rest of the stream cut into
    typed messages; a client that has hung up leaves either a clean end or an incomplete message -/
def sessionStart (s0 : Sess) (rest : Bytes) : Sess :=
  let tail := match s0.inp.tail with
    | .eof _ => Tail.eof (!(leftover s0.inp.L rest).isEmpty)
    | t => t
  { s0 with inp := { s0.inp with items := deframe s0.inp.L rest, tail := tail } }

/-- `handleAuth` (auth.go): `none` = the connection is authenticated and serving goes on;
    `some e` = the connection ends here (`closed`) or the server waits for the password message -/
def authPhase (cfg : Config) (h : Handlers) (s : Sess) (db user : Bytes) : Sess × Option End :=
  if !cfg.auth then
    (match s.send (.auth 0) with | (s, true) => (s, none) | (s, false) => (s, some .closed))
  else match s.send (.auth 3) with
    | (s, false) => (s, some .closed)
    | (s, true) =>
      match s.inp.next with
      | (.blocked, i) => ({ s with inp := i }, some .waiting)
      | (.rerr, i) => ({ s with inp := i }, some .closed)
      | (.item (.big _ _ _), i) => ({ s with inp := i }, some .closed)
      | (.item (.msg t pwbody), i) =>
        let s : Sess := { s with inp := i }
        if t ≠ ch 'p' then (s, some .closed)
        else match cstr pwbody with
          | none => (s, some .closed)
          | some (pw, r) =>
            let s := (s.setMsg r).log (.validate db user pw)
            match h.validate db user pw with
            | .fail => (s, some .closed)
            | .reject => ((sendError s (some errInvalidPassword)).1, some .closed)
            | .accept =>
              (match s.send (.auth 0) with | (s, true) => (s, none) | (s, false) => (s, some .closed))

/-- everything after the protocol version has been read: `body` is the rest of the startup
    packet, `rest` the stream behind it -/
def serveAfterVersion (cfg : Config) (h : Handlers) (s0 : Sess) (body rest : Bytes)
    (stuffed : Bool := false) (ssl : Option UInt8 := none) : Result :=
  let finish := fun (s : Sess) (e : End) (cp sp : List (Bytes × Bytes)) (st : Bool) => finish s e cp sp st ssl
  match readClientParams (body.length + 1) body [] with
  | none => finish s0 .closed [] [] stuffed
  | some cp =>
    let cps := sortParams cp
    let s := sessionStart s0 rest
    let user := (lookup (ascii "user") cp).getD []
    let db := (lookup (ascii "database") cp).getD []
    let authed := authPhase cfg h s db user
    match authed with
    | (s, some e) => finish s e cps [] stuffed
    | (s, none) =>
      let sp := serverParams cfg user
      match sendParams sp s with
      | (s, false) => finish s .closed cps sp stuffed
      | (s, true) =>
        match runMiddlewares h.mws 0 s with
        | (s, false) => finish s .closed cps sp stuffed
        | (s, true) =>
          let (s, e) := runSession h s
          finish s e cps sp stuffed

/-- `Server.serve`.  `tin` is the plaintext the client sends inside the TLS session when the
    upgrade happens (`Tls.unwrap` of the raw bytes after the handshake). -/
def serve (cfg : Config) (h : Handlers) (inp : Bytes) (tin : Bytes := []) : Result :=
  let L := effLimit cfg.L
  let s0 : Sess := { inp := { L, items := [], tail := cfg.tail }, wleft := cfg.wleft }
  match readUntyped L inp with
  | .short => finish s0 (endOf cfg.tail) [] []
  | .exceeded => finish s0 .closed [] []
  | .msg body rest =>
    match getU32 body with
    | none => finish s0 .closed [] []
    | some (version, body) =>
      if version = versionCancel then finish s0 .closed [] []
      else if version ≠ versionSSL then serveAfterVersion cfg h s0 body rest
      else if cfg.tls < 2 then
        -- sslUnsupported: 'N', then a fresh startup packet on the same reader
        match writeRaw s0 with
        | (s0, false) => finish s0 .closed [] []
        | (s0, true) =>
          let ssl := some (ch 'N')
          match readUntyped L rest with
          | .short => finish s0 (endOf cfg.tail) [] [] false ssl
          | .exceeded => finish s0 .closed [] [] false ssl
          | .msg body rest =>
            match getU32 body with
            | none => finish s0 .closed [] [] false ssl
            | some (version, body) =>
              if version = versionCancel then finish s0 .closed [] [] false ssl
              else serveAfterVersion cfg h s0 body rest false ssl
      else
        -- upgrade: 'S', new reader on the TLS connection; buffered plaintext is dropped
        match writeRaw s0 with
        | (s0, false) => finish s0 .closed [] []
        | (s0, true) =>
          let ssl := some (ch 'S')
          let stuffed := !rest.isEmpty
          match readUntyped L tin with
          | .short => finish s0 (endOf cfg.tail) [] [] stuffed ssl
          | .exceeded => finish s0 .closed [] [] stuffed ssl
          | .msg body rest' =>
            match getU32 body with
            | none => finish s0 .closed [] [] stuffed ssl
            | some (version, body) =>
              if version = versionCancel then finish s0 .closed [] [] stuffed ssl
              else serveAfterVersion cfg h s0 body rest' stuffed ssl

end Pw
