import Pw.Model.Reader
import Pw.Model.Errors
/-
  Backend (server → client) messages: a structured view `BMsg`, the encoder that mirrors the
  builder functions of error.go / row.go / writer.go / handshake.go / auth.go / command.go,
  and the strict grammar parser used as the C02 oracle.
-/
namespace Pw

structure ColDesc where
  name : Bytes
  table : Int := 0
  attrNo : Int := 0
  oid : Nat
  width : Int := 0
  deriving Repr, DecidableEq, Inhabited

inductive BMsg where
  | auth (status : Nat)                         -- 'R'
  | paramStatus (key val : Bytes)               -- 'S'
  | ready (status : UInt8)                      -- 'Z'
  | error (body : Bytes)                        -- 'E'  (body as written by writeErrorResponse)
  | rowDesc (cols : List (ColDesc × Nat))       -- 'T'  column + format code (16 bit)
  | dataRow (fields : List (Option Bytes))      -- 'D'
  | complete (tag : Bytes)                      -- 'C'
  | emptyQuery                                  -- 'I'
  | parseComplete                               -- '1'
  | bindComplete                                -- '2'
  | closeComplete                               -- '3'
  | noData                                      -- 'n'
  | paramDesc (oids : List Nat)                 -- 't'
  | copyIn (fmt : Nat) (ncols : Nat)            -- 'G'
  deriving Repr, DecidableEq, Inhabited

def ch (c : Char) : UInt8 := UInt8.ofNat c.toNat

/-- `Column.Define` -/
def encColDesc (c : ColDesc) (fmt : Nat) : Bytes :=
  c.name ++ [0] ++ be32 (toU32 c.table) ++ be16 (toU16 c.attrNo) ++ be32 c.oid
    ++ be16 (toU16 c.width) ++ be32 (toU32 (-1)) ++ be16 fmt

def encCol (p : ColDesc × Nat) : Bytes := encColDesc p.1 p.2

def encField : Option Bytes → Bytes
  | none => be32 (toU32 (-1))
  | some v => be32 v.length ++ v

namespace BMsg

def tag : BMsg → UInt8
  | auth _ => ch 'R' | paramStatus _ _ => ch 'S' | ready _ => ch 'Z' | error _ => ch 'E'
  | rowDesc _ => ch 'T' | dataRow _ => ch 'D' | complete _ => ch 'C' | emptyQuery => ch 'I'
  | parseComplete => ch '1' | bindComplete => ch '2' | closeComplete => ch '3'
  | noData => ch 'n' | paramDesc _ => ch 't' | copyIn _ _ => ch 'G'

def body : BMsg → Bytes
  | auth s => be32 s
  | paramStatus k v => k ++ [0] ++ v ++ [0]
  | ready s => [s]
  | error b => b
  | rowDesc cols => be16 cols.length ++ cols.flatMap encCol
  | dataRow fs => be16 fs.length ++ fs.flatMap encField
  | complete t => t ++ [0]
  | emptyQuery | parseComplete | bindComplete | closeComplete | noData => []
  | paramDesc oids => be16 oids.length ++ oids.flatMap be32
  | copyIn f n => [UInt8.ofNat f] ++ be16 n ++ (List.replicate n (be16 f)).flatten

/-- `Writer.End`: type byte, length = frame − 1, body -/
def encode (m : BMsg) : Bytes := frame m.tag m.body

end BMsg

/-! ### strict parser (the C02 oracle): a body must parse *exactly* under its type's grammar -/

def parseErrFields : Nat → Bytes → Option (List (UInt8 × Bytes))
  | 0, _ => none
  | fuel + 1, b =>
    match b with
    | [] => none
    | c :: r =>
      if c = 0 then (if r = [] then some [] else none)
      else match cstr r with
        | none => none
        | some (v, r') => (parseErrFields fuel r').map ((c, v) :: ·)

def parseColDescs : Nat → Bytes → Option (List (ColDesc × Nat))
  | 0, b => if b = [] then some [] else none
  | n + 1, b => do
    let (name, r) ← cstr b
    let (table, r) ← rd32 r
    let (attr, r) ← rd16 r
    let (oid, r) ← rd32 r
    let (width, r) ← rd16 r
    let (_tmod, r) ← rd32 r
    let (fmt, r) ← rd16 r
    let rest ← parseColDescs n r
    pure (({ name, table := ofU32 table, attrNo := ofU16 attr, oid, width := ofU16 width }, fmt) :: rest)

def parseFields : Nat → Bytes → Option (List (Option Bytes))
  | 0, b => if b = [] then some [] else none
  | n + 1, b => do
    let (len, r) ← rd32 b
    if len = 4294967295 then
      let rest ← parseFields n r
      pure (none :: rest)
    else if len ≥ 2147483648 then none
    else if r.length < len then none
    else
      let rest ← parseFields n (r.drop len)
      pure (some (r.take len) :: rest)

def parseOids : Nat → Bytes → Option (List Nat)
  | 0, b => if b = [] then some [] else none
  | n + 1, b => do
    let (o, r) ← rd32 b
    let rest ← parseOids n r
    pure (o :: rest)

def parseFmts : Nat → Bytes → Option (List Nat)
  | 0, b => if b = [] then some [] else none
  | n + 1, b => do
    let (o, r) ← rd16 b
    let rest ← parseFmts n r
    pure (o :: rest)

/-- parse one body under the grammar of type byte `t` -/
def parseBody (t : UInt8) (b : Bytes) : Option BMsg :=
  if t = ch 'R' then (match rd32 b with | some (s, []) => some (.auth s) | _ => none)
  else if t = ch 'S' then (match cstr b with
    | some (k, r) => (match cstr r with | some (v, []) => some (.paramStatus k v) | _ => none)
    | none => none)
  else if t = ch 'Z' then (match b with | [s] => some (.ready s) | _ => none)
  else if t = ch 'E' then (match parseErrFields (b.length + 1) b with
    | some _ => some (.error b) | none => none)
  else if t = ch 'T' then (match rd16 b with
    | some (n, r) => (parseColDescs n r).map .rowDesc | none => none)
  else if t = ch 'D' then (match rd16 b with
    | some (n, r) => (parseFields n r).map .dataRow | none => none)
  else if t = ch 'C' then (match cstr b with | some (tg, []) => some (.complete tg) | _ => none)
  else if t = ch 'I' then (if b = [] then some .emptyQuery else none)
  else if t = ch '1' then (if b = [] then some .parseComplete else none)
  else if t = ch '2' then (if b = [] then some .bindComplete else none)
  else if t = ch '3' then (if b = [] then some .closeComplete else none)
  else if t = ch 'n' then (if b = [] then some .noData else none)
  else if t = ch 't' then (match rd16 b with
    | some (n, r) => (parseOids n r).map .paramDesc | none => none)
  else if t = ch 'G' then (match b with
    | f :: r => (match rd16 r with
      | some (n, r') => (match parseFmts n r' with
        | some fs => if fs.all (· = f.toNat) then some (.copyIn f.toNat n) else none
        | none => none)
      | none => none)
    | [] => none)
  else none

/-- strict parse of a whole backend stream: a concatenation of complete well-formed messages -/
def parseBackendAux : Nat → Bytes → Option (List BMsg)
  | 0, b => if b = [] then some [] else none
  | fuel + 1, b =>
    match b with
    | [] => some []
    | t :: r =>
      match rd32 r with
      | none => none
      | some (len, r') =>
        if len < 4 then none
        else if r'.length < len - 4 then none
        else match parseBody t (r'.take (len - 4)) with
          | none => none
          | some m => (parseBackendAux fuel (r'.drop (len - 4))).map (m :: ·)

def parseBackend (b : Bytes) : Option (List BMsg) := parseBackendAux b.length b

end Pw
