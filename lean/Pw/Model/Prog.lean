import Pw.Model.Backend
import Pw.Model.Codec
/-
  Handler programs (interaction trees over the DataWriter / CopyReader API), events,
  statements and the user's callbacks.  `∀ p : Prog` is "every terminating deterministic
  handler program", adaptive ones included.
-/
namespace Pw

/-- the error a library call hands back to the handler -/
inductive OpErr where
  | lib (e : Err)   -- an error value constructed by psql-wire (or by the transport); text known exactly
  | pgxEnc          -- an encode error raised inside pgx
  | pgxDec          -- a decode error raised inside pgx
  deriving Repr, DecidableEq, Inhabited

inductive CopyRes where
  | data (payload : Bytes)
  | eof
  | err (e : OpErr)
  deriving Repr, DecidableEq, Inhabited

inductive BinRes where
  | row (vals : List Val)
  | eof
  | err (e : OpErr)
  deriving Repr, DecidableEq, Inhabited

/-- a Bind parameter as the handler sees it: format code and value (`none` = NULL) -/
abbrev Param := Nat × Option Bytes

inductive Prog where
  | ret (e : Option Err)
  | row (vals : List Val) (k : Option OpErr → Prog)
  | complete (tag : Bytes) (k : Option OpErr → Prog)
  | empty (k : Option OpErr → Prog)
  | written (k : Nat → Prog)
  | copyIn (fmt : Nat) (k : Option OpErr → Prog)
  | copyRead (k : CopyRes → Prog)
  | binNew (k : Option OpErr → Prog)
  | binRead (k : BinRes → Prog)
  | note (n : Bytes) (k : Prog)
  deriving Inhabited

inductive Event where
  | validate (db user pw : Bytes)
  | mw (i : Nat)
  | parse (q : Bytes)
  | exec (q : Bytes) (idx : Nat) (params : List Param)
  | rowRes (r : Option OpErr)
  | completeRes (r : Option OpErr)
  | emptyRes (r : Option OpErr)
  | written (n : Nat)
  | copyInRes (r : Option OpErr)
  | copyRes (r : CopyRes)
  | binNewRes (r : Option OpErr)
  | binRes (r : BinRes)
  | note (b : Bytes)
  | terminate
  deriving Repr, DecidableEq, Inhabited

structure Stmt where
  q : Bytes := []          -- query text it came from   } identity used in `exec` events,
  idx : Nat := 0           -- index in the parse result } filled in by the session
  cols : List ColDesc
  params : List Nat
  body : List Param → Prog
  deriving Inhabited

inductive Verdict where
  | accept | reject | fail
  deriving Repr, DecidableEq

structure Handlers where
  parse : Bytes → Except Err (List Stmt)
  validate : Bytes → Bytes → Bytes → Verdict
  /-- session middlewares in registration order; `true` = succeeds -/
  mws : List Bool
  /-- terminate hook: `none` = not configured, `some ok` -/
  terminate : Option Bool

end Pw
