/-
  Fine-grained model of the shutdown protocol: every synchronisation operation of `Server.Close`
  and `Server.admit` (wire.go) is its own step, the mutex is explicit, any number of closers and
  workers, any interleaving.  The coarse model (Model/Conc.lean) treats each critical section as
  one atomic step; this model is what justifies that: the same guarantees are proved here at the
  level of individual operations.

      Close:  mu.Lock; if !closing.Load() { closing.Store(true); close(closer) }; mu.Unlock; wg.Wait
      admit:  mu.Lock; defer mu.Unlock; if closing.Load() { return false }; wg.Add(1); return true
-/
namespace Pw.ConcF

inductive CPc where
  | start | locked | loaded (b : Bool) | stored | closed | waiting | returned
  deriving Repr, DecidableEq

inductive WPc where
  | start | locked | checked (b : Bool) | added | running | finished | refused
  deriving Repr, DecidableEq

structure St where
  lock : Bool := false
  closing : Bool := false
  chanCloses : Nat := 0
  wg : Nat := 1                  -- Serve's helper goroutine holds one count
  helperDone : Bool := false
  closers : List CPc
  workers : List WPc
  deriving Repr

inductive Act where
  | closer (i : Nat) | worker (j : Nat) | helper
  deriving Repr, DecidableEq

def init (nc nw : Nat) : St := { closers := List.replicate nc .start, workers := List.replicate nw .start }

/-- one operation of one thread; `none` = not enabled (blocked on the mutex or in `wg.Wait`) -/
def step (a : Act) (s : St) : Option St :=
  match a with
  | .closer i =>
    match s.closers[i]? with
    | some .start => if s.lock then none else some { s with lock := true, closers := s.closers.set i .locked }
    | some .locked => some { s with closers := s.closers.set i (.loaded s.closing) }
    | some (.loaded true) => some { s with lock := false, closers := s.closers.set i .waiting }
    | some (.loaded false) => some { s with closing := true, closers := s.closers.set i .stored }
    | some .stored => some { s with chanCloses := s.chanCloses + 1, closers := s.closers.set i .closed }
    | some .closed => some { s with lock := false, closers := s.closers.set i .waiting }
    | some .waiting => if s.wg = 0 then some { s with closers := s.closers.set i .returned } else none
    | _ => none
  | .worker j =>
    match s.workers[j]? with
    | some .start => if s.lock then none else some { s with lock := true, workers := s.workers.set j .locked }
    | some .locked => some { s with workers := s.workers.set j (.checked s.closing) }
    | some (.checked true) => some { s with lock := false, workers := s.workers.set j .refused }
    | some (.checked false) => some { s with wg := s.wg + 1, workers := s.workers.set j .added }
    | some .added => some { s with lock := false, workers := s.workers.set j .running }
    | some .running => some { s with wg := s.wg - 1, workers := s.workers.set j .finished }
    | _ => none
  | .helper =>
    if s.chanCloses ≥ 1 ∧ !s.helperDone then some { s with helperDone := true, wg := s.wg - 1 } else none

def run (sched : List Act) (s : St) : St := sched.foldl (fun s a => (step a s).getD s) s

/-- threads inside a critical section -/
def CPc.holds : CPc → Bool
  | .locked | .loaded _ | .stored | .closed => true
  | _ => false
def WPc.holds : WPc → Bool
  | .locked | .checked _ | .added => true
  | _ => false
def CPc.isStored : CPc → Bool
  | .stored => true
  | _ => false
/-- commands that have been counted into the wait group and not yet finished -/
def WPc.counted : WPc → Bool
  | .added | .running => true
  | _ => false

end Pw.ConcF
