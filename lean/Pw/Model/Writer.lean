import Pw.Model.Reader
/-
  Model of pkg/buffer/writer.go: the frame buffer, the error latch, Start / Add* / End.
  `bytes.Buffer` writes cannot fail, so the latch is never set by the Add* calls of this
  package; it is modelled nevertheless because `End` consults it.
-/
namespace Pw

structure Writer where
  frame : Bytes := []
  err : Bool := false
  deriving Repr, DecidableEq

namespace Writer

/-- `Reset`: empty frame, latch cleared -/
def reset (_ : Writer) : Writer := { frame := [], err := false }

/-- `Start(t)`: Reset, then the type byte and four placeholder length bytes
    (`putbuf[:5]`; bytes 1–4 of `putbuf` are never written, hence zero) -/
def start (t : UInt8) (w : Writer) : Writer := { frame := [t, 0, 0, 0, 0], err := false }

/-- every `Add*`: a no-op once the latch is set -/
def add (b : Bytes) (w : Writer) : Writer := if w.err then w else { w with frame := w.frame ++ b }

/-- `End`: with the latch set nothing is written; otherwise bytes 1–4 are back-patched with
    `len(frame) − 1` and the frame is handed to the connection in ONE `Write`.  The frame is
    reset in both cases (`defer writer.Reset()`).  `none`: `bytes[1:5]` would panic (no Start). -/
def finish (w : Writer) : Option (Option Bytes × Writer) :=
  if w.err then some (none, w.reset)
  else match w.frame with
    | t :: _ :: _ :: _ :: _ :: body => some (some (t :: be32 (w.frame.length - 1) ++ body), w.reset)
    | _ => none

end Writer
end Pw
