import Pw.Model.Bytes
/-
  Model of the transport below `buffer.Reader`: a byte stream that arrives in segments.
  A raw `Read(p)` returns a non-empty prefix of the first pending segment, at most `len(p)`
  bytes (TCP delivers what it has; `bufio.Reader.Read` returns what is buffered or performs one
  raw read).  `io.ReadFull` loops until it has `n` bytes.
-/
namespace Pw.Stream
open Pw

/-- pending segments, in arrival order (empty segments allowed and skipped) -/
abbrev Segs := List Bytes

/-- one raw read asking for at most `n > 0` bytes: `none` when nothing is pending -/
def rawRead (n : Nat) : Segs → Option (Bytes × Segs)
  | [] => none
  | seg :: rest =>
    if seg = [] then rawRead n rest
    else some (seg.take n, if seg.drop n = [] then rest else seg.drop n :: rest)

/-- `io.ReadFull`: `none` when the stream ends first (the caller sees EOF / keeps waiting) -/
def readFull : Nat → Nat → Segs → Option (Bytes × Segs)
  | _, 0, s => some ([], s)
  | 0, _ + 1, _ => none
  | fuel + 1, n + 1, s =>
    match rawRead (n + 1) s with
    | none => none
    | some (got, s') =>
      match readFull fuel (n + 1 - got.length) s' with
      | none => none
      | some (more, s'') => some (got ++ more, s'')

end Pw.Stream
