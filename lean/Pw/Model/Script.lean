import Pw.Model.Serve
/-
  The script language of the differential harness: the scripted ParseFn / statement
  functions / validator of the Go harness interpret query texts exactly like this.
  Theorems never mention this file; they quantify over all `Prog` and all `Handlers`.
-/
namespace Pw.Script
open Pw

def splitBy (sep : UInt8) : Bytes → List Bytes
  | [] => [[]]
  | b :: r =>
    match splitBy sep r with
    | [] => [[]]    -- unreachable
    | x :: xs => if b = sep then [] :: x :: xs else (b :: x) :: xs

def c (ch : Char) : UInt8 := UInt8.ofNat ch.toNat

def hexNib (b : UInt8) : Option Nat :=
  let n := b.toNat
  if 48 ≤ n ∧ n ≤ 57 then some (n - 48) else if 97 ≤ n ∧ n ≤ 102 then some (n - 87) else none

def unhexB : Bytes → Option Bytes
  | [] => some []
  | a :: b :: r => do
    let x ← hexNib a; let y ← hexNib b; let t ← unhexB r
    pure (UInt8.ofNat (x * 16 + y) :: t)
  | _ => none

/-- the harness parses numbers with `strconv.ParseInt(s, 10, 64)`: magnitudes up to 2^63-1 -/
def decB (b : Bytes) : Option Nat :=
  (parseDigits b).bind fun n => if n ≤ 9223372036854775807 then some n else none

/-- upper bound check as written in the harness's script parser -/
def decLe (max : Nat) (b : Bytes) : Option Nat := (decB b).bind fun n => if n ≤ max then some n else none

def intB : Bytes → Option Int
  | 45 :: r => (parseDigits r).bind fun n => if n ≤ 9223372036854775808 then some (-(n : Int)) else none
  | r => (decB r).map fun n => (n : Int)

def hexNat (b : Bytes) : Option Nat :=
  b.foldl (fun acc x => match acc, hexNib x with | some n, some d => some (n * 16 + d) | _, _ => none) (some 0)

def colOid (t : UInt8) : Option Nat :=
  if t = c 'b' then some Oid.bool else if t = c 's' then some Oid.int2 else if t = c 'i' then some Oid.int4
  else if t = c 'l' then some Oid.int8 else if t = c 't' then some Oid.text else if t = c 'v' then some Oid.varchar
  else if t = c 'y' then some Oid.bytea else if t = c 'u' then some Oid.uuid else if t = c 'f' then some Oid.float4
  else if t = c 'd' then some Oid.float8 else if t = c 'z' then some Oid.ztext else none

def parseColPlain (i : Nat) (b : Bytes) : Option ColDesc :=
  match b with
  | [t] => (colOid t).map fun o => { name := ascii ("c" ++ toString i), oid := o }
  | t :: 61 :: hx => do
    let o ← colOid t; let n ← unhexB hx
    pure { name := n, oid := o }
  | _ => none

/-- a trailing `~` sets table id, attribute number and width of the column (and, on the Go side,
    a type modifier, which `Column.Define` does not transmit: it always writes -1) -/
def parseCol (i : Nat) (b : Bytes) : Option ColDesc :=
  match b.reverse with
  | 126 :: r => (parseColPlain i r.reverse).map fun cd => { cd with table := 7 + i, attrNo := i + 1, width := 8 }
  | _ => parseColPlain i b

def parseList {α} (f : Nat → Bytes → Option α) (sep : UInt8) (b : Bytes) : Option (List α) :=
  if b = [] then some [] else
  let parts := splitBy sep b
  (List.range parts.length).zip parts |>.mapM fun (i, p) => f i p

def parseVal (b : Bytes) : Option Val :=
  match b with
  | [110] => some .null          -- n
  | [78] => some .tnull          -- N
  | [86] => some .invalid        -- V
  | [120] => some .junk          -- x
  | [98, 48] => some (.bool false)
  | [98, 49] => some (.bool true)
  | 105 :: r => (intB r).map .int
  | 116 :: r => (unhexB r).map .text
  | 121 :: r => (unhexB r).map .bytea
  | 117 :: r => (unhexB r).bind fun u => if u.length = 16 then some (.uuid u) else none
  | 102 :: r => if r.length = 8 then (hexNat r).map .f4 else none
  | 100 :: r => if r.length = 16 then (hexNat r).map .f8 else none
  | _ => none

/-- does the Go value built for `v` have the Go type the column's codec accepts? otherwise the
    harness hands the codec an unencodable value -/
def valFits (oid : Nat) : Val → Bool
  | .null | .tnull | .invalid | .junk => true
  | .bool _ => oid = Oid.bool
  | .int _ => oid = Oid.int2 || oid = Oid.int4 || oid = Oid.int8
  | .text _ => oid = Oid.text || oid = Oid.varchar || oid = Oid.ztext
  | .bytea _ => oid = Oid.bytea
  | .uuid _ => oid = Oid.uuid
  | .f4 _ => oid = Oid.float4
  | .f8 _ => oid = Oid.float8

def fitVals : List ColDesc → List Val → List Val
  | c :: cs, v :: vs => (if valFits c.oid v then v else .junk) :: fitVals cs vs
  | _, vs => vs

inductive Op where
  | row (vals : List Val)
  | complete (tag : Bytes)
  | empty
  | written
  | copyIn (fmt : Nat)
  | copyRead
  | copyLoop (n : Nat)
  | binNew
  | binRead
  | binLoop (n : Nat)
  | scan (oid idx : Nat)
  deriving Repr

def parseErr : List Bytes → Option Err
  | [] => none
  | [node] => match node with
    | 66 :: hx => (unhexB hx).map .base
    | _ => none
  | node :: rest => do
    let inner ← parseErr rest
    -- "x<node>": decorate and throw the result away; decorators are pure, the error is unchanged
    -- (the node must still be well-formed)
    let (node, discard) := match node with
      | 120 :: n => (n, true)
      | n => (n, false)
    let keep := fun (e : Err) => if discard then inner else e
    (fun (r : Option Err) => r.map keep) <| match node with
    | 67 :: hx => (unhexB hx).map fun x => .code x inner
    | 83 :: hx => (unhexB hx).map fun x => .sev x inner
    | 72 :: hx => (unhexB hx).map fun x => .hint x inner
    | 68 :: hx => (unhexB hx).map fun x => .detail x inner
    | 78 :: hx => (unhexB hx).map fun x => .constr x inner
    | 70 :: r => match splitBy (c ':') r with
      | [f, l, fn] => do
        let f ← unhexB f; let l ← intB l; let fn ← unhexB fn
        if l < -2147483648 ∨ l > 2147483647 then none else
        pure (.source f l fn inner)
      | _ => none
    | 87 :: r => match splitBy (c ':') r with
      | [pre, post] => do
        let pre ← unhexB pre; let post ← unhexB post
        pure (.wrap pre post inner)
      | _ => none
    | _ => none

def parseErrSpec (b : Bytes) : Option Err := parseErr (splitBy (c '.') b)

def parseOp (_ : Nat) (b : Bytes) : Option (Op × Bool) :=
  let (body, guard) := match b.reverse with
    | 63 :: r => (r.reverse, true)
    | _ => (b, false)
  let op : Option Op := match body with
    | 114 :: 58 :: r => (parseList (fun _ => parseVal) (c ',') r).map .row
    | 99 :: 58 :: r => (unhexB r).map .complete
    | [101] => some .empty
    | [119] => some .written
    | 103 :: 58 :: r => (decLe 1048576 r).map .copyIn
    | [107] => some .copyRead
    | 75 :: r => (decLe 65536 r).map .copyLoop
    | [66] => some .binNew
    | [98] => some .binRead
    | 65 :: r => (decLe 65536 r).map .binLoop
    | 115 :: 58 :: r => match splitBy (c ',') r with
      | [o, i] => do let o ← decLe 4294967295 o; let i ← decLe 1048576 i; pure (.scan o i)
      | _ => none
    | _ => none
  op.map fun o => (o, guard)

def retOf : OpErr → Err
  | .lib e => e
  | .pgxEnc => .base (ascii "pgx:enc")
  | .pgxDec => .base (ascii "pgx:dec")

def renderVal : Val → String
  | .null => "n" | .tnull => "N" | .invalid => "V" | .junk => "x"
  | .bool b => if b then "b1" else "b0"
  | .int i => "i" ++ toString i
  | .text s => "t" ++ hexOf s
  | .bytea s => "y" ++ hexOf s
  | .uuid s => "u" ++ hexOf s
  | .f4 n => "f" ++ hexOf (be32 n)
  | .f8 n => "d" ++ hexOf (be64 n)

def copyLoopProg (guard : Bool) (k : Prog) : Nat → Prog
  | 0 => k
  | n + 1 => .copyRead fun r => match r with
    | .data _ => copyLoopProg guard k n
    | .eof => k
    | .err e => if guard then .ret (some (retOf e)) else k

def binLoopProg (guard : Bool) (k : Prog) : Nat → Prog
  | 0 => k
  | n + 1 => .binRead fun r => match r with
    | .row _ => binLoopProg guard k n
    | .eof => k
    | .err e => if guard then .ret (some (retOf e)) else k

def guardK (guard : Bool) (k : Prog) : Option OpErr → Prog
  | some e => if guard then .ret (some (retOf e)) else k
  | none => k

def compile (cols : List ColDesc) (params : List Param) (ret : Option Err) : List (Op × Bool) → Prog
  | [] => .ret ret
  | (op, g) :: rest =>
    let k := compile cols params ret rest
    match op with
    | .row vals => .row (fitVals cols vals) (guardK g k)
    | .complete tag => .complete tag (guardK g k)
    | .empty => .empty (guardK g k)
    | .written => .written fun _ => k
    | .copyIn f => .copyIn f (guardK g k)
    | .copyRead => .copyRead fun r => match r with
      | .err e => if g then .ret (some (retOf e)) else k
      | _ => k
    | .copyLoop n => copyLoopProg g k n
    | .binNew => .binNew (guardK g k)
    | .binRead => .binRead fun r => match r with
      | .err e => if g then .ret (some (retOf e)) else k
      | _ => k
    | .binLoop n => binLoopProg g k n
    | .scan oid idx =>
      let txt : String := match params[idx]? with
        | none => "s=range"
        | some (fmt, v) => match decodeVal oid fmt v with
          | .ok val => "s=" ++ renderVal val
          | .err => "s=err"
          | .unsupported => "s=unsup"
      .note (ascii txt) k

def parseStmt (q : Bytes) (b : Bytes) : Option Stmt :=
  match splitBy (c '/') b with
  | cols :: ps :: ops :: ret :: _ => do
    let cols ← parseList parseCol (c ',') cols
    let params ← if ps = [80] then some (parseParameters q)
                 else parseList (fun _ => decLe 4294967295) (c ',') ps
    let ops ← parseList parseOp (c ';') ops
    let ret ← if ret = ascii "ok" then some none
              else match ret with
                | 69 :: r => (parseErrSpec r).map some
                | _ => none
    pure { cols, params, body := fun ps => compile cols ps ret ops }
  | _ => none

def badScript : Err := .code (ascii "42601") (.base (ascii "verif: bad script"))

/-- the scripted ParseFn -/
def parse (q : Bytes) : Except Err (List Stmt) :=
  match q with
  | 33 :: r => match parseErrSpec r with
    | some e => .error e
    | none => .error badScript
  | [35] => .ok []
  | _ =>
    match (splitBy (c '|') q).mapM (parseStmt q) with
    | some sts => .ok sts
    | none => .error badScript

/-- the scripted validator: decided by the password's content -/
def validate (_db _user pw : Bytes) : Verdict :=
  if pw.take 2 = ascii "ok" then .accept
  else if pw.take 4 = ascii "fail" then .fail
  else .reject

end Pw.Script
