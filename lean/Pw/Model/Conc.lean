/-
  Model of the shutdown protocol: `Server.Close`, `Server.admit` (wire.go) and the helper
  goroutine of `Serve` that closes the listener.

  Both `Close` and `admit` do all their accesses to `closing`, the closer channel and
  `wg.Add` inside one critical section of `srv.mu`; the sections contain no blocking
  operation, so each is modelled as ONE atomic step (the mutex itself is not represented:
  it is free at every step boundary).  `wg.Wait` is a blocking step enabled when the counter
  is zero.  Any number of closers and workers, any schedule.
-/
namespace Pw.Conc

inductive CPc where
  | start      -- Close has been called, the critical section not yet entered
  | waiting    -- critical section done, before / inside wg.Wait
  | returned
  deriving Repr, DecidableEq

inductive WPc where
  | start      -- a complete command has been read, admission not yet attempted
  | running    -- admitted: wg.Add(1) done, the handler is executing
  | finished   -- wg.Done() executed
  | refused    -- admission refused (closing was set)
  deriving Repr, DecidableEq

structure St where
  closing : Bool := false
  chanCloses : Nat := 0          -- how many times `close(srv.closer)` has run
  wg : Nat := 1                  -- Serve's helper goroutine holds one count
  helperDone : Bool := false     -- the helper saw the closed channel, closed the listener, wg.Done()
  closers : List CPc
  workers : List WPc
  deriving Repr, DecidableEq

inductive Act where
  | closer (i : Nat)
  | worker (j : Nat)
  | helper
  deriving Repr, DecidableEq

def init (nClosers nWorkers : Nat) : St :=
  { closers := List.replicate nClosers .start, workers := List.replicate nWorkers .start }

/-- one atomic step; `none` = not enabled -/
def step (a : Act) (s : St) : Option St :=
  match a with
  | .closer i =>
    match s.closers[i]? with
    | some .start =>
      -- the critical section of Close
      if s.closing then some { s with closers := s.closers.set i .waiting }
      else some { s with closing := true, chanCloses := s.chanCloses + 1, closers := s.closers.set i .waiting }
    | some .waiting => if s.wg = 0 then some { s with closers := s.closers.set i .returned } else none
    | _ => none
  | .worker j =>
    match s.workers[j]? with
    | some .start =>
      -- the critical section of admit
      if s.closing then some { s with workers := s.workers.set j .refused }
      else some { s with wg := s.wg + 1, workers := s.workers.set j .running }
    | some .running => some { s with wg := s.wg - 1, workers := s.workers.set j .finished }
    | _ => none
  | .helper =>
    if s.chanCloses ≥ 1 ∧ !s.helperDone then some { s with helperDone := true, wg := s.wg - 1 } else none

/-- run a schedule, skipping actions that are not enabled -/
def run (sched : List Act) (s : St) : St :=
  sched.foldl (fun s a => (step a s).getD s) s

def running (s : St) : Nat := s.workers.count .running

end Pw.Conc
