import Pw.Generated.Facts
/-  Hand-reviewed expectations on facts extracted from /repo (writerStart writerEnd writerReset). A change in the Go source
    that alters one of these facts makes this module fail to build; the check then searches for a
    failing input (DESIGN §4.1, §5). -/
namespace Pw.Conformance
open Pw

example : Facts.writerStart = 
  "{ writer.Reset() writer.putbuf[0] = byte(t) writer.frame.Write(writer.putbuf[:5]) }" := rfl

example : Facts.writerEnd = 
  "{ defer writer.Reset() if writer.Error() != nil { return writer.Error() } bytes := writer.frame.Bytes() length := uint32(writer.frame.Len() - 1) binary.BigEndian.PutUint32(bytes[1:5], length) _, err := writer.Writer.Write(bytes) writer.logger.Debug(\"-> writing message\", slog.String(\"type\", types.ServerMessage(bytes[0]).String())) return err }" := rfl

example : Facts.writerReset = "{ writer.frame.Reset() writer.err = nil }" := rfl

end Pw.Conformance
