import Pw.Generated.Facts
/-  Hand-reviewed expectations on facts extracted from /repo (servePhases handleAuthOps writeParametersBody). A change in the Go source
    that alters one of these facts makes this module fail to build; the check then searches for a
    failing input (DESIGN §4.1, §5). -/
namespace Pw.Conformance
open Pw

example : Facts.servePhases = 
  ["pgtype.NewMap", "extend", "setTypeInfo", "setRemoteAddress", "conn.RemoteAddr", "conn.Close", "srv.Handshake", "conn.Close", "buffer.NewWriter", "srv.readClientParameters", "srv.handleAuth", "srv.writeParameters", "srv.Session", "srv.Statements", "srv.Portals", "session.consumeCommands"] := rfl

example : Facts.handleAuthOps = ["writeAuthType", "srv.Auth"] := rfl

example : Facts.writeParametersBody = 
  "{ if params == nil { params = make(Parameters, 4) } else { params = maps.Clone(params) } srv.logger.Debug(\"writing server parameters\") params[ParamServerEncoding] = \"UTF8\" params[ParamClientEncoding] = \"UTF8\" if srv.Version != \"\" { params[ParamServerVersion] = srv.Version } params[ParamIsSuperuser] = buffer.EncodeBoolean(IsSuperUser(ctx)) params[ParamSessionAuthorization] = AuthenticatedUsername(ctx) for key, value := range params { srv.logger.Debug(\"server parameter\", slog.String(\"key\", string(key)), slog.String(\"value\", value)) writer.Start(types.ServerParameterStatus) writer.AddString(string(key)) writer.AddNullTerminate() writer.AddString(value) writer.AddNullTerminate() err = writer.End() if err != nil { return ctx, err } } return setServerParameters(ctx, params), nil }" := rfl

end Pw.Conformance
