import Pw.Generated.Facts
/-  Hand-reviewed expectations on facts extracted from /repo (serverFieldWrites). A change in the Go source
    that alters one of these facts makes this module fail to build; the check then searches for a
    failing input (DESIGN §4.1, §5). -/
namespace Pw.Conformance
open Pw

example : Facts.serverFieldWrites = 
  [("command.go:Session.extendedError", "srv.discard"), ("command.go:Session.handleCommand", "srv.discard")] := rfl

end Pw.Conformance
