import Pw.Generated.Facts
/-  Hand-reviewed expectations on facts extracted from /repo (dispatch tables of the command loop and the
    COPY reader, the two error paths). A change in the Go source that alters one of these facts makes this
    module fail to build; the check then searches for a failing input (DESIGN §4.1, §5). -/
namespace Pw.Conformance.Session
open Pw

-- Model: `handleCommand` dispatches on the same type bytes to the same handlers in the same way: Q→handleSimpleQuery, E→handleExecute, P→handleParse, D→handleDescribe, S→ReadyForQuery (and `discard := false`), B→handleBind, H and stray d/c/f→nothing, C→handleClose, X→terminate hook then close, anything else→ErrorCode(unimplemented)
example : Facts.handleCommandSwitch = 
  [("t:types.ClientSimpleQuery", "srv.handleSimpleQuery"),
  ("t:types.ClientExecute", "srv.handleExecute"),
  ("t:types.ClientParse", "srv.handleParse"),
  ("t:types.ClientDescribe", "srv.handleDescribe"),
  ("t:types.ClientSync", "readyForQuery"),
  ("t:types.ClientBind", "srv.handleBind"),
  ("t:types.ClientFlush", ""),
  ("t:types.ClientCopyData,types.ClientCopyDone,types.ClientCopyFail", ""),
  ("t:types.ClientClose", "srv.handleClose"),
  ("t:types.ClientTerminate", "srv.handleConnTerminate;conn.Close"),
  ("t:default", "ErrorCode;NewErrUnimplementedMessageType")] := rfl

-- Model: the first branch of `handleCommand` (`s.discard ∧ t ≠ S ∧ t ≠ X → .cont s`)
example : Facts.handleCommandGuards = 
  ["srv.discard && t != types.ClientSync && t != types.ClientTerminate", "err != nil", "err != nil"] := rfl

-- Model: `copyRead`: H/S skipped, d→data, c→eof, f→GetString then copy-failed error, anything else→unimplemented error
example : Facts.copyReadSwitch = 
  [("typed:types.ClientFlush,types.ClientSync", ""),
  ("typed:types.ClientCopyData", ""),
  ("typed:types.ClientCopyDone", ""),
  ("typed:types.ClientCopyFail", "r.GetString;newErrClientCopyFailed"),
  ("typed:default", "NewErrUnimplementedMessageType")] := rfl

-- Model: `handleDescribe`: S→lookup statement, error or ParameterDescription+columns; P→lookup portal, error or columns; other kinds fall through to the quoted-kind error
example : Facts.handleDescribeSwitch = 
  [("types.DescribeMessage(d[0]):types.DescribeStatement", "srv.Statements.Get;srv.extendedError;errors.New;srv.writeParameterDescription;srv.writeColumnDescription"),
  ("types.DescribeMessage(d[0]):types.DescribePortal", "srv.Portals.Get;srv.extendedError;errors.New;srv.writeColumnDescription")] := rfl

-- Model: `handleClose`: S / P select the cache, anything else→extendedError
example : Facts.handleCloseSwitch = 
  [("types.DescribeMessage(d[0]):types.DescribeStatement", ""),
  ("types.DescribeMessage(d[0]):types.DescribePortal", ""),
  ("types.DescribeMessage(d[0]):default", "srv.extendedError;fmt.Errorf")] := rfl

-- Model: `extendedError`: set `discard`, one ErrorResponse, no ReadyForQuery
example : Facts.extendedErrorBody = 
  "{ srv.discard = true return writeErrorResponse(writer, err) }" := rfl

-- Model: `errorCode`: ErrorResponse then ReadyForQuery
example : Facts.errorCodeOps = 
  ["writeErrorResponse", "readyForQuery"] := rfl

-- Model: `handleOversize`: ReadyForQuery only for a Query outside a discarded batch
example : Facts.handleSizeExceededConds = 
  ["!has", "err != nil", "t == types.ClientSimpleQuery && !srv.discard"] := rfl

end Pw.Conformance.Session
