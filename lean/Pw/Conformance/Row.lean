import Pw.Generated.Facts
/-  Hand-reviewed expectations on facts extracted from /repo (row.go: the per-column format rule in its
    two copies, the RowDescription column layout, CopyInResponse, the NULL test of Column.Write). A change
    in the Go source that alters one of these facts makes this module fail to build; the check then
    searches for a failing input (DESIGN §4.1, §5). -/
namespace Pw.Conformance.Row
open Pw

-- Model: `formatFor` (Session.lean) — no codes: text; more codes than the index: positional; else the first.
-- The model has ONE function for RowDescription (`colFormats`) and DataRow (`encodeRow`); the code has two
-- copies of the rule, which must therefore stay identical (C08_announced_is_used relies on it).
example : Facts.formatRuleDefine =
  ["if len(formats) == 0", "formats = []FormatCode{TextFormat}", "format := formats[0]", "if len(formats) > index", "format = formats[index]"] := rfl

example : Facts.formatRuleWrite =
  Facts.formatRuleDefine ++ ["err = column.Write(ctx, writer, format, srcs[index])"] := rfl

-- Model: `BMsg.body (.rowDesc …)`: name, NUL, table (int32), attribute number (int16), type OID (int32),
-- width (int16), type modifier -1 (int32), format code (int16)
example : Facts.columnDefineBody =
  "{ writer.AddString(column.Name) writer.AddNullTerminate() writer.AddInt32(column.Table) writer.AddInt16(column.AttrNo) writer.AddInt32(int32(column.Oid)) writer.AddInt16(column.Width) writer.AddInt32(-1) writer.AddInt16(int16(format)) }" := rfl

-- Model: `dwCopyIn` / `BMsg.body (.copyIn f n)`: format byte, column count, one int16 per column
example : Facts.columnsCopyInOps =
  ["ctx.Err", "ctx.Err", "len", "errors.New", "writer.Start", "writer.AddByte", "byte", "writer.AddInt16", "int16", "len", "writer.AddInt16", "int16", "writer.End"] := rfl

-- Model: `encField none` (length -1) exactly when the encoder returned a nil buffer (`bb == nil`, fix D15)
example : Facts.columnWriteNullConds = ["ctx.Err() != nil", "tm == nil", "err != nil", "bb == nil"] := rfl

end Pw.Conformance.Row
