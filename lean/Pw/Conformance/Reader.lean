import Pw.Generated.Facts
/-  Hand-reviewed expectations on facts extracted from /repo (readSites readUntypedConds slurpConds readMsgSizeBody readerReadTypedMsg readerReadType resetIntLiterals resetBody). A change in the Go source
    that alters one of these facts makes this module fail to build; the check then searches for a
    failing input (DESIGN §4.1, §5). -/
namespace Pw.Conformance
open Pw

example : Facts.readSites = 
  [("Reader.ReadMsgSize", "io.ReadFull"), ("Reader.ReadType", "reader.Buffer.ReadByte"), ("Reader.ReadUntypedMsg", "io.ReadFull"), ("Reader.Slurp", "io.ReadFull")] := rfl

example : Facts.readUntypedConds = ["err != nil", "size > reader.MaxMessageSize || size < 0"] := rfl

-- "err == io.EOF": a stream ending inside the announced body is reported as unexpected EOF (fix D22);
-- the model's Slurp failure (`big … full = false`) is `errUnexpectedEOF` at every position
example : Facts.slurpConds = ["for remaining > 0", "reading > reader.MaxMessageSize", "err == io.EOF", "err != nil"] := rfl

example : Facts.readMsgSizeBody = 
  "{ nread, err := io.ReadFull(reader.Buffer, reader.header[:]) if err != nil { return nread, err } size := int(binary.BigEndian.Uint32(reader.header[:])) size -= 4 return size, nil }" := rfl

-- "err == io.EOF": once the type byte is consumed, the end of the stream is an unexpected EOF (fix D22);
-- model: `Tail.eof true` (bytes of an incomplete message pending) reads as `errUnexpectedEOF`
example : Facts.readerReadTypedMsg = 
  "{ typed, err := reader.ReadType() if err != nil { return typed, 0, err } n, err := reader.ReadUntypedMsg() if err == io.EOF { err = io.ErrUnexpectedEOF } if err != nil { return typed, 0, err } return typed, n, nil }" := rfl

example : Facts.readerReadType = 
  "{ b, err := reader.Buffer.ReadByte() if err != nil { return 0, err } return types.ClientMessage(b), nil }" := rfl

example : Facts.resetIntLiterals = ["4096", "4096"] := rfl

example : Facts.resetBody = 
  "{ if reader.Msg != nil { reader.Msg = reader.Msg[len(reader.Msg):] } if cap(reader.Msg) >= size { reader.Msg = reader.Msg[:size] return } allocSize := size if allocSize < 4096 { allocSize = 4096 } reader.Msg = make([]byte, size, allocSize) }" := rfl

end Pw.Conformance
