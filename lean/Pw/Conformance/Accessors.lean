import Pw.Generated.Facts
/-  Hand-reviewed expectations on facts extracted from /repo (readerGetString readerGetBytes readerGetUint16 readerGetUint32 readerGetPrepareType). A change in the Go source
    that alters one of these facts makes this module fail to build; the check then searches for a
    failing input (DESIGN §4.1, §5). -/
namespace Pw.Conformance
open Pw

example : Facts.readerGetString = 
  "{ pos := bytes.IndexByte(reader.Msg, 0) if pos == -1 { return \"\", NewMissingNulTerminator() } s := reader.Msg[:pos] reader.Msg = reader.Msg[pos+1:] return *((*string)(unsafe.Pointer(&s))), nil }" := rfl

example : Facts.readerGetBytes = 
  "{ if len(reader.Msg) < n { return nil, NewInsufficientData(len(reader.Msg)) } v := reader.Msg[:n] reader.Msg = reader.Msg[n:] return v, nil }" := rfl

example : Facts.readerGetUint16 = 
  "{ if len(reader.Msg) < 2 { return 0, NewInsufficientData(len(reader.Msg)) } v := binary.BigEndian.Uint16(reader.Msg[:2]) reader.Msg = reader.Msg[2:] return v, nil }" := rfl

example : Facts.readerGetUint32 = 
  "{ if len(reader.Msg) < 4 { return 0, NewInsufficientData(len(reader.Msg)) } v := binary.BigEndian.Uint32(reader.Msg[:4]) reader.Msg = reader.Msg[4:] return v, nil }" := rfl

example : Facts.readerGetPrepareType = 
  "{ v, err := reader.GetBytes(1) if err != nil { return 0, err } return PrepareType(v[0]), nil }" := rfl

end Pw.Conformance
