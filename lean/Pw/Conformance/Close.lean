import Pw.Generated.Facts
/-  Hand-reviewed expectations on facts extracted from /repo (closeOps admitOps consumeSingleOps serveLoopOps closeBody admitBody). A change in the Go source
    that alters one of these facts makes this module fail to build; the check then searches for a
    failing input (DESIGN §4.1, §5). -/
namespace Pw.Conformance
open Pw

example : Facts.closeOps = 
  ["verifPoint", "srv.mu.Lock", "verifPoint", "srv.closing.Load", "srv.closing.Store", "verifPoint", "close", "srv.mu.Unlock", "verifPoint", "srv.wg.Wait", "verifPoint"] := rfl

example : Facts.admitOps = 
  ["verifPoint", "srv.mu.Lock", "srv.mu.Unlock", "verifPoint", "srv.closing.Load", "verifPoint", "srv.wg.Add"] := rfl

example : Facts.consumeSingleOps = 
  ["reader.ReadTypedMsg", "errors.Is", "srv.handleMessageSizeExceeded", "srv.admit", "t.String", "verifPoint", "srv.handleCommand", "verifPoint", "srv.wg.Done"] := rfl

example : Facts.serveLoopOps = 
  ["listener.Addr().String", "listener.Addr", "srv.wg.Add", "srv.wg.Done", "listener.Close", "listener.Accept", "errors.Is", "context.Background", "srv.serve"] := rfl

example : Facts.closeBody = 
  "{ verifPoint(\"close:enter\") srv.mu.Lock() verifPoint(\"close:locked\") if !srv.closing.Load() { srv.closing.Store(true) verifPoint(\"close:stored\") close(srv.closer) } srv.mu.Unlock() verifPoint(\"close:wait\") srv.wg.Wait() verifPoint(\"close:return\") return nil }" := rfl

example : Facts.admitBody = 
  "{ verifPoint(\"admit:enter\") srv.mu.Lock() defer srv.mu.Unlock() verifPoint(\"admit:locked\") if srv.closing.Load() { return false } verifPoint(\"admit:checked\") srv.wg.Add(1) return true }" := rfl

end Pw.Conformance
