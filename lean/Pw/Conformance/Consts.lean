import Pw.Generated.Facts
/-  Hand-reviewed expectations on facts extracted from /repo (msgTypes errFields versions authTypes sslReplies sqlstates severities defaultBufferSizeExpr maxPreparedStatementArgsExpr copySignatureExpr). A change in the Go source
    that alters one of these facts makes this module fail to build; the check then searches for a
    failing input (DESIGN §4.1, §5). -/
namespace Pw.Conformance
open Pw

example : Facts.msgTypes = 
  [("ClientBind", 66), ("ClientClose", 67), ("ClientCopyData", 100), ("ClientCopyDone", 99), ("ClientCopyFail", 102), ("ClientDescribe", 68), ("ClientExecute", 69), ("ClientFlush", 72), ("ClientParse", 80), ("ClientPassword", 112), ("ClientSimpleQuery", 81), ("ClientSync", 83), ("ClientTerminate", 88), ("DescribePortal", 80), ("DescribeStatement", 83), ("ServerAuth", 82), ("ServerBindComplete", 50), ("ServerCloseComplete", 51), ("ServerCommandComplete", 67), ("ServerCopyInResponse", 71), ("ServerDataRow", 68), ("ServerEmptyQuery", 73), ("ServerErrorResponse", 69), ("ServerNoData", 110), ("ServerNoticeResponse", 78), ("ServerParameterDescription", 116), ("ServerParameterStatus", 83), ("ServerParseComplete", 49), ("ServerPortalSuspended", 115), ("ServerReady", 90), ("ServerRowDescription", 84)] := rfl

example : Facts.errFields = 
  [("errFieldConstraintName", 110), ("errFieldDetail", 68), ("errFieldHint", 72), ("errFieldMsgPrimary", 77), ("errFieldSQLState", 67), ("errFieldSeverity", 83), ("errFieldSrcFile", 70), ("errFieldSrcFunction", 82), ("errFieldSrcLine", 76)] := rfl

example : Facts.versions = 
  [("Version30", 196608), ("VersionCancel", 80877102), ("VersionSSLRequest", 80877103), ("VersionGSSENC", 80877104)] := rfl

example : Facts.authTypes = [("authOK", 0), ("authClearTextPassword", 3)] := rfl

example : Facts.sslReplies = [("sslSupported", "[]byte{'S'}"), ("sslUnsupported", "[]byte{'N'}")] := rfl

example : Facts.sqlstates = 
  [("InvalidPassword", "28P01"), ("ProgramLimitExceeded", "54000"), ("DataCorrupted", "XX001"), ("ConnectionDoesNotExist", "08003"), ("InvalidPreparedStatementDefinition", "42P14"), ("Syntax", "42601"), ("Internal", "XX000"), ("Uncategorized", "XXUUU"), ("InvalidCursorName", "34000")] := rfl

example : Facts.severities = [("LevelError", "ERROR"), ("LevelFatal", "FATAL")] := rfl

example : Facts.defaultBufferSizeExpr = "1 << 24" := rfl

example : Facts.maxPreparedStatementArgsExpr = "math.MaxUint16" := rfl

example : Facts.copySignatureExpr = "[]byte(\"PGCOPY\\n\\377\\r\\n\\000\")" := rfl

end Pw.Conformance
