import Pw.Model.Session
/-  Frame facts.  The COPY readers (`copyRead`, `binFill`, `binTake`, …, `binRead`) are functions
    on the input component `Inp` only: by their types they can neither write to the client nor
    log an event nor touch the statement/portal maps.  What remains to be stated is how the
    session-level operations change `out` and `ev`. -/
namespace Pw

theorem send_ok (s s1 : Sess) (m : BMsg) (h : s.send m = (s1, true)) :
    s1.out = m :: s.out ∧ s1.ev = s.ev ∧ s1.inp = s.inp ∧ s1.stmts = s.stmts ∧
    s1.portals = s.portals ∧ s1.discard = s.discard := by
  unfold Sess.send at h
  split at h <;> simp at h <;> subst h <;> simp

theorem send_fail (s s1 : Sess) (m : BMsg) (h : s.send m = (s1, false)) : s1 = s := by
  unfold Sess.send at h
  split at h <;> simp at h
  exact h.symm

end Pw

namespace Pw

/-- a write followed by "go on": the message was appended and nothing else changed -/
theorem send_cont (s s' : Sess) (m : BMsg) (h : afterWrite (s.send m) = .cont s') :
    s'.out = m :: s.out ∧ s'.ev = s.ev ∧ s'.inp = s.inp ∧ s'.stmts = s.stmts ∧
    s'.portals = s.portals ∧ s'.discard = s.discard := by
  cases hs : s.send m with
  | mk s1 ok =>
    rw [hs] at h
    cases ok with
    | false => simp [afterWrite] at h
    | true =>
      simp [afterWrite] at h
      subst h
      exact send_ok s s1 m hs

/-- the failing-message path leaves the name maps alone -/
theorem extendedError_cont (s s' : Sess) (e : Option Err) (h : extendedError s e = .cont s') :
    s'.out = .error (errorBody (flatten e)) :: s.out ∧ s'.ev = s.ev ∧ s'.inp = s.inp ∧
    s'.stmts = s.stmts ∧ s'.portals = s.portals ∧ s'.discard = true := by
  unfold extendedError sendError at h
  exact send_cont _ _ _ h

end Pw
