import Pw.Model.Session
/-  Frame facts.  The COPY readers (`copyRead`, `binFill`, `binTake`, …, `binRead`) are functions
    on the input component `Inp` only: by their types they can neither write to the client nor
    log an event nor touch the statement/portal maps.  What remains to be stated is how the
    session-level operations change `out` and `ev`. -/
namespace Pw

theorem send_ok (s s1 : Sess) (m : BMsg) (h : s.send m = (s1, true)) :
    s1.out = m :: s.out ∧ s1.ev = s.ev ∧ s1.inp = s.inp ∧ s1.stmts = s.stmts ∧
    s1.portals = s.portals ∧ s1.discard = s.discard := by
  unfold Sess.send at h
  split at h <;> simp at h <;> subst h <;> simp

theorem send_fail (s s1 : Sess) (m : BMsg) (h : s.send m = (s1, false)) : s1 = s := by
  unfold Sess.send at h
  split at h <;> simp at h
  exact h.symm

end Pw
