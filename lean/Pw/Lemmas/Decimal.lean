import Pw.Model.Codec
/- decimal text: `strconv.ParseInt` inverts `strconv.FormatInt` -/
namespace Pw

def dstep (acc : Option Nat) (d : UInt8) : Option Nat :=
  match acc with
  | none => none
  | some n => if 48 ≤ d.toNat ∧ d.toNat ≤ 57 then some (n * 10 + (d.toNat - 48)) else none

theorem parseDigits_eq (ds : Bytes) (h : ds ≠ []) : parseDigits ds = ds.foldl dstep (some 0) := by
  cases ds with
  | nil => simp at h
  | cons d r => rfl

theorem natDigits_spec : ∀ (fuel n : Nat), n < fuel →
    (natDigits fuel n).foldl dstep (some 0) = some n ∧ natDigits fuel n ≠ [] ∧
    ∀ b ∈ natDigits fuel n, 48 ≤ b.toNat ∧ b.toNat ≤ 57 := by
  intro fuel
  induction fuel with
  | zero => intro n h; omega
  | succ f ih =>
    intro n h
    unfold natDigits
    by_cases h10 : n < 10
    · simp only [h10, if_true]
      refine ⟨?_, by simp, ?_⟩
      · simp [dstep, UInt8.toNat_ofNat']; omega
      · intro b hb; simp at hb; subst hb; simp [UInt8.toNat_ofNat']; omega
    · simp only [h10, if_false]
      obtain ⟨a, b, c⟩ := ih (n / 10) (by omega)
      refine ⟨?_, by simp, ?_⟩
      · rw [List.foldl_append, a]
        simp [dstep, UInt8.toNat_ofNat']; omega
      · intro x hx
        simp at hx
        rcases hx with hx | hx
        · exact c x hx
        · subst hx; simp [UInt8.toNat_ofNat']; omega

end Pw
namespace Pw
theorem splitSign_digit (x : UInt8) (r : Bytes) (hx : 48 ≤ x.toNat ∧ x.toNat ≤ 57) : splitSign (x :: r) = (false, x :: r) := by
  unfold splitSign
  split
  · rename_i heq; simp at heq; obtain ⟨rfl, _⟩ := heq; simp at hx
  · rename_i heq; simp at heq; obtain ⟨rfl, _⟩ := heq; simp at hx
  · rfl

theorem parseIntText_decInt (i lo hi : Int) (h1 : lo ≤ i) (h2 : i ≤ hi) : parseIntText (decInt i) lo hi = some i := by
  unfold decInt
  by_cases hn : i < 0
  · simp only [hn, if_true]
    obtain ⟨a, b, c⟩ := natDigits_spec (i.natAbs + 1) i.natAbs (by omega)
    have hp : parseDigits (decNat i.natAbs) = some i.natAbs := by
      unfold decNat; rw [parseDigits_eq _ b]; exact a
    have hs : splitSign (45 :: decNat i.natAbs) = (true, decNat i.natAbs) := rfl
    unfold parseIntText
    simp only [hs, hp, signed]
    have : ¬ ((-(i.natAbs : Int)) < lo ∨ (-(i.natAbs : Int)) > hi) := by omega
    simp [this]; omega
  · simp only [hn, if_false]
    obtain ⟨a, b, c⟩ := natDigits_spec (i.toNat + 1) i.toNat (by omega)
    have hp : parseDigits (decNat i.toNat) = some i.toNat := by
      unfold decNat; rw [parseDigits_eq _ b]; exact a
    have hs : splitSign (decNat i.toNat) = (false, decNat i.toNat) := by
      cases hd : decNat i.toNat with
      | nil => unfold decNat at hd; exact absurd hd b
      | cons x r => exact splitSign_digit x r (c x (by unfold decNat at hd; rw [hd]; simp))
    unfold parseIntText
    simp only [hs, hp, signed]
    have : ¬ (((i.toNat : Nat) : Int) < lo ∨ ((i.toNat : Nat) : Int) > hi) := by omega
    simp [this]; omega
end Pw
