import Pw.Model.Bytes
/-  Helper lemmas about the byte-level primitives (round trips of the big-endian codecs,
    NUL-terminated strings). -/
namespace Pw

@[simp] theorem be16_length (n : Nat) : (be16 n).length = 2 := rfl
@[simp] theorem be32_length (n : Nat) : (be32 n).length = 4 := rfl

theorem rd16_be16 (n : Nat) (h : n < 65536) (r : Bytes) : rd16 (be16 n ++ r) = some (n, r) := by
  simp [be16, rd16, UInt8.toNat_ofNat']
  omega

theorem rd32_be32 (n : Nat) (h : n < 4294967296) (r : Bytes) : rd32 (be32 n ++ r) = some (n, r) := by
  simp [be32, rd32, UInt8.toNat_ofNat']
  omega

theorem cstr_append (s : Bytes) (h : nulFree s) (r : Bytes) : cstr (s ++ 0 :: r) = some (s, r) := by
  induction s with
  | nil => simp [cstr]
  | cons b s ih =>
    have hb : b ≠ 0 := h b (by simp)
    have hs : nulFree s := fun x hx => h x (by simp [hx])
    simp [cstr, hb, ih hs]

theorem cstr_append' (s : Bytes) (h : nulFree s) (r : Bytes) : cstr (s ++ [0] ++ r) = some (s, r) := by
  simpa using cstr_append s h r

theorem cstr_append'' (s : Bytes) (h : nulFree s) (r : Bytes) : cstr (s ++ ([0] ++ r)) = some (s, r) := by
  simpa using cstr_append s h r

theorem cstr_nulFree : ∀ (m s r : Bytes), cstr m = some (s, r) → nulFree s := by
  intro m
  induction m with
  | nil => intro s r h; simp [cstr] at h
  | cons b m ih =>
    intro s r h
    unfold cstr at h
    split at h
    · simp at h; rw [h.1]; intro x hx; simp at hx
    · split at h
      · rename_i s' t' heq
        simp at h
        rw [← h.1]
        intro x hx
        simp at hx
        rcases hx with rfl | hx
        · assumption
        · exact ih s' t' heq x hx
      · simp at h

/-- what `cstr` consumed is the string followed by one NUL -/
theorem cstr_sound : ∀ (m s r : Bytes), cstr m = some (s, r) → m = s ++ 0 :: r := by
  intro m
  induction m with
  | nil => intro s r h; simp [cstr] at h
  | cons b m ih =>
    intro s r h
    unfold cstr at h
    split at h
    · rename_i hb; simp at h; simp [h.1, ← h.2, hb]
    · split at h
      · rename_i s' t' heq
        simp at h
        rw [← h.1, ← h.2, ih s' t' heq]
        simp
      · simp at h

theorem nulFree_append {a b : Bytes} (ha : nulFree a) (hb : nulFree b) : nulFree (a ++ b) := by
  intro x hx
  simp at hx
  rcases hx with hx | hx
  · exact ha x hx
  · exact hb x hx

end Pw
