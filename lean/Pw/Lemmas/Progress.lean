import Pw.Lemmas.Frame
/-
  Progress facts about the input side: every reader only consumes items, never changes the
  limit, never turns an ended stream (`tail ≠ wait`) back into a waiting one, and — given enough
  fuel, which the callers always supply — blocks only when the stream is merely waiting.
-/
namespace Pw

/-- `b` is `a` after some reading -/
def InpLe (a b : Inp) : Prop :=
  b.items.length ≤ a.items.length ∧ b.L = a.L ∧ (a.tail ≠ .wait → b.tail ≠ .wait)

theorem InpLe.refl (a : Inp) : InpLe a a := ⟨Nat.le_refl _, rfl, id⟩

theorem InpLe.trans {a b c : Inp} (h1 : InpLe a b) (h2 : InpLe b c) : InpLe a c :=
  ⟨Nat.le_trans h2.1 h1.1, h2.2.1.trans h1.2.1, fun h => h2.2.2 (h1.2.2 h)⟩

theorem InpLe.msg (a : Inp) (m : Bytes) : InpLe a { a with msg := m } := ⟨Nat.le_refl _, rfl, id⟩

inductive NextSpec (s : Inp) : Rd × Inp → Prop where
  | item (it : Item) (s' : Inp) (h1 : s'.items.length + 1 = s.items.length) (h2 : s'.tail = s.tail)
      (h3 : s'.L = s.L) : NextSpec s (.item it, s')
  | blocked (h : s.tail = .wait) : NextSpec s (.blocked, s)
  | rerr (h : s.tail ≠ .wait) : NextSpec s (.rerr, s)

theorem next_spec (s : Inp) : NextSpec s s.next := by
  unfold Inp.next
  split
  · rename_i t b r heq; exact .item _ _ (by simp [heq]) rfl rfl
  · rename_i t sz f r heq; exact .item _ _ (by simp [heq]) rfl rfl
  · cases ht : s.tail with
    | wait => simp only []; exact .blocked ht
    | rerr => simp only []; exact .rerr (by simp [ht])
    | eof m => simp only []; exact .rerr (by simp [ht])

/-- `CopyReader.Read` -/
theorem copyRead_spec : ∀ (fuel : Nat) (s : Inp),
    InpLe s (copyRead fuel s).2 ∧
    (∀ p, (copyRead fuel s).1 = some (.data p) → (copyRead fuel s).2.items.length < s.items.length) ∧
    (s.tail ≠ .wait → s.items.length < fuel → (copyRead fuel s).1 ≠ none) := by
  intro fuel
  induction fuel with
  | zero => intro s; simp [copyRead, InpLe.refl]
  | succ n ih =>
    intro s
    unfold copyRead
    have hn := next_spec s
    rcases hnx : s.next with ⟨rd, s1⟩
    rw [hnx] at hn
    cases hn with
    | blocked ht => simp [InpLe.refl, ht]
    | rerr ht =>
      simp only []
      cases htl : s.tail with
      | wait => exact absurd htl ht
      | rerr => simp [InpLe.refl]
      | eof m =>
        cases m with
        | false => simp [InpLe.refl]
        | true => simp [InpLe, htl]
    | item it s1 h1 h2 h3 =>
      cases it with
      | big t sz full =>
        simp only []
        by_cases hf : full = true
        · simp only [hf, if_true]
          refine ⟨⟨by omega, h3, fun h => by rw [h2]; exact h⟩, by simp, by simp⟩
        · simp only [hf, if_false, Bool.false_eq_true]
          cases htl : s1.tail with
          | wait => simp only []; refine ⟨⟨by omega, h3, fun h => by rw [h2] at htl; exact absurd htl h⟩, by simp, ?_⟩
                    intro h; rw [h2] at htl; exact absurd htl h
          | rerr => simp only []; exact ⟨⟨by omega, h3, fun _ => by simp [htl]⟩, by simp, by simp⟩
          | eof m => simp only []; exact ⟨⟨by simp; omega, h3, fun _ => by simp⟩, by simp, by simp⟩
      | msg t body =>
        simp only []
        by_cases hs : t = ch 'H' ∨ t = ch 'S'
        · simp only [hs, if_true]
          obtain ⟨a, b, c⟩ := ih s1
          refine ⟨InpLe.trans ⟨by omega, h3, fun h => by rw [h2]; exact h⟩ a, ?_, ?_⟩
          · intro p hp; have := b p hp; omega
          · intro ht hl; exact c (by rw [h2]; exact ht) (by omega)
        · simp only [hs, if_false]
          have base : InpLe s s1 := ⟨by omega, h3, fun h => by rw [h2]; exact h⟩
          by_cases hd : t = ch 'd'
          · simp only [hd, if_true]; exact ⟨base, fun _ _ => by omega, by simp⟩
          · simp only [hd, if_false]
            by_cases hc : t = ch 'c'
            · simp only [hc, if_true]; exact ⟨base, by simp, by simp⟩
            · simp only [hc, if_false]
              by_cases hf : t = ch 'f'
              · simp only [hf, if_true]
                split
                · exact ⟨base, by simp, by simp⟩
                · exact ⟨InpLe.trans base (InpLe.msg _ _), by simp, by simp⟩
              · simp only [hf, if_false]; exact ⟨base, by simp, by simp⟩

/-- `BinaryCopyReader.fill` -/
theorem binFill_spec (size : Nat) : ∀ (fuel : Nat) (b : Bin) (s : Inp),
    InpLe s (binFill size fuel b s).2.2 ∧
    (s.tail ≠ .wait → s.items.length < fuel → ∀ b' s', binFill size fuel b s ≠ (.blocked, b', s')) := by
  intro fuel
  induction fuel with
  | zero => intro b s; simp [binFill, InpLe.refl]
  | succ n ih =>
    intro b s
    unfold binFill
    by_cases h1 : b.pending.length ≥ size
    · simp [h1, InpLe.refl]
    · simp only [h1, if_false]
      by_cases h2 : b.done = true
      · simp [h2, InpLe.refl]
      · simp only [h2, if_false, Bool.false_eq_true]
        obtain ⟨a, bb, c⟩ := copyRead_spec (s.items.length + 1) s
        rcases hc : copyRead (s.items.length + 1) s with ⟨r, s1⟩
        rw [hc] at a bb c
        simp only at a bb c
        cases r with
        | none => simp only []; exact ⟨a, fun ht _ => absurd rfl (c ht (by omega))⟩
        | some cr =>
          cases cr with
          | eof => simp only []; exact ⟨a, by simp⟩
          | err e => simp only []; exact ⟨a, by simp⟩
          | data p =>
            simp only []
            have hlt := bb p rfl
            refine ⟨InpLe.trans (InpLe.trans a (InpLe.msg s1 [])) (ih _ _).1, ?_⟩
            intro ht hl
            exact (ih _ _).2 (a.2.2 ht) (by simp; omega)

/-- a reader step on `(Bin, Inp)`: only consumes, and with an ended stream never blocks -/
def Good {R : Type} (blocked : R → Prop) (f : Bin → Inp → R × Bin × Inp) : Prop :=
  ∀ b s, InpLe s (f b s).2.2 ∧ (s.tail ≠ .wait → ¬ blocked (f b s).1)

theorem binFill_good (size : Nat) (b : Bin) (s : Inp) :
    InpLe s (binFill size (binFuel s) b s).2.2 ∧
    (s.tail ≠ .wait → ∀ b' s', binFill size (binFuel s) b s ≠ (.blocked, b', s')) := by
  obtain ⟨a, c⟩ := binFill_spec size (binFuel s) b s
  exact ⟨a, fun ht => c ht (by unfold binFuel; omega)⟩

theorem binTake_good (size : Nat) : Good (fun r => r = TakeRes.blocked) (binTake size) := by
  intro b s
  obtain ⟨a, c⟩ := binFill_good size b s
  unfold binTake
  rcases hf : binFill size (binFuel s) b s with ⟨r, b1, s1⟩
  rw [hf] at a c
  cases r with
  | ok => exact ⟨a, by simp⟩
  | eof => exact ⟨a, by simp⟩
  | err e => exact ⟨a, by simp⟩
  | blocked => exact ⟨a, fun ht => absurd rfl (c ht b1 s1)⟩

theorem binTakeLength_good : Good (fun r => r = LenRes.blocked) binTakeLength := by
  intro b s
  obtain ⟨a, c⟩ := binTake_good 4 b s
  unfold binTakeLength
  rcases hf : binTake 4 b s with ⟨r, b1, s1⟩
  rw [hf] at a c
  cases r with
  | ok v =>
    simp only []
    split
    · split <;> exact ⟨a, by simp⟩
    · exact ⟨a, by simp⟩
  | err e => exact ⟨a, by simp⟩
  | blocked => exact ⟨a, fun ht => absurd rfl (c ht)⟩

theorem binHeaderRest_good : Good (fun r => r = StepRes.blocked) binHeaderRest := by
  intro b s
  obtain ⟨a, c⟩ := binTake_good (copySignature.length + 4) b s
  unfold binHeaderRest
  rcases hf : binTake (copySignature.length + 4) b s with ⟨r, b1, s1⟩
  rw [hf] at a c
  cases r with
  | blocked => exact ⟨a, fun ht => absurd rfl (c ht)⟩
  | err e => exact ⟨a, by simp⟩
  | ok v =>
    simp only []
    obtain ⟨a2, c2⟩ := binTakeLength_good b1 s1
    rcases hl : binTakeLength b1 s1 with ⟨r2, b2, s2⟩
    rw [hl] at a2 c2
    cases r2 with
    | blocked => exact ⟨InpLe.trans a a2, fun ht => absurd rfl (c2 (a.2.2 ht))⟩
    | err e => exact ⟨InpLe.trans a a2, by simp⟩
    | ok ext =>
      simp only []
      split
      · exact ⟨InpLe.trans a a2, by simp⟩
      · obtain ⟨a3, c3⟩ := binTake_good ext b2 s2
        rcases ht3 : binTake ext b2 s2 with ⟨r3, b3, s3⟩
        rw [ht3] at a3 c3
        cases r3 with
        | blocked => exact ⟨InpLe.trans (InpLe.trans a a2) a3, fun ht => absurd rfl (c3 (a2.2.2 (a.2.2 ht)))⟩
        | err e => exact ⟨InpLe.trans (InpLe.trans a a2) a3, by simp⟩
        | ok v => exact ⟨InpLe.trans (InpLe.trans a a2) a3, by simp⟩

theorem binHeaderCheck_good : Good (fun r => r = StepRes.blocked) binHeaderCheck := by
  intro b s
  unfold binHeaderCheck
  split
  · exact ⟨InpLe.refl s, by simp⟩
  · exact binHeaderRest_good b s

theorem binSkipHeader_good : Good (fun r => r = StepRes.blocked) binSkipHeader := by
  intro b s
  obtain ⟨a, c⟩ := binFill_good copySignature.length b s
  unfold binSkipHeader
  rcases hf : binFill copySignature.length (binFuel s) b s with ⟨r, b1, s1⟩
  rw [hf] at a c
  cases r with
  | blocked => exact ⟨a, fun ht => absurd rfl (c ht b1 s1)⟩
  | err e => exact ⟨a, by simp⟩
  | eof =>
    obtain ⟨a2, c2⟩ := binHeaderCheck_good b1 s1
    exact ⟨InpLe.trans a a2, fun ht => c2 (a.2.2 ht)⟩
  | ok =>
    obtain ⟨a2, c2⟩ := binHeaderCheck_good b1 s1
    exact ⟨InpLe.trans a a2, fun ht => c2 (a.2.2 ht)⟩

theorem binFields_good : ∀ (oids : List Nat), Good (fun r => r = FieldsRes.blocked) (binFields oids) := by
  intro oids
  induction oids with
  | nil => intro b s; simp [binFields, InpLe.refl]
  | cons oid oids ih =>
    intro b s
    unfold binFields
    obtain ⟨a, c⟩ := binTakeLength_good b s
    rcases hl : binTakeLength b s with ⟨r, b1, s1⟩
    rw [hl] at a c
    cases r with
    | blocked => exact ⟨a, fun ht => absurd rfl (c ht)⟩
    | err e => exact ⟨a, by simp⟩
    | ok len =>
      simp only []
      split
      · obtain ⟨a2, c2⟩ := ih b1 s1
        rcases hr : binFields oids b1 s1 with ⟨r2, b2, s2⟩
        rw [hr] at a2 c2
        cases r2 with
        | ok vs => exact ⟨InpLe.trans a a2, by simp⟩
        | err e => exact ⟨InpLe.trans a a2, by simp⟩
        | unsupported => exact ⟨InpLe.trans a a2, by simp⟩
        | blocked => exact ⟨InpLe.trans a a2, fun ht => absurd rfl (c2 (a.2.2 ht))⟩
      · obtain ⟨a3, c3⟩ := binTake_good len b1 s1
        rcases ht3 : binTake len b1 s1 with ⟨r3, b3, s3⟩
        rw [ht3] at a3 c3
        cases r3 with
        | blocked => exact ⟨InpLe.trans a a3, fun ht => absurd rfl (c3 (a.2.2 ht))⟩
        | err e => exact ⟨InpLe.trans a a3, by simp⟩
        | ok v =>
          simp only []
          split
          · exact ⟨InpLe.trans a a3, by simp⟩
          · exact ⟨InpLe.trans a a3, by simp⟩
          · obtain ⟨a2, c2⟩ := ih b3 s3
            rcases hr : binFields oids b3 s3 with ⟨r2, b2, s2⟩
            rw [hr] at a2 c2
            have hh := InpLe.trans (InpLe.trans a a3) a2
            cases r2 with
            | ok vs => exact ⟨hh, by simp⟩
            | err e => exact ⟨hh, by simp⟩
            | unsupported => exact ⟨hh, by simp⟩
            | blocked => exact ⟨hh, fun ht => absurd rfl (c2 (a3.2.2 (a.2.2 ht)))⟩

theorem binRowBody_good : Good (fun r => r = (none : Option BinRes)) binRowBody := by
  intro b s
  unfold binRowBody
  obtain ⟨a, c⟩ := binTake_good 2 b s
  rcases ht : binTake 2 b s with ⟨r, b1, s1⟩
  rw [ht] at a c
  cases r with
  | blocked => exact ⟨a, fun h => absurd rfl (c h)⟩
  | err e => exact ⟨a, by simp⟩
  | ok v =>
    simp only []
    split
    · obtain ⟨a2, c2⟩ := binFill_good 1 b1 s1
      rcases hf : binFill 1 (binFuel s1) b1 s1 with ⟨r2, b2, s2⟩
      rw [hf] at a2 c2
      cases r2 with
      | blocked => exact ⟨InpLe.trans a a2, fun h => absurd rfl (c2 (a.2.2 h) b2 s2)⟩
      | eof => exact ⟨InpLe.trans a a2, by simp⟩
      | err e => exact ⟨InpLe.trans a a2, by simp⟩
      | ok => exact ⟨InpLe.trans a a2, by simp⟩
    · split
      · exact ⟨a, by simp⟩
      · obtain ⟨a2, c2⟩ := binFields_good b1.oids b1 s1
        rcases hf : binFields b1.oids b1 s1 with ⟨r2, b2, s2⟩
        rw [hf] at a2 c2
        cases r2 with
        | blocked => exact ⟨InpLe.trans a a2, fun h => absurd rfl (c2 (a.2.2 h))⟩
        | unsupported => exact ⟨InpLe.trans a ⟨a2.1, a2.2.1, a2.2.2⟩, by simp⟩
        | err e => exact ⟨InpLe.trans a a2, by simp⟩
        | ok vals => exact ⟨InpLe.trans a a2, by simp⟩

theorem binRowStart_good : Good (fun r => r = (none : Option BinRes)) binRowStart := by
  intro b s
  unfold binRowStart
  obtain ⟨a, c⟩ := binFill_good 2 b s
  rcases hf : binFill 2 (binFuel s) b s with ⟨r, b1, s1⟩
  rw [hf] at a c
  cases r with
  | blocked => exact ⟨a, fun h => absurd rfl (c h b1 s1)⟩
  | err e => exact ⟨a, by simp⟩
  | eof =>
    simp only []
    split
    · exact ⟨a, by simp⟩
    · obtain ⟨a2, c2⟩ := binRowBody_good b1 s1
      exact ⟨InpLe.trans a a2, fun h => c2 (a.2.2 h)⟩
  | ok =>
    obtain ⟨a2, c2⟩ := binRowBody_good b1 s1
    exact ⟨InpLe.trans a a2, fun h => c2 (a.2.2 h)⟩

theorem binRead_good : Good (fun r => r = (none : Option BinRes)) binRead := by
  intro b s
  unfold binRead
  by_cases hs : b.started = true
  · simp only [hs, if_true]
    exact binRowStart_good b s
  · simp only [hs, if_false, Bool.false_eq_true]
    obtain ⟨a, c⟩ := binSkipHeader_good { b with started := true } s
    rcases hh : binSkipHeader { b with started := true } s with ⟨r, b1, s1⟩
    rw [hh] at a c
    cases r with
    | blocked => exact ⟨a, fun h => absurd rfl (c h)⟩
    | err e => exact ⟨a, by simp⟩
    | ok =>
      obtain ⟨a2, c2⟩ := binRowStart_good b1 s1
      exact ⟨InpLe.trans a a2, fun h => c2 (a.2.2 h)⟩

/-! ### session level -/

theorem send_inp (s : Sess) (m : BMsg) : (s.send m).1.inp = s.inp := by
  unfold Sess.send
  split <;> rfl

theorem dwRow_inp (d : DW) (s : Sess) (vals : List Val) : InpLe s.inp (dwRow d s vals).2.2.inp := by
  unfold dwRow
  split
  · exact InpLe.refl _
  · split
    · exact InpLe.refl _
    · split
      · exact ⟨Nat.le_refl _, rfl, id⟩
      · exact InpLe.refl _
      · exact InpLe.refl _
      · rename_i fields _
        have := send_inp s (.dataRow fields)
        split
        · rename_i s' heq; rw [heq] at this; simp only at this ⊢; rw [this]; exact InpLe.refl _
        · rename_i s' heq; rw [heq] at this; simp only at this ⊢; rw [this]; exact InpLe.refl _

theorem dwComplete_inp (d : DW) (s : Sess) (tag : Bytes) : (dwComplete d s tag).2.2.inp = s.inp := by
  unfold dwComplete
  split
  · rfl
  · dsimp only
    have := send_inp s (.complete tag)
    split
    · rename_i s' heq; rw [heq] at this; exact this
    · rename_i s' heq; rw [heq] at this; exact this

theorem dwCopyIn_inp (d : DW) (s : Sess) (fmt : Nat) : InpLe s.inp (dwCopyIn d s fmt).2.2.inp := by
  unfold dwCopyIn
  split
  · exact InpLe.refl _
  · split
    · exact InpLe.refl _
    · have := send_inp s (.copyIn (fmt % 256) d.cols.length)
      split
      · rename_i s' heq; rw [heq] at this; simp only at this ⊢
        simp only [Sess.setMsg, this]; exact InpLe.msg _ _
      · rename_i s' heq; rw [heq] at this; simp only at this ⊢; rw [this]; exact InpLe.refl _

/-- every handler program only consumes input, and blocks only on a merely waiting stream -/
theorem runProg_progress : ∀ (p : Prog) (d : DW) (s : Sess),
    InpLe s.inp (runProg p d s).2.inp ∧ (s.inp.tail ≠ .wait → (runProg p d s).1 ≠ .blocked) := by
  intro p
  induction p with
  | ret e => intro d s; simp [runProg, InpLe.refl]
  | note n k ih => intro d s; simp only [runProg]; exact ih d _
  | row vals k ih =>
    intro d s
    simp only [runProg]
    have hi := dwRow_inp d s vals
    rcases hr : dwRow d s vals with ⟨ro, d', s'⟩
    rw [hr] at hi
    cases ro with
    | panic m => exact ⟨hi, by simp⟩
    | res r =>
      simp only []
      obtain ⟨a, c⟩ := ih r d' (s'.log (.rowRes r))
      exact ⟨InpLe.trans hi a, fun h => c (hi.2.2 h)⟩
  | complete tag k ih =>
    intro d s
    simp only [runProg]
    have hi := dwComplete_inp d s tag
    rcases hr : dwComplete d s tag with ⟨r, d', s'⟩
    rw [hr] at hi
    simp only at hi
    simp only []
    obtain ⟨a, c⟩ := ih r d' (s'.log (.completeRes r))
    have h1 : (s'.log (.completeRes r)).inp = s.inp := by simp [Sess.log, hi]
    rw [h1] at a c
    exact ⟨a, c⟩
  | empty k ih =>
    intro d s
    simp only [runProg]
    rcases hr : dwEmpty d with ⟨r, d'⟩
    exact ih r d' _
  | written k ih => intro d s; simp only [runProg]; exact ih _ d _
  | copyIn fmt k ih =>
    intro d s
    simp only [runProg]
    have hi := dwCopyIn_inp d s fmt
    rcases hr : dwCopyIn d s fmt with ⟨r, d', s'⟩
    rw [hr] at hi
    obtain ⟨a, c⟩ := ih r d' (s'.log (.copyInRes r))
    exact ⟨InpLe.trans hi a, fun h => c (hi.2.2 h)⟩
  | copyRead k ih =>
    intro d s
    simp only [runProg]
    split
    · exact ih _ d _
    · obtain ⟨a, _, c⟩ := copyRead_spec (s.inp.items.length + 1) s.inp
      split
      · rename_i i heq
        rw [heq] at a c
        exact ⟨a, fun h => absurd rfl (c h (by omega))⟩
      · rename_i r i heq
        rw [heq] at a
        obtain ⟨a2, c2⟩ := ih r d ({ s with inp := i }.log (.copyRes r))
        exact ⟨InpLe.trans a a2, fun h => c2 (a.2.2 h)⟩
  | binNew k ih =>
    intro d s
    simp only [runProg]
    split
    · exact ih _ d _
    · split
      · exact ih _ _ _
      · obtain ⟨a, c⟩ := ih none { d with bin := some { oids := d.cols.map (·.oid) } } (s.markUnsup.log (.binNewRes none))
        exact ⟨a, c⟩
  | binRead k ih =>
    intro d s
    simp only [runProg]
    split
    · exact ih _ d _
    · rename_i b _
      obtain ⟨a, c⟩ := binRead_good b s.inp
      split
      · rename_i b' i heq
        rw [heq] at a c
        exact ⟨a, fun h => absurd rfl (c h)⟩
      · rename_i r b' i heq
        rw [heq] at a
        obtain ⟨a2, c2⟩ := ih r { d with bin := some b' } ({ s with inp := i }.log (.binRes r))
        exact ⟨InpLe.trans a a2, fun h => c2 (a.2.2 h)⟩

end Pw
