import Pw.Lemmas.Decimal
import Pw.Lemmas.Progress
import Pw.Props.C17
/-
  Representability (`Rep`): what the wire format can carry.  Handler- and configuration-supplied
  strings are NUL-free, counts fit their 16-bit fields, encoded values fit a field.  Under `Rep`
  every message the model emits is well-formed (`BMsg.WF`), Props/C02.
-/
namespace Pw
open Pw.Spec

theorem nulFree_decNat (n : Nat) : nulFree (decNat n) := by
  intro b hb
  have := (natDigits_spec (n + 1) n (by omega)).2.2 b hb
  intro h; subst h; simp at this

theorem nulFree_decInt (i : Int) : nulFree (decInt i) := by
  unfold decInt
  split
  · intro b hb
    simp at hb
    rcases hb with rfl | hb
    · decide
    · exact nulFree_decNat _ b hb
  · exact nulFree_decNat _

theorem nulFree_nil : nulFree [] := by intro b hb; simp at hb

/-- errors handed back by library calls: NUL-free when their text is known -/
def OpErrNF : OpErr → Prop
  | .lib e => errNulFree e
  | _ => True

def OptNF (r : Option OpErr) : Prop := ∀ e, r = some e → OpErrNF e

def CopyResNF : CopyRes → Prop
  | .err e => OpErrNF e
  | _ => True

def BinResNF : BinRes → Prop
  | .err e => OpErrNF e
  | _ => True

syntax "nf" : tactic
macro_rules
  | `(tactic| nf) => `(tactic| first
    | exact nulFree_decNat _ | exact nulFree_decInt _ | exact nulFree_nil | assumption
    | decide
    | (apply nulFree_append <;> nf))

theorem errUnexpectedEOF_nf : errNulFree errUnexpectedEOF := by simp only [errUnexpectedEOF, errNulFree]; decide
theorem errRead_nf : errNulFree errRead := by simp only [errRead, errNulFree]; decide
theorem errWrite_nf : errNulFree errWrite := by simp only [errWrite, errNulFree]; decide
theorem errMissingNul_nf : errNulFree errMissingNul := by simp only [errMissingNul, mkErr, errNulFree]; decide
theorem errClosedWriter_nf : errNulFree errClosedWriter := by simp only [errClosedWriter, errNulFree]; decide
theorem errDataWritten_nf : errNulFree errDataWritten := by simp only [errDataWritten, errNulFree]; decide
theorem errNoColumns_nf : errNulFree errNoColumns := by simp only [errNoColumns, errNulFree]; decide
theorem errInvalidPassword_nf : errNulFree errInvalidPassword := by simp only [errInvalidPassword, errNulFree]; decide
theorem errUndefinedStatement_nf : errNulFree errUndefinedStatement := by
  simp only [errUndefinedStatement, mkErr, errNulFree]; decide
theorem errMultipleCommands_nf : errNulFree errMultipleCommands := by
  simp only [errMultipleCommands, mkErr, errNulFree]; decide

theorem errSizeExceeded_nf (L : Nat) (size : Int) : errNulFree (errSizeExceeded L size) := by
  simp only [errSizeExceeded, errNulFree]
  refine ⟨by decide, by decide, ?_⟩
  nf

theorem errUnimplemented_nf (t : UInt8) : errNulFree (errUnimplemented t) := by
  simp only [errUnimplemented, errNulFree]
  refine ⟨by decide, by decide, ?_⟩
  nf

theorem errCopyFailed_nf (desc : Bytes) (h : nulFree desc) : errNulFree (errCopyFailed desc) := by
  simp only [errCopyFailed, errNulFree]
  refine ⟨by decide, by decide, ?_⟩
  nf

theorem errUnknownStatement_nf (n : Bytes) (h : nulFree n) : errNulFree (errUnknownStatement n) := by
  simp only [errUnknownStatement, errNulFree]
  refine ⟨by decide, by decide, ?_⟩
  nf

theorem errUnknownPortal_nf (n : Bytes) (h : nulFree n) : errNulFree (errUnknownPortal n) := by
  simp only [errUnknownPortal, errNulFree]
  refine ⟨by decide, by decide, ?_⟩
  nf

theorem errArity_nf (a b : Nat) : errNulFree (errArity a b) := by
  simp only [errArity, errNulFree]; nf

theorem errLengthExceeds_nf (a b : Nat) : errNulFree (errLengthExceeds a b) := by
  simp only [errLengthExceeds, errNulFree]; nf

theorem errFieldCount_nf (a b : Nat) : errNulFree (errFieldCount a b) := by
  simp only [errFieldCount, errNulFree]; nf

theorem panicText_nf (f : Nat) : nulFree (panicText f) := by
  unfold panicText; nf

end Pw

namespace Pw
open Pw.Spec

theorem copyRead_nf : ∀ (fuel : Nat) (s : Inp) (r : CopyRes), (copyRead fuel s).1 = some r → CopyResNF r := by
  intro fuel
  induction fuel with
  | zero => intro s r h; simp [copyRead] at h
  | succ n ih =>
    intro s r h
    unfold copyRead at h
    split at h
    · simp at h
    · split at h <;> (simp at h; subst h; simp only [CopyResNF, OpErrNF])
      · exact errUnexpectedEOF_nf
      · exact errRead_nf
    · split at h
      · simp at h; subst h; exact errSizeExceeded_nf _ _
      · split at h
        · simp at h
        · simp at h; subst h; exact errUnexpectedEOF_nf
        · simp at h; subst h; exact errRead_nf
    · split at h
      · exact ih _ r h
      · split at h
        · simp at h; subst h; trivial
        · split at h
          · simp at h; subst h; trivial
          · split at h
            · split at h
              · simp at h; subst h; exact errMissingNul_nf
              · rename_i desc rest heq
                simp at h; subst h
                exact errCopyFailed_nf desc (cstr_nulFree _ _ _ heq)
            · simp at h; subst h; exact errUnimplemented_nf _

theorem binFill_nf (size : Nat) : ∀ (fuel : Nat) (b : Bin) (s : Inp) (e : OpErr) (b' : Bin) (s' : Inp),
    binFill size fuel b s = (.err e, b', s') → OpErrNF e := by
  intro fuel
  induction fuel with
  | zero => intro b s e b' s' h; simp [binFill] at h
  | succ n ih =>
    intro b s e b' s' h
    unfold binFill at h
    split at h
    · simp at h
    · split at h
      · simp at h
      · have hc := copyRead_nf (s.items.length + 1) s
        split at h
        · simp at h
        · simp at h
        · rename_i e1 s1 heq
          simp at h
          obtain ⟨rfl, _, _⟩ := h
          have := hc (.err e1) (by rw [heq])
          exact this
        · exact ih _ _ e b' s' h

theorem binTake_nf (size : Nat) (b : Bin) (s : Inp) (e : OpErr) (b' : Bin) (s' : Inp)
    (h : binTake size b s = (.err e, b', s')) : OpErrNF e := by
  unfold binTake at h
  split at h
  · simp at h
  · simp at h; obtain ⟨rfl, _, _⟩ := h; exact errUnexpectedEOF_nf
  · rename_i e1 b1 s1 heq
    simp at h; obtain ⟨rfl, _, _⟩ := h
    exact binFill_nf size _ _ _ _ _ _ heq
  · simp at h

theorem binTakeLength_nf (b : Bin) (s : Inp) (e : OpErr) (b' : Bin) (s' : Inp)
    (h : binTakeLength b s = (.err e, b', s')) : OpErrNF e := by
  unfold binTakeLength at h
  split at h
  · split at h
    · split at h
      · simp at h; obtain ⟨rfl, _, _⟩ := h; exact errLengthExceeds_nf _ _
      · simp at h
    · simp at h; obtain ⟨rfl, _, _⟩ := h; exact errUnexpectedEOF_nf
  · rename_i e1 b1 s1 heq
    simp at h; obtain ⟨rfl, _, _⟩ := h
    exact binTake_nf 4 _ _ _ _ _ heq
  · simp at h

theorem wrapOp_nf (pre : String) (e : OpErr) (hp : nulFree (ascii pre)) (h : OpErrNF e) : OpErrNF (wrapOp pre e) := by
  cases e with
  | lib x => simp only [wrapOp, OpErrNF, errNulFree]; exact ⟨hp, nulFree_nil, h⟩
  | pgxEnc => trivial
  | pgxDec => trivial

theorem binHeaderRest_nf (b : Bin) (s : Inp) (e : OpErr) (b' : Bin) (s' : Inp)
    (h : binHeaderRest b s = (.err e, b', s')) : OpErrNF e := by
  unfold binHeaderRest at h
  split at h
  · simp at h
  · rename_i e1 b1 s1 heq
    simp at h; obtain ⟨rfl, _, _⟩ := h
    exact binTake_nf _ _ _ _ _ _ heq
  · split at h
    · simp at h
    · rename_i e1 b1 s1 heq
      simp at h; obtain ⟨rfl, _, _⟩ := h
      exact binTakeLength_nf _ _ _ _ _ heq
    · split at h
      · simp at h; obtain ⟨rfl, _, _⟩ := h
        simp only [OpErrNF, errNulFree]; decide
      · split at h
        · simp at h
        · rename_i e1 b1 s1 heq
          simp at h; obtain ⟨rfl, _, _⟩ := h
          exact binTake_nf _ _ _ _ _ _ heq
        · simp at h

theorem binHeaderCheck_nf (b : Bin) (s : Inp) (e : OpErr) (b' : Bin) (s' : Inp)
    (h : binHeaderCheck b s = (.err e, b', s')) : OpErrNF e := by
  unfold binHeaderCheck at h
  split at h
  · simp at h
  · exact binHeaderRest_nf _ _ _ _ _ h

theorem binSkipHeader_nf (b : Bin) (s : Inp) (e : OpErr) (b' : Bin) (s' : Inp)
    (h : binSkipHeader b s = (.err e, b', s')) : OpErrNF e := by
  unfold binSkipHeader at h
  split at h
  · simp at h
  · rename_i e1 b1 s1 heq
    simp at h; obtain ⟨rfl, _, _⟩ := h
    exact binFill_nf _ _ _ _ _ _ _ heq
  · exact binHeaderCheck_nf _ _ _ _ _ h
  · exact binHeaderCheck_nf _ _ _ _ _ h

theorem binFields_nf : ∀ (oids : List Nat) (b : Bin) (s : Inp) (e : OpErr) (b' : Bin) (s' : Inp),
    binFields oids b s = (.err e, b', s') → OpErrNF e := by
  intro oids
  induction oids with
  | nil => intro b s e b' s' h; simp [binFields] at h
  | cons oid oids ih =>
    intro b s e b' s' h
    unfold binFields at h
    split at h
    · simp at h
    · rename_i e1 b1 s1 heq
      simp at h; obtain ⟨rfl, _, _⟩ := h
      exact wrapOp_nf _ _ (by decide) (binTakeLength_nf _ _ _ _ _ heq)
    · split at h
      · split at h
        · simp at h
        · rename_i r hne
          rcases hr : binFields oids ‹Bin› ‹Inp› with ⟨r2, b2, s2⟩
          rw [hr] at h
          cases r2 with
          | ok vs => exact (hne vs b2 s2 (by rw [hr])).elim
          | err e2 => simp at h; obtain ⟨rfl, _, _⟩ := h; exact ih _ _ _ _ _ hr
          | blocked => simp at h
          | unsupported => simp at h
      · split at h
        · simp at h
        · rename_i e1 b1 s1 heq
          simp at h; obtain ⟨rfl, _, _⟩ := h
          exact wrapOp_nf _ _ (by decide) (binTake_nf _ _ _ _ _ _ heq)
        · split at h
          · simp at h
          · simp at h; obtain ⟨rfl, _, _⟩ := h; trivial
          · split at h
            · simp at h
            · rename_i r hne
              rcases hr : binFields oids ‹Bin› ‹Inp› with ⟨r2, b2, s2⟩
              rw [hr] at h
              cases r2 with
              | ok vs => exact (hne vs b2 s2 (by rw [hr])).elim
              | err e2 => simp at h; obtain ⟨rfl, _, _⟩ := h; exact ih _ _ _ _ _ hr
              | blocked => simp at h
              | unsupported => simp at h

end Pw

namespace Pw
open Pw.Spec

theorem binRowBody_nf (b : Bin) (s : Inp) (r : BinRes) (b' : Bin) (s' : Inp)
    (h : binRowBody b s = (some r, b', s')) : BinResNF r := by
  unfold binRowBody at h
  split at h
  · simp at h
  · rename_i e1 b1 s1 heq
    simp at h; obtain ⟨rfl, _, _⟩ := h
    exact binTake_nf _ _ _ _ _ _ heq
  · split at h
    · split at h
      · simp at h
      · simp at h; obtain ⟨rfl, _, _⟩ := h; trivial
      · rename_i e1 b1 s1 heq
        simp at h; obtain ⟨rfl, _, _⟩ := h
        exact binFill_nf _ _ _ _ _ _ _ heq
      · simp at h; obtain ⟨rfl, _, _⟩ := h
        simp only [BinResNF, OpErrNF, errNulFree]; decide
    · split at h
      · simp at h; obtain ⟨rfl, _, _⟩ := h; exact errFieldCount_nf _ _
      · split at h
        · simp at h
        · simp at h; obtain ⟨rfl, _, _⟩ := h; trivial
        · rename_i e1 b1 s1 heq
          simp at h; obtain ⟨rfl, _, _⟩ := h
          exact binFields_nf _ _ _ _ _ _ heq
        · simp at h; obtain ⟨rfl, _, _⟩ := h; trivial

theorem binRowStart_nf (b : Bin) (s : Inp) (r : BinRes) (b' : Bin) (s' : Inp)
    (h : binRowStart b s = (some r, b', s')) : BinResNF r := by
  unfold binRowStart at h
  split at h
  · simp at h
  · rename_i e1 b1 s1 heq
    simp at h; obtain ⟨rfl, _, _⟩ := h
    exact binFill_nf _ _ _ _ _ _ _ heq
  · split at h
    · simp at h; obtain ⟨rfl, _, _⟩ := h; trivial
    · exact binRowBody_nf _ _ _ _ _ h
  · exact binRowBody_nf _ _ _ _ _ h

theorem binRead_nf (b : Bin) (s : Inp) (r : BinRes) (b' : Bin) (s' : Inp)
    (h : binRead b s = (some r, b', s')) : BinResNF r := by
  unfold binRead at h
  dsimp only at h
  split at h
  · simp at h
  · rename_i e1 b1 s1 heq
    simp at h; obtain ⟨rfl, _, _⟩ := h
    split at heq
    · simp at heq
    · exact wrapOp_nf _ _ (by decide) (binSkipHeader_nf _ _ _ _ _ heq)
  · exact binRowStart_nf _ _ _ _ _ h

theorem dwRow_nf (d : DW) (s : Sess) (vals : List Val) (e : OpErr) (d' : DW) (s' : Sess)
    (h : dwRow d s vals = (.res (some e), d', s')) : OpErrNF e := by
  unfold dwRow at h
  split at h
  · simp at h; obtain ⟨rfl, _, _⟩ := h; exact errClosedWriter_nf
  · split at h
    · simp at h; obtain ⟨rfl, _, _⟩ := h; exact errArity_nf _ _
    · split at h
      · simp at h; obtain ⟨rfl, _, _⟩ := h; trivial
      · simp at h; obtain ⟨rfl, _, _⟩ := h; trivial
      · simp at h
      · split at h
        · simp at h
        · simp at h; obtain ⟨rfl, _, _⟩ := h; exact errWrite_nf

theorem dwComplete_nf (d : DW) (s : Sess) (tag : Bytes) : OptNF (dwComplete d s tag).1 := by
  intro e h
  unfold dwComplete at h
  split at h
  · simp at h; subst h; exact errClosedWriter_nf
  · dsimp only at h
    split at h
    · simp at h
    · simp at h; subst h; exact errWrite_nf

theorem dwEmpty_nf (d : DW) : OptNF (dwEmpty d).1 := by
  intro e h
  unfold dwEmpty at h
  split at h
  · simp at h; subst h; exact errClosedWriter_nf
  · split at h
    · simp at h; subst h; exact errDataWritten_nf
    · simp at h

theorem dwCopyIn_nf (d : DW) (s : Sess) (fmt : Nat) : OptNF (dwCopyIn d s fmt).1 := by
  intro e h
  unfold dwCopyIn at h
  split at h
  · simp at h; subst h; exact errClosedWriter_nf
  · split at h
    · simp at h; subst h; exact errNoColumns_nf
    · split at h
      · simp at h
      · simp at h; subst h; exact errWrite_nf

theorem errNoReader_nf : OpErrNF errNoReader := by
  simp only [errNoReader, OpErrNF, errNulFree]; decide

end Pw

namespace Pw
open Pw.Spec

/-- a value whose encodings fit a DataRow field -/
def ValRep (v : Val) : Prop := ∀ o f b, encodeVal o f v = .ok (some b) → b.length < 2147483648

def ColsRep (cols : List ColDesc) : Prop := cols.length < 65536 ∧ ∀ c ∈ cols, c.WF

/-- a handler program whose own contributions are representable: tags and returned errors are
    NUL-free, row values fit a field — whatever (representable) results the library hands back -/
inductive ProgRep : Prog → Prop where
  | ret (e : Option Err) (h : ∀ x, e = some x → errNulFree x) : ProgRep (.ret e)
  | note (n : Bytes) (k : Prog) (h : ProgRep k) : ProgRep (.note n k)
  | row (vals : List Val) (k : Option OpErr → Prog) (hv : ∀ v ∈ vals, ValRep v)
      (h : ∀ r, OptNF r → ProgRep (k r)) : ProgRep (.row vals k)
  | complete (tag : Bytes) (k : Option OpErr → Prog) (ht : nulFree tag)
      (h : ∀ r, OptNF r → ProgRep (k r)) : ProgRep (.complete tag k)
  | empty (k : Option OpErr → Prog) (h : ∀ r, OptNF r → ProgRep (k r)) : ProgRep (.empty k)
  | written (k : Nat → Prog) (h : ∀ n, ProgRep (k n)) : ProgRep (.written k)
  | copyIn (fmt : Nat) (k : Option OpErr → Prog) (h : ∀ r, OptNF r → ProgRep (k r)) : ProgRep (.copyIn fmt k)
  | copyRead (k : CopyRes → Prog) (h : ∀ r, CopyResNF r → ProgRep (k r)) : ProgRep (.copyRead k)
  | binNew (k : Option OpErr → Prog) (h : ∀ r, OptNF r → ProgRep (k r)) : ProgRep (.binNew k)
  | binRead (k : BinRes → Prog) (h : ∀ r, BinResNF r → ProgRep (k r)) : ProgRep (.binRead k)

def OutWF (s : Sess) : Prop := ∀ m ∈ s.out, m.WF

theorem OutWF.send (s : Sess) (m : BMsg) (h : OutWF s) (hm : m.WF) : OutWF (s.send m).1 := by
  unfold Sess.send
  split
  · exact h
  · intro x hx; simp at hx; rcases hx with rfl | hx; exact hm; exact h x hx
  · intro x hx; simp at hx; rcases hx with rfl | hx; exact hm; exact h x hx

theorem OutWF.of_out_eq {s s' : Sess} (h : OutWF s) (he : s'.out = s.out) : OutWF s' := by
  intro m hm; rw [he] at hm; exact h m hm

theorem encodeRow_rep (formats : List Nat) : ∀ (cols : List ColDesc) (vals : List Val) (i : Nat) (fields : List (Option Bytes)),
    (∀ v ∈ vals, ValRep v) → encodeRow formats i cols vals = .ok fields →
    ∀ f ∈ fields, ∀ b, f = some b → b.length < 2147483648 := by
  intro cols
  induction cols with
  | nil => intro vals i fields _ h; simp [encodeRow] at h; subst h; simp
  | cons c cs ih =>
    intro vals i fields hv h
    cases vals with
    | nil => simp [encodeRow] at h; subst h; simp
    | cons v vs =>
      simp only [encodeRow] at h
      cases he : encodeVal c.oid (formatFor formats i) v with
      | err => simp [he] at h
      | panic f => simp [he] at h
      | unsupported => simp [he] at h
      | ok f =>
        simp only [he] at h
        cases hr : encodeRow formats (i + 1) cs vs with
        | ok fs =>
          simp only [hr, EncRow.ok.injEq] at h
          subst h
          intro x hx b hb
          simp at hx
          rcases hx with rfl | hx
          · subst hb; exact hv v (by simp) _ _ _ he
          · exact ih vs (i + 1) fs (fun v' hv' => hv v' (by simp [hv'])) hr x hx b hb
        | err => simp [hr] at h
        | panic f => simp [hr] at h
        | unsupported => simp [hr] at h

theorem encodeRow_len (formats : List Nat) : ∀ (cols : List ColDesc) (vals : List Val) (i : Nat) (fields : List (Option Bytes)),
    encodeRow formats i cols vals = .ok fields → fields.length ≤ cols.length := by
  intro cols
  induction cols with
  | nil => intro vals i fields h; simp [encodeRow] at h; subst h; simp
  | cons c cs ih =>
    intro vals i fields h
    cases vals with
    | nil => simp [encodeRow] at h; subst h; simp
    | cons v vs =>
      simp only [encodeRow] at h
      cases he : encodeVal c.oid (formatFor formats i) v with
      | err => simp [he] at h
      | panic f => simp [he] at h
      | unsupported => simp [he] at h
      | ok f =>
        simp only [he] at h
        cases hr : encodeRow formats (i + 1) cs vs with
        | ok fs =>
          simp only [hr, EncRow.ok.injEq] at h
          subst h
          have := ih vs (i + 1) fs hr
          simp; omega
        | err => simp [hr] at h
        | panic f => simp [hr] at h
        | unsupported => simp [hr] at h

/-- `Row`: the message written (if any) is a well-formed DataRow; a panic text is NUL-free -/
theorem dwRow_wf (d : DW) (s : Sess) (vals : List Val) (hc : ColsRep d.cols) (hv : ∀ v ∈ vals, ValRep v)
    (h : OutWF s) : OutWF (dwRow d s vals).2.2 ∧ (dwRow d s vals).2.1.cols = d.cols ∧
      (∀ m, (dwRow d s vals).1 = .panic m → nulFree m) := by
  unfold dwRow
  split
  · exact ⟨h, rfl, by simp⟩
  · split
    · exact ⟨h, rfl, by simp⟩
    · cases he : encodeRow d.formats 0 d.cols vals with
      | unsupported => exact ⟨OutWF.of_out_eq h rfl, rfl, by simp⟩
      | err => exact ⟨h, rfl, by simp⟩
      | panic f => exact ⟨h, rfl, fun m hm => by simp at hm; subst hm; exact panicText_nf f⟩
      | ok fields =>
        simp only []
        have hwf : (BMsg.dataRow fields).WF := by
          refine ⟨?_, encodeRow_rep _ _ _ _ _ hv he⟩
          have := encodeRow_len _ _ _ _ _ he
          have := hc.1
          omega
        have := OutWF.send s (.dataRow fields) h hwf
        split
        · rename_i s' heq; rw [heq] at this; exact ⟨this, rfl, by simp⟩
        · rename_i s' heq; rw [heq] at this; exact ⟨this, rfl, by simp⟩

theorem dwComplete_wf (d : DW) (s : Sess) (tag : Bytes) (ht : nulFree tag) (h : OutWF s) :
    OutWF (dwComplete d s tag).2.2 ∧ (dwComplete d s tag).2.1.cols = d.cols := by
  unfold dwComplete
  split
  · exact ⟨h, rfl⟩
  · dsimp only
    have := OutWF.send s (.complete tag) h ht
    split
    · rename_i s' heq; rw [heq] at this; exact ⟨this, rfl⟩
    · rename_i s' heq; rw [heq] at this; exact ⟨this, rfl⟩

theorem dwEmpty_cols (d : DW) : (dwEmpty d).2.cols = d.cols := by
  unfold dwEmpty
  split
  · rfl
  · split <;> rfl

theorem dwCopyIn_wf (d : DW) (s : Sess) (fmt : Nat) (hc : ColsRep d.cols) (h : OutWF s) :
    OutWF (dwCopyIn d s fmt).2.2 ∧ (dwCopyIn d s fmt).2.1.cols = d.cols := by
  unfold dwCopyIn
  split
  · exact ⟨h, rfl⟩
  · split
    · exact ⟨h, rfl⟩
    · have hwf : (BMsg.copyIn (fmt % 256) d.cols.length).WF := ⟨by omega, hc.1⟩
      have := OutWF.send s _ h hwf
      split
      · rename_i s' heq; rw [heq] at this; exact ⟨OutWF.of_out_eq this rfl, rfl⟩
      · rename_i s' heq; rw [heq] at this; exact ⟨this, rfl⟩

/-- **every handler program**: running a representable program keeps the output well-formed, and
    what it hands back to the session (an error, or a panic text) is representable too -/
theorem runProg_wf (p : Prog) (hp : ProgRep p) : ∀ (d : DW) (s : Sess), ColsRep d.cols → OutWF s →
    OutWF (runProg p d s).2 ∧ (∀ e, (runProg p d s).1 = .done (some e) → errNulFree e) ∧
    (∀ m, (runProg p d s).1 = .panicked m → nulFree m) := by
  induction hp with
  | ret e h => intro d s _ hs; simp only [runProg]; exact ⟨hs, fun x hx => h x (by simpa using hx), by simp⟩
  | note n k _ ih => intro d s hc hs; simp only [runProg]; exact ih d _ hc (OutWF.of_out_eq hs rfl)
  | row vals k hv h ih =>
    intro d s hc hs
    simp only [runProg]
    obtain ⟨a, b, c⟩ := dwRow_wf d s vals hc hv hs
    have hnf := dwRow_nf d s vals
    rcases hr : dwRow d s vals with ⟨ro, d', s'⟩
    rw [hr] at a b c
    cases ro with
    | panic m => exact ⟨a, by simp, fun x hx => by simp at hx; subst hx; exact c m rfl⟩
    | res r =>
      simp only []
      have hr' : OptNF r := fun e he => by subst he; exact hnf e d' s' hr
      exact ih r hr' d' _ (by simp only at b; rw [b]; exact hc) (OutWF.of_out_eq a rfl)
  | complete tag k ht h ih =>
    intro d s hc hs
    simp only [runProg]
    obtain ⟨a, b⟩ := dwComplete_wf d s tag ht hs
    have hnf := dwComplete_nf d s tag
    rcases hr : dwComplete d s tag with ⟨r, d', s'⟩
    rw [hr] at a b hnf
    exact ih r hnf d' _ (by simp only at b; rw [b]; exact hc) (OutWF.of_out_eq a rfl)
  | empty k h ih =>
    intro d s hc hs
    simp only [runProg]
    have b := dwEmpty_cols d
    have hnf := dwEmpty_nf d
    rcases hr : dwEmpty d with ⟨r, d'⟩
    rw [hr] at b hnf
    exact ih r hnf d' _ (by simp only at b; rw [b]; exact hc) (OutWF.of_out_eq hs rfl)
  | written k h ih => intro d s hc hs; simp only [runProg]; exact ih _ d _ hc (OutWF.of_out_eq hs rfl)
  | copyIn fmt k h ih =>
    intro d s hc hs
    simp only [runProg]
    obtain ⟨a, b⟩ := dwCopyIn_wf d s fmt hc hs
    have hnf := dwCopyIn_nf d s fmt
    rcases hr : dwCopyIn d s fmt with ⟨r, d', s'⟩
    rw [hr] at a b hnf
    exact ih r hnf d' _ (by simp only at b; rw [b]; exact hc) (OutWF.of_out_eq a rfl)
  | copyRead k h ih =>
    intro d s hc hs
    simp only [runProg]
    split
    · exact ih (.err errNoReader) errNoReader_nf d _ hc (OutWF.of_out_eq hs rfl)
    · have hnf := copyRead_nf (s.inp.items.length + 1) s.inp
      split
      · exact ⟨OutWF.of_out_eq hs rfl, by simp, by simp⟩
      · rename_i r i heq
        exact ih r (hnf r (by rw [heq])) d _ hc (OutWF.of_out_eq hs rfl)
  | binNew k h ih =>
    intro d s hc hs
    simp only [runProg]
    split
    · exact ih _ (fun e he => by simp at he; subst he; exact errNoReader_nf) d _ hc (OutWF.of_out_eq hs rfl)
    · refine ih none (fun e he => by simp at he) _ _ hc (OutWF.of_out_eq hs ?_)
      split <;> rfl
  | binRead k h ih =>
    intro d s hc hs
    simp only [runProg]
    split
    · exact ih (.err errNoReader) errNoReader_nf d _ hc (OutWF.of_out_eq hs rfl)
    · rename_i b _
      split
      · exact ⟨OutWF.of_out_eq hs rfl, by simp, by simp⟩
      · rename_i r b' i heq
        exact ih r (binRead_nf b s.inp r b' i heq) _ _ hc (OutWF.of_out_eq hs rfl)

end Pw
