import Pw.Model.Backend
import Pw.Lemmas.Bytes
/-  Round-trip lemmas: the strict grammar parser inverts every builder (C02's "eleven lemmas"). -/
namespace Pw

theorem ofU32_toU32 (i : Int) (h1 : -2147483648 ≤ i) (h2 : i < 2147483648) : ofU32 (toU32 i) = i := by
  unfold ofU32 toU32
  split <;> omega

theorem ofU16_toU16 (i : Int) (h1 : -32768 ≤ i) (h2 : i < 32768) : ofU16 (toU16 i) = i := by
  unfold ofU16 toU16
  split <;> omega

theorem toU32_lt (i : Int) : toU32 i < 4294967296 := by unfold toU32; omega
theorem toU16_lt (i : Int) : toU16 i < 65536 := by unfold toU16; omega

structure ColDesc.WF (c : ColDesc) : Prop where
  name : nulFree c.name
  table : -2147483648 ≤ c.table ∧ c.table < 2147483648
  attr : -32768 ≤ c.attrNo ∧ c.attrNo < 32768
  oid : c.oid < 4294967296
  width : -32768 ≤ c.width ∧ c.width < 32768

/-- well-formedness of a structured backend message: exactly what the wire format can carry -/
def BMsg.WF : BMsg → Prop
  | .auth s => s < 4294967296
  | .paramStatus k v => nulFree k ∧ nulFree v
  | .error b => (parseErrFields (b.length + 1) b).isSome
  | .rowDesc cols => cols.length < 65536 ∧ ∀ c ∈ cols, c.1.WF ∧ c.2 < 65536
  | .dataRow fs => fs.length < 65536 ∧ ∀ f ∈ fs, ∀ v, f = some v → v.length < 2147483648
  | .complete t => nulFree t
  | .paramDesc oids => oids.length < 65536 ∧ ∀ o ∈ oids, o < 4294967296
  | .copyIn f n => f < 256 ∧ n < 65536
  | _ => True

theorem parseColDescs_enc (cols : List (ColDesc × Nat)) (h : ∀ c ∈ cols, c.1.WF ∧ c.2 < 65536) :
    parseColDescs cols.length (cols.flatMap encCol) = some cols := by
  induction cols with
  | nil => simp [parseColDescs]
  | cons c cs ih =>
    obtain ⟨cd, f⟩ := c
    have hc := h (cd, f) (by simp)
    have hcs : ∀ c ∈ cs, c.1.WF ∧ c.2 < 65536 := fun c hc => h c (by simp [hc])
    obtain ⟨⟨hn, ht, ha, ho, hw⟩, hf⟩ := hc
    simp only [List.length_cons, List.flatMap_cons, encCol, encColDesc, parseColDescs, List.append_assoc]
    rw [cstr_append'' _ hn]
    simp only [Option.bind_eq_bind, Option.bind_some, Option.pure_def]
    rw [rd32_be32 _ (toU32_lt _)]
    simp only [Option.bind_some]
    rw [rd16_be16 _ (toU16_lt _)]
    simp only [Option.bind_some]
    rw [rd32_be32 _ ho]
    simp only [Option.bind_some]
    rw [rd16_be16 _ (toU16_lt _)]
    simp only [Option.bind_some]
    rw [rd32_be32 _ (toU32_lt _)]
    simp only [Option.bind_some]
    rw [rd16_be16 _ hf]
    simp only [Option.bind_some]
    rw [ih hcs]
    simp [ofU32_toU32 _ ht.1 ht.2, ofU16_toU16 _ ha.1 ha.2, ofU16_toU16 _ hw.1 hw.2]

theorem parseFields_enc (fs : List (Option Bytes))
    (h : ∀ f ∈ fs, ∀ v, f = some v → v.length < 2147483648) :
    parseFields fs.length (fs.flatMap encField) = some fs := by
  induction fs with
  | nil => simp [parseFields]
  | cons f fs ih =>
    have hfs : ∀ f ∈ fs, ∀ v, f = some v → v.length < 2147483648 := fun f hf => h f (by simp [hf])
    cases f with
    | none =>
      simp only [List.length_cons, List.flatMap_cons, encField, parseFields]
      rw [rd32_be32 _ (toU32_lt _)]
      simp [toU32, ih hfs]
    | some v =>
      have hv := h (some v) (by simp) v rfl
      simp only [List.length_cons, List.flatMap_cons, encField, parseFields, List.append_assoc]
      rw [rd32_be32 _ (by omega)]
      have h1 : ¬ v.length = 4294967295 := by omega
      have h2 : ¬ v.length ≥ 2147483648 := by omega
      simp [h1, h2, ih hfs]

theorem parseOids_enc (oids : List Nat) (h : ∀ o ∈ oids, o < 4294967296) :
    parseOids oids.length (oids.flatMap be32) = some oids := by
  induction oids with
  | nil => simp [parseOids]
  | cons o os ih =>
    have ho := h o (by simp)
    have hos : ∀ o ∈ os, o < 4294967296 := fun o h' => h o (by simp [h'])
    simp only [List.length_cons, List.flatMap_cons, parseOids]
    rw [rd32_be32 _ ho]
    simp [ih hos]

theorem parseFmts_replicate (n f : Nat) (hf : f < 65536) :
    parseFmts n (List.replicate n (be16 f)).flatten = some (List.replicate n f) := by
  induction n with
  | zero => simp [parseFmts]
  | succ n ih =>
    simp only [List.replicate_succ, List.flatten_cons, parseFmts]
    rw [rd16_be16 _ hf]
    simp [ih]

end Pw
