import Pw.Lemmas.Rep
import Pw.Props.C07
import Pw.Model.Serve
namespace Pw
open Pw.Spec Pw.Props.C07

theorem quoteByte_nf_nat : ∀ n, n < 256 → nulFree (quoteByte (UInt8.ofNat n)) := by decide +kernel

theorem quoteByte_nf (b : UInt8) : nulFree (quoteByte b) := by
  have := quoteByte_nf_nat b.toNat (UInt8.toNat_lt b)
  simpa using this

theorem rd16_lt (m : Bytes) (n : Nat) (r : Bytes) (h : rd16 m = some (n, r)) : n < 65536 := by
  match m, h with
  | a :: b :: r', h =>
    simp [rd16] at h
    obtain ⟨rfl, _⟩ := h
    have ha := UInt8.toNat_lt a
    have hb := UInt8.toNat_lt b
    omega

def FmtsRep (f : List Nat) : Prop := ∀ x ∈ f, x < 65536

/-- a statement as a representable `ParseFn` returns it -/
def StmtRep (st : Stmt) : Prop :=
  ColsRep st.cols ∧ st.params.length < 65536 ∧ (∀ o ∈ st.params, o < 4294967296) ∧ ∀ ps, ProgRep (st.body ps)

/-- representable callbacks: errors are NUL-free, statements are `StmtRep` -/
def HandlersRep (h : Handlers) : Prop :=
  ∀ q, match h.parse q with
    | .ok sts => ∀ st ∈ sts, StmtRep st
    | .error e => errNulFree e

def StateRep (s : Sess) : Prop :=
  (∀ n st, lookup n s.stmts = some st → StmtRep st) ∧
  (∀ n p, lookup n s.portals = some p → StmtRep p.stmt ∧ FmtsRep p.formats)

/-- the invariant of the session phase -/
def StepWF (st : Step) : Prop :=
  (∀ s', st = .cont s' → OutWF s' ∧ StateRep s') ∧ (∀ s' e, st = .stop s' e → OutWF s')

theorem readCodes_rep : ∀ (n : Nat) (m : Bytes) (cs : List Nat) (r : Bytes), readCodes n m = some (cs, r) → FmtsRep cs := by
  intro n
  induction n with
  | zero => intro m cs r h; simp [readCodes] at h; obtain ⟨rfl, _⟩ := h; intro x hx; simp at hx
  | succ k ih =>
    intro m cs r h
    simp only [readCodes] at h
    split at h
    · simp at h
    · rename_i c r1 heq
      split at h
      · simp at h
      · rename_i cs' r' heq2
        simp at h
        obtain ⟨rfl, _⟩ := h
        intro x hx
        simp at hx
        rcases hx with rfl | hx
        · exact rd16_lt _ _ _ heq
        · exact ih _ _ _ heq2 x hx

theorem decodeBindTail_rep (m : Bytes) (ps : List Param) (rf : List Nat) (r : Bytes)
    (h : decodeBindTail m = some (ps, rf, r)) : FmtsRep rf := by
  unfold decodeBindTail at h
  repeat' (first | split at h | simp at h)
  all_goals (try contradiction)
  all_goals (obtain ⟨_, rfl, _⟩ := h; exact readCodes_rep _ _ _ _ (by assumption))

theorem formatFor_lt (formats : List Nat) (hf : FmtsRep formats) (i : Nat) : formatFor formats i < 65536 := by
  unfold formatFor
  split
  · omega
  · split
    · rename_i h
      rw [List.getD_eq_getElem?_getD, List.getElem?_eq_getElem h]
      exact hf _ (List.getElem_mem h)
    · cases formats with
      | nil => simp
      | cons a r => simp; exact hf a (by simp)

theorem colFormats_wf (formats : List Nat) (cols : List ColDesc) (hc : ColsRep cols) (hf : FmtsRep formats) :
    (BMsg.rowDesc (colFormats formats cols)).WF := by
  unfold colFormats
  refine ⟨by simp; exact hc.1, ?_⟩
  intro c hcm
  rw [List.mem_iff_getElem] at hcm
  obtain ⟨i, hi, rfl⟩ := hcm
  simp only [List.getElem_zipWith]
  exact ⟨hc.2 _ (List.getElem_mem _), formatFor_lt formats hf _⟩

theorem fmtsRep_nil : FmtsRep [] := by intro x hx; simp at hx

theorem send_state (s : Sess) (m : BMsg) : (s.send m).1.stmts = s.stmts ∧ (s.send m).1.portals = s.portals := by
  unfold Sess.send
  split <;> exact ⟨rfl, rfl⟩

theorem StateRep.of_eq {s s' : Sess} (h : StateRep s) (h1 : s'.stmts = s.stmts) (h2 : s'.portals = s.portals) : StateRep s' := by
  unfold StateRep; rw [h1, h2]; exact h

theorem stop_wf (s : Sess) (e : End) (h : OutWF s) : StepWF (.stop s e) := by
  refine ⟨by simp, fun s' e' he => ?_⟩
  cases he; exact h

theorem cont_wf (s : Sess) (h : OutWF s) (hs : StateRep s) : StepWF (.cont s) := by
  refine ⟨fun s' he => ?_, by simp⟩
  cases he; exact ⟨h, hs⟩

theorem afterWrite_wf (s : Sess) (m : BMsg) (h : OutWF s) (hs : StateRep s) (hm : m.WF) : StepWF (afterWrite (s.send m)) := by
  have ho := OutWF.send s m h hm
  have hst := send_state s m
  rcases hsend : s.send m with ⟨s1, ok⟩
  rw [hsend] at ho hst
  cases ok with
  | true => exact cont_wf s1 ho (hs.of_eq hst.1 hst.2)
  | false => exact stop_wf s1 _ ho

theorem error_wf (e : Err) (h : errNulFree e) : (BMsg.error (errorBody (flatten (some e)))).WF := Pw.Props.C17.C17_wellformed e h

theorem errorCode_wf (s : Sess) (e : Err) (h : OutWF s) (hs : StateRep s) (he : errNulFree e) : StepWF (errorCode s (some e)) := by
  unfold errorCode sendError
  have ho := OutWF.send s _ h (error_wf e he)
  have hst := send_state s (.error (errorBody (flatten (some e))))
  rcases hsend : s.send (.error (errorBody (flatten (some e)))) with ⟨s1, ok⟩
  rw [hsend] at ho hst
  cases ok with
  | false => exact stop_wf s1 _ ho
  | true => exact afterWrite_wf s1 _ ho (hs.of_eq hst.1 hst.2) trivial

theorem extendedError_wf (s : Sess) (e : Err) (h : OutWF s) (hs : StateRep s) (he : errNulFree e) :
    StepWF (extendedError s (some e)) := by
  unfold extendedError sendError
  exact afterWrite_wf _ _ (OutWF.of_out_eq h rfl) (hs.of_eq rfl rfl) (error_wf e he)

theorem StmtRep.relabel (st : Stmt) (q : Bytes) (i : Nat) (h : StmtRep st) : StmtRep { st with q := q, idx := i } := h

theorem labelStmts_rep (q : Bytes) (sts : List Stmt) (h : ∀ st ∈ sts, StmtRep st) : ∀ st ∈ labelStmts q sts, StmtRep st := by
  intro st hst
  unfold labelStmts at hst
  rw [List.mem_iff_getElem] at hst
  obtain ⟨i, hi, rfl⟩ := hst
  simp only [List.getElem_zipWith]
  exact StmtRep.relabel _ _ _ (h _ (List.getElem_mem _))

theorem dwRow_state (d : DW) (s : Sess) (vals : List Val) :
    (dwRow d s vals).2.2.stmts = s.stmts ∧ (dwRow d s vals).2.2.portals = s.portals := by
  unfold dwRow
  split
  · exact ⟨rfl, rfl⟩
  · split
    · exact ⟨rfl, rfl⟩
    · split
      · exact ⟨rfl, rfl⟩
      · exact ⟨rfl, rfl⟩
      · exact ⟨rfl, rfl⟩
      · rename_i fields _
        have := send_state s (.dataRow fields)
        split
        · rename_i s' heq; rw [heq] at this; exact this
        · rename_i s' heq; rw [heq] at this; exact this

theorem dwComplete_state (d : DW) (s : Sess) (tag : Bytes) :
    (dwComplete d s tag).2.2.stmts = s.stmts ∧ (dwComplete d s tag).2.2.portals = s.portals := by
  unfold dwComplete
  split
  · exact ⟨rfl, rfl⟩
  · dsimp only
    have := send_state s (.complete tag)
    split
    · rename_i s' heq; rw [heq] at this; exact this
    · rename_i s' heq; rw [heq] at this; exact this

theorem dwCopyIn_state (d : DW) (s : Sess) (fmt : Nat) :
    (dwCopyIn d s fmt).2.2.stmts = s.stmts ∧ (dwCopyIn d s fmt).2.2.portals = s.portals := by
  unfold dwCopyIn
  split
  · exact ⟨rfl, rfl⟩
  · split
    · exact ⟨rfl, rfl⟩
    · have := send_state s (.copyIn (fmt % 256) d.cols.length)
      split
      · rename_i s' heq; rw [heq] at this; exact this
      · rename_i s' heq; rw [heq] at this; exact this

/-- a handler program cannot touch the statement and portal maps -/
theorem runProg_state : ∀ (p : Prog) (d : DW) (s : Sess),
    (runProg p d s).2.stmts = s.stmts ∧ (runProg p d s).2.portals = s.portals := by
  intro p
  induction p with
  | ret e => intro d s; exact ⟨rfl, rfl⟩
  | note n k ih => intro d s; simp only [runProg]; exact ih d _
  | row vals k ih =>
    intro d s
    simp only [runProg]
    have := dwRow_state d s vals
    rcases hr : dwRow d s vals with ⟨ro, d', s'⟩
    rw [hr] at this
    cases ro with
    | panic m => exact this
    | res r => simp only []; have h2 := ih r d' (s'.log (.rowRes r)); exact ⟨h2.1.trans this.1, h2.2.trans this.2⟩
  | complete tag k ih =>
    intro d s
    simp only [runProg]
    have := dwComplete_state d s tag
    rcases hr : dwComplete d s tag with ⟨r, d', s'⟩
    rw [hr] at this
    have h2 := ih r d' (s'.log (.completeRes r)); exact ⟨h2.1.trans this.1, h2.2.trans this.2⟩
  | empty k ih =>
    intro d s
    simp only [runProg]
    rcases hr : dwEmpty d with ⟨r, d'⟩
    exact ih r d' _
  | written k ih => intro d s; simp only [runProg]; exact ih _ d _
  | copyIn fmt k ih =>
    intro d s
    simp only [runProg]
    have := dwCopyIn_state d s fmt
    rcases hr : dwCopyIn d s fmt with ⟨r, d', s'⟩
    rw [hr] at this
    have h2 := ih r d' (s'.log (.copyInRes r)); exact ⟨h2.1.trans this.1, h2.2.trans this.2⟩
  | copyRead k ih =>
    intro d s
    simp only [runProg]
    split
    · exact ih _ d _
    · split
      · exact ⟨rfl, rfl⟩
      · exact ih _ d _
  | binNew k ih =>
    intro d s
    simp only [runProg]
    split
    · exact ih _ d _
    · have := ih none { d with bin := some { oids := d.cols.map (·.oid) } }
        ((if d.cols.all (fun c => supportedOid c.oid) then s else s.markUnsup).log (.binNewRes none))
      refine ⟨this.1.trans ?_, this.2.trans ?_⟩ <;> (split <;> rfl)
  | binRead k ih =>
    intro d s
    simp only [runProg]
    split
    · exact ih _ d _
    · split
      · exact ⟨rfl, rfl⟩
      · exact ih _ _ _

theorem runStatements_wf : ∀ (sts : List Stmt) (s : Sess), (∀ st ∈ sts, StmtRep st) → OutWF s → StateRep s →
    StepWF (runStatements sts s) := by
  intro sts
  induction sts with
  | nil => intro s _ h hs; exact afterWrite_wf s _ h hs trivial
  | cons st rest ih =>
    intro s hr h hs
    have hst := hr st (by simp)
    simp only [runStatements]
    have key : ∀ (s1 : Sess) (ok : Bool),
        (if st.cols.length = 0 then (s, true) else s.send (.rowDesc (colFormats [] st.cols))) = (s1, ok) →
        OutWF s1 ∧ StateRep s1 := by
      intro s1 ok heq
      split at heq
      · cases heq; exact ⟨h, hs⟩
      · have ho := OutWF.send s _ h (colFormats_wf [] st.cols hst.1 fmtsRep_nil)
        have hst' := send_state s (.rowDesc (colFormats [] st.cols))
        rw [heq] at ho hst'
        exact ⟨ho, hs.of_eq hst'.1 hst'.2⟩
    split
    · rename_i s1 heq
      obtain ⟨a, b⟩ := key s1 false heq
      exact errorCode_wf _ _ a b errWrite_nf
    · rename_i s1 heq
      obtain ⟨a, b⟩ := key s1 true heq
      obtain ⟨x, y, z⟩ := runProg_wf (st.body []) (hst.2.2.2 []) { cols := st.cols, formats := [] }
        (s1.log (.exec st.q st.idx [])) hst.1 (OutWF.of_out_eq a rfl)
      rcases hrun : runProg (st.body []) { cols := st.cols, formats := [] } (s1.log (.exec st.q st.idx [])) with ⟨o, s2⟩
      rw [hrun] at x y z
      have b2 : StateRep s2 := by
        have := runProg_state (st.body []) { cols := st.cols, formats := [] } (s1.log (.exec st.q st.idx []))
        rw [hrun] at this
        exact b.of_eq this.1 this.2
      cases o with
      | blocked => exact stop_wf _ _ x
      | panicked m => exact stop_wf _ _ x
      | done e =>
        cases e with
        | some e => exact errorCode_wf _ _ x b2 (y e rfl)
        | none => exact ih s2 (fun st' h' => hr st' (by simp [h'])) x b2

theorem rep_store {α} (P : α → Prop) (m : List (Bytes × α)) (k : Bytes) (v : α)
    (hm : ∀ n x, lookup n m = some x → P x) (hv : P v) : ∀ n x, lookup n (store k v m) = some x → P x := by
  intro n x hl
  by_cases hn : n = k
  · subst hn; rw [lookup_store_same] at hl; cases hl; exact hv
  · rw [lookup_store_other k n v m hn] at hl; exact hm n x hl

theorem rep_remove {α} (P : α → Prop) (m : List (Bytes × α)) (k : Bytes)
    (hm : ∀ n x, lookup n m = some x → P x) : ∀ n x, lookup n (remove k m) = some x → P x := by
  intro n x hl
  by_cases hn : n = k
  · subst hn; rw [lookup_remove_same] at hl; cases hl
  · rw [lookup_remove_other k n m hn] at hl; exact hm n x hl

theorem handleSimpleQuery_wf (h : Handlers) (s : Sess) (hh : HandlersRep h) (ho : OutWF s) (hs : StateRep s) :
    StepWF (handleSimpleQuery h s) := by
  unfold handleSimpleQuery
  cases hg : getString s.inp.msg with
  | none => exact stop_wf _ _ ho
  | some p =>
    obtain ⟨q, rest⟩ := p
    dsimp only
    have ho1 : OutWF (s.setMsg rest) := OutWF.of_out_eq ho rfl
    have hs1 : StateRep (s.setMsg rest) := hs.of_eq rfl rfl
    split
    · have ho2 := OutWF.send (s.setMsg rest) .emptyQuery ho1 trivial
      have hst := send_state (s.setMsg rest) .emptyQuery
      split
      · rename_i s1 heq; rw [heq] at ho2; exact stop_wf _ _ ho2
      · rename_i s1 heq; rw [heq] at ho2 hst
        exact afterWrite_wf _ _ ho2 (hs1.of_eq hst.1 hst.2) trivial
    · have hq := hh q
      have ho2 : OutWF ((s.setMsg rest).log (.parse q)) := OutWF.of_out_eq ho rfl
      have hs2 : StateRep ((s.setMsg rest).log (.parse q)) := hs.of_eq rfl rfl
      cases hp : h.parse q with
      | error e => rw [hp] at hq; exact errorCode_wf _ _ ho2 hs2 hq
      | ok sts =>
        rw [hp] at hq
        cases sts with
        | nil => exact errorCode_wf _ _ ho2 hs2 errUndefinedStatement_nf
        | cons st sts => exact runStatements_wf _ _ (labelStmts_rep q _ hq) ho2 hs2

theorem handleParse_wf (h : Handlers) (s : Sess) (hh : HandlersRep h) (ho : OutWF s) (hs : StateRep s) :
    StepWF (handleParse h s) := by
  unfold handleParse
  cases hg : getString s.inp.msg with
  | none => exact stop_wf _ _ ho
  | some p =>
    obtain ⟨name, r1⟩ := p
    simp only []
    cases hg2 : getString r1 with
    | none => exact stop_wf _ _ (OutWF.of_out_eq ho rfl)
    | some p2 =>
      obtain ⟨q, r2⟩ := p2
      simp only []
      cases hg3 : getU16 r2 with
      | none => exact stop_wf _ _ (OutWF.of_out_eq ho rfl)
      | some p3 =>
        obtain ⟨np, r3⟩ := p3
        dsimp only
        have hq := hh q
        have ho2 : OutWF ((s.setMsg r3).log (.parse q)) := OutWF.of_out_eq ho rfl
        have hs2 : StateRep ((s.setMsg r3).log (.parse q)) := hs.of_eq rfl rfl
        cases hp : h.parse q with
        | error e => rw [hp] at hq; exact extendedError_wf _ _ ho2 hs2 hq
        | ok sts =>
          rw [hp] at hq
          match sts, hq with
          | [], _ => exact extendedError_wf _ _ ho2 hs2 errUndefinedStatement_nf
          | [st], hq =>
            refine afterWrite_wf _ _ (OutWF.of_out_eq ho rfl) ?_ trivial
            refine ⟨rep_store StmtRep _ _ _ hs.1 ?_, hs.2⟩
            exact StmtRep.relabel st q 0 (hq st (by simp))
          | _ :: _ :: _, _ => exact extendedError_wf _ _ ho2 hs2 errMultipleCommands_nf

theorem describeCols_wf (s : Sess) (f : List Nat) (cols : List ColDesc) (ho : OutWF s) (hs : StateRep s)
    (hc : ColsRep cols) (hf : FmtsRep f) : StepWF (afterWrite (describeCols s f cols)) := by
  unfold describeCols
  split
  · exact afterWrite_wf _ _ ho hs trivial
  · exact afterWrite_wf _ _ ho hs (colFormats_wf f cols hc hf)

theorem base_nf (t : Bytes) (h : nulFree t) : errNulFree (.base t) := h

theorem handleDescribe_wf (s : Sess) (ho : OutWF s) (hs : StateRep s) : StepWF (handleDescribe s) := by
  unfold handleDescribe
  cases hg : getBytes 1 s.inp.msg with
  | none => exact stop_wf _ _ ho
  | some p =>
    obtain ⟨d, r1⟩ := p
    simp only []
    cases hg2 : getString r1 with
    | none => exact stop_wf _ _ (OutWF.of_out_eq ho rfl)
    | some p2 =>
      obtain ⟨name, r2⟩ := p2
      dsimp only
      have ho1 : OutWF (s.setMsg r2) := OutWF.of_out_eq ho rfl
      have hs1 : StateRep (s.setMsg r2) := hs.of_eq rfl rfl
      split
      · cases hl : lookup name (s.setMsg r2).stmts with
        | none => exact extendedError_wf _ _ ho1 hs1 (base_nf _ (by decide))
        | some st =>
          simp only []
          have hst := hs1.1 name st hl
          have ho2 := OutWF.send (s.setMsg r2) (.paramDesc st.params) ho1 ⟨hst.2.1, hst.2.2.1⟩
          have hstate := send_state (s.setMsg r2) (.paramDesc st.params)
          split
          · rename_i s1 heq; rw [heq] at ho2; exact stop_wf _ _ ho2
          · rename_i s1 heq; rw [heq] at ho2 hstate
            exact describeCols_wf _ _ _ ho2 (hs1.of_eq hstate.1 hstate.2) hst.1 fmtsRep_nil
      · split
        · cases hl : lookup name (s.setMsg r2).portals with
          | none => exact extendedError_wf _ _ ho1 hs1 (base_nf _ (by decide))
          | some p =>
            simp only []
            have hp := hs1.2 name p hl
            exact describeCols_wf _ _ _ ho1 hs1 hp.1.1 hp.2
        · exact extendedError_wf _ _ ho1 hs1 (base_nf _ (nulFree_append (by decide) (quoteByte_nf _)))

theorem handleBind_wf (s : Sess) (ho : OutWF s) (hs : StateRep s) : StepWF (handleBind s) := by
  unfold handleBind
  cases hg : getString s.inp.msg with
  | none => exact stop_wf _ _ ho
  | some p =>
    obtain ⟨pname, r1⟩ := p
    simp only []
    cases hg2 : getString r1 with
    | none => exact stop_wf _ _ (OutWF.of_out_eq ho rfl)
    | some p2 =>
      obtain ⟨sname, r2⟩ := p2
      simp only []
      cases hd : decodeBindTail r2 with
      | none => exact stop_wf _ _ (OutWF.of_out_eq ho rfl)
      | some p3 =>
        obtain ⟨params, rfmts, r3⟩ := p3
        dsimp only
        have ho1 : OutWF (s.setMsg r3) := OutWF.of_out_eq ho rfl
        have hs1 : StateRep (s.setMsg r3) := hs.of_eq rfl rfl
        cases hl : lookup sname (s.setMsg r3).stmts with
        | none =>
          exact extendedError_wf _ _ ho1 hs1 (errUnknownStatement_nf _ (cstr_nulFree _ _ _ hg2))
        | some st =>
          simp only []
          refine afterWrite_wf _ _ (OutWF.of_out_eq ho rfl) ?_ trivial
          refine ⟨hs1.1, rep_store (fun (p : Portal) => StmtRep p.stmt ∧ FmtsRep p.formats) _ _ _ hs1.2 ?_⟩
          exact ⟨hs1.1 sname st hl, decodeBindTail_rep _ _ _ _ hd⟩

theorem handleClose_wf (s : Sess) (ho : OutWF s) (hs : StateRep s) : StepWF (handleClose s) := by
  unfold handleClose
  cases hg : getBytes 1 s.inp.msg with
  | none => exact stop_wf _ _ ho
  | some p =>
    obtain ⟨d, r1⟩ := p
    simp only []
    cases hg2 : getString r1 with
    | none => exact stop_wf _ _ (OutWF.of_out_eq ho rfl)
    | some p2 =>
      obtain ⟨name, r2⟩ := p2
      dsimp only
      have ho1 : OutWF (s.setMsg r2) := OutWF.of_out_eq ho rfl
      have hs1 : StateRep (s.setMsg r2) := hs.of_eq rfl rfl
      split
      · exact afterWrite_wf _ _ (OutWF.of_out_eq ho rfl) ⟨rep_remove StmtRep _ _ hs1.1, hs1.2⟩ trivial
      · split
        · exact afterWrite_wf _ _ (OutWF.of_out_eq ho rfl)
            ⟨hs1.1, rep_remove (fun (p : Portal) => StmtRep p.stmt ∧ FmtsRep p.formats) _ _ hs1.2⟩ trivial
        · exact extendedError_wf _ _ ho1 hs1 (base_nf _ (nulFree_append (by decide) (quoteByte_nf _)))

theorem handleExecute_wf (s : Sess) (ho : OutWF s) (hs : StateRep s) : StepWF (handleExecute s) := by
  unfold handleExecute
  cases hg : getString s.inp.msg with
  | none => exact stop_wf _ _ ho
  | some p =>
    obtain ⟨name, r1⟩ := p
    simp only []
    cases hg2 : getU32 r1 with
    | none => exact stop_wf _ _ (OutWF.of_out_eq ho rfl)
    | some p2 =>
      obtain ⟨lim, r2⟩ := p2
      dsimp only
      have ho1 : OutWF (s.setMsg r2) := OutWF.of_out_eq ho rfl
      have hs1 : StateRep (s.setMsg r2) := hs.of_eq rfl rfl
      cases hl : lookup name (s.setMsg r2).portals with
      | none => exact extendedError_wf _ _ ho1 hs1 (errUnknownPortal_nf _ (cstr_nulFree _ _ _ hg))
      | some p =>
        simp only []
        have hp := hs1.2 name p hl
        obtain ⟨x, y, z⟩ := runProg_wf (p.stmt.body p.params) (hp.1.2.2.2 p.params)
          { cols := p.stmt.cols, formats := p.formats } ((s.setMsg r2).log (.exec p.stmt.q p.stmt.idx p.params))
          hp.1.1 (OutWF.of_out_eq ho rfl)
        have hstate := runProg_state (p.stmt.body p.params) { cols := p.stmt.cols, formats := p.formats }
          ((s.setMsg r2).log (.exec p.stmt.q p.stmt.idx p.params))
        rcases hrun : runProg (p.stmt.body p.params) { cols := p.stmt.cols, formats := p.formats }
          ((s.setMsg r2).log (.exec p.stmt.q p.stmt.idx p.params)) with ⟨o, s2⟩
        rw [hrun] at x y z hstate
        have hs2 : StateRep s2 := hs1.of_eq hstate.1 hstate.2
        cases o with
        | blocked => exact stop_wf _ _ x
        | panicked m => exact extendedError_wf _ _ x hs2 (base_nf _ (nulFree_append (by decide) (z m rfl)))
        | done e =>
          cases e with
          | some e => exact extendedError_wf _ _ x hs2 (y e rfl)
          | none => exact cont_wf _ x hs2

theorem handleCommand_wf (h : Handlers) (t : UInt8) (s : Sess) (hh : HandlersRep h) (ho : OutWF s) (hs : StateRep s) :
    StepWF (handleCommand h t s) := by
  unfold handleCommand
  split; · exact cont_wf _ ho hs
  split; · exact handleSimpleQuery_wf h s hh ho hs
  split; · exact handleExecute_wf s ho hs
  split; · exact handleParse_wf h s hh ho hs
  split; · exact handleDescribe_wf s ho hs
  split; · exact afterWrite_wf _ _ (OutWF.of_out_eq ho rfl) (hs.of_eq rfl rfl) trivial
  split; · exact handleBind_wf s ho hs
  split; · exact cont_wf _ ho hs
  split; · exact cont_wf _ ho hs
  split; · exact handleClose_wf s ho hs
  split
  · split
    · exact stop_wf _ _ ho
    · exact stop_wf _ _ (OutWF.of_out_eq ho rfl)
  · exact errorCode_wf _ _ ho hs (errUnimplemented_nf t)

theorem handleOversize_wf (t : UInt8) (size : Int) (s : Sess) (ho : OutWF s) (hs : StateRep s) :
    StepWF (handleOversize t size s) := by
  unfold handleOversize
  dsimp only
  split
  · exact errorCode_wf _ _ ho hs (errSizeExceeded_nf _ _)
  · unfold sendError; exact afterWrite_wf _ _ ho hs (error_wf _ (errSizeExceeded_nf _ _))

theorem stepCommand_wf (h : Handlers) (s : Sess) (hh : HandlersRep h) (ho : OutWF s) (hs : StateRep s) :
    StepWF (stepCommand h s) := by
  unfold stepCommand
  split
  · exact stop_wf _ _ (OutWF.of_out_eq ho rfl)
  · exact stop_wf _ _ (OutWF.of_out_eq ho rfl)
  · dsimp only
    split
    · exact handleOversize_wf _ _ _ (OutWF.of_out_eq ho rfl) (hs.of_eq rfl rfl)
    · exact stop_wf _ _ (OutWF.of_out_eq ho rfl)
  · exact handleCommand_wf h _ _ hh (OutWF.of_out_eq ho rfl) (hs.of_eq rfl rfl)

theorem loop_wf (h : Handlers) (hh : HandlersRep h) : ∀ (fuel : Nat) (s : Sess), OutWF s → StateRep s → OutWF (loop h fuel s).1 := by
  intro fuel
  induction fuel with
  | zero => intro s ho _; exact ho
  | succ n ih =>
    intro s ho hs
    simp only [loop]
    have := stepCommand_wf h s hh ho hs
    cases hst : stepCommand h s with
    | stop s' e => exact this.2 s' e hst
    | cont s' => obtain ⟨a, b⟩ := this.1 s' hst; exact ih s' a b

end Pw
