import Pw.Model.Render
/-
  Line-protocol driver: reads `case || implementation result` lines, runs the model on the
  case, compares with the implementation's result and evaluates the property oracles on the
  IMPLEMENTATION's output.
-/
namespace Pw.Driver
open Pw Pw.Render

abbrev KV := List (String × String)

def parseKV (s : String) : KV :=
  (s.splitOn " ").filterMap fun f =>
    if f.isEmpty then none else
    match f.splitOn "=" with
    | [] => none
    | k :: rest => some (k, "=".intercalate rest)

def get (kv : KV) (k : String) : String := (kv.lookup k).getD ""

def getHex (kv : KV) (k : String) : Bytes := (unhex (get kv k)).getD []

def parseGP (s : String) : Option (List (Bytes × Bytes)) :=
  if s = "-" ∨ s = "" then none
  else
    let body := (s.drop 1).toString
    if body.isEmpty then some []
    else some ((body.splitOn ",").filterMap fun kv =>
      match kv.splitOn ":" with
      | [k, v] => some ((unhex k).getD [], (unhex v).getD [])
      | _ => none)

structure CaseIn where
  id : String
  camp : String
  cfg : Config
  h : Handlers
  inp : Bytes
  tin : Bytes
  cx : Bool
  kv : KV

def parseCase (kv : KV) : CaseIn :=
  let mw := get kv "mw"
  let mws : List Bool := if mw = "-" then [] else mw.toList.map (· = 'o')
  let term := get kv "term"
  let wf := get kv "wf"
  { id := get kv "id", camp := get kv "camp",
    cfg := { L := (get kv "L").toInt?.getD 0, auth := get kv "auth" = "1",
             tls := (get kv "tls").toNat?.getD 0, version := getHex kv "ver",
             gparams := parseGP (get kv "gp"),
             wleft := if wf = "-" ∨ wf = "" then none else wf.toNat?,
             tail := if get kv "rf" = "1" then .rerr else .wait },
    h := { parse := Script.parse, validate := Script.validate, mws,
           terminate := if term = "1" then some true else if term = "2" then some false else none },
    inp := getHex kv "in", tin := getHex kv "tin", cx := get kv "cx" = "1", kv }

structure ModelOut where
  out : String
  ev : String
  ending : String
  unsup : Bool
  stuffed : Bool

def runModel (c : CaseIn) : ModelOut × Result :=
  let r := serve c.cfg c.h c.inp c.tin
  ({ out := renderOut r.out, ev := renderEvents r c.cx c.h.mws.length, ending := renderEnd r.ending,
     unsup := r.unsup || (r.ev.any fun e => e == .note (ascii "s=unsup")), stuffed := r.stuffed }, r)

/-- decode the implementation's `out=` field back into bytes (S*n placeholders are skipped) -/
def implChunks (s : String) : List Bytes :=
  if s.isEmpty then [] else (s.splitOn ".").filterMap fun p => if p.startsWith "S*" then none else unhex p

/-- C02 oracle on the implementation's output: after the optional SSL reply byte, the
    stream is a concatenation of well-formed backend messages -/
def wellFormedOut (chunks : List Bytes) : Bool :=
  let chunks := match chunks with
    | [b] :: r => if b = ch 'N' ∨ b = ch 'S' then r else chunks
    | _ => chunks
  (parseBackend chunks.flatten).isSome

def processLine (line : String) : String :=
  match line.splitOn " || " with
  | [cs, rs] =>
    let ckv := parseKV cs
    let rkv := parseKV rs
    let c := parseCase ckv
    let (m, _) := runModel c
    let iout := get rkv "out"
    let iev := get rkv "ev"
    let iend := get rkv "end"
    let same := m.out = iout ∧ m.ev = iev ∧ (m.stuffed ∨ m.ending = iend)
    let status := if m.unsup then "skip" else if same then "ok" else "diff"
    let wf := wellFormedOut (implChunks iout)
    let base := "id=" ++ c.id ++ " status=" ++ status ++ " wf=" ++ (if wf then "1" else "0")
    if status = "diff" then
      base ++ " mout=" ++ m.out ++ " mev=" ++ m.ev ++ " mend=" ++ m.ending
    else base
  | _ => "id=? status=badline"

end Pw.Driver
