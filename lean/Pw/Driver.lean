import Pw.Model.Render
import Pw.Spec.Errors
import Pw.Spec.Cursor
import Pw.Spec.Ext
import Pw.Spec.Values
import Pw.Model.Conc
import Pw.Model.Heap
/-
  Line-protocol driver: reads `case || implementation result` lines, runs the model on the
  case, compares with the implementation's result and evaluates the property oracles on the
  IMPLEMENTATION's output.
-/
namespace Pw.Driver
open Pw Pw.Render

abbrev KV := List (String × String)

def parseKV (s : String) : KV :=
  (s.splitOn " ").filterMap fun f =>
    if f.isEmpty then none else
    match f.splitOn "=" with
    | [] => none
    | k :: rest => some (k, "=".intercalate rest)

def get (kv : KV) (k : String) : String := (kv.lookup k).getD ""

def getHex (kv : KV) (k : String) : Bytes := (unhex (get kv k)).getD []

def parseGP (s : String) : Option (List (Bytes × Bytes)) :=
  if s = "-" ∨ s = "" then none
  else
    let body := (s.drop 1).toString
    if body.isEmpty then some []
    else some ((body.splitOn ",").filterMap fun kv =>
      match kv.splitOn ":" with
      | [k, v] => some ((unhex k).getD [], (unhex v).getD [])
      | _ => none)

structure CaseIn where
  id : String
  camp : String
  cfg : Config
  h : Handlers
  inp : Bytes
  tin : Bytes
  cx : Bool
  kv : KV

def parseCase (kv : KV) : CaseIn :=
  let mw := get kv "mw"
  let mws : List Bool := if mw = "-" then [] else mw.toList.map (· = 'o')
  let term := get kv "term"
  let wf := get kv "wf"
  { id := get kv "id", camp := get kv "camp",
    cfg := { L := (get kv "L").toInt?.getD 0, auth := get kv "auth" = "1",
             tls := (get kv "tls").toNat?.getD 0, version := getHex kv "ver",
             gparams := parseGP (get kv "gp"),
             wleft := if wf = "-" ∨ wf = "" then none else wf.toNat?,
             tail := if get kv "rf" = "1" then .rerr
                     else if get kv "rf" = "2" then .eof (get kv "partial" = "1") else .wait },
    h := { parse := Script.parse, validate := Script.validate, mws,
           terminate := if term = "1" then some true else if term = "2" then some false else none },
    inp := getHex kv "in", tin := getHex kv "tin", cx := get kv "cx" = "1", kv }

structure ModelOut where
  out : String
  ev : String
  ending : String
  unsup : Bool
  stuffed : Bool

def parseAccOps (s : String) : List Spec.Acc :=
  if s.isEmpty then [] else (s.splitOn ",").filterMap fun o =>
    if o = "s" then some .str else if o = "u2" then some .u16 else if o = "u4" then some .u32
    else if o.startsWith "b" then ((o.drop 1).toString.toNat?).map .bytes else none

def renderAcc (rs : List Spec.AccRes) (rem : Bytes) : String :=
  ";".intercalate (rs.map (fun r => match r with | some v => "+" ++ hexOf v | none => "-") ++ ["rem=" ++ hexOf rem])

/-- C16: run a forced schedule on the abstract shutdown protocol.  `wP`/`wG` hold an admission
    inside its critical section: by mutual exclusion (pinned in Conformance/Close.lean) a closer
    started meanwhile cannot enter its own (`cS:blk`) and completes as soon as the admission is let
    go; the admission itself is the one atomic step of `Conc.step`, taken at `wG`. -/
def runCloseModel (c : CaseIn) : String :=
  let k := (get c.kv "closers").toNat?.getD 0
  let cmds := if (get c.kv "cmds").isEmpty then [] else (get c.kv "cmds").splitOn ","
  let acts := ((get c.kv "sched").splitOn ",").filter (· ≠ "")
  let rec go (acts : List String) (s : Conc.St) (held : List Nat) (blocked : List Nat) (acc : List String) : List String :=
    match acts with
    | [] => acc.reverse
    | a :: r =>
      let idx := ((a.drop 2).toString.toNat?).getD 0
      let kind := (a.take 2).toString
      if kind = "cS" then
        if held.isEmpty then go r ((Conc.step (.closer idx) s).getD s) held blocked (a :: acc)
        else go r s held (blocked ++ [idx]) ((a ++ ":blk") :: acc)
      else if kind = "cT" then
        -- try to return: possible only from the wait with no admitted command left
        if blocked.contains idx then go r s held blocked ((a ++ ":no") :: acc)
        else
          let s1 := (Conc.step .helper s).getD s
          match s1.closers[idx]? with
          | some .returned => go r s1 held blocked ((a ++ ":ret") :: acc)
          | some .waiting =>
            (match Conc.step (.closer idx) s1 with
             | some s2 => go r s2 held blocked ((a ++ ":ret") :: acc)
             | none => go r s1 held blocked ((a ++ ":no") :: acc))
          | _ => go r s1 held blocked ((a ++ ":no") :: acc)
      else if kind = "cR" then
        let s1 := (Conc.step .helper s).getD s      -- the helper goroutine runs freely once the channel is closed
        match Conc.step (.closer idx) s1 with
        | some s2 => go r s2 held blocked ((a ++ ":ret") :: acc)
        | none => go r s1 held blocked ((a ++ ":hang") :: acc)
      else if kind = "wA" then
        match Conc.step (.worker idx) s with
        | some s2 =>
          let res := if s2.workers[idx]? = some .running then "adm" else "ref"
          go r s2 held blocked ((a ++ ":" ++ res) :: acc)
        | none => go r s held blocked ((a ++ ":lost") :: acc)
      else if kind = "wO" then
        -- a connection stalled in the body of an oversized message: nothing is admitted
        go r s held blocked ((a ++ ":stall") :: acc)
      else if kind = "wZ" then
        -- a complete oversized message: skipped and answered whatever the state of the shutdown, no command admitted
        go r s held blocked ((a ++ ":rec") :: acc)
      else if kind = "wP" then
        -- the closing check: refused at once when closing is set, otherwise held before wg.Add
        if s.closing then go r ((Conc.step (.worker idx) s).getD s) held blocked ((a ++ ":ref") :: acc)
        else go r s (idx :: held) blocked ((a ++ ":chk") :: acc)
      else if kind = "wG" then
        let s1 := (Conc.step (.worker idx) s).getD s
        let res := if s1.workers[idx]? = some .running then "adm" else "ref"
        -- the closers that were waiting for the mutex run their critical sections now
        let s2 := blocked.foldl (fun st i => (Conc.step (.closer i) st).getD st) s1
        go r s2 (held.filter (· ≠ idx)) [] ((a ++ ":" ++ res) :: acc)
      else
        go r ((Conc.step (.worker idx) s).getD s) held blocked (a :: acc)
  ";".intercalate (go acts (Conc.init k cmds.length) [] [] [] ++ ["serve=nil", "viol=-"])

/-- C18: the heap model on a sequence of reads / skips / accessor calls -/
def runHeapModel (c : CaseIn) : String :=
  let L := effLimit c.cfg.L
  let ops := ((get c.kv "ops").splitOn ",").filter (· ≠ "")
  -- arenas are numbered in order of first appearance at an operation boundary (the arenas of
  -- intermediate skip chunks are never observed by the harness)
  let layout (seen : List Nat) (s : Heap.St) : String × List Nat := match s.cur with
    | none => ("nil", seen)
    | some w =>
      if w.cap = 0 then ("-:0:0", seen) else
      let seen' := if seen.contains w.arena then seen else seen ++ [w.arena]
      let idx := (seen'.findIdx? (· = w.arena)).getD 0
      (toString idx ++ ":" ++ toString w.len ++ ":" ++ toString w.cap, seen')
  let rec slurp (fuel : Nat) (remaining : Nat) (s : Heap.St) : Heap.St :=
    match fuel with
    | 0 => s
    | f + 1 => if remaining = 0 then s else
        let reading := if remaining > L then L else remaining
        slurp f (remaining - reading) (Heap.reset reading s)
  let rec go (ops : List String) (s : Heap.St) (seen : List Nat) (acc : List String) : List String :=
    match ops with
    | [] => acc.reverse
    | o :: r =>
      let n := ((o.drop 1).toString.toNat?).getD 0
      let s' := if o.startsWith "r" then Heap.reset n s
        else if o.startsWith "s" then slurp (n + 1) n s
        else Heap.take n 0 s
      let (txt, seen') := layout seen s'
      go r s' seen' (txt :: acc)
  ";".intercalate (go ops {} [] [] ++ ["views=ok"])

/-- model side of the direct-call campaigns -/
def runDirect (c : CaseIn) (kind : String) : ModelOut :=
  if kind = "params" then
    { out := "", ev := "n=" ++ toString (paramCount c.inp) ++ ";z=1", ending := "c", unsup := false, stuffed := false }
  else if kind = "errnil" then
    { out := renderOut [(BMsg.error (errorBody (flatten none))).encode, (BMsg.ready (ch 'I')).encode], ev := "",
      ending := "c", unsup := false, stuffed := false }
  else if kind = "heap" then
    { out := "", ev := runHeapModel c, ending := "c", unsup := false, stuffed := false }
  else if kind = "close" then
    { out := "", ev := runCloseModel c, ending := "c", unsup := false, stuffed := false }
  else if kind = "accessor" then
    let (rs, rem) := Spec.modelRun c.inp (parseAccOps (get c.kv "ops"))
    { out := "", ev := renderAcc rs rem, ending := "c", unsup := false, stuffed := false }
  else { out := "", ev := "?", ending := "?", unsup := false, stuffed := false }

/-- C03 accessor oracle: the real accessors' results equal the independent cursor's -/
def oracleAccessor (c : CaseIn) (rkv : KV) : Option String :=
  let (rs, pos) := Spec.cursorRun c.inp 0 (parseAccOps (get c.kv "ops"))
  let want := renderAcc rs (c.inp.drop pos)
  if get rkv "ev" = want then none else some ("C03:accessor:" ++ get rkv "ev" ++ "/" ++ want)

def runModel (c : CaseIn) : ModelOut × Result :=
  let r := serve c.cfg c.h c.inp c.tin
  ({ out := renderOut r.out, ev := renderEvents r c.cx c.h.mws.length, ending := renderEnd r.ending,
     unsup := r.unsup || (r.ev.any fun e => e == .note (ascii "s=unsup")), stuffed := r.stuffed }, r)

/-- decode the implementation's `out=` field back into bytes (S*n placeholders are skipped) -/
def implChunks (s : String) : List Bytes :=
  if s.isEmpty then [] else (s.splitOn ".").filterMap fun p => if p.startsWith "S*" then none else unhex p

/-- C02 oracle on the implementation's output: after the optional SSL reply byte, the
    stream is a concatenation of well-formed backend messages -/
def wellFormedOut (chunks : List Bytes) : Bool :=
  let chunks := match chunks with
    | [b] :: r => if b = ch 'N' ∨ b = ch 'S' then r else chunks
    | _ => chunks
  (parseBackend chunks.flatten).isSome

/-- split a backend byte stream into (type, body) frames by declared lengths only -/
def splitFrames : Nat → Bytes → List (UInt8 × Bytes)
  | 0, _ => []
  | fuel + 1, b =>
    match b with
    | [] => []
    | t :: r =>
      match rd32 r with
      | none => []
      | some (len, r') =>
        if len < 4 ∨ r'.length < len - 4 then []
        else (t, r'.take (len - 4)) :: splitFrames fuel (r'.drop (len - 4))

def implFrames (chunks : List Bytes) : List (UInt8 × Bytes) :=
  let chunks := match chunks with
    | [b] :: r => if b = ch 'N' ∨ b = ch 'S' then r else chunks
    | _ => chunks
  let flat := chunks.flatten
  splitFrames flat.length flat

/-- the typed messages a client sent after its (single, plain) startup packet -/
def clientItems (L : Nat) (inp : Bytes) : List Item :=
  match rd32 inp with
  | some (n, _) => deframe L (inp.drop n)
  | none => []

/-- C17 oracle: the i-th ErrorResponse of the implementation must parse, under the strict
    grammar, to exactly `Spec.expectedFields` of the error the i-th failing query specifies -/
def oracleErrors (c : CaseIn) (chunks : List Bytes) : Option String :=
  if get c.kv "direct" = "errnil" then
    -- a nil error: severity FATAL, SQLSTATE XX000 (internal error), a non-empty message
    match (implFrames chunks).find? (·.1 = ch 'E') with
    | none => some "C17:nil-error-not-reported"
    | some (_, body) =>
      if parseErrFields (body.length + 1) body = some Spec.nilFields then none
      else some ("C17:nil-error-fields:" ++ hexOf body)
  else
  let items := clientItems (effLimit c.cfg.L) c.inp
  let errs : List Err := items.filterMap fun it => match it with
    | .msg t body => if t = ch 'Q' then
        match cstr body with
        | some (33 :: spec, _) => Script.parseErrSpec spec
        | some (q, _) =>
          -- a single statement `cols/params/ops/E<errspec>` that returns a (decorated) error
          match Script.splitBy (ch '/') q with
          | [_, _, _, 69 :: spec] => Script.parseErrSpec spec
          | _ => none
        | _ => none
      else none
    | _ => none
  let got := (implFrames chunks).filterMap fun (t, b) => if t = ch 'E' then some b else none
  if got.length ≠ errs.length then
    some ("C17:error-count:" ++ toString got.length ++ "/" ++ toString errs.length)
  else
    (errs.zip got).findSome? fun (e, body) =>
      if parseErrFields (body.length + 1) body = some (Spec.expectedFields e) then none
      else some ("C17:fields:" ++ hexOf body)

/-- C20 oracle (direct call): the implementation's result has the specified length and only
    zero OIDs -/
def oracleParams (c : CaseIn) (rkv : KV) : Option String :=
  let want := "n=" ++ toString (paramCount c.inp) ++ ";z=1"
  if get rkv "ev" = want then none else some ("C20:length:" ++ get rkv "ev" ++ "/" ++ want)

/-- C20 oracle (Describe): the i-th ParameterDescription announces `paramCount` of the i-th
    successfully parsed query -/
def oracleParamsDescribe (c : CaseIn) (chunks : List Bytes) : Option String :=
  let items := clientItems (effLimit c.cfg.L) c.inp
  -- every Parse in this campaign succeeds and is immediately described
  let want : List Nat := items.filterMap fun it => match it with
    | .msg t body => if t = ch 'P' then
        match cstr body with
        | some (_, r) => (cstr r).map fun (q, _) => paramCount q
        | none => none
      else none
    | _ => none
  let got : List Nat := (implFrames chunks).filterMap fun (t, b) =>
    if t = ch 't' then (rd16 b).map (·.1) else none
  if got = want then none else some ("C20:describe-count:" ++ toString got ++ "/" ++ toString want)

def asciiStr (b : Bytes) : String := String.ofList (b.map fun x => Char.ofNat x.toNat)

/-- compact notation of one backend frame, used by generator-attached expectations (`xp=`) -/
def frameNote (f : UInt8 × Bytes) : String :=
  let (t, b) := f
  let tc := String.singleton (Char.ofNat t.toNat)
  if t = ch 'C' then "C" ++ (match cstr b with | some (tag, _) => hexOf tag | none => "?")
  else if t = ch 'E' then
    match parseErrFields (b.length + 1) b with
    | some fs =>
      let fld := fun (c : Char) => asciiStr ((fs.lookup (UInt8.ofNat c.toNat)).getD [])
      "E" ++ fld 'C' ++ ":" ++ fld 'S'
    | none => "E?"
  else if t = ch 'R' then "R" ++ (match rd32 b with | some (n, _) => toString n | none => "?")
  else if t = ch 'T' ∨ t = ch 'D' ∨ t = ch 't' then tc ++ (match rd16 b with | some (n, _) => toString n | none => "?")
  else tc

/-- generator-attached expectations: `xp` = notation of every frame after the session's first
    ReadyForQuery, `xpre` = notation of the whole output (used when no session starts),
    `xend` = fate of the connection -/
def oracleExpect (c : CaseIn) (chunks : List Bytes) (rkv : KV) : Option String :=
  let frames := implFrames chunks
  let notes := frames.map frameNote
  let afterZ := (notes.dropWhile (· ≠ "Z")).drop 1
  let chk (key : String) (got : List String) : Option String :=
    match c.kv.lookup key with
    | none => none
    | some want =>
      let g := ",".intercalate got
      if g = want then none else some (c.camp ++ ":" ++ key ++ ":got=" ++ g ++ ":want=" ++ want)
  let xevs := ((get rkv "ev").splitOn ";").filter (·.startsWith "X:")
  let chkEv : Option String := match c.kv.lookup "xev" with
    | none => none
    | some want =>
      let g := ";".intercalate xevs
      if "=" ++ g = want then none else some (c.camp ++ ":xev:got=" ++ g ++ ":want" ++ want)
  let kevs := ((get rkv "ev").splitOn ";").filter (fun e => e.startsWith "k+" ∨ e.startsWith "k." ∨ e.startsWith "k-")
  let chkK : Option String := match c.kv.lookup "xk" with
    | none => none
    | some want =>
      let g := ";".intercalate kevs
      if "=" ++ g = want then none else some (c.camp ++ ":xk:got=" ++ g ++ ":want" ++ want)
  let bevs := ((get rkv "ev").splitOn ";").filter (fun e => e.startsWith "b+" ∨ e.startsWith "b." ∨ e.startsWith "b-")
  let chkB : Option String := match c.kv.lookup "xb" with
    | none => none
    | some want =>
      let g := ";".intercalate bevs
      if "=" ++ g = want then none else some (c.camp ++ ":xb:got=" ++ g ++ ":want" ++ want)
  -- a row whose field count lies: exactly the rows before it, then an error (C14)
  let chkBK : Option String := match c.kv.lookup "xbk" with
    | none => none
    | some want =>
      let good := (((want.drop 1).toString.splitOn ";").filter (· ≠ ""))
      let got := bevs.take good.length
      if got ≠ good then some (c.camp ++ ":rows-before-the-bad-row:got=" ++ ";".intercalate got)
      else match bevs.drop good.length with
        | e :: _ => if e.startsWith "b-" then none else some (c.camp ++ ":field-count-mismatch-not-reported:got=" ++ e)
        | [] => some (c.camp ++ ":field-count-mismatch-not-reported:no-further-read")
  -- a truncated stream / data after the trailer: every row returned is a row the client encoded
  let chkBG : Option String := match c.kv.lookup "xbg" with
    | none => none
    | some want =>
      let good := (((want.drop 1).toString.splitOn ";").filter (· ≠ ""))
      let rows := bevs.filter (·.startsWith "b+")
      if rows = good.take rows.length then none else some (c.camp ++ ":fabricated-row:got=" ++ ";".intercalate rows)
  let chkBT : Option String := match c.kv.lookup "xbt" with
    | none => none
    | some _ => if bevs.contains "b." then some (c.camp ++ ":stream-truncated-inside-a-row-reported-as-complete") else none
  -- `xtail`: the output ends with these frames (the session went on and answered the final probe);
  -- `xne`: the number of ErrorResponses in the whole output
  let chkTail : Option String := match c.kv.lookup "xtail" with
    | none => none
    | some want =>
      let w := want.splitOn ","
      let g := notes.drop (notes.length - w.length)
      if g = w then none else some (c.camp ++ ":xtail:got=" ++ ",".intercalate g ++ ":want=" ++ want)
  let chkNE : Option String := match c.kv.lookup "xne" with
    | none => none
    | some want =>
      let n := notes.countP (·.startsWith "E")
      if toString n = want then none else some (c.camp ++ ":error-responses:got=" ++ toString n ++ ":want=" ++ want)
  -- `xg`: the first CopyInResponse announces this overall format and these per-column codes
  let chkG : Option String := match c.kv.lookup "xg" with
    | none => none
    | some want =>
      match frames.find? (·.1 = ch 'G') with
      | none => none
      | some (_, b) =>
        match b with
        | f :: r =>
          match rd16 r with
          | some (n, r') =>
            let rec codes : Nat → Bytes → List String
              | 0, _ => []
              | k + 1, bs => match rd16 bs with
                | some (v, bs') => toString v :: codes k bs'
                | none => ["?"]
            let g := toString f.toNat ++ ":" ++ ".".intercalate (codes n r')
            if g = want then none else some (c.camp ++ ":CopyInResponse-formats:got=" ++ g ++ ":want=" ++ want)
          | none => some (c.camp ++ ":CopyInResponse-malformed")
        | [] => some (c.camp ++ ":CopyInResponse-malformed")
  -- `xrow`: the fields of the first DataRow, byte for byte (NULL rendered `~`)
  let chkRow : Option String := match c.kv.lookup "xrow" with
    | none => none
    | some want =>
      match frames.find? (·.1 = ch 'D') with
      | none => some (c.camp ++ ":xrow:no-DataRow")
      | some (_, b) =>
        match rd16 b with
        | some (n, r) =>
          (match parseFields n r with
           | some fs =>
             let g := ",".intercalate (fs.map fun f => match f with | some v => hexOf v | none => "~")
             if g = want then none else some ("C09:" ++ c.camp ++ ":xrow:got=" ++ g ++ ":want=" ++ want)
           | none => some (c.camp ++ ":xrow:malformed-DataRow"))
        | none => some (c.camp ++ ":xrow:malformed-DataRow")
  (chk "xp" afterZ).orElse fun _ =>
  chkRow.orElse fun _ =>
  chkG.orElse fun _ =>
  chkTail.orElse fun _ =>
  chkNE.orElse fun _ =>
  chkEv.orElse fun _ =>
  chkB.orElse fun _ =>
  chkBT.orElse fun _ =>
  chkBK.orElse fun _ =>
  chkBG.orElse fun _ =>
  chkK.orElse fun _ =>
  (chk "xpre" notes).orElse fun _ =>
  match c.kv.lookup "xend" with
  | none => none
  | some want => if get rkv "end" = want then none else some (c.camp ++ ":xend:got=" ++ get rkv "end" ++ ":want=" ++ want)

/-- C08 oracle: compare what the implementation delivered / announced / encoded with the
    generator's expectations (built from how the Bind message was constructed) -/
def oracleBind (c : CaseIn) (chunks : List Bytes) (rkv : KV) : Option String :=
  let frames := implFrames chunks
  let evs := (get rkv "ev").splitOn ";"
  let want (k : String) : Option String := (c.kv.lookup k).map fun v => (v.drop 1).toString
  let chk (k : String) (got : String) : Option String :=
    match want k with
    | none => none
    | some w => if got = w then none else some ("C08:" ++ k ++ ":got=" ++ got ++ ":want=" ++ w)
  -- parameters seen by the statement function: last ':'-separated part of the X event
  let xev := evs.find? (·.startsWith "X:")
  let gotX := match xev with
    | some e => ((e.splitOn ":").getLast?).getD ""
    | none => "<no-exec>"
  let notes := evs.filter (·.startsWith "N") |>.map fun e => (e.drop 1).toString
  let afterBind := (frames.dropWhile (·.1 ≠ ch '2')).drop 1
  let tf := match afterBind.find? (·.1 = ch 'T') with
    | some (_, b) => (match rd16 b with
        | some (n, r) => (match parseColDescs n r with
          | some cols => ",".intercalate (cols.map fun cf => toString cf.2)
          | none => "<bad-T>")
        | none => "<bad-T>")
    | none => "<no-T>"
  let dr := match afterBind.find? (·.1 = ch 'D') with
    | some (_, b) => (match rd16 b with
        | some (n, r) => (match parseFields n r with
          | some fs => ",".intercalate (fs.map fun f => match f with | some v => hexOf v | none => "~")
          | none => "<bad-D>")
        | none => "<bad-D>")
    | none => "<no-D>"
  let pd := match frames.find? (·.1 = ch 't') with
    | some (_, b) => (match rd16 b with
        | some (n, r) => (match parseOids n r with
          | some os => ",".intercalate (os.map toString)
          | none => "<bad-t>")
        | none => "<bad-t>")
    | none => "<no-t>"
  -- a portal executed again (without a new Bind) hands the statement function the same parameters again
  let xevs := evs.filter (·.startsWith "X:")
  let again : Option String := (xevs.drop 1).findSome? fun e =>
    (chk "xx" (((e.splitOn ":").getLast?).getD "")).map (· ++ ":on-a-repeated-Execute")
  let nx := xevs.length
  let wantNotes : Option String := (want "xn").map fun w =>
    if w.isEmpty then w else ",".intercalate (List.replicate (max nx 1) w)
  let chkNotes : Option String := match wantNotes with
    | none => none
    | some w => if ",".intercalate notes = w then none
                else some ("C08:xn:got=" ++ ",".intercalate notes ++ ":want=" ++ w)
  (chk "xx" gotX).orElse fun _ => again.orElse fun _ => chkNotes.orElse fun _ =>
  (chk "xtf" tf).orElse fun _ => (chk "xd" dr).orElse fun _ => chk "xt" pd

/-- C04 oracle on the implementation's run: the connection is released once the client has hung
    up, a bystander connection opened meanwhile is served, and the bytes allocated while serving
    a connection that announces huge lengths / counts stay below `4 MiB + 16·limit` -/
def oracleHostile (c : CaseIn) (rkv : KV) : Option String :=
  let L := effLimit c.cfg.L
  if get c.kv "fin" = "1" ∧ get rkv "fin" ≠ "1" then some "C04:connection-not-released-after-client-hangup"
  else if get c.kv "by" = "1" ∧ get rkv "by" ≠ "ok" then some ("C04:bystander-connection-not-served:" ++ get rkv "by")
  else if get c.kv "alloc" = "1" then
    match (get rkv "alloc").toNat? with
    | none => some "C04:allocation-not-measured"
    | some a => if a > 4194304 + 16 * L then some ("C04:allocated=" ++ toString a ++ ":limit=" ++ toString L) else none
  else none

/-- C11 oracle on the implementation's run: the SSLRequest is answered with exactly one byte —
    'S' with certificates, 'N' without — and after an 'S' every raw byte the server put on the
    wire is a TLS record with no protocol plaintext in it (`tap`, computed by the harness's tap) -/
def oracleTls (c : CaseIn) (chunks : List Bytes) (rkv : KV) : Option String :=
  -- "mallory" in hex: the marker the generator puts into stuffed plaintext (user name, query text);
  -- callback events carry query texts hex-encoded, i.e. the marker appears hex-encoded twice
  let marker := "6d616c6c6f7279"
  let markerHexHex := "3664363136633663366637323739"
  let want : UInt8 := if c.cfg.tls ≥ 2 then ch 'S' else ch 'N'
  let sslFirst := c.inp.take 8 = be32 8 ++ be32 versionSSL
  if !sslFirst then none
  else match chunks with
    | [b] :: _ =>
      if b ≠ want then some ("C11:SSLRequest-answered-with-" ++ hexOf [b])
      else if c.cfg.tls ≥ 2 ∧ get rkv "tap" ≠ "ok" then some ("C11:wire-" ++ get rkv "tap")
      else if c.cfg.tls ≥ 2 ∧ ((get c.kv "in").splitOn marker).length > 1 ∧ ((get c.kv "tin").splitOn marker).length = 1
          ∧ (((get rkv "out").splitOn marker).length > 1 ∨ ((get rkv "ev").splitOn marker).length > 1
             ∨ ((get rkv "ev").splitOn markerHexHex).length > 1) then
        some "C11:plaintext-sent-ahead-of-the-handshake-was-interpreted"
      else if c.cfg.tls ≥ 2 ∧ c.tin.take 8 = be32 16 ++ be32 versionCancel ∧ c.tin.length ≥ 16
          ∧ (chunks.length ≠ 1 ∨ get rkv "ev" ≠ "" ∨ get rkv "end" ≠ "c") then
        some "C12:CancelRequest-inside-TLS-got-a-reply-or-a-callback-or-stayed-open"
      else none
    | _ => some "C11:SSLRequest-not-answered-with-a-single-byte"

/-- C09 oracle: decode every DataRow of the implementation's transcript as a client would
    (type OIDs and format codes from the generator's description of the request, checked against
    the RowDescription) and compare with the values the handler was told to write -/
def oracleValues (c : CaseIn) (chunks : List Bytes) : Option String :=
  let frames := implFrames chunks
  let arg (k : String) : String := ((c.kv.lookup k).map fun v => (v.drop 1).toString).getD ""
  let letters : List UInt8 := (arg "vcols").toList.map fun ch => UInt8.ofNat ch.toNat
  let oids : List Nat := letters.filterMap Script.colOid
  let fmts : List Nat := ((arg "vfmt").splitOn ",").filterMap (·.toNat?)
  let rows : List (List (Option Val)) := (((arg "vrows").splitOn "|").filter (· ≠ "")).map fun r =>
    ((r.splitOn ",").map fun tok => Script.parseVal (tok.toList.map fun ch => UInt8.ofNat ch.toNat))
  let afterStart := (frames.dropWhile (·.1 ≠ ch 'Z')).drop 1
  let ds := afterStart.filter (·.1 = ch 'D')
  let tcheck : Option String := match afterStart.find? (·.1 = ch 'T') with
    | none => some "C09:no-RowDescription"
    | some (_, b) => match rd16 b with
      | none => some "C09:bad-RowDescription"
      | some (n, r) => match parseColDescs n r with
        | none => some "C09:bad-RowDescription"
        | some cols =>
          if cols.map (·.1.oid) ≠ oids then some "C09:RowDescription-types"
          else if cols.map (·.2) ≠ fmts then some ("C09:RowDescription-formats:" ++ toString (cols.map (·.2)))
          else none
  let rec cmpFields (i : Nat) (os fs : List Nat) (got : List (Option Bytes)) (want : List (Option Val)) (row : Nat) : Option String :=
    match os, fs, got, want with
    | [], [], [], [] => none
    | o :: os', f :: fs', g :: got', w :: want' =>
      let dec := Spec.clientDecode o f g
      let exp := w.map Spec.normal
      if exp.isNone then some ("C09:generator-value-unparsed:row=" ++ toString row ++ ":col=" ++ toString i)
      else if dec = exp then cmpFields (i + 1) os' fs' got' want' row
      else some ("C09:value:row=" ++ toString row ++ ":col=" ++ toString i ++ ":oid=" ++ toString o ++ ":fmt=" ++ toString f
        ++ ":field=" ++ (match g with | some v => hexOf v | none => "NULL"))
    | _, _, _, _ => some ("C09:field-count:row=" ++ toString row ++ ":fields=" ++ toString (i + got.length)
        ++ ":columns=" ++ toString (i + os.length))
  let rec cmpRows (k : Nat) (ds : List (UInt8 × Bytes)) (rows : List (List (Option Val))) : Option String :=
    match ds, rows with
    | [], [] => none
    | (_, b) :: ds', r :: rows' =>
      (match rd16 b with
      | none => some ("C09:bad-DataRow:row=" ++ toString k)
      | some (n, rest) => match parseFields n rest with
        | none => some ("C09:bad-DataRow:row=" ++ toString k)
        | some fs => (cmpFields 0 oids fmts fs r k).orElse fun _ => cmpRows (k + 1) ds' rows')
    | _, _ => some ("C09:row-count:got=" ++ toString (k + ds.length) ++ ":want=" ++ toString (k + rows.length))
  tcheck.orElse fun _ => cmpRows 0 ds rows

/-- split a list at every element satisfying `p` (the separator closes its group) -/
def splitAfter {α} (p : α → Bool) : List α → List (List α)
  | [] => []
  | x :: xs =>
    match splitAfter p xs with
    | [] => [[x]]
    | g :: gs => if p x then [x] :: g :: gs else (x :: g) :: gs

/-- one simple-query cycle (type bytes, ReadyForQuery last): `I Z` or `(T? D* C?)* E? Z` -/
def cycleOk (ts : List Char) : Bool :=
  match ts.reverse with
  | 'Z' :: rest =>
    let body := rest.reverse
    if body = ['I'] then true
    else
      let noE := match body.reverse with | 'E' :: r => r.reverse | _ => body
      noE.all (fun c => c = 'T' ∨ c = 'D' ∨ c = 'C' ∨ c = 'G')
  | _ => false

/-- the writer relations on one statement execution's observation trace -/
def segmentOk (closedTxt : String) (evs : List String) : Option String :=
  let rec go (evs : List String) (rows : Nat) (closed : Bool) (completes : Nat) : Option String :=
    match evs with
    | [] => none
    | e :: r =>
      if e = "r+" then (if closed then some "row-after-completion" else go r (rows + 1) closed completes)
      else if e.startsWith "w" then
        (if (e.drop 1).toString = toString rows then go r rows closed completes else some ("written:" ++ e ++ "/rows=" ++ toString rows))
      else if e = "c+" then (if closed then some "complete-after-completion" else go r rows true (completes + 1))
      else if e = "e+" then (if closed then some "empty-after-completion" else go r rows true completes)
      else if e = "g+" then (if closed then some "copyin-after-completion" else go r rows closed completes)
      else if closed ∧ (e.startsWith "r-" ∨ e.startsWith "c-" ∨ e.startsWith "e-" ∨ e.startsWith "g-") then
        (if (e.drop 2).toString = closedTxt then go r rows closed completes else some ("not-closed-error:" ++ e))
      else go r rows closed completes
  go evs 0 false 0

/-- the statement scripts of a query text (hex as it appears in `P:`/`X:` events): per statement
    the column count, the operations and whether the statement function returns an error -/
def scriptStmts (hexq : String) : List (Nat × List String × Bool) :=
  match unhex hexq with
  | none => []
  | some q =>
    let txt := String.ofList (q.map fun b => Char.ofNat b.toNat)
    (txt.splitOn "|").map fun st =>
      match st.splitOn "/" with
      | cols :: _ :: ops :: ret :: _ =>
        ((if cols.isEmpty then 0 else (cols.splitOn ",").length),
         (if ops.isEmpty then [] else ops.splitOn ";"), ret.startsWith "E")
      | _ => (0, [], false)

/-- C05 on the script level, for the writer-only programs of the `simple` campaign (operations
    r/c/e/w, one observation each): (a) no statement of a query runs after an earlier statement
    of the same query returned an error; (b) a row with the wrong number of values is refused -/
def scriptChecks (evs : List String) : Option String :=
  let rec go (evs : List String) (failed : List String) : Option String :=
    match evs with
    | [] => none
    | e :: r =>
      if e.startsWith "P:" then go r []      -- a new query: forget the failures of the previous one
      else if e.startsWith "X:" then
        match (e.drop 2).toString.splitOn ":" with
        | hexq :: idx :: _ =>
          let sts := scriptStmts hexq
          let k := idx.toNat?.getD 0
          if failed.contains hexq then some ("statement-ran-after-a-failed-statement:idx=" ++ idx)
          else
            let (ncols, ops, retErr) := sts.getD k (0, [], false)
            -- observations of this execution: the events up to the next P:/X:
            let obs := r.takeWhile fun x => !(x.startsWith "P:" ∨ x.startsWith "X:")
            let plain := ops.all fun o => o.startsWith "r:" ∨ o.startsWith "c:" ∨ o = "e" ∨ o = "w" ∨ o = "e?" ∨ o.startsWith "r" ∨ o.startsWith "c"
            let bad : Option String :=
              if !plain then none else
              (ops.zip obs).findSome? fun (o, ob) =>
                let body := if o.endsWith "?" then (o.dropEnd 1).toString else o
                if body.startsWith "r:" then
                  let vals := (body.drop 2).toString
                  let n := if vals.isEmpty then 0 else (vals.splitOn ",").length
                  if n ≠ ncols ∧ ob = "r+" then some ("wrong-arity-row-accepted:values=" ++ toString n ++ ":columns=" ++ toString ncols)
                  else none
                else none
            match bad with
            | some w => some w
            | none =>
              -- did this execution run to its end? then its `ret` decides
              let completed := obs.length = ops.length
              go r (if retErr ∧ completed then hexq :: failed else failed)
        | _ => go r failed
      else go r failed
  go evs []

/-- C05 oracle on the implementation's transcript and handler observations -/
def oracleSimple (c : CaseIn) (chunks : List Bytes) (rkv : KV) : Option String :=
  let frames := implFrames chunks
  let types := frames.map fun f => Char.ofNat f.1.toNat
  let afterStart := (types.dropWhile (· ≠ 'Z')).drop 1
  let cycles := splitAfter (· = 'Z') afterStart
  let nQ := (clientItems (effLimit c.cfg.L) c.inp).countP fun it => match it with | .msg t _ => t = ch 'Q' | _ => false
  let evs := ((get rkv "ev").splitOn ";").filter (· ≠ "")
  let closedTxt := "L" ++ hexOf errClosedWriter.text
  -- statement executions: maximal runs of events after each X
  let rec segments (evs : List String) (cur : Option (List String)) (acc : List (List String)) : List (List String) :=
    match evs with
    | [] => (match cur with | some s => (s.reverse :: acc) | none => acc).reverse
    | e :: r =>
      if e.startsWith "X:" then segments r (some []) (match cur with | some s => s.reverse :: acc | none => acc)
      else if e.startsWith "P:" then segments r none (match cur with | some s => s.reverse :: acc | none => acc)
      else match cur with
        | some s => segments r (some (e :: s)) acc
        | none => segments r none acc
  let sgs := segments evs none []
  -- a blank query (only white space) is answered EmptyQueryResponse + ReadyForQuery without
  -- consulting the parser; any other query is not
  let qtexts : List Bytes := (clientItems (effLimit c.cfg.L) c.inp).filterMap fun it => match it with
    | .msg t b => if t = ch 'Q' then (cstr b).map (·.1) else none
    | _ => none
  let blankBad : Option String := (qtexts.zip cycles).findSome? fun (q, cy) =>
    if isBlank q ∧ cy ≠ ['I', 'Z'] then some ("C05:blank-query-not-answered-with-EmptyQueryResponse:" ++ String.ofList cy)
    else if !isBlank q ∧ cy = ['I', 'Z'] then some "C05:EmptyQueryResponse-for-a-non-blank-query"
    else none
  let nParse := evs.countP (·.startsWith "P:")
  let nNonBlank := (qtexts.take cycles.length).countP fun q => !isBlank q
  if blankBad.isSome ∧ qtexts.length = nQ then blankBad
  else if get rkv "end" = "w" ∧ cycles.length = nQ ∧ qtexts.length = nQ ∧ nParse ≠ nNonBlank then
    some ("C05:parser-calls=" ++ toString nParse ++ "/non-blank-queries=" ++ toString nNonBlank)
  else if get rkv "end" = "w" ∧ cycles.length ≠ nQ then some ("C05:cycles=" ++ toString cycles.length ++ "/queries=" ++ toString nQ)
  else match cycles.find? (fun cy => !cycleOk cy) with
    | some cy => some ("C05:cycle-grammar:" ++ String.ofList cy)
    | none =>
      match (sgs.findSome? (segmentOk closedTxt)).orElse (fun _ => scriptChecks evs) with
      | some why => some ("C05:writer:" ++ why)
      | none =>
        let nD := types.countP (· = 'D')
        let nC := types.countP (· = 'C')
        let okRows := evs.countP (· = "r+")
        let okCompletes := evs.countP (· = "c+")
        if nD ≠ okRows then some ("C05:rows-delivered:D=" ++ toString nD ++ "/r+=" ++ toString okRows)
        else if nC ≠ okCompletes then some ("C05:completes:C=" ++ toString nC ++ "/c+=" ++ toString okCompletes)
        else none

/-- typed items of the client stream with the offset at which each ends -/
def itemsWithEnd (L : Nat) : Nat → Nat → Bytes → List (Item × Nat)
  | 0, _, _ => []
  | fuel + 1, off, inp =>
    match readItem L inp with
    | none => []
    | some (it, rest) =>
      let endOff := off + (inp.length - rest.length)
      (it, endOff) :: itemsWithEnd L fuel endOff rest

/-- C06 oracle: replay the client's history through ExtSpec, giving each message the reply group
    the implementation wrote while exactly that message had been delivered (`at=`), and the
    callbacks it ran then (`#offset` suffix of the events) -/
def oracleExt (c : CaseIn) (chunks : List Bytes) (rkv : KV) : Option String :=
  let L := effLimit c.cfg.L
  let n0 := match rd32 c.inp with | some (n, _) => n | none => 0
  let rest := c.inp.drop n0
  let items := itemsWithEnd L rest.length n0 rest
  let ats : List Nat := ((get rkv "at").splitOn ",").filterMap (·.toNat?)
  -- implChunks drops S*n placeholders; this campaign has none, so chunks and `at` are aligned
  let types : List Char := chunks.map fun b => Char.ofNat (b.headD 0).toNat
  let tagged := types.zip ats
  let evs := ((get rkv "ev").splitOn ";").filter (· ≠ "")
  let evOff : List Nat := evs.filterMap fun e =>
    if e.startsWith "P:" ∨ e.startsWith "X:" then ((e.splitOn "#").getLast?).bind (·.toNat?) else none
  let rec go (st : Spec.ExtState) (its : List (Item × Nat)) : Option String :=
    match its with
    | [] => none
    | (it, off) :: r =>
      let reply := (tagged.filter (·.2 = off)).map (·.1)
      let nev := evOff.countP (· = off)
      match Spec.extStep L st it reply nev with
      | .error why => some ("C06:" ++ why ++ ":at=" ++ toString off ++ ":reply=" ++ String.ofList reply)
      | .ok st' => go st' r
  -- every write after the startup must be attributed to some message
  let known := n0 :: items.map (·.2)
  match tagged.find? (fun p => !known.contains p.2) with
  | some p => some ("C06:reply-not-attributed:" ++ String.singleton p.1 ++ "@" ++ toString p.2)
  | none => go {} items

/-- C01 oracle: recompute from the INPUT whether the strategy accepted the connection; if not,
    the implementation must not have sent AuthenticationOk / ParameterStatus / ReadyForQuery,
    must not have run anything but the validator, and must have closed the connection -/
def oracleAuth (c : CaseIn) (chunks : List Bytes) (rkv : KV) : Option String :=
  let L := effLimit c.cfg.L
  match rd32 c.inp with
  | none => none
  | some (n0, _) =>
    let body := (c.inp.take n0).drop 8
    let cp := (readClientParams (body.length + 1) body []).getD []
    let user := (lookup (ascii "user") cp).getD []
    let db := (lookup (ascii "database") cp).getD []
    let rest := c.inp.drop n0
    let first := readItem L rest
    let accepted := match first with
      | some (.msg t pwb, _) => t = ch 'p' && (match cstr pwb with
          | some (pw, _) => decide (Script.validate db user pw = Verdict.accept)
          | none => false)
      | _ => false
    let rejected := match first with
      | some (.msg t pwb, _) => t = ch 'p' && (match cstr pwb with
          | some (pw, _) => decide (Script.validate db user pw = Verdict.reject)
          | none => false)
      | _ => false
    let frames := implFrames chunks
    let hasAuthOk := frames.any fun (t, b) => t = ch 'R' ∧ b = be32 0
    let evs := ((get rkv "ev").splitOn ";").filter (· ≠ "")
    let nAuthOk := frames.countP fun (t, b) => t = ch 'R' ∧ b = be32 0
    if accepted then (if nAuthOk = 1 then none
      else if nAuthOk = 0 then some "C01:accepted-but-no-AuthenticationOk"
      else some "C12:AuthenticationOk-sent-more-than-once")
    else if hasAuthOk then some "C01:AuthenticationOk-without-acceptance"
    else if frames.any (fun (t, _) => t = ch 'S' ∨ t = ch 'Z') then some "C01:session-messages-without-acceptance"
    else if evs.any (fun e => !(e.startsWith "V:")) then some ("C01:callback-without-acceptance:" ++ (get rkv "ev").take 60)
    else if evs.length > 1 then some "C01:validator-called-twice"
    else if first.isSome ∧ get rkv "end" ≠ "c" then some "C01:connection-not-closed"
    else if rejected ∧ !(frames.any fun (t, b) => t = ch 'E' &&
        (match parseErrFields (b.length + 1) b with
         | some fs => decide (((fs.lookup (ch 'C')).getD []).take 2 = [50, 56])
         | none => false)) then some "C01:wrong-password-not-reported-with-class-28"
    else none

/-- substring between `open` and the next `close` in `s` (first occurrence) -/
def between (s : String) (opn cls : String) : Option String :=
  match s.splitOn opn with
  | _ :: rest :: _ => (rest.splitOn cls).head?
  | _ => none

/-- C12 oracle: what the handler saw as client/server parameters, the ParameterStatus set on
    the wire, one ReadyForQuery before the first command, the user's map untouched -/
def oracleStartup (c : CaseIn) (chunks : List Bytes) (rkv : KV) : Option String :=
  let evs := ((get rkv "ev").splitOn ";").filter (· ≠ "")
  let want (k : String) : Option String := (c.kv.lookup k).map fun v => (v.drop 1).toString
  let frames := implFrames chunks
  if get rkv "umap" ≠ "same" then some "C12:user-supplied-parameter-map-modified"
  else if (c.kv.lookup "xnoev").isSome ∧ !evs.isEmpty then some ("C12:callback-after-cancel-or-bad-packet:" ++ (get rkv "ev").take 40)
  else
    let pev := evs.find? (·.startsWith "P:")
    let chkCtx : Option String := match want "xcp", want "xsp", pev with
      | some wc, some ws, some e =>
        let gc := (between e "@c[" "]").getD "?"
        let gs := (between e "]s[" "]").getD "?"
        if gc ≠ wc then some ("C12:client-params:got=" ++ gc ++ ":want=" ++ wc)
        else if gs ≠ ws then some ("C12:server-params-in-context:got=" ++ gs ++ ":want=" ++ ws)
        else none
      | some _, some _, none => some "C12:no-parse-callback"
      | _, _, _ => none
    let chkWire : Option String := match want "xsp" with
      | none => none
      | some ws =>
        let ss := frames.filterMap fun (t, b) => if t = ch 'S' then
            (match cstr b with | some (k, r) => (match cstr r with | some (v, _) => some (hexOf k ++ "=" ++ hexOf v) | none => none) | none => none)
          else none
        -- sort the k=v strings (keys are distinct hex strings of equal alphabet: plain string order)
        let sorted := ss.toArray.qsort (· < ·) |>.toList
        let g := ",".intercalate sorted
        if g = ws then none else some ("C12:ParameterStatus-set:got=" ++ g ++ ":want=" ++ ws)
    chkCtx.orElse fun _ => chkWire

/-- C19 oracle -/
def oracleLifecycle (c : CaseIn) (chunks : List Bytes) (rkv : KV) : Option String :=
  let evs := ((get rkv "ev").splitOn ";").filter (· ≠ "")
  let want (k : String) : Option String := (c.kv.lookup k).map fun v => (v.drop 1).toString
  let frames := implFrames chunks
  let mws := evs.filter (·.startsWith "M")
  let cbs := evs.filter fun e => e.startsWith "P:" ∨ e.startsWith "X:"
  let chkMw : Option String := match want "xmw" with
    | some w => if ";".intercalate mws = w then none else some ("C19:middleware-order:got=" ++ ";".intercalate mws ++ ":want=" ++ w)
    | none => none
  let chkOnly : Option String :=
    if (c.kv.lookup "xonlymw").isSome ∧ evs.length ≠ mws.length then some "C19:callback-after-middleware-failure" else none
  let chkNoZ : Option String :=
    if (c.kv.lookup "xnoZ").isSome ∧ frames.any (·.1 = ch 'Z') then some "C19:ReadyForQuery-after-middleware-failure" else none
  -- middlewares run before the first ReadyForQuery: all M events precede every P/X event
  let firstCb := evs.findIdx? fun e => e.startsWith "P:" ∨ e.startsWith "X:"
  let lastMw := (evs.reverse.findIdx? (·.startsWith "M")).map fun i => evs.length - 1 - i
  let chkBefore : Option String := match firstCb, lastMw with
    | some f, some l => if l < f then none else some "C19:middleware-after-first-command"
    | _, _ => none
  let chkMarks : Option String := match want "xmarks" with
    | none => none
    | some w => cbs.findSome? fun e =>
        let m := (between e "]m" "r").getD "?"
        if m ≠ w then some ("C19:context-chain:got=" ++ m ++ ":want=" ++ w)
        else if !(e.endsWith "r1t1a1") then some ("C19:context-values:" ++ (e.takeEnd 8).toString)
        else none
  let chkN : Option String := match c.kv.lookup "xncb" with
    | some n => if toString (evs.countP (·.startsWith "P:")) = n then none else some ("C19:parser-calls:" ++ toString (evs.countP (·.startsWith "P:")) ++ "/" ++ n)
    | none => none
  let chkTerm : Option String := match c.kv.lookup "xterm" with
    | some n => if toString (evs.countP (· = "T")) = n then none else some ("C19:terminate-hook-calls:" ++ toString (evs.countP (· = "T")) ++ "/" ++ n)
    | none => none
  -- per-command contexts: every captured callback context is cancelled once its command ended
  let dn := get rkv "dn"
  let chkDone : Option String := if dn.toList.all (· = '1') then none else some ("C19:command-context-not-cancelled:" ++ dn)
  chkMw.orElse fun _ => chkOnly.orElse fun _ => chkNoZ.orElse fun _ => chkBefore.orElse fun _ =>
  chkMarks.orElse fun _ => chkN.orElse fun _ => chkTerm.orElse fun _ => chkDone

/-- multi-connection cases: every connection is compared with the model of the same client
    traffic served ALONE (C15), and must see its own user in its server parameters (C12) -/
def runMultiModel (c : CaseIn) : ModelOut :=
  let ins := (get c.kv "min").splitOn "/"
  let rs := ins.map fun hx =>
    let inp := (unhex hx).getD []
    (runModel { c with inp := inp }).1
  { out := "/".intercalate (rs.map (·.out)), ev := "/".intercalate (rs.map (·.ev)),
    ending := "/".intercalate (rs.map (·.ending)), unsup := rs.any (·.unsup), stuffed := false }

def oracleMulti (c : CaseIn) (rkv : KV) : Option String :=
  let ins := (get c.kv "min").splitOn "/"
  let evs := (get rkv "ev").splitOn "/"
  if get rkv "umap" ≠ "same" then some "C12:user-supplied-parameter-map-modified"
  else if get rkv "retain" ≠ "ok" then some ("C18:retained-data-" ++ get rkv "retain")
  else
  -- with an authentication strategy every connection's verdict must be its own (C01): name that first
  -- when something differs
  let outs := (get rkv "out").splitOn "/"
  let ends := (get rkv "end").splitOn "/"
  let differs := (get rkv "solo").startsWith "diff" ∨ ends.contains "hang"
  let c01 : Option String :=
    if c.cfg.auth ∧ differs then
      (ins.zip (outs.zip (evs.zip ends))).findSome? fun (hx, o, ev, en) =>
        oracleAuth { c with inp := (unhex hx).getD [] } (implChunks o) [("ev", ev), ("end", en)]
    else none
  if c01.isSome then c01
  else if ends.contains "hang" then
    some ("C15:a-connection-was-never-served-or-never-came-to-rest:end=" ++ get rkv "end")
  else if (get rkv "solo").startsWith "diff" then
    some ("C15:connection-differs-from-the-same-traffic-served-alone:" ++ get rkv "solo")
  else (ins.zip evs).findSome? fun (hx, ev) =>
    let inp := (unhex hx).getD []
    match rd32 inp with
    | none => none
    | some (n0, _) =>
      let body := (inp.take n0).drop 8
      let cp := (readClientParams (body.length + 1) body []).getD []
      let user := (lookup (ascii "user") cp).getD []
      let want := hexOf (ascii "session_authorization") ++ "=" ++ hexOf user
      -- the validator must be asked about THIS connection's user and database
      let db := (lookup (ascii "database") cp).getD []
      let vbad := ((ev.splitOn ";").filter (·.startsWith "V:")).findSome? fun e =>
        match (e.drop 2).toString.splitOn ":" with
        | d :: u :: _ => if u = hexOf user ∧ d = hexOf db then none
                         else some ("C12:validator-got-another-connections-parameters:user=" ++ u ++ ":want=" ++ hexOf user)
        | _ => none
      vbad.orElse fun _ =>
      ((ev.splitOn ";").filter fun e => e.startsWith "P:" ∨ e.startsWith "X:").findSome? fun e =>
        match between e "]s[" "]" with
        | some sp => if (sp.splitOn ",").contains want then none
                     else some ("C12:per-connection-value-leaked:want=" ++ want ++ ":got=" ++ sp)
        | none => none

/-- C16 oracle: violations observed directly on the real code under the forced schedule
    (handler started after a Close returned, Close returned while a handler was running, a
    Close that never returned, Serve not returning nil) -/
def oracleClose (c : CaseIn) (rkv : KV) : Option String :=
  let evs := (get rkv "ev").splitOn ";"
  -- a step of the forced schedule that never completed on the real code although the abstract
  -- protocol completes it (a Close that never reaches its wait or never returns, a deadlock)
  let mevs := (runCloseModel c).splitOn ";"
  let stuck := (evs.zip mevs).findSome? fun (e, m) =>
    if e.endsWith ":hang" ∧ !(m.endsWith ":hang") then some ("C16:step-never-completed:" ++ e ++ ":expected=" ++ m) else none
  match evs.find? (·.startsWith "viol=") with
  | some v => if v = "viol=-" then
      (if stuck.isSome then stuck
       else if evs.contains "serve=nil" then none else some "C16:Serve-did-not-return-nil")
    else some ("C16:" ++ v)
  | none => some "C16:no-verdict"

/-- whatever the campaign: the result writer handed to a statement function is open - the first
    operation a freshly invoked statement function (`X:` event) performs on it never fails with
    "closed writer" (Execute: DataRows then CommandComplete, C05/C06) -/
def oracleFreshWriter (rkv : KV) : Option String :=
  let evs := ((get rkv "ev").splitOn ";").map fun e => match e.splitOn "#" with | [] => e | x :: _ => x
  let rec go : List String → Option String
    | a :: b :: r =>
      if a.startsWith "X:" ∧ (b.drop 1).toString.startsWith "-L636c6f73656420777269746572" then
        some "C06:statement-function-was-handed-a-closed-writer"
      else go (b :: r)
    | _ => none
  go evs

def oracleCamp (c : CaseIn) (chunks : List Bytes) (rkv : KV) : Option String :=
  if c.camp = "errors" then oracleErrors c chunks
  else if c.camp = "params" then oracleParams c rkv
  else if c.camp = "paramsd" then oracleParamsDescribe c chunks
  else if c.camp = "accessor" then oracleAccessor c rkv
  else if c.camp = "bind" then oracleBind c chunks rkv
  else if c.camp = "simple" then oracleSimple c chunks rkv
  else if c.camp = "values" then oracleValues c chunks
  else if c.camp = "hostile" ∨ c.camp = "alloc" then oracleHostile c rkv
  else if c.camp = "tls" then (oracleTls c chunks rkv).orElse fun _ => oracleExpect c chunks rkv
  else if c.camp = "ext" then oracleExt c chunks rkv
  else if c.camp = "auth" then oracleAuth c chunks rkv
  else if c.camp = "multi" then oracleMulti c rkv
  else if c.camp = "close" then oracleClose c rkv
  else if c.camp = "heap" then
    (if (get rkv "ev").endsWith "views=ok" then none else some "C18:view-returned-by-accessor-overwritten")
  else if c.camp = "retain" then
    (if get rkv "retain" = "ok" then none else some ("C18:retained-data-" ++ get rkv "retain"))
  else if c.camp = "startup" then (oracleStartup c chunks rkv).orElse fun _ => oracleExpect c chunks rkv
  else if c.camp = "lifecycle" then (oracleLifecycle c chunks rkv).orElse fun _ => oracleExpect c chunks rkv
  else oracleExpect c chunks rkv

def oracle (c : CaseIn) (chunks : List Bytes) (rkv : KV) : Option String :=
  (oracleCamp c chunks rkv).orElse fun _ =>
    if (get c.kv "conns").isEmpty ∧ (get c.kv "direct").isEmpty then oracleFreshWriter rkv else none

def processLine (line : String) : String :=
  match line.splitOn " || " with
  | [cs, rs] =>
    let ckv := parseKV cs
    let rkv := parseKV rs
    let c := parseCase ckv
    let direct := get ckv "direct"
    -- `nomodel=1`: the input was too large to hand to the list-based model (the 16 MiB default
    -- limit boundary); only the expectation oracle runs, on the implementation's output
    let nomodel := get ckv "nomodel" = "1"
    let m := if nomodel then ({ out := "", ev := "", ending := "", unsup := true, stuffed := false } : ModelOut)
             else if !(get ckv "conns").isEmpty then runMultiModel c
             else if direct.isEmpty then (runModel c).1 else runDirect c direct
    let iout := get rkv "out"
    let iev0 := get rkv "ev"
    let iev := if get ckv "evat" = "1" then
        ";".intercalate ((iev0.splitOn ";").map fun e => match e.splitOn "#" with | [] => e | x :: _ => x)
      else iev0
    let iend := get rkv "end"
    let same := m.out = iout ∧ m.ev = iev ∧ (m.stuffed ∨ m.ending = iend)
    let status := if m.unsup then "skip" else if same then "ok" else "diff"
    let chunks := implChunks iout
    let wf := wellFormedOut chunks
    let orc := match oracle c chunks rkv with
      | none => " oracle=ok"
      | some why => " oracle=rej why=" ++ why
    let base := "id=" ++ c.id ++ " status=" ++ status ++ " wf=" ++ (if wf then "1" else "0") ++ orc
    if status = "diff" then
      base ++ " mout=" ++ m.out ++ " mev=" ++ m.ev ++ " mend=" ++ m.ending
    else base
  | _ => "id=? status=badline"

end Pw.Driver
