import Pw.Go.Rt
/-
  Run-time library, part 2: what the code generated from `/repo/copy.go`
  (`Pw/Generated/TransCopy.lean`, namespace `Pw.TransCopy`) needs in addition to `Pw/Go/Rt.lean`.
  Everything here is fixed; what changes with the source is TransCopy.lean.

  World.  `CWorld` = the `World` of pkg/buffer (`base`: the one `buffer.Reader` behind the embedded
  `*buffer.Reader` of `CopyReader`, its stream, allocator …) plus the state of the one
  `BinaryCopyReader` (`bin`) and the two external callbacks of `BinaryCopyReader.Read`:
  `ctx.Err()` (`ctxErr`, a constant of the world: a context error never goes back to nil) and the
  per-column scanners `r.scanners[index](value)` (`scan`, an arbitrary function the theorems
  quantify over).  The receivers `r *CopyReader`, `r *BinaryCopyReader`, `r.reader` and the embedded
  `r.Reader` all denote the single object of their type in the world.

  Values.  `[]byte` values of copy.go other than `reader.Msg` (`pending`, the results of `take`)
  are plain byte lists: slicing is checked against the LENGTH (Go: against the capacity), so a
  no-panic result here is stronger than Go's; `append` never writes into a window handed out
  before (`take` hands out the front of `pending`, `append` writes behind its end).
-/
namespace Pw.Go
open Pw

/-- the error values copy.go produces or passes on -/
inductive CErr where
  | lib (e : Err)                            -- an error of pkg/buffer or of the transport
  | copyFailed (desc : Bytes)                -- newErrClientCopyFailed(desc)
  | unimplemented (t : UInt8)                -- NewErrUnimplementedMessageType(t)
  | new (text : Bytes)                       -- errors.New(text)
  | errorf (format : Bytes) (args : List Int) -- fmt.Errorf(format, numbers…)   (verbs `%d` only)
  | wrap (pre post : Bytes) (e : CErr)       -- fmt.Errorf(pre + "%w" + post, e)
  | wrapNil (pre post : Bytes)               -- fmt.Errorf(pre + "%w" + post, nil)
  | ext (id : Nat)                           -- an error value of an external callback (scanner, ctx.Err())
  deriving DecidableEq, Repr

/-- an error handed up from pkg/buffer -/
def liftErr (e : Option Err) : Option CErr := e.map CErr.lib

/-- `fmt.Errorf(pre + "%w" + post, e)`: never nil -/
def errorfW (pre post : Bytes) (e : Option CErr) : Option CErr :=
  match e with
  | some e => some (.wrap pre post e)
  | none => some (.wrapNil pre post)

/-- `buffer.MessageSizeExceeded` (the fields copy.go reads) -/
structure MessageSizeExceeded where
  Size : Int := 0
  Max : Int := 0
  deriving DecidableEq, Repr

/-- the first `MessageSizeExceeded` on the `Unwrap` chain of an error (`%w` wrappers are transparent) -/
def CErr.sizeExceeded? : CErr → MessageSizeExceeded × Bool
  | .lib (.sizeExceeded max size) => ({ Size := size, Max := max }, true)
  | .wrap _ _ e => e.sizeExceeded?
  | _ => ({}, false)

/-- `buffer.UnwrapMessageSizeExceeded(err)` = `errors.As(err, &result)` -/
def unwrapSizeExceeded : Option CErr → MessageSizeExceeded × Bool
  | some e => e.sizeExceeded?
  | none => ({}, false)

/-- a value of Go's `any` as a scanner returns it (opaque; `nil` is the zero value) -/
inductive AnyV where
  | nil
  | val (id : Nat)
  deriving DecidableEq, Repr

structure BinS where
  pending : Bytes := []
  started : Bool := false
  done : Bool := false
  /-- `len(r.scanners)` -/
  nscanners : Nat := 0
  deriving Repr

structure CWorld where
  base : World := {}
  bin : BinS := {}
  /-- `ctx.Err()` -/
  ctxErr : Option CErr := none
  /-- `r.scanners[index](value)` -/
  scan : Nat → Bytes → AnyV × Option CErr := fun _ _ => (.nil, none)

inductive COut (α : Type) where
  | ok (a : α) (w : CWorld)
  | panic (msg : String)
  | block
  | fuel

def COut.bind {α β} (o : COut α) (k : α → CWorld → COut β) : COut β :=
  match o with
  | .ok a w => k a w
  | .panic m => .panic m
  | .block => .block
  | .fuel => .fuel

def chkC {α β} (e : Except String α) (k : α → COut β) : COut β :=
  match e with
  | .ok a => k a
  | .error m => .panic m

/-- a call into pkg/buffer on the embedded `*buffer.Reader` -/
def liftR {α} (o : Out α) (w : CWorld) : COut α :=
  match o with
  | .ok a b => .ok a { w with base := b }
  | .panic m => .panic m
  | .block => .block
  | .fuel => .fuel

def u64 (i : Int) : Int := i % 18446744073709551616

/-- `bytes.HasPrefix(s, prefix)` -/
def hasPrefix (s pre : Bytes) : Bool := s.take pre.length == pre

/-- `make([]any, n)` -/
def makeAnys (n : Int) : Except String (List AnyV) :=
  if n < 0 then .error "makeslice: len out of range" else .ok (List.replicate n.toNat .nil)

/-- `row[i] = v` -/
def anySet (a : List AnyV) (i : Int) (v : AnyV) : Except String (List AnyV) :=
  if i < 0 ∨ i ≥ (a.length : Int) then .error "index out of range" else .ok (a.set i.toNat v)

/-- `r.scanners[index](value)`: the index expression is checked, the call is external -/
def scanCall (index : Int) (value : Bytes) (w : CWorld) : COut (AnyV × Option CErr) :=
  if index < 0 ∨ index ≥ (w.bin.nscanners : Int) then .panic "index out of range"
  else .ok (w.scan index.toNat value) w

end Pw.Go
