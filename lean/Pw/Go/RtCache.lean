import Pw.Model.Errors
/-
  Run-time library, part 4: what the code generated from the statement / portal caches of `/repo/cache.go`
  (`Pw/Generated/TransCache.lean`, namespace `Pw.TransCache`) runs on.  Everything here is fixed; what
  changes with the source is TransCache.lean.

  World (`CW`).  One `DefaultStatementCache` (`sc`) and one `DefaultPortalCache` (`pc`): a receiver of type
  `*DefaultStatementCache` / `*DefaultPortalCache` denotes that component, its fields are the fields of
  `StmtCacheS` / `PortalCacheS` (the struct layouts are pinned in TieCache.lean).  `*Statement` and `*Portal`
  are addresses into two heaps (`stmtHeap`, `portalHeap`: the objects in allocation order; `none` = nil);
  `&Statement{…}` allocates: the new address is the length of the heap, nothing allocated before changes.

  Maps.  A Go map is `GoMap α = Option (List (Bytes × α))`: `none` is the nil map.  Reads of the nil map
  (`mapGet`, `mapDelete`, `len`) are fine, `mapSet` on it panics.

  Mutex.  `sync.RWMutex` is `RWMutex` (free / write-locked / n readers).  `Lock` on a held lock and `RLock`
  on a write-locked one never return (`COut.deadlock`; with one goroutine nobody will release it),
  `Unlock` / `RUnlock` of a lock not held that way is Go's unrecoverable `fatal error` (`COut.fatal`).

  Outcomes.  `ok` / `panic` (a Go panic travelling up: deferred calls run, `recover` can stop it) /
  `deadlock` / `fatal`.  `deferRun d body` is `defer d(); body`, `recoverRun` the deferred closure of
  `Execute` (`r := recover(); if r != nil { err = fmt.Errorf(fmt, r) }`).

  External: the statement function `portal.statement.fn(ctx, NewDataWriter(…), parameters)` is a callback of
  the user: `extCallFn` asks the world's oracle `fnOracle` (any function: the theorems quantify over it) and
  records the call in `calls`.  `NewErrUnknownPortal` (command.go) is the model's `errUnknownPortal`.
-/
namespace Pw.Go.Cache
open Pw

abbrev CaErr := Pw.Err

/-! ### maps -/

abbrev GoMap (α : Type) := Option (List (Bytes × α))

/-- `map[string]T{}` -/
def mapMake {α : Type} : GoMap α := some []

/-- `m == nil` -/
def mapIsNil {α : Type} (m : GoMap α) : Bool := m.isNone

def alGet {α : Type} (k : Bytes) : List (Bytes × α) → Option α
  | [] => none
  | (k', v) :: r => if k' = k then some v else alGet k r

def alDelete {α : Type} (k : Bytes) : List (Bytes × α) → List (Bytes × α)
  | [] => []
  | (k', v) :: r => if k' = k then alDelete k r else (k', v) :: alDelete k r

/-- `v, has := m[k]` (`none` = not present); reading the nil map is allowed -/
def mapGet {α : Type} (m : GoMap α) (k : Bytes) : Option α :=
  match m with
  | none => none
  | some l => alGet k l

/-- `m[k] = v`: insert or replace; a write to the nil map panics -/
def mapSet {α : Type} (m : GoMap α) (k : Bytes) (v : α) : Except Bytes (GoMap α) :=
  match m with
  | none => .error (ascii "assignment to entry in nil map")
  | some l => .ok (some ((k, v) :: alDelete k l))

/-- `delete(m, k)`: a no-op on the nil map -/
def mapDelete {α : Type} (m : GoMap α) (k : Bytes) : GoMap α :=
  match m with
  | none => none
  | some l => some (alDelete k l)

/-! ### sync.RWMutex -/

inductive RWMutex where
  | free
  | wlocked
  | rlocked (n : Nat)   -- n + 1 readers
  deriving DecidableEq, Repr

inductive LockFail where
  | deadlock
  | fatal (msg : Bytes)
  deriving DecidableEq, Repr

def rwLock : RWMutex → Except LockFail RWMutex
  | .free => .ok .wlocked
  | _ => .error .deadlock

def rwUnlock : RWMutex → Except LockFail RWMutex
  | .wlocked => .ok .free
  | _ => .error (.fatal (ascii "sync: Unlock of unlocked RWMutex"))

def rwRLock : RWMutex → Except LockFail RWMutex
  | .free => .ok (.rlocked 0)
  | .rlocked n => .ok (.rlocked (n + 1))
  | .wlocked => .error .deadlock

def rwRUnlock : RWMutex → Except LockFail RWMutex
  | .rlocked 0 => .ok .free
  | .rlocked (n + 1) => .ok (.rlocked n)
  | _ => .error (.fatal (ascii "sync: RUnlock of unlocked RWMutex"))

/-! ### values -/

/-- `*PreparedStatement` as far as the cache reads it (`fn`: the identity of the function value) -/
structure PreparedStatementV where
  fn : Nat := 0
  parameters : List Nat := []
  columns : List Nat := []
  deriving DecidableEq, Repr

/-- `Statement` -/
structure StatementV where
  fn : Nat := 0
  parameters : List Nat := []
  columns : List Nat := []
  deriving DecidableEq, Repr

/-- `Portal` (`statement`: an address in `stmtHeap`, `none` = nil) -/
structure PortalV where
  statement : Option Nat := none
  parameters : List Bytes := []
  formats : List Nat := []
  deriving DecidableEq, Repr

/-- `DefaultStatementCache` -/
structure StmtCacheS where
  statements : GoMap (Option Nat) := none
  mu : RWMutex := .free

/-- `DefaultPortalCache` -/
structure PortalCacheS where
  portals : GoMap (Option Nat) := none
  mu : RWMutex := .free

/-- what the statement function does, as far as `Execute` can see: it returns an error value or panics -/
inductive FnResult where
  | ret (e : Option CaErr)
  | panics (msg : Bytes)

/-- the `DataWriter` handed to the statement function: `NewDataWriter(ctx, columns, formats, reader, writer)`
    (`ctx`, `reader`, `writer` are the connection's) -/
structure DataWriterV where
  columns : List Nat
  formats : List Nat
  deriving DecidableEq, Repr

structure CW where
  stmtHeap : List StatementV := []
  portalHeap : List PortalV := []
  sc : StmtCacheS := {}
  pc : PortalCacheS := {}
  /-- the user's statement functions (by identity) -/
  fnOracle : Nat → DataWriterV → List Bytes → FnResult := fun _ _ _ => .ret none
  /-- calls of statement functions, newest first -/
  calls : List (Nat × DataWriterV × List Bytes) := []

inductive COut (α : Type) where
  | ok (v : α) (w : CW)
  | panic (msg : Bytes) (w : CW)
  | deadlock (w : CW)
  | fatal (msg : Bytes) (w : CW)

/-- the world an outcome leaves behind -/
def COut.world {α : Type} : COut α → CW
  | .ok _ w => w
  | .panic _ w => w
  | .deadlock w => w
  | .fatal _ w => w

/-- sequencing: `k` runs when `o` returned normally -/
def cbind {α β : Type} (o : COut α) (k : α → CW → COut β) : COut β :=
  match o with
  | .ok v w => k v w
  | .panic m w => .panic m w
  | .deadlock w => .deadlock w
  | .fatal m w => .fatal m w

/-- a mutex operation, then `k` with the new mutex state -/
def lockStep {α : Type} (r : Except LockFail RWMutex) (w : CW) (k : RWMutex → CW → COut α) : COut α :=
  match r with
  | .ok m => k m w
  | .error .deadlock => .deadlock w
  | .error (.fatal msg) => .fatal msg w

/-- an operation that may panic, then `k` with its result -/
def chk {α β : Type} (r : Except Bytes α) (w : CW) (k : α → CW → COut β) : COut β :=
  match r with
  | .ok a => k a w
  | .error msg => .panic msg w

/-- `p.f` / `*p`: a nil pointer dereference panics -/
def caDeref {α : Type} (p : Option α) : Except Bytes α :=
  match p with
  | some a => .ok a
  | none => .error (ascii "runtime error: invalid memory address or nil pointer dereference")

/-- reading the object behind an address (an address not in the heap cannot arise in Go; it is reported
    as a panic so that the theorems have to rule it out) -/
def heapGet {α : Type} (h : List α) (p : Option Nat) : Except Bytes α :=
  match p with
  | none => .error (ascii "runtime error: invalid memory address or nil pointer dereference")
  | some a =>
    match h[a]? with
    | some v => .ok v
    | none => .error (ascii "verif: dangling pointer")

/-- `&Statement{…}` -/
def allocStmt {α : Type} (v : StatementV) (w : CW) (k : Option Nat → CW → COut α) : COut α :=
  k (some w.stmtHeap.length) { w with stmtHeap := w.stmtHeap ++ [v] }

/-- `&Portal{…}` -/
def allocPortal {α : Type} (v : PortalV) (w : CW) (k : Option Nat → CW → COut α) : COut α :=
  k (some w.portalHeap.length) { w with portalHeap := w.portalHeap ++ [v] }

/-- `defer d(); body`: when `body` returns or panics, `d` runs on the world it left; a goroutine that is
    blocked for good or dead runs nothing -/
def deferRun {α : Type} (d : CW → COut Unit) (body : COut α) : COut α :=
  match body with
  | .ok v w =>
    match d w with
    | .ok _ w' => .ok v w'
    | .panic m w' => .panic m w'
    | .deadlock w' => .deadlock w'
    | .fatal m w' => .fatal m w'
  | .panic msg w =>
    match d w with
    | .ok _ w' => .panic msg w'
    | .panic m w' => .panic m w'
    | .deadlock w' => .deadlock w'
    | .fatal m w' => .fatal m w'
  | .deadlock w => .deadlock w
  | .fatal m w => .fatal m w

/-- `fmt.Errorf(f, r)` with one `%s` verb (`r`: the panic value as `%s` prints it) -/
def substS : Bytes → Bytes → Bytes
  | 37 :: 115 :: rest, r => r ++ rest
  | c :: rest, r => c :: substS rest r
  | [], _ => []

def fmtErrorf1 (f : String) (r : Bytes) : CaErr := .base (substS (ascii f) r)

/-- `defer func() { r := recover(); if r != nil { err = fmt.Errorf(f, r) } }()` around `body`, `err` being
    the function's only (named) result -/
def recoverRun (f : String) (body : COut (Option CaErr)) : COut (Option CaErr) :=
  match body with
  | .panic msg w => .ok (some (fmtErrorf1 f msg)) w
  | o => o

/-- `NewErrUnknownPortal(name)` (command.go, external) -/
def newErrUnknownPortal (name : Bytes) : CaErr := errUnknownPortal name

/-- the call of a statement function value (external: the user's callback) -/
def extCallFn (fn : Nat) (dw : DataWriterV) (params : List Bytes) (w : CW) : COut (Option CaErr) :=
  let w' := { w with calls := (fn, dw, params) :: w.calls }
  match w.fnOracle fn dw params with
  | .ret e => .ok e w'
  | .panics msg => .panic msg w'

end Pw.Go.Cache
