import Pw.Go.Rt
/-
  Run-time library, part 3: what the code generated from the ErrorResponse builder of `/repo/error.go`
  (`Pw/Generated/TransError.lean`, namespace `Pw.TransError`) needs in addition to `Pw/Go/Rt.lean`.
  Everything here is fixed; what changes with the source is TransError.lean.

  World.  The `World` of pkg/buffer: the `*buffer.Writer` parameter of `writeErrorResponse`, `ErrorCode`
  and `readyForQuery` denotes the one writer of the world, and its methods are the definitions of
  Trans.lean.

  Values.  `psqlerr.Error` (the result of `psqlerr.Flatten`) is `ErrDesc`, its `*Source` field an
  `Option ErrSource` (reading a field through it is checked: `derefPtr`).  Strings (also those of the
  named string types `codes.Code`, `Severity`) are `Bytes`, the `int32` line number is an `Int`.
  The `error` value handed in by the caller is an `ErrArg`: the only thing the builder does with it
  is `psqlerr.Flatten(err)`, an external call whose result is a field of the value (so the theorems
  quantify over every description `Flatten` could return, that of a nil error included).
-/
namespace Pw.Go
open Pw

/-- `errors.Source` -/
structure ErrSource where
  File : Bytes := []
  Line : Int := 0
  Function : Bytes := []
  deriving DecidableEq, Repr

/-- `errors.Error` -/
structure ErrDesc where
  Code : Bytes := []
  Message : Bytes := []
  Detail : Bytes := []
  Hint : Bytes := []
  Severity : Bytes := []
  ConstraintName : Bytes := []
  Source : Option ErrSource := none
  deriving DecidableEq, Repr

/-- an `error` handed in by the caller, as far as the builder can observe it -/
structure ErrArg where
  flat : ErrDesc := {}
  deriving DecidableEq, Repr

/-- `psqlerr.Flatten(err)` (external) -/
def flattenExt (e : ErrArg) : ErrDesc := e.flat

/-- `p.f` for a pointer `p`: a nil pointer dereference panics -/
def derefPtr {α : Type} (p : Option α) : Except String α :=
  match p with
  | some a => .ok a
  | none => .error "invalid memory address or nil pointer dereference"

/-- `strconv.FormatInt(i, 10)` / `strconv.Itoa(i)`: the model's decimal rendering -/
def formatInt10 (i : Int) : Bytes := decInt i

end Pw.Go
