import Pw.Go.Rt
/-
  Run-time library, part 4: what the code generated from the start-up parsing of `/repo/handshake.go`
  (`Pw/Generated/TransStartup.lean`, namespace `Pw.TransStartup`) needs in addition to `Pw/Go/Rt.lean`.
  Everything here is fixed; what changes with the source is TransStartup.lean.

  World.  The `World` of pkg/buffer: the `*buffer.Reader` parameter of `readVersion` and
  `readClientParameters` denotes the one reader of the world, and its methods are the definitions of
  Trans.lean.  The receiver `srv *Server` is used for logging only (dropped).

  Values.  `Parameters` (`map[ParameterStatus]string`) is `Params`: an association list without repeated
  keys, the entry written last in front (Go's iteration order is unspecified: nothing here depends on the
  order except through `mapGet`, which does not).  The `context.Context` the functions return is a
  `CtxR`: the nil interface value, or the caller's context with a parameter map attached
  (`setClientParameters(ctx, m)`, conn.go: `context.WithValue(ctx, ctxClientMetadata, m)` for the non-nil
  map that `make` returns) — `ClientParameters` of that context is `m`.
-/
namespace Pw.Go
open Pw

/-- `Parameters`: a Go map from strings to strings -/
abbrev Params := List (Bytes × Bytes)

/-- `make(Parameters)` -/
def mapEmpty : Params := []

/-- `m[k] = v` -/
def mapSet (m : Params) (k v : Bytes) : Params := (k, v) :: m.filter (fun kv => kv.1 ≠ k)

/-- `m[k]` (`v, ok := m[k]`) -/
def mapGet (m : Params) (k : Bytes) : Option Bytes :=
  match m with
  | [] => none
  | (k', v) :: r => if k' = k then some v else mapGet r k

/-- the `context.Context` result of start-up parsing, as far as the session observes it -/
inductive CtxR where
  | nil                          -- the nil interface value
  | withClient (m : Params)      -- `setClientParameters(ctx, m)`: `ClientParameters` of it is `m`
  deriving DecidableEq, Repr

end Pw.Go
