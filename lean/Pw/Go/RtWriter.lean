import Pw.Go.Rt
/-
  Run-time library, part 4: what the code generated from the result writer of `/repo/writer.go` and
  `/repo/row.go` (`Pw/Generated/TransWriter.lean`, namespace `Pw.TransWriter`) needs in addition to
  `Pw/Go/Rt.lean`.  Everything here is fixed; what changes with the source is TransWriter.lean.

  World.  `DWorld` = the `World` of pkg/buffer (`base`: `writer.client` of the one `dataWriter`, and every
  parameter of type `*buffer.Writer`, denote its one `buffer.Writer`; their methods are the definitions of
  Trans.lean, run through `liftW`) plus the fields of the one `dataWriter` (`dw`) and the external callbacks
  of `Column.Write`: `ctx.Err()` (`ctxErr`, a constant of the world), `TypeMap(ctx)` (`typeMap`, nil or
  not) and `tm.Encode(oid, format, src, buf)` (`encode`, an arbitrary function the theorems quantify over).
  Every `context.Context` in the translated code (`writer.ctx`, a `ctx` parameter) denotes that one context.

  Values.  `Columns` is a nil-able list of `ColumnS` (`writer.columns != nil` is observed); `[]FormatCode`
  is a list of integers (only its length and elements are observed); `[]any` is a list of opaque values
  `DVal`; a `[]byte` local of row.go is `Option Bytes` (`none` = the nil slice, observed by `bb == nil`).
-/
namespace Pw.Go
open Pw

/-- the error values writer.go / row.go produce or pass on -/
inductive DErr where
  | lib (e : Err)                             -- an error of pkg/buffer or of the transport (`Writer.End`)
  | new (text : Bytes)                        -- errors.New(text)  (also the package variables ErrClosedWriter …)
  | errorf (format : Bytes) (args : List Int) -- fmt.Errorf(format, integers…)
  | ext (id : Nat)                            -- an error value of an external callback (encoder, ctx.Err())
  deriving DecidableEq, Repr

/-- a value of Go's `any` handed to `Row` (opaque: only the encoder looks at it) -/
structure DVal where
  id : Nat := 0
  deriving DecidableEq, Repr

/-- `wire.Column` -/
structure ColumnS where
  Table : Int := 0
  ID : Int := 0
  Attr : Int := 0
  Name : Bytes := []
  AttrNo : Int := 0
  Oid : Int := 0
  Width : Int := 0
  TypeModifier : Int := 0
  deriving DecidableEq, Repr

/-- `wire.Columns`: `none` is the nil slice -/
abbrev Cols := Option (List ColumnS)

def colsItems (c : Cols) : List ColumnS := c.getD []
def colsLen (c : Cols) : Int := ((colsItems c).length : Int)

/-- `*pgtype.Map` as far as row.go can observe it: nil or not -/
structure TMap where
  deriving DecidableEq, Repr

/-- the fields of `dataWriter` that are not pointers into the world -/
structure DataWriterS where
  columns : Cols := none
  formats : List Int := []
  closed : Bool := false
  written : Int := 0
  deriving Repr

structure DWorld where
  base : World := {}
  dw : DataWriterS := {}
  /-- `ctx.Err()` -/
  ctxErr : Option DErr := none
  /-- `TypeMap(ctx)` -/
  typeMap : Option TMap := some {}
  /-- `tm.Encode(oid, format, src, buf)`: the buffer returned (`none`: nil) and the error -/
  encode : Int → Int → DVal → Option Bytes → Option Bytes × Option DErr := fun _ _ _ b => (b, none)

inductive DOut (α : Type) where
  | ok (a : α) (w : DWorld)
  | panic (msg : String)
  | block
  | fuel

def DOut.bind {α β} (o : DOut α) (k : α → DWorld → DOut β) : DOut β :=
  match o with
  | .ok a w => k a w
  | .panic m => .panic m
  | .block => .block
  | .fuel => .fuel

def chkD {α β} (e : Except String α) (k : α → DOut β) : DOut β :=
  match e with
  | .ok a => k a
  | .error m => .panic m

/-- a call into pkg/buffer on the world's `*buffer.Writer` -/
def liftW {α} (f : World → Out α) (w : DWorld) : DOut α :=
  match f w.base with
  | .ok a b => .ok a { w with base := b }
  | .panic m => .panic m
  | .block => .block
  | .fuel => .fuel

/-- an error handed up from pkg/buffer -/
def liftErrD (e : Option Err) : Option DErr := e.map DErr.lib

def dwU64 (i : Int) : Int := i % 18446744073709551616

/-- `s[i]` on a slice represented as a list -/
def listIndex {α : Type} (a : List α) (i : Int) : Except String α :=
  if i < 0 then .error "index out of range" else
    match a[i.toNat]? with
    | some x => .ok x
    | none => .error "index out of range"

/-- `len(b)` of a nil-able byte slice -/
def bytesLen (b : Option Bytes) : Int := ((b.getD []).length : Int)
/-- the contents of a nil-able byte slice -/
def optBytes (b : Option Bytes) : Bytes := b.getD []

/-- `tm.Encode(oid, format, src, buf)`: a method call through a nil `*pgtype.Map` panics (field access) -/
def encodeExt (tm : Option TMap) (oid format : Int) (src : DVal) (buf : Option Bytes) (w : DWorld) :
    DOut (Option Bytes × Option DErr) :=
  match tm with
  | none => .panic "invalid memory address or nil pointer dereference"
  | some _ => .ok (w.encode oid format src buf) w

end Pw.Go
