import Pw.Model.Bytes
/-
  Run-time library for the code that `go/translate` generates from the Go source
  (`Pw/Generated/Trans.lean`): a small, executable semantics of the Go constructs that
  pkg/buffer uses.  Everything here is fixed; what changes with the source is Trans.lean.

  Values.  Go's numeric types are `Int` with an explicit reduction where Go reduces
  (conversions and arithmetic at the type's width: `u16 u32 i16 i32 i64`), bytes are `UInt8`.
  A slice is its contents plus its provenance `(arena, off)` and capacity: taking `s[lo:hi]`
  beyond `len` (legal up to `cap`) exposes memory whose contents this model does not track;
  those bytes come from `World.junk`, an arbitrary function the theorems quantify over.
  Slices are values here although Go slices alias memory: that no window handed to a callback
  is written again is the content of C18 (`Props/C18.lean`, on the layout that this file's
  `Sl` carries and `Tie.lean` relates to `Heap.Win`).

  World.  One `buffer.Reader` and one `buffer.Writer` (the receivers), the client's byte stream
  behind the reader (`src`, and `fin`: what happens when it runs dry), the `Write` calls made on
  the connection and how many more of them succeed, and the allocator's arena counter.
-/
namespace Pw.Go
open Pw

/-- the error values pkg/buffer produces or passes on -/
inductive Err where
  | eof | unexpectedEOF
  | readErr                        -- any other error of the transport's Read
  | writeErr                       -- error of the transport's Write
  | sizeExceeded (max size : Int)  -- NewMessageSizeExceeded
  | missingNul                     -- NewMissingNulTerminator
  | insufficient (have_ : Int)     -- NewInsufficientData
  deriving DecidableEq, Repr

/-- what a read meets once `src` is exhausted -/
inductive Fin where
  | wait | rerr | eof
  deriving DecidableEq, Repr

structure Sl where
  nil : Bool := true
  arena : Nat := 0
  off : Nat := 0
  cap : Nat := 0
  data : Bytes := []
  deriving DecidableEq, Repr

structure ReaderS where
  Msg : Sl := {}
  MaxMessageSize : Int := 0
  header : Bytes := [0, 0, 0, 0]
  deriving Repr

structure WriterS where
  frame : Bytes := []            -- bytes.Buffer
  putbuf : Bytes := List.replicate 64 0
  err : Option Err := none
  deriving Repr

structure World where
  reader : ReaderS := {}
  writer : WriterS := {}
  src : Bytes := []
  fin : Fin := .wait
  /-- `Write` calls performed on the connection, newest first -/
  sink : List Bytes := []
  /-- further `Write` calls that succeed (`none`: all) -/
  wleft : Option Nat := none
  nArenas : Nat := 0
  allocs : List Nat := []
  junk : Nat → Nat → UInt8 := fun _ _ => 0

inductive Out (α : Type) where
  | ok (a : α) (w : World)
  | panic (msg : String)
  | block            -- blocked for ever in a read on a silent stream
  | fuel             -- a loop ran out of fuel (never, for adequate fuel: see the tie theorems)

def Out.bind {α β} (o : Out α) (k : α → World → Out β) : Out β :=
  match o with
  | .ok a w => k a w
  | .panic m => .panic m
  | .block => .block
  | .fuel => .fuel

/-- a checked pure operation (index, slice) inside a statement -/
def chk {α β} (e : Except String α) (k : α → Out β) : Out β :=
  match e with
  | .ok a => k a
  | .error m => .panic m

/-! ### integers -/
def u8 (i : Int) : Int := i % 256
def u16 (i : Int) : Int := i % 65536
def u32 (i : Int) : Int := i % 4294967296
def i16 (i : Int) : Int := (i + 32768) % 65536 - 32768
def i32 (i : Int) : Int := (i + 2147483648) % 4294967296 - 2147483648
def i64 (i : Int) : Int := (i + 9223372036854775808) % 18446744073709551616 - 9223372036854775808
def byteOf (i : Int) : UInt8 := UInt8.ofNat (i % 256).toNat
def intOfByte (b : UInt8) : Int := (b.toNat : Int)

/-! ### slices -/
def Sl.len (s : Sl) : Int := (s.data.length : Int)
def Sl.capI (s : Sl) : Int := (s.cap : Int)

def junkBytes (junk : Nat → Nat → UInt8) (arena from_ n : Nat) : Bytes :=
  (List.range n).map fun i => junk arena (from_ + i)

/-- `s[lo:hi]`, legal for `0 ≤ lo ≤ hi ≤ cap(s)`; a nil slice stays nil (only `[0:0]` is legal) -/
def Sl.slice (junk : Nat → Nat → UInt8) (s : Sl) (lo hi : Int) : Except String Sl :=
  if lo < 0 ∨ hi < lo ∨ hi > s.capI then .error "slice bounds out of range"
  else
    let l := lo.toNat; let h := hi.toNat
    let have_ := s.data.length
    let d := if h ≤ have_ then (s.data.take h).drop l
             else (s.data ++ junkBytes junk s.arena (s.off + have_) (h - have_)).drop l
    .ok { s with off := s.off + l, cap := s.cap - l, data := d }

/-- `s[lo:]` -/
def Sl.sliceFrom (junk : Nat → Nat → UInt8) (s : Sl) (lo : Int) : Except String Sl := s.slice junk lo s.len
/-- `s[:hi]` -/
def Sl.sliceTo (junk : Nat → Nat → UInt8) (s : Sl) (hi : Int) : Except String Sl := s.slice junk 0 hi

def Sl.index (s : Sl) (i : Int) : Except String UInt8 :=
  if i < 0 ∨ i ≥ s.len then .error "index out of range" else
    match s.data[i.toNat]? with
    | some b => .ok b
    | none => .error "index out of range"

/-- arrays (`header [4]byte`, `putbuf [64]byte`) are plain byte lists; `a[:]`, `a[:n]` -/
def arrSliceTo (a : Bytes) (hi : Int) : Except String Bytes :=
  if hi < 0 ∨ hi > (a.length : Int) then .error "slice bounds out of range" else .ok (a.take hi.toNat)

def arrSlice (a : Bytes) (lo hi : Int) : Except String Bytes :=
  if lo < 0 ∨ hi < lo ∨ hi > (a.length : Int) then .error "slice bounds out of range"
  else .ok ((a.take hi.toNat).drop lo.toNat)

def arrSet (a : Bytes) (i : Int) (b : UInt8) : Except String Bytes :=
  if i < 0 ∨ i ≥ (a.length : Int) then .error "index out of range" else .ok (a.set i.toNat b)

def arrIndex (a : Bytes) (i : Int) : Except String UInt8 :=
  if i < 0 ∨ i ≥ (a.length : Int) then .error "index out of range" else
    match a[i.toNat]? with
    | some b => .ok b
    | none => .error "index out of range"

/-- overwrite `a[lo:lo+len v]` with `v` (`binary.BigEndian.PutUint32(bytes[1:5], …)` on a slice that
    aliases `a`) -/
def arrPatch (a : Bytes) (lo : Nat) (v : Bytes) : Bytes := a.take lo ++ v ++ a.drop (lo + v.length)

/-- `make([]byte, size, capacity)`: a fresh arena filled with zeroes -/
def makeBytes (size capacity : Int) (w : World) : Out Sl :=
  if size < 0 ∨ capacity < size then .panic "makeslice: len out of range" else
    .ok { nil := false, arena := w.nArenas, off := 0, cap := capacity.toNat, data := List.replicate size.toNat 0 }
        { w with nArenas := w.nArenas + 1, allocs := capacity.toNat :: w.allocs }

/-- `make([]byte, n)` for a small scratch value that never escapes (AddInt16/AddInt32) -/
def makeScratch (n : Int) : Bytes := List.replicate n.toNat 0

/-! ### encoding/binary, bytes -/
def beUint16 (b : Bytes) : Except String Int :=
  match b with
  | x :: y :: _ => .ok ((x.toNat * 256 + y.toNat : Nat) : Int)
  | _ => .error "index out of range"

/-- the 32-bit big-endian value of four bytes -/
def be32val (x y z t : UInt8) : Nat := x.toNat * 16777216 + y.toNat * 65536 + z.toNat * 256 + t.toNat

def beUint32 (b : Bytes) : Except String Int :=
  match b with
  | x :: y :: z :: t :: _ => .ok ((be32val x y z t : Nat) : Int)
  | _ => .error "index out of range"

/-- `PutUint16(x, v)`: the first two bytes of `x` are overwritten -/
def bePutUint16 (x : Bytes) (v : Int) : Except String Bytes :=
  if x.length < 2 then .error "index out of range" else .ok (be16 v.toNat ++ x.drop 2)

def bePutUint32 (x : Bytes) (v : Int) : Except String Bytes :=
  if x.length < 4 then .error "index out of range" else .ok (be32 v.toNat ++ x.drop 4)

/-- `bytes.IndexByte(b, c)` -/
def indexByte : Bytes → UInt8 → Int
  | [], _ => -1
  | x :: r, c => if x = c then 0 else
      let i := indexByte r c
      if i < 0 then -1 else i + 1

/-! ### the transport below the reader -/

/-- `io.ReadFull(reader.Buffer, p)` for `len p = n`: the bytes read (written over `p`'s front),
    the count and the error -/
def ioReadFull (n : Nat) (w : World) : Out (Bytes × Int × Option Err) :=
  if n = 0 then .ok ([], 0, none) w
  else if w.src.length ≥ n then .ok (w.src.take n, (n : Int), none) { w with src := w.src.drop n }
  else match w.fin with
    | .wait => .block
    | .rerr => .ok (w.src, (w.src.length : Int), some .readErr) { w with src := [] }
    | .eof => .ok (w.src, (w.src.length : Int), some (if w.src = [] then .eof else .unexpectedEOF)) { w with src := [] }

/-- `ReadFull` into a slice: the window's front is overwritten with what arrived -/
def ioReadFullSl (p : Sl) (w : World) : Out (Sl × Int × Option Err) :=
  (ioReadFull p.data.length w).bind fun (got, n, err) w' =>
    .ok ({ p with data := got ++ p.data.drop got.length }, n, err) w'

/-- `ReadFull` into an array slice `a[:]` -/
def ioReadFullArr (a : Bytes) (w : World) : Out (Bytes × Int × Option Err) :=
  (ioReadFull a.length w).bind fun (got, n, err) w' =>
    .ok (got ++ a.drop got.length, n, err) w'

/-- `reader.Buffer.ReadByte()` -/
def readByte (w : World) : Out (UInt8 × Option Err) :=
  match w.src with
  | b :: r => .ok (b, none) { w with src := r }
  | [] => match w.fin with
    | .wait => .block
    | .rerr => .ok (0, some .readErr) w
    | .eof => .ok (0, some .eof) w

/-- `writer.Writer.Write(bytes)`: one call on the connection -/
def connWrite (b : Bytes) (w : World) : Out (Int × Option Err) :=
  match w.wleft with
  | some 0 => .ok (0, some .writeErr) w
  | some (n + 1) => .ok ((b.length : Int), none) { w with sink := b :: w.sink, wleft := some n }
  | none => .ok ((b.length : Int), none) { w with sink := b :: w.sink }

end Pw.Go
