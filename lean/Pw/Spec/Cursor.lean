import Pw.Model.Reader
/-
  Specification side of C03's accessor clause: an independent cursor `(body, pos)` over the
  current message.
-/
namespace Pw.Spec
open Pw

inductive Acc where
  | str            -- GetString
  | bytes (n : Nat) -- GetBytes(n), n ≥ 0
  | u16            -- GetUint16
  | u32            -- GetUint32
  deriving Repr, DecidableEq

/-- result of one accessor call: the bytes it returned (for u16/u32: the 2/4 bytes read) -/
abbrev AccRes := Option Bytes

/-- index of the first NUL at or after `pos` -/
def findNul (body : Bytes) (pos : Nat) : Option Nat :=
  ((body.drop pos).findIdx? (· = 0)).map (· + pos)

/-- the cursor: never moves past the end of the body; an access that would returns an error
    and leaves the cursor where it was -/
def cursorStep (body : Bytes) (pos : Nat) : Acc → AccRes × Nat
  | .str => match findNul body pos with
    | some i => (some ((body.drop pos).take (i - pos)), i + 1)
    | none => (none, pos)
  | .bytes n => if pos + n ≤ body.length then (some ((body.drop pos).take n), pos + n) else (none, pos)
  | .u16 => if pos + 2 ≤ body.length then (some ((body.drop pos).take 2), pos + 2) else (none, pos)
  | .u32 => if pos + 4 ≤ body.length then (some ((body.drop pos).take 4), pos + 4) else (none, pos)

def cursorRun (body : Bytes) : Nat → List Acc → List AccRes × Nat
  | pos, [] => ([], pos)
  | pos, a :: as =>
    let (r, pos') := cursorStep body pos a
    let (rs, fin) := cursorRun body pos' as
    (r :: rs, fin)

/-- the model accessors (`getString`, `getBytes`, `getU16`, `getU32`) on `reader.Msg` -/
def modelStep (msg : Bytes) : Acc → AccRes × Bytes
  | .str => match getString msg with
    | some (s, r) => (some s, r)
    | none => (none, msg)
  | .bytes n => match getBytes n msg with
    | some (v, r) => (some v, r)
    | none => (none, msg)
  | .u16 => match getU16 msg with
    | some (_, r) => (some (msg.take 2), r)
    | none => (none, msg)
  | .u32 => match getU32 msg with
    | some (_, r) => (some (msg.take 4), r)
    | none => (none, msg)

def modelRun : Bytes → List Acc → List AccRes × Bytes
  | msg, [] => ([], msg)
  | msg, a :: as =>
    let (r, msg') := modelStep msg a
    let (rs, fin) := modelRun msg' as
    (r :: rs, fin)

end Pw.Spec
