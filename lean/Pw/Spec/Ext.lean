import Pw.Model.Script
/-
  C06 specification: a small reference machine ("ExtSpec") over the client's message history.
  For every message it says which reply SHAPE is admissible (by type bytes) given which names
  are defined and whether the batch is being skipped, and how the state moves on.  It is the
  oracle run on the implementation's per-message reply groups.
-/
namespace Pw.Spec
open Pw

structure ExtState where
  stmts : List Bytes := []       -- defined statement names
  portals : List Bytes := []     -- defined portal names
  skipping : Bool := false
  closed : Bool := false
  deriving Repr

/-- does the scripted parser accept this text as exactly one statement? -/
def parsesToOne (q : Bytes) : Bool :=
  match Script.parse q with
  | .ok [_] => true
  | _ => false

def isSeq (allowed : List Char) (ts : List Char) : Bool := ts.all (allowed.contains ·)

/-- drop one trailing `E` -/
def stripE (ts : List Char) : List Char :=
  match ts.reverse with
  | 'E' :: r => r.reverse
  | _ => ts

/-- `(T? D* C? G?)* E? Z` – a simple query cycle, or `I Z` -/
def simpleShape (ts : List Char) : Bool :=
  match ts.reverse with
  | 'Z' :: rest =>
    let body := rest.reverse
    body = ['I'] || isSeq ['T', 'D', 'C', 'G'] (stripE body)
  | _ => false

/-- `D* C? G?` optionally ended by one `E` -/
def executeShape (ts : List Char) : Bool :=
  isSeq ['D', 'C', 'G'] (stripE ts)

def rm (n : Bytes) (l : List Bytes) : List Bytes := l.filter (· ≠ n)

/-- one message: `reply` is the reply group (type bytes), `evs` the number of parser/statement
    callbacks attributed to the message; `one q` says whether the ParseFn turns `q` into exactly
    one statement. Returns an error text or the next state. -/
def extStepG (one : Bytes → Bool) (L : Nat) (st : ExtState) (it : Item) (reply : List Char) (evs : Nat) : Except String ExtState :=
  if st.closed then (if reply = [] ∧ evs = 0 then .ok st else .error "activity-after-terminate") else
  match it with
  | .big t _ full =>
    if !full then (if reply = [] then .ok st else .error "reply-before-skip-complete")
    else if t = ch 'Q' ∧ !st.skipping then (if reply = ['E', 'Z'] then .ok st else .error "oversized-query-reply")
    else (if reply = ['E'] then .ok st else .error "oversized-reply")
  | .msg t body =>
    let _ := L
    if t = ch 'X' then (if reply = [] then .ok { st with closed := true } else .error "terminate-reply")
    else if t = ch 'S' then (if reply = ['Z'] then .ok { st with skipping := false } else .error "sync-reply")
    else if st.skipping then
      (if reply = [] ∧ evs = 0 then .ok st else .error "not-discarded-while-skipping")
    else if t = ch 'H' ∨ t = ch 'd' ∨ t = ch 'c' ∨ t = ch 'f' then
      (if reply = [] ∧ evs = 0 then .ok st else .error "reply-to-flush-or-stray-copy")
    else if t = ch 'Q' then (if simpleShape reply then .ok st else .error "simple-cycle-shape")
    else if t = ch 'P' then
      match cstr body with
      | none => .error "malformed-in-campaign"
      | some (name, r) => match cstr r with
        | none => .error "malformed-in-campaign"
        | some (q, _) =>
          if one q then (if reply = ['1'] then .ok { st with stmts := name :: rm name st.stmts } else .error "parse-reply")
          else (if reply = ['E'] then .ok { st with skipping := true } else .error "parse-error-reply")
    else if t = ch 'B' then
      match cstr body with
      | none => .error "malformed-in-campaign"
      | some (pname, r) => match cstr r with
        | none => .error "malformed-in-campaign"
        | some (sname, _) =>
          if st.stmts.contains sname then (if reply = ['2'] then .ok { st with portals := pname :: rm pname st.portals } else .error "bind-reply")
          else (if reply = ['E'] then .ok { st with skipping := true } else .error "bind-unknown-statement-reply")
    else if t = ch 'D' ∨ t = ch 'C' then
      match body with
      | [] => .error "malformed-in-campaign"
      | kind :: r => match cstr r with
        | none => .error "malformed-in-campaign"
        | some (name, _) =>
          if t = ch 'D' then
            if kind = ch 'S' then
              (if st.stmts.contains name then (if reply = ['t', 'T'] ∨ reply = ['t', 'n'] then .ok st else .error "describe-statement-reply")
               else (if reply = ['E'] then .ok { st with skipping := true } else .error "describe-unknown-statement-reply"))
            else if kind = ch 'P' then
              (if st.portals.contains name then (if reply = ['T'] ∨ reply = ['n'] then .ok st else .error "describe-portal-reply")
               else (if reply = ['E'] then .ok { st with skipping := true } else .error "describe-unknown-portal-reply"))
            else (if reply = ['E'] then .ok { st with skipping := true } else .error "describe-bad-kind-reply")
          else
            if kind = ch 'S' then (if reply = ['3'] then .ok { st with stmts := rm name st.stmts } else .error "close-reply")
            else if kind = ch 'P' then (if reply = ['3'] then .ok { st with portals := rm name st.portals } else .error "close-reply")
            else (if reply = ['E'] then .ok { st with skipping := true } else .error "close-bad-kind-reply")
    else if t = ch 'E' then
      match cstr body with
      | none => .error "malformed-in-campaign"
      | some (name, _) =>
        if st.portals.contains name then
          (if executeShape reply then .ok { st with skipping := reply.getLast? = some 'E' } else .error "execute-shape")
        else (if reply = ['E'] ∧ evs = 0 then .ok { st with skipping := true } else .error "execute-unknown-portal-reply")
    else (if reply = ['E', 'Z'] then .ok st else .error "unknown-type-reply")

/-- the oracle instance: the scripted parser of the harness decides what parses to one statement -/
def extStep (L : Nat) (st : ExtState) (it : Item) (reply : List Char) (evs : Nat) : Except String ExtState :=
  extStepG parsesToOne L st it reply evs

end Pw.Spec
