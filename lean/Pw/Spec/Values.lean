import Pw.Model.Script
import Pw.Model.Backend
/-
  C09 specification decoder: what a PostgreSQL client recovers from a DataRow field of a given
  type OID and format code.  `decodeVal` (the model of the server-side pgx decoders, proved
  inverse to the encoder in Props/C09) covers the binary formats and text integers/strings;
  the remaining text formats are decoded here from the PostgreSQL documentation:
  bool `t`/`f`, bytea hex `\x…`, uuid `8-4-4-4-12`.
-/
namespace Pw.Spec
open Pw

def decodeUuidText (b : Bytes) : Option Bytes :=
  if b.length ≠ 36 then none
  else if b.getD 8 0 ≠ 45 ∨ b.getD 13 0 ≠ 45 ∨ b.getD 18 0 ≠ 45 ∨ b.getD 23 0 ≠ 45 then none
  else Script.unhexB (b.take 8 ++ (b.drop 9).take 4 ++ (b.drop 14).take 4 ++ (b.drop 19).take 4 ++ b.drop 24)

/-- client-side decoding of one field; `none` = not decodable -/
def clientDecode (o fmt : Nat) (f : Option Bytes) : Option Val :=
  match f with
  | none => some .null
  | some b =>
    if fmt = 0 ∧ o = Oid.bool then
      (if b = [116] then some (.bool true) else if b = [102] then some (.bool false) else none)
    else if fmt = 0 ∧ o = Oid.bytea then
      (match b with | 92 :: 120 :: hx => (Script.unhexB hx).map .bytea | _ => none)
    else if fmt = 0 ∧ o = Oid.uuid then (decodeUuidText b).map .uuid
    else match decodeVal o fmt (some b) with
      | .ok v => some v
      | _ => none

/-- what the handler's value means to a client: the three NULL forms are one NULL -/
def normal (v : Val) : Val :=
  match v with
  | .tnull | .invalid => .null
  | v => v

end Pw.Spec
