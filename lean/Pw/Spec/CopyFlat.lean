import Pw.Model.Session
/-
  Specification side of C14: a decoder of the binary COPY format that works on the
  CONCATENATED stream (no notion of CopyData messages at all).
-/
namespace Pw.Spec
open Pw

inductive FRes (α : Type) where
  | ok (a : α) (rest : Bytes)
  | err (e : OpErr)
  | unsupported
  deriving Repr

def fTake (n : Nat) (V : Bytes) : FRes Bytes :=
  if n ≤ V.length then .ok (V.take n) (V.drop n) else .err (.lib errUnexpectedEOF)

def fTakeLength (L : Nat) (V : Bytes) : FRes Nat :=
  match fTake 4 V with
  | .ok v V' =>
    (match rd32 v with
     | some (n, _) => if n ≠ 4294967295 ∧ n > L then .err (.lib (errLengthExceeds n L)) else .ok n V'
     | none => .err (.lib errUnexpectedEOF))
  | .err e => .err e
  | .unsupported => .unsupported

def fHeaderRest (L : Nat) (V : Bytes) : FRes Unit :=
  match fTake (copySignature.length + 4) V with
  | .ok _ V1 =>
    (match fTakeLength L V1 with
     | .ok ext V2 =>
       if ext = 4294967295 then .err (.lib (.base (ascii "unexpected header extension area length")))
       else (match fTake ext V2 with
         | .ok _ V3 => .ok () V3
         | .err e => .err e
         | .unsupported => .unsupported)
     | .err e => .err e
     | .unsupported => .unsupported)
  | .err e => .err e
  | .unsupported => .unsupported

/-- the optional file header: signature, flags, extension area -/
def fSkipHeader (L : Nat) (V : Bytes) : FRes Unit :=
  if V.take copySignature.length ≠ copySignature then .ok () V else fHeaderRest L V

def fFields (L : Nat) : List Nat → Bytes → FRes (List Val)
  | [], V => .ok [] V
  | oid :: oids, V =>
    match fTakeLength L V with
    | .err e => .err (wrapOp "unexpected field length: " e)
    | .unsupported => .unsupported
    | .ok len V1 =>
      if len = 4294967295 then
        match fFields L oids V1 with
        | .ok vs V2 => .ok (.null :: vs) V2
        | r => r
      else match fTake len V1 with
        | .err e => .err (wrapOp "unexpected value: " e)
        | .unsupported => .unsupported
        | .ok v V2 =>
          match decodeVal oid 1 (some v) with
          | .unsupported => .unsupported
          | .err => .err .pgxDec
          | .ok val =>
            match fFields L oids V2 with
            | .ok vs V3 => .ok (val :: vs) V3
            | r => r

inductive FRow where
  | row (vals : List Val) (rest : Bytes)
  | eof
  | err (e : OpErr)
  | unsupported
  deriving Repr

/-- a row from its field count on -/
def fRowBody (L : Nat) (oids : List Nat) (V : Bytes) : FRow :=
  match fTake 2 V with
  | .err e => .err e
  | .unsupported => .unsupported
  | .ok v V1 =>
    if fieldCount v = 65535 then
      (if V1 = [] then .eof else .err (.lib (.base (ascii "unexpected copy data after the file trailer"))))
    else if fieldCount v ≠ oids.length then .err (.lib (errFieldCount oids.length (fieldCount v)))
    else match fFields L oids V1 with
      | .ok vals V2 => .row vals V2
      | .err e => .err e
      | .unsupported => .unsupported

/-- one row (after the header has been dealt with): the stream may end between two rows -/
def fRow (L : Nat) (oids : List Nat) (V : Bytes) : FRow :=
  if V = [] then .eof else fRowBody L oids V

end Pw.Spec
