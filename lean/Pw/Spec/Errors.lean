import Pw.Model.Errors
/-
  Specification side of C17: an error is a stack of layers, outermost first, over a base
  text; each decoration's value is that of the OUTERMOST layer of its kind.
-/
namespace Pw.Spec
open Pw

inductive Layer where
  | code (c : Bytes) | sev (s : Bytes) | hint (h : Bytes) | detail (d : Bytes)
  | source (file : Bytes) (line : Int) (fn : Bytes) | constr (n : Bytes)
  | wrap (pre post : Bytes)
  deriving Repr, DecidableEq

/-- layers outermost first -/
def layers : Err → List Layer
  | .base _ => []
  | .code c e => .code c :: layers e
  | .sev s e => .sev s :: layers e
  | .hint h e => .hint h :: layers e
  | .detail d e => .detail d :: layers e
  | .source f l r e => .source f l r :: layers e
  | .constr n e => .constr n :: layers e
  | .wrap pre post e => .wrap pre post :: layers e

def baseText : Err → Bytes
  | .base t => t
  | .code _ e | .sev _ e | .hint _ e | .detail _ e | .source _ _ _ e | .constr _ e | .wrap _ _ e => baseText e

/-- the error's text: the base text with every `fmt.Errorf` prefix/suffix applied inside-out -/
def textOf (ls : List Layer) (base : Bytes) : Bytes :=
  ls.foldr (fun l acc => match l with | .wrap pre post => pre ++ acc ++ post | _ => acc) base

def outerCode (ls : List Layer) : Option Bytes := ls.findSome? fun | .code c => some c | _ => none
def outerSev (ls : List Layer) : Option Bytes := ls.findSome? fun | .sev c => some c | _ => none
def outerHint (ls : List Layer) : Option Bytes := ls.findSome? fun | .hint c => some c | _ => none
def outerDetail (ls : List Layer) : Option Bytes := ls.findSome? fun | .detail c => some c | _ => none
def outerConstr (ls : List Layer) : Option Bytes := ls.findSome? fun | .constr c => some c | _ => none
def outerSource (ls : List Layer) : Option (Bytes × Int × Bytes) :=
  ls.findSome? fun | .source f l r => some (f, l, r) | _ => none

def nonEmpty (o : Option Bytes) : Option Bytes := match o with | some [] => none | x => x

/-- the ErrorResponse fields the property prescribes, in the order the server emits them -/
def expectedFields (e : Err) : List (UInt8 × Bytes) :=
  let ls := layers e
  let f (c : Char) (v : Bytes) : UInt8 × Bytes := (UInt8.ofNat c.toNat, v)
  [f 'S' ((nonEmpty (outerSev ls)).getD (ascii "ERROR")),
   f 'C' ((outerCode ls).getD (ascii "XXUUU")),
   f 'M' (textOf ls (baseText e))]
  ++ (match nonEmpty (outerHint ls) with | some h => [f 'H' h] | none => [])
  ++ (match nonEmpty (outerDetail ls) with | some d => [f 'D' d] | none => [])
  ++ (match outerSource ls with
      | some (file, line, fn) => [f 'F' file, f 'L' (decInt line), f 'R' fn]
      | none => [])
  ++ (match nonEmpty (outerConstr ls) with | some n => [f 'n' n] | none => [])

/-- fields of the nil-error report -/
def nilFields : List (UInt8 × Bytes) :=
  [(UInt8.ofNat 'S'.toNat, ascii "FATAL"), (UInt8.ofNat 'C'.toNat, ascii "XX000"),
   (UInt8.ofNat 'M'.toNat, ascii "unknown error, an internal process attempted to throw an error")]

/-- every text a field carries is NUL-free (a NUL cannot be represented inside a field) -/
def errNulFree : Err → Prop
  | .base t => nulFree t
  | .code c e => nulFree c ∧ errNulFree e
  | .sev s e => nulFree s ∧ errNulFree e
  | .hint h e => nulFree h ∧ errNulFree e
  | .detail d e => nulFree d ∧ errNulFree e
  | .source f _ r e => nulFree f ∧ nulFree r ∧ errNulFree e
  | .constr n e => nulFree n ∧ errNulFree e
  | .wrap pre post e => nulFree pre ∧ nulFree post ∧ errNulFree e

end Pw.Spec
