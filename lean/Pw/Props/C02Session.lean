import Pw.Lemmas.RepSession
import Pw.Props.C02
namespace Pw
open Pw.Spec Pw.Props.C07

/-- a representable configuration: the strings it contributes to ParameterStatus are NUL-free -/
def ConfigRep (cfg : Config) : Prop :=
  nulFree cfg.version ∧ ∀ m, cfg.gparams = some m → ∀ kv ∈ m, nulFree kv.1 ∧ nulFree kv.2

def KVNF (kv : Bytes × Bytes) : Prop := nulFree kv.1 ∧ nulFree kv.2

theorem mem_remove {α} (k : Bytes) (m : List (Bytes × α)) (x : Bytes × α) (h : x ∈ remove k m) : x ∈ m := by
  unfold remove at h; exact (List.mem_filter.mp h).1

theorem mem_store {α} (k : Bytes) (v : α) (m : List (Bytes × α)) (x : Bytes × α) (h : x ∈ store k v m) :
    x = (k, v) ∨ x ∈ m := by
  unfold store at h
  simp at h
  rcases h with h | h
  · exact Or.inl h
  · exact Or.inr (mem_remove k m x h)

theorem all_store (P : Bytes × Bytes → Prop) (k v : Bytes) (m : List (Bytes × Bytes))
    (hm : ∀ x ∈ m, P x) (hv : P (k, v)) : ∀ x ∈ store k v m, P x := by
  intro x hx
  rcases mem_store k v m x hx with rfl | h
  · exact hv
  · exact hm x h

theorem all_insertSorted (P : Bytes × Bytes → Prop) (kv : Bytes × Bytes) : ∀ (l : List (Bytes × Bytes)),
    (∀ x ∈ l, P x) → P kv → ∀ x ∈ insertSorted kv l, P x := by
  intro l
  induction l with
  | nil => intro _ hk x hx; simp [insertSorted] at hx; subst hx; exact hk
  | cons a r ih =>
    intro hl hk x hx
    simp only [insertSorted] at hx
    split at hx
    · simp at hx
      rcases hx with rfl | rfl | hx
      · exact hk
      · exact hl _ (by simp)
      · exact hl _ (by simp [hx])
    · simp at hx
      rcases hx with rfl | hx
      · exact hl _ (by simp)
      · exact ih (fun y hy => hl y (by simp [hy])) hk x hx

theorem all_sortParams (P : Bytes × Bytes → Prop) : ∀ (m : List (Bytes × Bytes)), (∀ x ∈ m, P x) → ∀ x ∈ sortParams m, P x := by
  intro m
  induction m with
  | nil => intro _ x hx; simp [sortParams] at hx
  | cons a r ih =>
    intro hm x hx
    simp only [sortParams, List.foldr_cons] at hx
    exact all_insertSorted P a _ (ih (fun y hy => hm y (by simp [hy]))) (hm a (by simp)) x hx

theorem all_foldl_store (P : Bytes × Bytes → Prop) : ∀ (l acc : List (Bytes × Bytes)),
    (∀ x ∈ l, P x) → (∀ x ∈ acc, P x) → ∀ x ∈ l.foldl (fun acc kv => store kv.1 kv.2 acc) acc, P x := by
  intro l
  induction l with
  | nil => intro acc _ ha x hx; exact ha x hx
  | cons a r ih =>
    intro acc hl ha
    simp only [List.foldl_cons]
    exact ih _ (fun y hy => hl y (by simp [hy])) (all_store P a.1 a.2 acc ha (hl a (by simp)))

theorem serverParams_nf (cfg : Config) (user : Bytes) (hc : ConfigRep cfg) (hu : nulFree user) :
    ∀ kv ∈ serverParams cfg user, KVNF kv := by
  unfold serverParams
  dsimp only
  apply all_sortParams
  have base : ∀ x ∈ (match cfg.gparams with | none => [] | some m => m.foldl (fun (acc : List (Bytes × Bytes)) (kv : Bytes × Bytes) => store kv.1 kv.2 acc) []), KVNF x := by
    cases hg : cfg.gparams with
    | none => intro x hx; simp at hx
    | some m => exact all_foldl_store KVNF m [] (hc.2 m hg) (by intro x hx; simp at hx)
  have l1 := all_store KVNF (ascii "server_encoding") (ascii "UTF8") _ base ⟨by decide, by decide⟩
  have l2 := all_store KVNF (ascii "client_encoding") (ascii "UTF8") _ l1 ⟨by decide, by decide⟩
  have n1 : nulFree (ascii "session_authorization") := by decide
  have n2 : nulFree (ascii "server_version") := by decide
  refine all_store KVNF _ _ _ ?_ ⟨n1, hu⟩
  refine all_store KVNF _ _ _ ?_ ⟨by decide, by decide⟩
  split
  · exact l2
  · exact all_store KVNF _ _ _ l2 ⟨n2, hc.1⟩

theorem sendParams_wf : ∀ (ps : List (Bytes × Bytes)) (s : Sess), (∀ kv ∈ ps, KVNF kv) → OutWF s → StateRep s →
    OutWF (sendParams ps s).1 ∧ StateRep (sendParams ps s).1 := by
  intro ps
  induction ps with
  | nil => intro s _ ho hs; exact ⟨ho, hs⟩
  | cons kv r ih =>
    intro s hp ho hs
    obtain ⟨k, v⟩ := kv
    simp only [sendParams]
    have ho2 := OutWF.send s (.paramStatus k v) ho (hp (k, v) (by simp))
    have hst := send_state s (.paramStatus k v)
    split
    · rename_i s1 heq; rw [heq] at ho2 hst; exact ⟨ho2, hs.of_eq hst.1 hst.2⟩
    · rename_i s1 heq; rw [heq] at ho2 hst
      exact ih s1 (fun x hx => hp x (by simp [hx])) ho2 (hs.of_eq hst.1 hst.2)

theorem runMiddlewares_wf : ∀ (ms : List Bool) (i : Nat) (s : Sess), OutWF s → StateRep s →
    OutWF (runMiddlewares ms i s).1 ∧ StateRep (runMiddlewares ms i s).1 := by
  intro ms
  induction ms with
  | nil => intro i s ho hs; exact ⟨ho, hs⟩
  | cons ok r ih =>
    intro i s ho hs
    simp only [runMiddlewares]
    split
    · exact ih _ _ (OutWF.of_out_eq ho rfl) (hs.of_eq rfl rfl)
    · exact ⟨OutWF.of_out_eq ho rfl, hs.of_eq rfl rfl⟩

theorem authPhase_wf (cfg : Config) (h : Handlers) (s : Sess) (db user : Bytes) (ho : OutWF s) (hs : StateRep s) :
    OutWF (authPhase cfg h s db user).1 ∧ StateRep (authPhase cfg h s db user).1 := by
  have sendwf : ∀ (s : Sess) (m : BMsg), OutWF s → StateRep s → m.WF → OutWF (s.send m).1 ∧ StateRep (s.send m).1 := by
    intro s m ho hs hm
    exact ⟨OutWF.send s m ho hm, hs.of_eq (send_state s m).1 (send_state s m).2⟩
  unfold authPhase
  split
  · have := sendwf s (.auth 0) ho hs (by simp [BMsg.WF])
    split
    · rename_i s1 heq; rw [heq] at this; exact this
    · rename_i s1 heq; rw [heq] at this; exact this
  · have h3 := sendwf s (.auth 3) ho hs (by simp [BMsg.WF])
    split
    · rename_i s1 heq; rw [heq] at h3; exact h3
    · rename_i s1 heq
      rw [heq] at h3
      simp only at h3
      obtain ⟨ho1, hs1⟩ := h3
      split
      · exact ⟨OutWF.of_out_eq ho1 rfl, hs1.of_eq rfl rfl⟩
      · exact ⟨OutWF.of_out_eq ho1 rfl, hs1.of_eq rfl rfl⟩
      · exact ⟨OutWF.of_out_eq ho1 rfl, hs1.of_eq rfl rfl⟩
      · split
        · exact ⟨OutWF.of_out_eq ho1 rfl, hs1.of_eq rfl rfl⟩
        · split
          · exact ⟨OutWF.of_out_eq ho1 rfl, hs1.of_eq rfl rfl⟩
          · rename_i pw r _
            have ho2 : OutWF ((Sess.setMsg { s1 with inp := ‹Inp› } r).log (.validate db user pw)) := OutWF.of_out_eq ho1 rfl
            have hs2 : StateRep ((Sess.setMsg { s1 with inp := ‹Inp› } r).log (.validate db user pw)) := hs1.of_eq rfl rfl
            split
            · exact ⟨ho2, hs2⟩
            · unfold sendError
              exact sendwf _ _ ho2 hs2 (error_wf _ errInvalidPassword_nf)
            · have := sendwf _ (.auth 0) ho2 hs2 (by simp [BMsg.WF])
              dsimp only
              split
              · rename_i s3 heq3; rw [heq3] at this; exact this
              · rename_i s3 heq3; rw [heq3] at this; exact this

theorem runSession_wf (h : Handlers) (hh : HandlersRep h) (s : Sess) (ho : OutWF s) (hs : StateRep s) :
    OutWF (runSession h s).1 := by
  unfold runSession
  have ho2 := OutWF.send s (.ready (ch 'I')) ho trivial
  have hst := send_state s (.ready (ch 'I'))
  split
  · rename_i s1 heq; rw [heq] at ho2; exact ho2
  · rename_i s1 heq; rw [heq] at ho2 hst
    exact loop_wf h hh _ s1 ho2 (hs.of_eq hst.1 hst.2)

theorem lookup_mem {α} (n : Bytes) : ∀ (m : List (Bytes × α)) (v : α), lookup n m = some v → (n, v) ∈ m := by
  intro m
  induction m with
  | nil => intro v h; simp [lookup] at h
  | cons kv r ih =>
    intro v h
    obtain ⟨k, x⟩ := kv
    simp only [lookup] at h
    split at h
    · rename_i hk; simp at h; subst h; subst hk; simp
    · simp [ih v h]

theorem readClientParams_nf : ∀ (fuel : Nat) (m : Bytes) (acc cp : List (Bytes × Bytes)),
    readClientParams fuel m acc = some cp → (∀ kv ∈ acc, nulFree kv.2) → ∀ kv ∈ cp, nulFree kv.2 := by
  intro fuel
  induction fuel with
  | zero => intro m acc cp h; simp [readClientParams] at h
  | succ n ih =>
    intro m acc cp h ha
    simp only [readClientParams] at h
    split at h
    · simp at h
    · rename_i k r heq
      split at h
      · simp at h; subst h; exact ha
      · split at h
        · simp at h
        · rename_i v r' heq2
          refine ih r' (store k v acc) cp h ?_
          exact all_store (fun kv => nulFree kv.2) k v acc ha (cstr_nulFree _ _ _ heq2)

theorem sessionStart_wf (s0 : Sess) (rest : Bytes) (ho : OutWF s0) (hs : StateRep s0) :
    OutWF (sessionStart s0 rest) ∧ StateRep (sessionStart s0 rest) :=
  ⟨OutWF.of_out_eq ho rfl, hs.of_eq rfl rfl⟩

theorem serveAfterVersion_wf (cfg : Config) (h : Handlers) (s0 : Sess) (body rest : Bytes) (st : Bool) (ssl : Option UInt8)
    (hc : ConfigRep cfg) (hh : HandlersRep h) (ho : OutWF s0) (hs : StateRep s0) :
    ∀ m ∈ (serveAfterVersion cfg h s0 body rest st ssl).msgs, m.WF := by
  unfold serveAfterVersion
  dsimp only
  have fin : ∀ (s : Sess) (e : End) cp sp st ssl, OutWF s → ∀ m ∈ (finish s e cp sp st ssl).msgs, m.WF := by
    intro s e cp sp st ssl ho m hm
    simp only [finish, List.mem_reverse] at hm
    exact ho m hm
  split
  · exact fin _ _ _ _ _ _ ho
  · rename_i cp hcp
    obtain ⟨ho1, hs1⟩ := sessionStart_wf s0 rest ho hs
    have hu : nulFree ((lookup (ascii "user") cp).getD []) := by
      cases hl : lookup (ascii "user") cp with
      | none => exact nulFree_nil
      | some v =>
        have := readClientParams_nf _ _ _ _ hcp (by intro kv hkv; simp at hkv) _ (lookup_mem _ _ _ hl)
        exact this
    obtain ⟨ho2, hs2⟩ := authPhase_wf cfg h (sessionStart s0 rest) ((lookup (ascii "database") cp).getD [])
      ((lookup (ascii "user") cp).getD []) ho1 hs1
    split
    · rename_i s e heq; rw [heq] at ho2; exact fin _ _ _ _ _ _ ho2
    · rename_i s heq
      rw [heq] at ho2 hs2
      simp only at ho2 hs2
      obtain ⟨ho3, hs3⟩ := sendParams_wf (serverParams cfg ((lookup (ascii "user") cp).getD [])) s
        (serverParams_nf cfg _ hc hu) ho2 hs2
      split
      · rename_i s1 heq1; rw [heq1] at ho3; exact fin _ _ _ _ _ _ ho3
      · rename_i s1 heq1
        rw [heq1] at ho3 hs3
        simp only at ho3 hs3
        obtain ⟨ho4, hs4⟩ := runMiddlewares_wf h.mws 0 s1 ho3 hs3
        split
        · rename_i s2 heq2; rw [heq2] at ho4; exact fin _ _ _ _ _ _ ho4
        · rename_i s2 heq2
          rw [heq2] at ho4 hs4
          simp only at ho4 hs4
          have := runSession_wf h hh s2 ho4 hs4
          rcases hr : runSession h s2 with ⟨s3, e⟩
          rw [hr] at this
          exact fin _ _ _ _ _ _ this

end Pw

namespace Pw.Props.C02
open Pw

/-- **C02 (session level).** For every representable configuration and every representable set
    of callbacks — strings they supply are NUL-free, counts fit their 16-bit fields, row values fit
    a field — and for EVERY client input, segment of the protocol, fault position and handler
    program, every message the server writes is a well-formed backend message. -/
theorem C02_session (cfg : Config) (h : Handlers) (inp tin : Bytes) (hc : ConfigRep cfg) (hh : HandlersRep h) :
    ∀ m ∈ (serve cfg h inp tin).msgs, m.WF := by
  have init : ∀ (s0 : Sess), s0.out = [] → s0.stmts = [] → s0.portals = [] → OutWF s0 ∧ StateRep s0 := by
    intro s0 h1 h2 h3
    refine ⟨fun m hm => by rw [h1] at hm; simp at hm, ?_, ?_⟩
    · intro n st hl; rw [h2] at hl; simp [lookup] at hl
    · intro n p hl; rw [h3] at hl; simp [lookup] at hl
  have wr : ∀ (s s1 : Sess) (ok : Bool), writeRaw s = (s1, ok) → s1.out = s.out ∧ s1.stmts = s.stmts ∧ s1.portals = s.portals := by
    intro s s1 ok hw
    unfold writeRaw at hw
    split at hw <;> (cases hw; exact ⟨rfl, rfl, rfl⟩)
  unfold serve
  dsimp only
  repeat' split
  all_goals first
    | (intro m hm; simp [finish] at hm; done)
    | exact serveAfterVersion_wf _ _ _ _ _ _ _ hc hh (init _ rfl rfl rfl).1 (init _ rfl rfl rfl).2
    | (intro m hm
       have hw := wr _ _ _ (by assumption)
       simp only [finish, List.mem_reverse, hw.1] at hm
       simp at hm; done)
    | (have hw := wr _ _ _ (by assumption)
       have := init _ hw.1 hw.2.1 hw.2.2
       exact serveAfterVersion_wf _ _ _ _ _ _ _ hc hh this.1 this.2)

/-- hence the whole output parses under the strict grammar, message for message (the size
    hypothesis excludes only bodies of 4 GiB and more, which the length field cannot express) -/
theorem C02_output_parses (cfg : Config) (h : Handlers) (inp tin : Bytes) (hc : ConfigRep cfg) (hh : HandlersRep h)
    (hsz : ∀ m ∈ (serve cfg h inp tin).msgs, m.body.length + 4 < 4294967296) :
    parseBackend ((serve cfg h inp tin).msgs.flatMap BMsg.encode) = some (serve cfg h inp tin).msgs :=
  C02_stream _ (fun m hm => ⟨C02_session cfg h inp tin hc hh m hm, hsz m hm⟩)

end Pw.Props.C02

namespace Pw.Props.C02
open Pw Pw.Spec

/-! ### the hypotheses are satisfiable: a concrete representable handler set -/

theorem valRep_text (s : Bytes) (h : s.length < 2147483648) : ValRep (.text s) := by
  intro o f b he
  unfold encodeVal at he
  split at he
  · simp at he
  · split at he
    · simp at he
    · split at he
      · simp at he
      · simp only [encodeTyped] at he
        split at he
        · simp at he; subst he; exact h
        · simp at he

theorem valRep_null : ValRep .null := by
  intro o f b he
  simp [encodeVal] at he

def exStmt : Stmt :=
  { cols := [{ name := ascii "greeting", oid := Oid.text }], params := [],
    body := fun _ => .row [.text (ascii "hi"), .null] (fun _ => .row [.text (ascii "hi")]
      (fun r => match r with
        | some (.lib e) => .ret (some e)     -- forwards whatever error the library reported
        | _ => .complete (ascii "SELECT 1") (fun _ => .ret none))) }

def exHandlers : Handlers :=
  { parse := fun q => if q = ascii "boom" then .error (.code (ascii "42601") (.base (ascii "syntax error"))) else .ok [exStmt],
    validate := fun _ _ _ => .accept, mws := [true], terminate := none }

theorem exStmt_rep : StmtRep exStmt := by
  refine ⟨⟨by decide, ?_⟩, by decide, by intro o ho; simp [exStmt] at ho, ?_⟩
  · intro c hc
    simp [exStmt] at hc
    subst hc
    exact ⟨by decide, by decide, by decide, by decide, by decide⟩
  · intro ps
    refine .row _ _ ?_ (fun r hr => .row _ _ ?_ (fun r2 hr2 => ?_))
    · intro v hv
      simp at hv
      rcases hv with rfl | rfl
      · exact valRep_text _ (by decide)
      · exact valRep_null
    · intro v hv
      simp at hv
      subst hv
      exact valRep_text _ (by decide)
    · cases r2 with
      | none => exact .complete _ _ (by decide) (fun _ _ => .ret _ (by simp))
      | some e =>
        cases e with
        | lib x => exact .ret _ (fun y hy => by cases hy; exact hr2 (.lib x) rfl)
        | pgxEnc => exact .complete _ _ (by decide) (fun _ _ => .ret _ (by simp))
        | pgxDec => exact .complete _ _ (by decide) (fun _ _ => .ret _ (by simp))

theorem exHandlers_rep : HandlersRep exHandlers := by
  intro q
  simp only [exHandlers]
  split
  · rename_i sts heq
    split at heq
    · simp at heq
    · simp at heq; subst heq
      intro st hst; simp at hst; subst hst; exact exStmt_rep
  · rename_i e heq
    split at heq
    · simp at heq; subst heq; exact ⟨by decide, (by decide : nulFree (ascii "syntax error"))⟩
    · simp at heq

example : ConfigRep { version := ascii "16.0", gparams := some [(ascii "application_name", ascii "x")] } := by
  refine ⟨by decide, ?_⟩
  intro m hm kv hkv
  simp at hm; subst hm
  simp at hkv; subst hkv
  exact ⟨by decide, by decide⟩

/-- … and the theorem applies to it, for every client -/
example (inp tin : Bytes) : ∀ m ∈ (serve {} exHandlers inp tin).msgs, m.WF :=
  C02_session {} exHandlers inp tin ⟨by decide, by intro m hm; simp at hm⟩ exHandlers_rep

end Pw.Props.C02
