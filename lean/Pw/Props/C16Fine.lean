import Pw.Model.ConcF
import Pw.Props.C16
/-
  C16 at the level of individual synchronisation operations: the inductive invariant of the
  fine-grained model (Model/ConcF.lean) and the guarantees of Close derived from it.
-/
namespace Pw.ConcF

/-- the inductive invariant -/
structure Inv (s : St) : Prop where
  mutex : s.closers.countP CPc.holds + s.workers.countP WPc.holds = if s.lock then 1 else 0
  chan : s.chanCloses + s.closers.countP CPc.isStored = if s.closing then 1 else 0
  wg : s.wg = s.workers.countP WPc.counted + (if s.helperDone then 0 else 1)
  helper : s.helperDone = true → s.chanCloses ≥ 1
  cview : ∀ c ∈ s.closers, (c = .loaded false → s.closing = false) ∧ (c = .loaded true → s.closing = true) ∧
            (c = .closed ∨ c = .waiting ∨ c = .returned → s.closing = true)
  wview : ∀ w ∈ s.workers, (w = .checked false ∨ w = .added → s.closing = false) ∧ (w = .checked true → s.closing = true)
  final : .returned ∈ s.closers → s.workers.countP WPc.counted = 0

end Pw.ConcF

namespace Pw.ConcF

theorem countP_set {α} (p : α → Bool) : ∀ (l : List α) (i : Nat) (old new : α), l[i]? = some old →
    (l.set i new).countP p + (if p old then 1 else 0) = l.countP p + (if p new then 1 else 0) := by
  intro l
  induction l with
  | nil => intro i old new h; simp at h
  | cons a l ih =>
    intro i old new h
    cases i with
    | zero =>
      simp at h; subst h
      simp only [List.set_cons_zero, List.countP_cons]
      cases p a <;> cases p new <;> simp
    | succ i =>
      simp at h
      have := ih i old new h
      simp only [List.set_cons_succ, List.countP_cons]
      omega

theorem mem_set {α} (l : List α) (i : Nat) (v x : α) (h : x ∈ l.set i v) : x = v ∨ x ∈ l := by
  induction l generalizing i with
  | nil => simp at h
  | cons a l ih =>
    cases i with
    | zero => simp at h; rcases h with h | h <;> simp [h]
    | succ i =>
      simp at h
      rcases h with h | h
      · simp [h]
      · rcases ih i h with h' | h' <;> simp [h']

theorem mem_of_get {α} (l : List α) (i : Nat) (x : α) (h : l[i]? = some x) : x ∈ l := by
  rw [List.getElem?_eq_some_iff] at h
  obtain ⟨hi, rfl⟩ := h
  exact List.getElem_mem hi

theorem countP_pos_of_mem {α} (p : α → Bool) (l : List α) (x : α) (hx : x ∈ l) (hp : p x = true) : 0 < l.countP p :=
  List.countP_pos_iff.mpr ⟨x, hx, hp⟩

theorem countP_zero_mem {α} (p : α → Bool) (l : List α) (h : l.countP p = 0) (x : α) (hx : x ∈ l) : p x = false := by
  cases hp : p x with
  | false => rfl
  | true => have := countP_pos_of_mem p l x hx hp; omega

/-- a closer inside its critical section is alone there -/
theorem closer_alone (s : St) (hi : Inv s) (i : Nat) (pc : CPc) (h : s.closers[i]? = some pc) (hh : pc.holds = true) :
    s.lock = true ∧ s.workers.countP WPc.holds = 0 ∧ s.closers.countP CPc.holds = 1 := by
  have := hi.mutex
  have hpos := countP_pos_of_mem CPc.holds s.closers pc (mem_of_get _ _ _ h) hh
  cases hl : s.lock with
  | false => rw [hl] at this; simp only [Bool.false_eq_true, if_false] at this; omega
  | true => rw [hl] at this; simp only [if_true] at this; exact ⟨rfl, by omega, by omega⟩

theorem worker_alone (s : St) (hi : Inv s) (j : Nat) (pc : WPc) (h : s.workers[j]? = some pc) (hh : pc.holds = true) :
    s.lock = true ∧ s.closers.countP CPc.holds = 0 ∧ s.workers.countP WPc.holds = 1 := by
  have := hi.mutex
  have hpos := countP_pos_of_mem WPc.holds s.workers pc (mem_of_get _ _ _ h) hh
  cases hl : s.lock with
  | false => rw [hl] at this; simp only [Bool.false_eq_true, if_false] at this; omega
  | true => rw [hl] at this; simp only [if_true] at this; exact ⟨rfl, by omega, by omega⟩

theorem inv_init (nc nw : Nat) : Inv (init nc nw) := by
  refine ⟨?_, ?_, ?_, by simp [init], ?_, ?_, ?_⟩
  · simp [init, List.countP_replicate, CPc.holds, WPc.holds]
  · simp [init, List.countP_replicate, CPc.isStored]
  · simp [init, List.countP_replicate, WPc.counted]
  · intro c hc; simp [init] at hc; obtain ⟨_, rfl⟩ := hc; simp
  · intro w hw; simp [init] at hw; obtain ⟨_, rfl⟩ := hw; simp
  · intro h; simp [init] at h

end Pw.ConcF

namespace Pw.ConcF

/-- the only thread inside a critical section: every other element of the list is outside -/
theorem others_outside {α} (p : α → Bool) : ∀ (l : List α) (i : Nat) (old new : α), l.countP p = 1 → l[i]? = some old →
    p old = true → ∀ x ∈ l.set i new, x = new ∨ p x = false := by
  intro l
  induction l with
  | nil => intro i old new _ h; simp at h
  | cons a l ih =>
    intro i old new hc h hp x hx
    cases i with
    | zero =>
      simp at h; subst h
      simp only [List.set_cons_zero, List.mem_cons] at hx
      rcases hx with rfl | hx
      · exact Or.inl rfl
      · right
        simp only [List.countP_cons, hp, if_true] at hc
        exact countP_zero_mem p l (by omega) x hx
    | succ i =>
      simp at h
      simp only [List.set_cons_succ, List.mem_cons] at hx
      have hpos := countP_pos_of_mem p l old (mem_of_get _ _ _ h) hp
      simp only [List.countP_cons] at hc
      have hpa : p a = false := by
        cases hpa : p a with
        | false => rfl
        | true => simp only [hpa, if_true] at hc; omega
      rcases hx with rfl | hx
      · exact Or.inr hpa
      · exact ih i old new (by simp only [hpa, Bool.false_eq_true, if_false] at hc; omega) h hp x hx

structure SetC (s : St) (i : Nat) (old new : CPc) : Prop where
  holds : (s.closers.set i new).countP CPc.holds + (if old.holds then 1 else 0) = s.closers.countP CPc.holds + (if new.holds then 1 else 0)
  stored : (s.closers.set i new).countP CPc.isStored + (if old.isStored then 1 else 0) = s.closers.countP CPc.isStored + (if new.isStored then 1 else 0)

theorem setC (s : St) (i : Nat) (old new : CPc) (h : s.closers[i]? = some old) : SetC s i old new :=
  ⟨countP_set CPc.holds s.closers i old new h, countP_set CPc.isStored s.closers i old new h⟩

structure SetW (s : St) (j : Nat) (old new : WPc) : Prop where
  holds : (s.workers.set j new).countP WPc.holds + (if old.holds then 1 else 0) = s.workers.countP WPc.holds + (if new.holds then 1 else 0)
  counted : (s.workers.set j new).countP WPc.counted + (if old.counted then 1 else 0) = s.workers.countP WPc.counted + (if new.counted then 1 else 0)

theorem setW (s : St) (j : Nat) (old new : WPc) (h : s.workers[j]? = some old) : SetW s j old new :=
  ⟨countP_set WPc.holds s.workers j old new h, countP_set WPc.counted s.workers j old new h⟩

/-- views of the other closers survive a step that does not change `closing` -/
theorem cview_keep (s : St) (hi : Inv s) (i : Nat) (new : CPc)
    (hn : (new = .loaded false → s.closing = false) ∧ (new = .loaded true → s.closing = true) ∧
          (new = .closed ∨ new = .waiting ∨ new = .returned → s.closing = true)) :
    ∀ c ∈ s.closers.set i new, (c = .loaded false → s.closing = false) ∧ (c = .loaded true → s.closing = true) ∧
      (c = .closed ∨ c = .waiting ∨ c = .returned → s.closing = true) := by
  intro c hc
  rcases mem_set _ _ _ _ hc with rfl | hc
  · exact hn
  · exact hi.cview c hc

theorem final_keep (s : St) (hi : Inv s) (i : Nat) (new : CPc) (hn : new ≠ .returned) :
    .returned ∈ s.closers.set i new → s.workers.countP WPc.counted = 0 := by
  intro hr
  rcases mem_set _ _ _ _ hr with h | h
  · exact absurd h.symm hn
  · exact hi.final h

end Pw.ConcF

namespace Pw.ConcF

theorem inv_step_closer (i : Nat) (s s' : St) (hi : Inv s) (hs : step (.closer i) s = some s') : Inv s' := by
  simp only [step] at hs
  cases hci : s.closers[i]? with
  | none => simp [hci] at hs
  | some pc =>
    rw [hci] at hs
    have hmem := mem_of_get _ _ _ hci
    have hm := hi.mutex
    have hch := hi.chan
    cases pc with
    | start =>
      simp only at hs
      cases hl : s.lock with
      | true => simp [hl] at hs
      | false =>
        simp only [hl, Bool.false_eq_true, if_false, Option.some.injEq] at hs
        subst hs
        obtain ⟨c1, c2⟩ := setC s i .start .locked hci
        simp only [CPc.holds, CPc.isStored, Bool.false_eq_true, if_false, if_true] at c1 c2
        rw [hl] at hm
        simp only [Bool.false_eq_true, if_false] at hm
        refine ⟨?_, ?_, hi.wg, hi.helper, cview_keep s hi i _ (by simp), hi.wview, final_keep s hi i _ (by simp)⟩
        · simp only [if_true]; omega
        · simp only; omega
    | locked =>
      simp only [Option.some.injEq] at hs
      subst hs
      obtain ⟨c1, c2⟩ := setC s i .locked (.loaded s.closing) hci
      simp only [CPc.holds, CPc.isStored, Bool.false_eq_true, if_false, if_true] at c1 c2
      refine ⟨?_, ?_, hi.wg, hi.helper, cview_keep s hi i _ ?_, hi.wview, final_keep s hi i _ (by simp)⟩
      · simp only; omega
      · simp only; omega
      · cases hcl : s.closing <;> simp
    | loaded b =>
      obtain ⟨hlock, hw0, hc1⟩ := closer_alone s hi i (.loaded b) hci rfl
      rw [hlock] at hm
      simp only [if_true] at hm
      cases b with
      | true =>
        simp only [Option.some.injEq] at hs
        subst hs
        obtain ⟨c1, c2⟩ := setC s i (.loaded true) .waiting hci
        simp only [CPc.holds, CPc.isStored, Bool.false_eq_true, if_false, if_true] at c1 c2
        have hclosing := (hi.cview _ hmem).2.1 rfl
        refine ⟨?_, ?_, hi.wg, hi.helper, cview_keep s hi i _ (by simp [hclosing]), hi.wview, final_keep s hi i _ (by simp)⟩
        · simp only [Bool.false_eq_true, if_false]; omega
        · simp only; omega
      | false =>
        simp only [Option.some.injEq] at hs
        subst hs
        obtain ⟨c1, c2⟩ := setC s i (.loaded false) .stored hci
        simp only [CPc.holds, CPc.isStored, Bool.false_eq_true, if_false, if_true] at c1 c2
        have hclosing := (hi.cview _ hmem).1 rfl
        rw [hclosing] at hch
        simp only [Bool.false_eq_true, if_false] at hch
        have hothers := others_outside CPc.holds s.closers i (.loaded false) .stored hc1 hci rfl
        refine ⟨?_, ?_, hi.wg, hi.helper, ?_, ?_, final_keep s hi i _ (by simp)⟩
        · simp only [hlock, if_true]; omega
        · simp only [if_true]; omega
        · intro c hc
          rcases hothers c hc with rfl | hout
          · simp
          · refine ⟨?_, fun _ => rfl, fun _ => rfl⟩
            intro hcf; subst hcf; simp [CPc.holds] at hout
        · intro w hw
          have := countP_zero_mem WPc.holds s.workers hw0 w hw
          refine ⟨?_, ?_⟩
          · intro h; rcases h with rfl | rfl <;> simp [WPc.holds] at this
          · intro h; subst h; simp [WPc.holds] at this
    | stored =>
      simp only [Option.some.injEq] at hs
      subst hs
      obtain ⟨c1, c2⟩ := setC s i .stored .closed hci
      simp only [CPc.holds, CPc.isStored, Bool.false_eq_true, if_false, if_true] at c1 c2
      have hclosing : s.closing = true := by
        cases hcl : s.closing with
        | true => rfl
        | false =>
          rw [hcl] at hch
          have := countP_pos_of_mem CPc.isStored s.closers .stored hmem rfl
          simp only [Bool.false_eq_true, if_false] at hch
          omega
      refine ⟨?_, ?_, hi.wg, ?_, cview_keep s hi i _ (by simp [hclosing]), hi.wview, final_keep s hi i _ (by simp)⟩
      · simp only; omega
      · simp only; omega
      · intro hh; have := hi.helper hh; simp only; omega
    | closed =>
      obtain ⟨hlock, hw0, hc1⟩ := closer_alone s hi i .closed hci rfl
      rw [hlock] at hm
      simp only [if_true] at hm
      simp only [Option.some.injEq] at hs
      subst hs
      obtain ⟨c1, c2⟩ := setC s i .closed .waiting hci
      simp only [CPc.holds, CPc.isStored, Bool.false_eq_true, if_false, if_true] at c1 c2
      have hclosing := (hi.cview _ hmem).2.2 (Or.inl rfl)
      refine ⟨?_, ?_, hi.wg, hi.helper, cview_keep s hi i _ (by simp [hclosing]), hi.wview, final_keep s hi i _ (by simp)⟩
      · simp only [Bool.false_eq_true, if_false]; omega
      · simp only; omega
    | waiting =>
      simp only at hs
      by_cases hwg : s.wg = 0
      · simp only [hwg, if_true, Option.some.injEq] at hs
        subst hs
        obtain ⟨c1, c2⟩ := setC s i .waiting .returned hci
        simp only [CPc.holds, CPc.isStored, Bool.false_eq_true, if_false] at c1 c2
        have hclosing := (hi.cview _ hmem).2.2 (Or.inr (Or.inl rfl))
        have hwg' := hi.wg
        rw [hwg] at hwg'
        refine ⟨?_, ?_, hwg', hi.helper, cview_keep s hi i _ (by simp [hclosing]), hi.wview, ?_⟩
        · simp only; omega
        · simp only; omega
        · intro _
          simp only
          omega
      · simp [hwg] at hs
    | returned => simp at hs

end Pw.ConcF

namespace Pw.ConcF

theorem wview_keep (s : St) (hi : Inv s) (j : Nat) (new : WPc)
    (hn : (new = .checked false ∨ new = .added → s.closing = false) ∧ (new = .checked true → s.closing = true)) :
    ∀ w ∈ s.workers.set j new, (w = .checked false ∨ w = .added → s.closing = false) ∧ (w = .checked true → s.closing = true) := by
  intro w hw
  rcases mem_set _ _ _ _ hw with rfl | hw
  · exact hn
  · exact hi.wview w hw

theorem inv_step_worker (j : Nat) (s s' : St) (hi : Inv s) (hs : step (.worker j) s = some s') : Inv s' := by
  simp only [step] at hs
  cases hwj : s.workers[j]? with
  | none => simp [hwj] at hs
  | some pc =>
    rw [hwj] at hs
    have hmem := mem_of_get _ _ _ hwj
    have hm := hi.mutex
    have hwg := hi.wg
    cases pc with
    | start =>
      simp only at hs
      cases hl : s.lock with
      | true => simp [hl] at hs
      | false =>
        simp only [hl, Bool.false_eq_true, if_false, Option.some.injEq] at hs
        subst hs
        obtain ⟨c1, c2⟩ := setW s j .start .locked hwj
        simp only [WPc.holds, WPc.counted, Bool.false_eq_true, if_false, if_true] at c1 c2
        rw [hl] at hm
        simp only [Bool.false_eq_true, if_false] at hm
        refine ⟨?_, hi.chan, ?_, hi.helper, hi.cview, wview_keep s hi j _ (by simp), ?_⟩
        · simp only [if_true]; omega
        · simp only; omega
        · intro hr; have := hi.final hr; simp only; omega
    | locked =>
      simp only [Option.some.injEq] at hs
      subst hs
      obtain ⟨c1, c2⟩ := setW s j .locked (.checked s.closing) hwj
      simp only [WPc.holds, WPc.counted, Bool.false_eq_true, if_false, if_true] at c1 c2
      refine ⟨?_, hi.chan, ?_, hi.helper, hi.cview, wview_keep s hi j _ ?_, ?_⟩
      · simp only; omega
      · simp only; omega
      · cases hcl : s.closing <;> simp
      · intro hr; have := hi.final hr; simp only; omega
    | checked b =>
      obtain ⟨hlock, hc0, hw1⟩ := worker_alone s hi j (.checked b) hwj rfl
      rw [hlock] at hm
      simp only [if_true] at hm
      cases b with
      | true =>
        simp only [Option.some.injEq] at hs
        subst hs
        obtain ⟨c1, c2⟩ := setW s j (.checked true) .refused hwj
        simp only [WPc.holds, WPc.counted, Bool.false_eq_true, if_false, if_true] at c1 c2
        refine ⟨?_, hi.chan, ?_, hi.helper, hi.cview, wview_keep s hi j _ (by simp), ?_⟩
        · simp only [Bool.false_eq_true, if_false]; omega
        · simp only; omega
        · intro hr; have := hi.final hr; simp only; omega
      | false =>
        simp only [Option.some.injEq] at hs
        subst hs
        obtain ⟨c1, c2⟩ := setW s j (.checked false) .added hwj
        simp only [WPc.holds, WPc.counted, Bool.false_eq_true, if_false, if_true] at c1 c2
        have hclosing := (hi.wview _ hmem).1 (Or.inl rfl)
        refine ⟨?_, hi.chan, ?_, hi.helper, hi.cview, wview_keep s hi j _ (by simp [hclosing]), ?_⟩
        · simp only [hlock, if_true]; omega
        · simp only; omega
        · -- a closer has returned: then `closing` is set, but this worker read it unset under the lock
          intro hr
          have := (hi.cview _ hr).2.2 (Or.inr (Or.inr rfl))
          rw [hclosing] at this
          cases this
    | added =>
      obtain ⟨hlock, hc0, hw1⟩ := worker_alone s hi j .added hwj rfl
      rw [hlock] at hm
      simp only [if_true] at hm
      simp only [Option.some.injEq] at hs
      subst hs
      obtain ⟨c1, c2⟩ := setW s j .added .running hwj
      simp only [WPc.holds, WPc.counted, Bool.false_eq_true, if_false, if_true] at c1 c2
      refine ⟨?_, hi.chan, ?_, hi.helper, hi.cview, wview_keep s hi j _ (by simp), ?_⟩
      · simp only [Bool.false_eq_true, if_false]; omega
      · simp only; omega
      · intro hr; have := hi.final hr; simp only; omega
    | running =>
      simp only [Option.some.injEq] at hs
      subst hs
      obtain ⟨c1, c2⟩ := setW s j .running .finished hwj
      simp only [WPc.holds, WPc.counted, Bool.false_eq_true, if_false, if_true] at c1 c2
      refine ⟨?_, hi.chan, ?_, hi.helper, hi.cview, wview_keep s hi j _ (by simp), ?_⟩
      · simp only; omega
      · simp only; omega
      · intro hr; have := hi.final hr; simp only; omega
    | finished => simp at hs
    | refused => simp at hs

theorem inv_step_helper (s s' : St) (hi : Inv s) (hs : step .helper s = some s') : Inv s' := by
  simp only [step] at hs
  split at hs
  · rename_i h
    simp only [Option.some.injEq] at hs
    subst hs
    have hwg := hi.wg
    have hd : s.helperDone = false := by simpa using h.2
    rw [hd] at hwg
    refine ⟨hi.mutex, hi.chan, ?_, fun _ => h.1, hi.cview, hi.wview, hi.final⟩
    simp only [Bool.false_eq_true, if_false, if_true] at hwg ⊢
    omega
  · simp at hs

theorem inv_step (a : Act) (s s' : St) (hi : Inv s) (hs : step a s = some s') : Inv s' := by
  cases a with
  | closer i => exact inv_step_closer i s s' hi hs
  | worker j => exact inv_step_worker j s s' hi hs
  | helper => exact inv_step_helper s s' hi hs

theorem inv_run (sched : List Act) : ∀ s, Inv s → Inv (run sched s) := by
  induction sched with
  | nil => intro s h; exact h
  | cons a r ih =>
    intro s h
    simp only [run, List.foldl_cons]
    cases hs : step a s with
    | none => exact ih s h
    | some s' => exact ih s' (inv_step a s s' h hs)

end Pw.ConcF

namespace Pw.ConcF

/-- **never a double close**, at the level of individual operations: the closer channel is
    closed at most once under every interleaving of any number of closers and workers -/
theorem F_no_double_close (nc nw : Nat) (sched : List Act) : (run sched (init nc nw)).chanCloses ≤ 1 := by
  have := (inv_run sched _ (inv_init nc nw)).chan
  split at this <;> omega

/-- **mutual exclusion**: at most one thread is between `mu.Lock` and `mu.Unlock` -/
theorem F_mutex (nc nw : Nat) (sched : List Act) :
    (run sched (init nc nw)).closers.countP CPc.holds + (run sched (init nc nw)).workers.countP WPc.holds ≤ 1 := by
  have := (inv_run sched _ (inv_init nc nw)).mutex
  split at this <;> omega

/-- **Close waits**: `wg.Wait` lets a Close call return only when no admitted command is
    unfinished and the listener has been closed -/
theorem F_waits (s s' : St) (i : Nat) (hi : Inv s) (hpc : s.closers[i]? = some .waiting)
    (hs : step (.closer i) s = some s') : s.workers.countP WPc.counted = 0 ∧ s.helperDone = true := by
  simp only [step, hpc] at hs
  by_cases hz : s.wg = 0
  · have := hi.wg
    rw [hz] at this
    constructor
    · omega
    · by_cases hd : s.helperDone = true
      · exact hd
      · simp [hd] at this
  · simp [hz] at hs

theorem returned_mono (a : Act) (s s' : St) (hs : step a s = some s') (hr : CPc.returned ∈ s.closers) :
    CPc.returned ∈ s'.closers := by
  have keep : ∀ (i : Nat) (new : CPc) (old : CPc), s.closers[i]? = some old → old ≠ .returned →
      CPc.returned ∈ s.closers.set i new := by
    intro i new old hget hne
    obtain ⟨k, hk, hv⟩ := List.getElem_of_mem hr
    have hik : i ≠ k := by
      intro e; subst e
      have : s.closers[i]? = some CPc.returned := by simp [hk, hv]
      rw [this] at hget; cases hget; exact hne rfl
    have : (s.closers.set i new)[k]? = some CPc.returned := by
      rw [List.getElem?_set_ne hik]; simp [hk, hv]
    exact List.mem_of_getElem? this
  cases a with
  | closer i =>
    simp only [step] at hs
    cases h : s.closers[i]? with
    | none => simp [h] at hs
    | some pc =>
      rw [h] at hs
      cases pc with
      | start =>
        simp only at hs
        split at hs
        · simp at hs
        · simp at hs; subst hs; exact keep i _ _ h (by simp)
      | locked => simp at hs; subst hs; exact keep i _ _ h (by simp)
      | loaded b => cases b <;> (simp at hs; subst hs; exact keep i _ _ h (by simp))
      | stored => simp at hs; subst hs; exact keep i _ _ h (by simp)
      | closed => simp at hs; subst hs; exact keep i _ _ h (by simp)
      | waiting =>
        simp only at hs
        split at hs
        · simp at hs; subst hs; exact keep i _ _ h (by simp)
        · simp at hs
      | returned => simp at hs
  | worker j =>
    simp only [step] at hs
    cases h : s.workers[j]? with
    | none => simp [h] at hs
    | some pc =>
      rw [h] at hs
      cases pc with
      | start =>
        simp only at hs
        split at hs
        · simp at hs
        · simp at hs; subst hs; exact hr
      | locked => simp at hs; subst hs; exact hr
      | checked b => cases b <;> (simp at hs; subst hs; exact hr)
      | added => simp at hs; subst hs; exact hr
      | running => simp at hs; subst hs; exact hr
      | finished => simp at hs
      | refused => simp at hs
  | helper =>
    simp only [step] at hs
    split at hs
    · simp at hs; subst hs; exact hr
    · simp at hs

/-- **Close is final**: once any Close call has returned, under every continuation of the
    schedule no command is ever admitted or running again — whatever operation of `admit` the other
    goroutines were in the middle of when Close returned -/
theorem F_final (sched : List Act) : ∀ (s : St), Inv s → CPc.returned ∈ s.closers →
    (run sched s).workers.countP WPc.counted = 0 := by
  induction sched with
  | nil => intro s hi hr; exact hi.final hr
  | cons a r ih =>
    intro s hi hr
    simp only [run, List.foldl_cons]
    cases hs : step a s with
    | none => exact ih s hi hr
    | some s' => exact ih s' (inv_step a s s' hi hs) (returned_mono a s s' hs hr)

/-- non-vacuity: the schedule that breaks a check-then-act version of `admit` — a worker is past
    its closing check when a whole Close runs — cannot happen here: the closer blocks on the mutex -/
example :
    let s := run [.worker 0, .worker 0, .closer 0, .closer 0, .worker 0, .worker 0, .closer 0, .closer 0,
      .closer 0, .closer 0, .closer 0, .helper, .closer 0, .worker 0, .closer 0] (init 1 1)
    s.closers = [.returned] ∧ s.workers = [.finished] ∧ s.chanCloses = 1 ∧ s.wg = 0 := by decide

end Pw.ConcF

namespace Pw.ConcF

theorem index_of_countP_pos {α} (p : α → Bool) (l : List α) (h : 0 < l.countP p) : ∃ (k : Nat) (x : α), l[k]? = some x ∧ p x = true := by
  obtain ⟨x, hx, hp⟩ := List.countP_pos_iff.mp h
  obtain ⟨k, hk, hv⟩ := List.getElem_of_mem hx
  exact ⟨k, x, by simp [hk, hv], hp⟩

theorem closer_in_section_can_step (s : St) (k : Nat) (pc : CPc) (h : s.closers[k]? = some pc) (hh : pc.holds = true) :
    (step (.closer k) s).isSome = true := by
  cases pc <;> simp [CPc.holds] at hh <;> simp [step, h]
  rename_i b; cases b <;> simp

theorem worker_in_section_can_step (s : St) (k : Nat) (pc : WPc) (h : s.workers[k]? = some pc) (hh : pc.holds = true) :
    (step (.worker k) s).isSome = true := by
  cases pc <;> simp [WPc.holds] at hh <;> simp [step, h]
  rename_i b; cases b <;> simp

/-- **no deadlock**: as long as some Close call has not returned, some thread can execute its next
    operation — the mutex is always released again, `wg.Wait` is always eventually enabled -/
theorem F_no_deadlock (s : St) (hi : Inv s)
    (hpend : ∃ (i : Nat) (pc : CPc), s.closers[i]? = some pc ∧ pc ≠ CPc.returned) :
    ∃ a, (step a s).isSome = true := by
  obtain ⟨i, pc, hpc, hne⟩ := hpend
  -- whoever holds the mutex can go on
  have holder : s.lock = true → ∃ a, (step a s).isSome = true := by
    intro hl
    have hm := hi.mutex
    rw [hl] at hm
    simp only [if_true] at hm
    by_cases hc : 0 < s.closers.countP CPc.holds
    · obtain ⟨k, x, hk, hp⟩ := index_of_countP_pos _ _ hc
      exact ⟨.closer k, closer_in_section_can_step s k x hk hp⟩
    · have : 0 < s.workers.countP WPc.holds := by omega
      obtain ⟨k, x, hk, hp⟩ := index_of_countP_pos _ _ this
      exact ⟨.worker k, worker_in_section_can_step s k x hk hp⟩
  cases hl : s.lock with
  | true => exact holder hl
  | false =>
    cases pc with
    | returned => exact absurd rfl hne
    | start => exact ⟨.closer i, by simp [step, hpc, hl]⟩
    | locked => exact ⟨.closer i, closer_in_section_can_step s i _ hpc rfl⟩
    | loaded b => exact ⟨.closer i, closer_in_section_can_step s i _ hpc rfl⟩
    | stored => exact ⟨.closer i, closer_in_section_can_step s i _ hpc rfl⟩
    | closed => exact ⟨.closer i, closer_in_section_can_step s i _ hpc rfl⟩
    | waiting =>
      by_cases hz : s.wg = 0
      · exact ⟨.closer i, by simp [step, hpc, hz]⟩
      · have hcg : s.closing = true := (hi.cview _ (mem_of_get _ _ _ hpc)).2.2 (Or.inr (Or.inl rfl))
        have hm := hi.mutex
        rw [hl] at hm
        simp only [Bool.false_eq_true, if_false] at hm
        by_cases hd : s.helperDone = true
        · have hw := hi.wg
          simp only [hd, if_true, Nat.add_zero] at hw
          have hpos : 0 < s.workers.countP WPc.counted := by omega
          obtain ⟨k, x, hk, hp⟩ := index_of_countP_pos _ _ hpos
          cases x <;> simp [WPc.counted] at hp
          · -- `added` would hold the mutex, which is free
            have := countP_pos_of_mem WPc.holds s.workers .added (mem_of_get _ _ _ hk) rfl
            omega
          · exact ⟨.worker k, by simp [step, hk]⟩
        · have hch := hi.chan
          simp only [hcg, if_true] at hch
          by_cases hst : 0 < s.closers.countP CPc.isStored
          · obtain ⟨k, x, hk, hp⟩ := index_of_countP_pos _ _ hst
            cases x <;> simp [CPc.isStored] at hp
            have := countP_pos_of_mem CPc.holds s.closers .stored (mem_of_get _ _ _ hk) rfl
            omega
          · simp only [Bool.not_eq_true] at hd
            exact ⟨.helper, by simp [step, hd]; omega⟩

end Pw.ConcF
