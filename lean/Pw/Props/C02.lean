import Pw.Lemmas.Backend
import Pw.Model.Serve
import Pw.Model.Writer
/-
  C02 — every byte the server sends is a well-formed backend message.

  The model emits *structured* messages (`BMsg`) and the wire bytes are `BMsg.encode`
  (type byte, length = 4 + body, body built like the Go builder functions).  The theorems
  here show that the strict grammar parser — the oracle run on the implementation's real
  output — inverts that encoding for every well-formed message and every sequence of them,
  whatever follows or precedes; and that the model's whole output has exactly this shape.
-/
namespace Pw.Props.C02
open Pw

/-- builder lemma, all fourteen message types at once: the strict body grammar accepts what
    the builder wrote and recovers exactly the structured message -/
theorem C02_roundtrip (m : BMsg) (h : m.WF) : parseBody m.tag m.body = some m := by
  cases m with
  | auth s =>
    simp only [BMsg.WF] at h
    simp [parseBody, BMsg.tag, BMsg.body, ch, rd32_be32 s h []]
    have := rd32_be32 s h []
    simp at this
    simp [this]
  | paramStatus k v =>
    obtain ⟨hk, hv⟩ := h
    simp [parseBody, BMsg.tag, BMsg.body, ch]
    have h1 : cstr (k ++ 0 :: (v ++ [0])) = some (k, v ++ [0]) := cstr_append k hk _
    have h2 : cstr (v ++ [0]) = some (v, []) := cstr_append v hv []
    simp [h1, h2]
  | ready s => simp [parseBody, BMsg.tag, BMsg.body, ch]
  | error b =>
    simp only [BMsg.WF] at h
    simp [parseBody, BMsg.tag, BMsg.body, ch]
    cases hp : parseErrFields (b.length + 1) b with
    | none => simp [hp] at h
    | some _ => simp
  | rowDesc cols =>
    obtain ⟨hl, hc⟩ := h
    simp [parseBody, BMsg.tag, BMsg.body, ch, rd16_be16 _ hl, parseColDescs_enc cols hc]
  | dataRow fs =>
    obtain ⟨hl, hf⟩ := h
    simp [parseBody, BMsg.tag, BMsg.body, ch, rd16_be16 _ hl, parseFields_enc fs hf]
  | complete t =>
    simp only [BMsg.WF] at h
    have h1 : cstr (t ++ [0]) = some (t, []) := cstr_append t h []
    simp [parseBody, BMsg.tag, BMsg.body, ch, h1]
  | emptyQuery => simp [parseBody, BMsg.tag, BMsg.body, ch]
  | parseComplete => simp [parseBody, BMsg.tag, BMsg.body, ch]
  | bindComplete => simp [parseBody, BMsg.tag, BMsg.body, ch]
  | closeComplete => simp [parseBody, BMsg.tag, BMsg.body, ch]
  | noData => simp [parseBody, BMsg.tag, BMsg.body, ch]
  | paramDesc oids =>
    obtain ⟨hl, ho⟩ := h
    simp [parseBody, BMsg.tag, BMsg.body, ch, rd16_be16 _ hl, parseOids_enc oids ho]
  | copyIn f n =>
    obtain ⟨hf, hn⟩ := h
    have hf' : (UInt8.ofNat f).toNat = f := by simp [UInt8.toNat_ofNat']; omega
    simp [parseBody, BMsg.tag, BMsg.body, ch, rd16_be16 _ hn, parseFmts_replicate n f (by omega), hf']

/-- helper: enough fuel parses any concatenation of encoded well-formed messages -/
theorem parseBackendAux_encode (ms : List BMsg)
    (h : ∀ m ∈ ms, m.WF ∧ m.body.length + 4 < 4294967296) :
    ∀ fuel, ms.length ≤ fuel → parseBackendAux fuel (ms.flatMap BMsg.encode) = some ms := by
  induction ms with
  | nil => intro fuel _; cases fuel <;> simp [parseBackendAux]
  | cons m ms ih =>
    intro fuel hfuel
    obtain ⟨hwf, hlen⟩ := h m (by simp)
    have hms : ∀ m ∈ ms, m.WF ∧ m.body.length + 4 < 4294967296 := fun m' hm' => h m' (by simp [hm'])
    cases fuel with
    | zero => simp at hfuel
    | succ fuel =>
      have hfuel' : ms.length ≤ fuel := by simpa using hfuel
      simp only [List.flatMap_cons, BMsg.encode, frame, List.cons_append, List.append_assoc, parseBackendAux]
      rw [rd32_be32 _ hlen]
      have h4 : ¬ (m.body.length + 4 < 4) := by omega
      simp only [h4, if_false, Nat.add_sub_cancel, List.length_append]
      have h5 : ¬ (m.body.length + (List.flatMap BMsg.encode ms).length < m.body.length) := by omega
      rw [if_neg h5, List.take_left' rfl, List.drop_left' rfl, C02_roundtrip m hwf, ih hms fuel hfuel']
      rfl

/-- **C02 (stream form).** Any sequence of well-formed messages, encoded and concatenated,
    is accepted by the strict parser, which returns exactly that sequence: the output is a
    concatenation of complete messages, each with a known type byte, length = 4 + body and a
    body that parses exactly under its type's grammar. -/
theorem C02_stream (ms : List BMsg) (h : ∀ m ∈ ms, m.WF ∧ m.body.length + 4 < 4294967296) :
    parseBackend (ms.flatMap BMsg.encode) = some ms := by
  unfold parseBackend
  apply parseBackendAux_encode ms h
  -- every encoded message is at least five bytes long
  clear h
  induction ms with
  | nil => simp
  | cons m ms ih =>
    have : (BMsg.encode m).length = m.body.length + 5 := by simp [BMsg.encode, frame]; omega
    simp only [List.flatMap_cons, List.length_append, List.length_cons, this]
    omega

/-- the model's complete output: the optional SSL reply byte, then encoded messages only -/
theorem C02_model_output_shape (cfg : Config) (h : Handlers) (inp tin : Bytes) :
    let r := serve cfg h inp tin
    r.out.flatten = (match r.ssl with | some b => [b] | none => []) ++ r.msgs.flatMap BMsg.encode := by
  intro r
  unfold Result.out
  cases r.ssl <;> simp [List.flatMap]

/-- **C02 (abandoned frames).** Whatever state an earlier, abandoned or failed message left the
    writer in (a half-built DataRow after an encode failure, a set latch), `Start t`, any
    sequence of `Add*` calls and `End` hand exactly one complete message `frame t body` to the
    connection and leave the writer empty: partial bytes never reach the next message. -/
theorem C02_abandon (w0 : Writer) (t : UInt8) (adds : List Bytes) :
    ((adds.foldl (fun w b => w.add b) (w0.start t)).finish) =
      some (some (frame t adds.flatten), { frame := [], err := false }) := by
  have key : ∀ (adds : List Bytes) (acc : Bytes),
      adds.foldl (fun w b => Writer.add b w) { frame := [t, 0, 0, 0, 0] ++ acc, err := false }
        = { frame := [t, 0, 0, 0, 0] ++ acc ++ adds.flatten, err := false } := by
    intro adds
    induction adds with
    | nil => intro acc; simp
    | cons a as ih =>
      intro acc
      have h1 : Writer.add a { frame := [t, 0, 0, 0, 0] ++ acc, err := false }
          = { frame := [t, 0, 0, 0, 0] ++ (acc ++ a), err := false } := by simp [Writer.add]
      rw [List.foldl_cons, h1, ih (acc ++ a)]
      simp
  have h0 := key adds []
  simp only [List.append_nil] at h0
  simp only [Writer.start, h0, Writer.finish, Writer.reset, frame]
  simp

/-- non-vacuity: a concrete non-trivial reply stream satisfies the hypotheses and parses -/
example :
    let ms : List BMsg := [.auth 0, .paramStatus [117, 115, 101, 114] [98, 111, 98], .ready 73,
      .rowDesc [({ name := [105, 100], oid := 23 }, 0)], .dataRow [some [52, 50], none],
      .complete [83, 69, 76, 69, 67, 84, 32, 49], .error [83, 69, 0, 67, 52, 50, 0, 77, 120, 0, 0], .ready 73]
    parseBackend (ms.flatMap BMsg.encode) = some ms := by
  intro ms
  apply C02_stream
  intro m hm
  simp only [ms, List.mem_cons, List.mem_nil_iff, or_false] at hm
  rcases hm with rfl | rfl | rfl | rfl | rfl | rfl | rfl | rfl <;>
    refine ⟨?_, by decide⟩ <;> simp [BMsg.WF, nulFree] <;> first | decide | (constructor <;> simp [nulFree])

end Pw.Props.C02
