import Pw.Model.Serve
namespace Pw.Props.C02
end Pw.Props.C02
