import Pw.Props.C14
import Pw.Props.C09
/-
  C14 — exactly the rows the client encoded: the flat row decoder inverts the client-side
  encoding of a row for every value the column codecs round-trip (C09).  With the simulation
  theorems of Props/C14 (the reassembling reader = the flat decoder on the concatenated stream,
  however the stream is cut into CopyData messages) this is the end-to-end statement.
-/
namespace Pw.Props.C14
open Pw Pw.Spec

/-- what a client puts on the wire for one field of a binary COPY row -/
def encBinField (o : Nat) (v : Val) : Option Bytes :=
  match encodeVal o 1 v with
  | .ok none => some (be32 4294967295)
  | .ok (some b) => some (be32 b.length ++ b)
  | _ => none

/-- a value the column's binary codec round-trips and whose encoding fits the limit -/
def FieldOK (L : Nat) (o : Nat) (v : Val) : Prop :=
  match encodeVal o 1 v with
  | .ok none => True
  | .ok (some b) => b.length ≤ L ∧ b.length < 4294967295 ∧ decodeVal o 1 (some b) = .ok v
  | _ => False

/-- what the reader hands back: the three NULL forms are one NULL -/
def asRead (o : Nat) (v : Val) : Val :=
  match encodeVal o 1 v with
  | .ok none => .null
  | _ => v

def encFieldsBin : List Nat → List Val → Option Bytes
  | [], [] => some []
  | o :: os, v :: vs => do
    let a ← encBinField o v
    let r ← encFieldsBin os vs
    pure (a ++ r)
  | _, _ => none

def readVals : List Nat → List Val → List Val
  | o :: os, v :: vs => asRead o v :: readVals os vs
  | _, _ => []

theorem fTake_append (b rest : Bytes) : fTake b.length (b ++ rest) = .ok b rest := by
  simp [fTake]

theorem fTakeLength_be32 (L n : Nat) (rest : Bytes) (hn : n < 4294967296) (hl : n = 4294967295 ∨ n ≤ L) :
    fTakeLength L (be32 n ++ rest) = .ok n rest := by
  unfold fTakeLength
  have h4 : (be32 n).length = 4 := rfl
  have := fTake_append (be32 n) rest
  rw [h4] at this
  rw [this]
  simp only []
  have hr := rd32_be32 n hn []
  simp only [List.append_nil] at hr
  rw [hr]
  simp only []
  have : ¬ (n ≠ 4294967295 ∧ n > L) := by omega
  rw [if_neg this]

/-- **the fields of a row**: decoding the client-side encoding of a row gives the row back -/
theorem fFields_roundtrip (L : Nat) : ∀ (oids : List Nat) (vals : List Val) (enc rest : Bytes),
    encFieldsBin oids vals = some enc → (∀ p ∈ oids.zip vals, FieldOK L p.1 p.2) →
    fFields L oids (enc ++ rest) = .ok (readVals oids vals) rest := by
  intro oids
  induction oids with
  | nil =>
    intro vals enc rest he _
    cases vals with
    | nil => simp [encFieldsBin] at he; subst he; simp [fFields, readVals]
    | cons v vs => simp [encFieldsBin] at he
  | cons o os ih =>
    intro vals enc rest he hok
    cases vals with
    | nil => simp [encFieldsBin] at he
    | cons v vs =>
      simp only [encFieldsBin] at he
      cases ha : encBinField o v with
      | none => simp [ha] at he
      | some a =>
        cases hr : encFieldsBin os vs with
        | none => simp [ha, hr] at he
        | some r =>
          simp [ha, hr] at he
          subst he
          have hf := hok (o, v) (by simp)
          have hrest : ∀ p ∈ os.zip vs, FieldOK L p.1 p.2 := fun p hp => hok p (by simp [hp])
          unfold encBinField at ha
          unfold FieldOK at hf
          simp only [fFields, readVals, asRead]
          cases hev : encodeVal o 1 v with
          | err => simp [hev] at ha
          | panic f => simp [hev] at ha
          | unsupported => simp [hev] at ha
          | ok ob =>
            cases ob with
            | none =>
              simp [hev] at ha; subst ha
              rw [List.append_assoc, fTakeLength_be32 L 4294967295 _ (by omega) (Or.inl rfl)]
              simp only [if_true]
              rw [ih vs r rest hr hrest]
            | some b =>
              simp only [hev] at ha hf
              simp at ha; subst ha
              obtain ⟨h1, h2, h3⟩ := hf
              rw [List.append_assoc, List.append_assoc, fTakeLength_be32 L b.length _ (by omega) (Or.inr h1)]
              have hne : ¬ (b.length = 4294967295) := by omega
              simp only [hne, if_false]
              rw [fTake_append b (r ++ rest)]
              simp only [h3]
              rw [ih vs r rest hr hrest]

/-- **C14 (exactly the rows the client encoded).** A row whose values the column codecs round-trip
    (C09: integers of every width over their whole range, text, bytea, bool, uuid; the three NULL
    forms) and whose encodings fit the limit is read back value for value, NULL fields as NULL,
    and the rest of the stream is left untouched. -/
theorem C14_roundtrip (L : Nat) (oids : List Nat) (vals : List Val) (enc rest : Bytes)
    (hn : oids.length < 65535) (he : encFieldsBin oids vals = some enc)
    (hok : ∀ p ∈ oids.zip vals, FieldOK L p.1 p.2) :
    fRow L oids (be16 oids.length ++ enc ++ rest) = .row (readVals oids vals) rest := by
  have hne : be16 oids.length ++ enc ++ rest ≠ [] := by simp [be16]
  have hlen : 2 ≤ (be16 oids.length ++ enc ++ rest).length := by simp [be16]
  have htk : fTake 2 (be16 oids.length ++ enc ++ rest) = .ok (be16 oids.length) (enc ++ rest) := by
    have := fTake_append (be16 oids.length) (enc ++ rest)
    simpa [List.append_assoc] using this
  have hfc : fieldCount (be16 oids.length) = oids.length := by
    have := rd16_be16 oids.length (by omega) []
    simp only [List.append_nil] at this
    simp [fieldCount, this]
  have h1 : ¬ (oids.length = 65535) := by omega
  simp only [fRow, hne, if_false, fRowBody, htk, hfc, h1, ne_eq, not_true_eq_false,
    fFields_roundtrip L oids vals enc rest he hok]

/-- the per-field hypothesis is what C09 proves, e.g. for an int4 column: every int32 -/
example (i : Int) (h1 : -2147483648 ≤ i) (h2 : i ≤ 2147483647) : FieldOK 100 Oid.int4 (.int i) := by
  have hr : intRange Oid.int4 = some (-2147483648, 2147483647) := by decide
  have henc : encodeVal Oid.int4 1 (.int i) = .ok (some (be32 (toU32 i))) := by
    have hrange : ¬ (i < -2147483648 ∨ i > 2147483647) := by omega
    simp [encodeVal, encodeTyped, supportedOid, Oid.int4, Oid.int2, hrange, intRange, intWidth, beInt]
  unfold FieldOK
  rw [henc]
  exact ⟨by simp, by simp, C09.C09_int_binary Oid.int4 i _ _ hr h1 h2 _ henc⟩

end Pw.Props.C14
