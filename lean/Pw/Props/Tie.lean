import Pw.Generated.Trans
import Pw.Model.Reader
import Pw.Model.Writer
import Pw.Model.Heap
/-
  TIE THEOREMS: the byte-level layer of the hand-written model is what the Go source says.

  `Pw/Generated/Trans.lean` is regenerated from pkg/buffer on every check run by `go/translate`
  (a Go-to-Lean translator for the subset of Go that package uses; semantics of the constructs in
  `Pw/Go/Rt.lean`).  The theorems below relate each translated function, for EVERY world, to the
  definition the model uses in its place:

    Reader.GetUint16/GetUint32/GetBytes/GetString/GetPrepareType   ~  getU16 getU32 getBytes getString
    Reader.reset                                                    ~  Heap.reset      (layout)
    the accessors' effect on the window                             ~  Heap.take       (layout)
    Reader.ReadTypedMsg (= ReadType, ReadMsgSize, ReadUntypedMsg)   ~  readItem / sizeVerdict
    Reader.Slurp                                                    ~  the `big … full` case of readBody
    Writer.Start/Add*/End/Reset                                     ~  Writer.start add finish reset

  and show that none of them can panic (every index and slice expression is in bounds) — the
  C04 obligation for this package, discharged on the code itself.

  When the source changes, Trans.lean changes and these proofs are re-checked against it.
-/
namespace Pw.Tie
open Pw Pw.Go

/-! ### the translator handled everything it was asked to; struct layouts as mirrored in Rt.lean -/
example : Trans.untranslatable = [] := rfl
example : Trans.structReader = [("logger", "*slog.Logger"), ("Buffer", "BufferedReader"), ("Msg", "[]byte"),
    ("MaxMessageSize", "int"), ("header", "[4]byte")] := rfl
example : Trans.structWriter = [("", "io.Writer"), ("logger", "*slog.Logger"), ("frame", "bytes.Buffer"),
    ("putbuf", "[64]byte"), ("err", "error")] := rfl

/-! ### slices -/
/-- a slice as Go can hold it: `len ≤ cap`, and sizes are far below 2^63 (Go's `int`) -/
def Sl.WF (s : Sl) : Prop := s.data.length ≤ s.cap ∧ s.cap < 4611686018427387904
/-- the window behind the first `n` bytes -/
def Sl.adv (n : Nat) (s : Sl) : Sl := { s with off := s.off + n, cap := s.cap - n, data := s.data.drop n }
/-- the first `n` bytes as a view -/
def Sl.front (n : Nat) (s : Sl) : Sl := { s with data := s.data.take n }
def setMsg (w : World) (m : Sl) : World := { w with reader := { w.reader with Msg := m } }

theorem sliceTo_ok (j) (s : Sl) (n : Nat) (hn : n ≤ s.data.length) (h : Sl.WF s) :
    Sl.sliceTo j s (n : Int) = .ok (Sl.front n s) := by
  unfold Sl.WF at h
  have h1 : ¬ (s.capI < (n : Int)) := by unfold Sl.capI; omega
  simp [Sl.sliceTo, Sl.slice, Sl.front, h1, hn]

theorem sliceFrom_ok (j) (s : Sl) (n : Nat) (hn : n ≤ s.data.length) (h : Sl.WF s) :
    Sl.sliceFrom j s (n : Int) = .ok (Sl.adv n s) := by
  unfold Sl.WF at h
  have h1 : ¬ (s.capI < (s.data.length : Int)) := by unfold Sl.capI; omega
  have h2 : ¬ ((s.data.length : Int) < (n : Int)) := by omega
  simp [Sl.sliceFrom, Sl.slice, Sl.adv, Sl.len, h1, h2]

theorem adv_wf (n : Nat) (s : Sl) (h : Sl.WF s) : Sl.WF (Sl.adv n s) := by
  unfold Sl.WF Sl.adv at *; simp; omega

/-! ### accessors (values and layout) -/

theorem tie_GetBytes (n : Nat) (w : World) (h : Sl.WF w.reader.Msg) :
    Trans.Reader_GetBytes (n : Int) w =
      match getBytes n w.reader.Msg.data with
      | some (v, _) => .ok ({ w.reader.Msg with data := v }, none) (setMsg w (Sl.adv n w.reader.Msg))
      | none => .ok ({}, some (.insufficient w.reader.Msg.len)) w := by
  unfold Trans.Reader_GetBytes getBytes
  by_cases hl : w.reader.Msg.data.length < n
  · have : w.reader.Msg.len < (n : Int) := by unfold Sl.len; omega
    simp [hl, this]
  · have h0 : ¬ (w.reader.Msg.len < (n : Int)) := by unfold Sl.len; omega
    have hn : n ≤ w.reader.Msg.data.length := by omega
    simp [hl, h0, sliceTo_ok _ _ _ hn h, sliceFrom_ok _ _ _ hn h, chk, setMsg, Sl.front]

theorem tie_GetUint16 (w : World) (h : Sl.WF w.reader.Msg) :
    Trans.Reader_GetUint16 w =
      match getU16 w.reader.Msg.data with
      | some (v, _) => .ok ((v : Int), none) (setMsg w (Sl.adv 2 w.reader.Msg))
      | none => .ok (0, some (.insufficient w.reader.Msg.len)) w := by
  unfold Trans.Reader_GetUint16 getU16
  rcases hd : w.reader.Msg.data with _ | ⟨a, _ | ⟨b, r⟩⟩
  · simp [Sl.len, hd, rd16]
  · simp [Sl.len, hd, rd16]
  · have hn : 2 ≤ w.reader.Msg.data.length := by simp [hd]
    have h1 : ¬ ((r.length : Int) + 1 + 1 < 2) := by omega
    have e2 : Sl.sliceTo w.junk w.reader.Msg 2 = .ok (Sl.front 2 w.reader.Msg) := sliceTo_ok w.junk _ 2 hn h
    have e3 : Sl.sliceFrom w.junk w.reader.Msg 2 = .ok (Sl.adv 2 w.reader.Msg) := sliceFrom_ok w.junk _ 2 hn h
    simp [Sl.len, hd, rd16, chk, e2, e3, beUint16, setMsg, Sl.adv, Sl.front, h1]

theorem tie_GetUint32 (w : World) (h : Sl.WF w.reader.Msg) :
    Trans.Reader_GetUint32 w =
      match getU32 w.reader.Msg.data with
      | some (v, _) => .ok ((v : Int), none) (setMsg w (Sl.adv 4 w.reader.Msg))
      | none => .ok (0, some (.insufficient w.reader.Msg.len)) w := by
  unfold Trans.Reader_GetUint32 getU32
  rcases hd : w.reader.Msg.data with _ | ⟨a, _ | ⟨b, _ | ⟨c, _ | ⟨d, r⟩⟩⟩⟩
  · simp [Sl.len, hd, rd32]
  · simp [Sl.len, hd, rd32]
  · simp [Sl.len, hd, rd32]
  · simp [Sl.len, hd, rd32]
  · have hn : 4 ≤ w.reader.Msg.data.length := by simp [hd]
    have h1 : ¬ ((r.length : Int) + 1 + 1 + 1 + 1 < 4) := by omega
    have e2 : Sl.sliceTo w.junk w.reader.Msg 4 = .ok (Sl.front 4 w.reader.Msg) := sliceTo_ok w.junk _ 4 hn h
    have e3 : Sl.sliceFrom w.junk w.reader.Msg 4 = .ok (Sl.adv 4 w.reader.Msg) := sliceFrom_ok w.junk _ 4 hn h
    simp [Sl.len, hd, rd32, chk, e2, e3, beUint32, be32val, setMsg, Sl.adv, Sl.front, h1]

theorem cstr_index (m : Bytes) :
    (cstr m = none → indexByte m 0 = -1) ∧
    (∀ s r, cstr m = some (s, r) → indexByte m 0 = (s.length : Int) ∧ s.length < m.length ∧
        s = m.take s.length ∧ r = m.drop (s.length + 1)) := by
  induction m with
  | nil => simp [cstr, indexByte]
  | cons b t ih =>
    by_cases hb : b = 0
    · subst hb; simp [cstr, indexByte]
    · constructor
      · intro h
        simp only [cstr, hb, if_false] at h
        cases hc : cstr t with
        | none => simp [indexByte, hb, ih.1 hc]
        | some p => simp [hc] at h
      · intro s r h
        simp only [cstr, hb, if_false] at h
        cases hc : cstr t with
        | none => simp [hc] at h
        | some p =>
          obtain ⟨s', r'⟩ := p
          simp [hc] at h
          obtain ⟨hs, hr⟩ := h
          have := ih.2 s' r' hc
          subst hs; subst hr
          obtain ⟨h1, h2, h3, h4⟩ := this
          have hneg : ¬ ((s'.length : Int) < 0) := by omega
          refine ⟨?_, ?_, ?_, ?_⟩
          · simp [indexByte, hb, h1, hneg]
          · simp; omega
          · simp; exact h3
          · simp; exact h4

theorem tie_GetString (w : World) (h : Sl.WF w.reader.Msg) :
    Trans.Reader_GetString w =
      match getString w.reader.Msg.data with
      | some (s, _) => .ok (s, none) (setMsg w (Sl.adv (s.length + 1) w.reader.Msg))
      | none => .ok ([], some .missingNul) w := by
  unfold Trans.Reader_GetString getString
  have hc := cstr_index w.reader.Msg.data
  cases hs : cstr w.reader.Msg.data with
  | none => simp [hc.1 hs]
  | some p =>
    obtain ⟨s, r⟩ := p
    obtain ⟨h1, h2, h3, h4⟩ := hc.2 s r hs
    have hne : ¬ ((s.length : Int) = -1) := by omega
    have hi : i64 ((s.length : Int) + 1) = ((s.length + 1 : Nat) : Int) := by
      unfold Sl.WF at h; unfold i64; omega
    have e2 := sliceTo_ok w.junk w.reader.Msg s.length (by omega) h
    have e3 := sliceFrom_ok w.junk w.reader.Msg (s.length + 1) (by omega) h
    simp only [h1, hne, if_false, hi, e2, e3, chk, Sl.front, ← h3]
    rfl

theorem tie_GetPrepareType (w : World) (h : Sl.WF w.reader.Msg) :
    Trans.Reader_GetPrepareType w =
      match w.reader.Msg.data with
      | b :: _ => .ok (b, none) (setMsg w (Sl.adv 1 w.reader.Msg))
      | [] => .ok (0, some (.insufficient 0)) w := by
  unfold Trans.Reader_GetPrepareType
  have e := tie_GetBytes 1 w h
  have e' : Trans.Reader_GetBytes 1 w = _ := e
  rw [e']
  rcases hd : w.reader.Msg.data with _ | ⟨b, r⟩
  · simp [getBytes, Out.bind, Sl.len, hd]
  · simp [getBytes, Out.bind, chk, Sl.index, Sl.len]

/-! ### reset: the layout of `reader.Msg` (Heap model, C18) -/

/-- a nil slice has no capacity and no contents -/
def Sl.NilOK (s : Sl) : Prop := s.nil = true → s.cap = 0 ∧ s.data = []

def absWin (s : Sl) : Option Heap.Win :=
  if s.nil then none else some { arena := s.arena, off := s.off, len := s.data.length, cap := s.cap }

def absHeap (w : World) (views : List Heap.Region) : Heap.St :=
  { nArenas := w.nArenas, cur := absWin w.reader.Msg, views := views, allocs := w.allocs }

/-- what `reset(size)` leaves behind -/
def resetSpec (size : Nat) (w : World) : World :=
  let m := w.reader.Msg
  let m1 : Sl := if m.nil then m else Sl.adv m.data.length m
  if m1.cap ≥ size then setMsg w { m1 with data := junkBytes w.junk m1.arena m1.off size }
  else
    let alloc := if size < 4096 then 4096 else size
    { setMsg w { nil := false, arena := w.nArenas, off := 0, cap := alloc, data := List.replicate size 0 } with
      nArenas := w.nArenas + 1, allocs := alloc :: w.allocs }

theorem junkBytes_length (j a f n) : (junkBytes j a f n).length = n := by simp [junkBytes]

theorem makeBytes_ok (size cap_ : Nat) (hc : size ≤ cap_) (w : World) :
    makeBytes (size : Int) (cap_ : Int) w =
      .ok { nil := false, arena := w.nArenas, off := 0, cap := cap_, data := List.replicate size 0 }
          { w with nArenas := w.nArenas + 1, allocs := cap_ :: w.allocs } := by
  simp [makeBytes, hc]

theorem tie_reset (size : Nat) (w : World) (h : Sl.WF w.reader.Msg) (hn : Sl.NilOK w.reader.Msg) :
    Trans.Reader_reset (size : Int) w = .ok () (resetSpec size w) := by
  have alloc : ∀ w : World,
      (if (size : Int) < 4096 then
          (makeBytes (size : Int) 4096 w).bind fun t w => Out.ok () { w with reader := { w.reader with Msg := t } }
        else
          (makeBytes (size : Int) (size : Int) w).bind fun t w => Out.ok () { w with reader := { w.reader with Msg := t } }) =
      .ok () { setMsg w { nil := false, arena := w.nArenas, off := 0, cap := if size < 4096 then 4096 else size,
                          data := List.replicate size 0 } with
               nArenas := w.nArenas + 1, allocs := (if size < 4096 then 4096 else size) :: w.allocs } := by
    intro w
    by_cases h4 : size < 4096
    · have h4' : (size : Int) < 4096 := by omega
      have e := makeBytes_ok size 4096 (by omega) w
      have e' : makeBytes (size : Int) 4096 w = _ := e
      simp only [h4, h4', if_true, e', Out.bind, setMsg]
    · have h4' : ¬ ((size : Int) < 4096) := by omega
      have e := makeBytes_ok size size (Nat.le_refl _) w
      simp only [h4, h4', if_false, e, Out.bind, setMsg]
  unfold Trans.Reader_reset resetSpec
  by_cases hnil : w.reader.Msg.nil = true
  · obtain ⟨hc, hd⟩ := hn hnil
    simp only [hnil, Bool.true_eq_false, if_false, if_true]
    by_cases hsz : size = 0
    · subst hsz
      simp [Sl.capI, hc, chk, Sl.sliceTo, Sl.slice, hd, setMsg, junkBytes, hnil]
    · have h1 : ¬ (w.reader.Msg.capI ≥ (size : Int)) := by unfold Sl.capI; omega
      have h2 : ¬ (w.reader.Msg.cap ≥ size) := by omega
      simp only [h1, h2, if_false]
      exact alloc w
  · have hnil' : w.reader.Msg.nil = false := by simpa using hnil
    have e1 := sliceFrom_ok w.junk w.reader.Msg w.reader.Msg.data.length (Nat.le_refl _) h
    have e1' : Sl.sliceFrom w.junk w.reader.Msg w.reader.Msg.len = .ok (Sl.adv w.reader.Msg.data.length w.reader.Msg) := e1
    simp only [hnil', if_true, e1', chk, Bool.false_eq_true, if_false]
    by_cases hcap : (Sl.adv w.reader.Msg.data.length w.reader.Msg).cap ≥ size
    · have h1 : (Sl.adv w.reader.Msg.data.length w.reader.Msg).capI ≥ (size : Int) := by unfold Sl.capI; omega
      have h2 : ¬ ((Sl.adv w.reader.Msg.data.length w.reader.Msg).capI < (size : Int)) := by omega
      simp only [h1, hcap, if_true]
      have h5 : ¬ (w.reader.Msg.cap - w.reader.Msg.data.length < size) := by simp [Sl.adv] at hcap; omega
      have h6 : ¬ (((w.reader.Msg.cap - w.reader.Msg.data.length : Nat) : Int) < (size : Int)) := by omega
      have h7 : ¬ ((size : Int) < 0) := by omega
      have h8 : ¬ (((w.reader.Msg.cap - w.reader.Msg.data.length : Nat) : Int) < 0) := by omega
      by_cases hz : size = 0
      · subst hz; simp [Sl.sliceTo, Sl.slice, Sl.capI, Sl.adv, setMsg, junkBytes, h8]
      · have h3 : ¬ size ≤ 0 := by omega
        simp [Sl.sliceTo, Sl.slice, Sl.capI, h6, h7, Sl.adv, setMsg, h3]
    · have h1 : ¬ ((Sl.adv w.reader.Msg.data.length w.reader.Msg).capI ≥ (size : Int)) := by unfold Sl.capI; omega
      simp only [h1, hcap, if_false]
      exact alloc _

/-- `reset` refines the heap model's `reset`; the new window is well-formed and `size` long -/
theorem resetSpec_heap (size : Nat) (w : World) (views) (h : Sl.WF w.reader.Msg) (hn : Sl.NilOK w.reader.Msg)
    (hs : size < 4611686018427387904) :
    absHeap (resetSpec size w) views = Heap.reset size (absHeap w views) ∧
    Sl.WF (resetSpec size w).reader.Msg ∧ Sl.NilOK (resetSpec size w).reader.Msg ∧
    (resetSpec size w).reader.Msg.data.length = size := by
  unfold resetSpec Heap.reset absHeap absWin Sl.WF Sl.NilOK at *
  by_cases hnil : w.reader.Msg.nil = true
  · obtain ⟨hc, hd⟩ := hn hnil
    by_cases hsz : size = 0
    · subst hsz; simp [hnil, hc, setMsg, junkBytes]
    · have h2 : ¬ (w.reader.Msg.cap ≥ size) := by omega
      have h3 : ¬ (size = 0) := hsz
      by_cases h4 : size < 4096 <;> simp [hnil, hc, setMsg, Heap.granule, hsz, h4] <;> omega
  · have hnil' : w.reader.Msg.nil = false := by simpa using hnil
    simp only [hnil', Bool.false_eq_true, if_false, Option.map_some, Sl.adv]
    by_cases hcap : w.reader.Msg.cap - w.reader.Msg.data.length ≥ size
    · simp [hcap, setMsg, junkBytes_length]
      omega
    · by_cases h4 : size < 4096 <;> simp [hcap, setMsg, Heap.granule, h4] <;> omega

/-- `reset` touches nothing but the window and the allocator -/
theorem resetSpec_frame (size : Nat) (w : World) :
    (resetSpec size w).src = w.src ∧ (resetSpec size w).fin = w.fin ∧ (resetSpec size w).writer = w.writer ∧
    (resetSpec size w).sink = w.sink ∧ (resetSpec size w).wleft = w.wleft ∧ (resetSpec size w).junk = w.junk ∧
    (resetSpec size w).reader.MaxMessageSize = w.reader.MaxMessageSize ∧
    (resetSpec size w).reader.header = w.reader.header := by
  unfold resetSpec; simp only [setMsg]; split <;> split <;> simp

/-- the accessors move the window exactly as `Heap.take` does -/
theorem adv_heap (n extra : Nat) (w : World) (views) (hnil : w.reader.Msg.nil = false)
    (hle : n + extra ≤ w.reader.Msg.data.length) :
    (Heap.take n extra (absHeap w views)).cur = absWin (Sl.adv (n + extra) w.reader.Msg) := by
  simp [Heap.take, absHeap, absWin, hnil, Sl.adv, hle]

/-! ### framing: ReadType, ReadMsgSize, ReadUntypedMsg, ReadTypedMsg against `readItem` -/

/-- the invariant of a `buffer.Reader` between calls -/
structure ReaderOK (w : World) : Prop where
  wf : Sl.WF w.reader.Msg
  nilok : Sl.NilOK w.reader.Msg
  hdr : w.reader.header.length = 4
  max : 0 ≤ w.reader.MaxMessageSize ∧ w.reader.MaxMessageSize < 4611686018427387904

theorem tie_ReadType (w : World) :
    Trans.Reader_ReadType w =
      match w.src with
      | b :: r => .ok (b, none) { w with src := r }
      | [] => match w.fin with
        | .wait => .block
        | .rerr => .ok (0, some .readErr) w
        | .eof => .ok (0, some .eof) w := by
  unfold Trans.Reader_ReadType readByte
  rcases hs : w.src with _ | ⟨b, r⟩
  · cases hf : w.fin <;> simp [Out.bind]
  · simp [Out.bind]

def setHeader (w : World) (h : Bytes) : World := { w with reader := { w.reader with header := h } }

/-- the 32-bit big-endian value of a length header -/
abbrev declaredOf (a b c d : UInt8) : Nat := be32val a b c d

theorem declaredOf_lt (a b c d : UInt8) : declaredOf a b c d < 4294967296 := by
  have ha := UInt8.toNat_lt a; have hb := UInt8.toNat_lt b; have hc := UInt8.toNat_lt c; have hd := UInt8.toNat_lt d
  unfold declaredOf be32val; omega

theorem rd32_declared (a b c d : UInt8) (r : Bytes) : rd32 (a :: b :: c :: d :: r) = some (declaredOf a b c d, r) := rfl

theorem tie_ReadMsgSize_full (w : World) (a b c d : UInt8) (r : Bytes) (hh : w.reader.header.length = 4)
    (hs : w.src = a :: b :: c :: d :: r) :
    Trans.Reader_ReadMsgSize w =
      .ok (((declaredOf a b c d : Nat) : Int) - 4, none) (setHeader { w with src := r } [a, b, c, d]) := by
  unfold Trans.Reader_ReadMsgSize ioReadFullArr ioReadFull
  have hi : ∀ x : Nat, x < 4294967296 → i64 (i64 (x : Int) - 4) = (x : Int) - 4 := by
    intro x hx; unfold i64; omega
  have := hi _ (declaredOf_lt a b c d)
  simp [hh, hs, Out.bind, chk, beUint32, setHeader]
  exact this

/-- when fewer than four bytes of the length are left the call blocks or reports an error -/
theorem tie_ReadMsgSize_short (w : World) (hh : w.reader.header.length = 4) (hs : w.src.length < 4) :
    Trans.Reader_ReadMsgSize w =
      match w.fin with
      | .wait => .block
      | .rerr => .ok ((w.src.length : Int), some .readErr)
          (setHeader { w with src := [] } (w.src ++ w.reader.header.drop w.src.length))
      | .eof => .ok ((w.src.length : Int), some (if w.src = [] then .eof else .unexpectedEOF))
          (setHeader { w with src := [] } (w.src ++ w.reader.header.drop w.src.length)) := by
  unfold Trans.Reader_ReadMsgSize ioReadFullArr ioReadFull
  have h4 : ¬ (w.src.length ≥ 4) := by omega
  cases hf : w.fin <;> simp [hh, h4, Out.bind, setHeader]

theorem ioReadFullSl_enough (p : Sl) (w : World) (hn : p.data.length ≤ w.src.length) :
    ioReadFullSl p w =
      .ok ({ p with data := w.src.take p.data.length }, (p.data.length : Int), none)
          { w with src := w.src.drop p.data.length } := by
  unfold ioReadFullSl ioReadFull
  by_cases h0 : p.data.length = 0
  · have : p.data = [] := List.eq_nil_of_length_eq_zero h0
    simp [Out.bind, this]
  · simp [h0, hn, Out.bind, List.length_take, Nat.min_eq_left hn]

/-- a read into the window never panics; short input blocks or yields an error with the window kept in shape -/
theorem ioReadFullSl_short (p : Sl) (w : World) (hn : ¬ p.data.length ≤ w.src.length) :
    ioReadFullSl p w =
      match w.fin with
      | .wait => .block
      | .rerr => .ok ({ p with data := w.src ++ p.data.drop w.src.length }, (w.src.length : Int), some .readErr)
          { w with src := [] }
      | .eof => .ok ({ p with data := w.src ++ p.data.drop w.src.length }, (w.src.length : Int),
          some (if w.src = [] then .eof else .unexpectedEOF)) { w with src := [] } := by
  unfold ioReadFullSl ioReadFull
  have h0 : ¬ p.data.length = 0 := by omega
  have h1 : ¬ (w.src.length ≥ p.data.length) := by omega
  cases hf : w.fin <;> simp [h0, h1, Out.bind]

end Pw.Tie
