import Pw.Lemmas.Bytes
import Pw.Model.Serve
/-
  C11 — TLS upgrade: everything after 'S' is inside TLS, nothing before it is trusted.
  The model keeps the two byte streams apart by construction: `inp` is what arrives on the raw
  connection, `tin` the plaintext the TLS layer hands over after the handshake.
-/
namespace Pw.Props.C11
open Pw

/-- an SSLRequest packet: length 8, protocol code 80877103 -/
def sslRequest : Bytes := be32 8 ++ be32 versionSSL

/-- reading the SSLRequest from the raw stream -/
theorem read_sslRequest (L : Nat) (hL : 4 ≤ L) (rest : Bytes) :
    readUntyped L (sslRequest ++ rest) = .msg (be32 versionSSL) rest := by
  have h1 : rd32 (sslRequest ++ rest) = some (8, be32 versionSSL ++ rest) := by
    unfold sslRequest
    rw [List.append_assoc]
    exact rd32_be32 8 (by omega) _
  have hv : sizeVerdict L 8 = .ok 4 := by
    unfold sizeVerdict
    have : ¬ (((8 : Nat) : Int) - 4 > (L : Int) ∨ ((8 : Nat) : Int) - 4 < 0) := by omega
    simp only [this, if_false]
    rfl
  unfold readUntyped
  rw [h1]
  simp only [hv]
  have hlen : ¬ (be32 versionSSL ++ rest).length < 4 := by simp
  rw [if_neg hlen]
  simp [be32]

theorem version_sslRequest : getU32 (be32 versionSSL) = some (versionSSL, []) := by
  have := rd32_be32 versionSSL (by unfold versionSSL; omega) []
  simpa [getU32] using this

/-- the session state after the one-byte reply has been written -/
def afterReply (cfg : Config) : Sess :=
  { inp := { L := effLimit cfg.L, items := [], tail := cfg.tail },
    wleft := match cfg.wleft with | some (n + 1) => some n | w => w }

/-- the rest of `serve` once the version of the (second) startup packet is to be read from `src` -/
def continueOn (cfg : Config) (h : Handlers) (src : Bytes) (stuffed : Bool) (ssl : UInt8) : Result :=
  match readUntyped (effLimit cfg.L) src with
  | .short => finish (afterReply cfg) (endOf cfg.tail) [] [] stuffed (some ssl)
  | .exceeded => finish (afterReply cfg) .closed [] [] stuffed (some ssl)
  | .msg body rest' =>
    match getU32 body with
    | none => finish (afterReply cfg) .closed [] [] stuffed (some ssl)
    | some (version, body) =>
      if version = versionCancel then finish (afterReply cfg) .closed [] [] stuffed (some ssl)
      else serveAfterVersion cfg h (afterReply cfg) body rest' stuffed (some ssl)

theorem writeRaw_ok (cfg : Config) (hw : cfg.wleft ≠ some 0) :
    writeRaw { inp := { L := effLimit cfg.L, items := [], tail := cfg.tail }, wleft := cfg.wleft } = (afterReply cfg, true) := by
  unfold writeRaw afterReply
  cases hwl : cfg.wleft with
  | none => rfl
  | some n =>
    cases n with
    | zero => exact absurd hwl hw
    | succ k => rfl

/-- the one-byte reply and the stuffing flag are carried through unchanged -/
theorem sav_fields (cfg : Config) (h : Handlers) (s0 : Sess) (body rest : Bytes) (st : Bool) (ssl : Option UInt8) :
    serveAfterVersion cfg h s0 body rest st ssl
      = { serveAfterVersion cfg h s0 body rest with ssl := ssl, stuffed := st } := by
  unfold serveAfterVersion
  dsimp only
  split
  · simp [finish]
  · split
    · simp [finish]
    · split
      · simp [finish]
      · split
        · simp [finish]
        · simp [finish]

/-- the session phase reads only `auth`, `version` and `gparams` of the configuration -/
theorem sav_cfg (cfg cfg' : Config) (h : Handlers) (s0 : Sess) (body rest : Bytes) (st : Bool) (ssl : Option UInt8)
    (ha : cfg'.auth = cfg.auth) (hv : cfg'.version = cfg.version) (hg : cfg'.gparams = cfg.gparams) :
    serveAfterVersion cfg' h s0 body rest st ssl = serveAfterVersion cfg h s0 body rest st ssl := by
  unfold serveAfterVersion authPhase serverParams
  simp only [ha, hv, hg]

/-- **C11 (upgrade).** With certificates configured an SSLRequest is answered with the single
    byte 'S'; from then on the connection is served from `tin` — the plaintext inside the TLS
    session — and from nothing else: the raw bytes `rest` that followed the SSLRequest on the
    wire appear nowhere in the result except in the `stuffed` flag. -/
theorem C11_upgrade (cfg : Config) (h : Handlers) (rest tin : Bytes) (hL : 4 ≤ effLimit cfg.L)
    (ht : cfg.tls ≥ 2) (hw : cfg.wleft ≠ some 0) :
    serve cfg h (sslRequest ++ rest) tin = continueOn cfg h tin (!rest.isEmpty) (ch 'S') := by
  have hne : versionSSL ≠ versionCancel := by decide
  have hnt : ¬ cfg.tls < 2 := by omega
  unfold serve continueOn
  simp only [read_sslRequest _ hL, version_sslRequest, hne, if_false, ne_eq, not_true_eq_false, hnt,
    writeRaw_ok cfg hw]
  rfl

/-- **pre-handshake plaintext is never interpreted**: two connections that differ only in what
    the client pushed in plaintext behind the SSLRequest get the same replies, run the same
    callbacks with the same arguments and see the same parameters -/
theorem C11_plaintext_ignored (cfg : Config) (h : Handlers) (rest1 rest2 tin : Bytes) (hL : 4 ≤ effLimit cfg.L)
    (ht : cfg.tls ≥ 2) (hw : cfg.wleft ≠ some 0) :
    let a := serve cfg h (sslRequest ++ rest1) tin
    let b := serve cfg h (sslRequest ++ rest2) tin
    a.ssl = b.ssl ∧ a.msgs = b.msgs ∧ a.ev = b.ev ∧ a.clientParams = b.clientParams ∧
    a.serverParams = b.serverParams := by
  intro a b
  simp only [a, b, C11_upgrade cfg h _ tin hL ht hw]
  unfold continueOn
  split
  · simp [finish]
  · simp [finish]
  · split
    · simp [finish]
    · split
      · simp [finish]
      · unfold serveAfterVersion
        dsimp only
        split
        · simp [finish]
        · split
          · simp [finish]
          · split
            · simp [finish]
            · split
              · simp [finish]
              · simp [finish]

/-- **C11 (no certificates).** Without certificates the answer is the single byte 'N' and the
    same connection continues in plaintext: the bytes behind the SSLRequest are read as a fresh
    startup packet -/
theorem C11_refused (cfg : Config) (h : Handlers) (rest tin : Bytes) (hL : 4 ≤ effLimit cfg.L)
    (ht : cfg.tls < 2) (hw : cfg.wleft ≠ some 0) :
    serve cfg h (sslRequest ++ rest) tin = continueOn cfg h rest false (ch 'N') := by
  have hne : versionSSL ≠ versionCancel := by decide
  unfold serve continueOn
  simp only [read_sslRequest _ hL, version_sslRequest, hne, if_false, ne_eq, not_true_eq_false, ht, if_true,
    writeRaw_ok cfg hw]
  rfl

/-- the write of the one-byte reply fails: nothing at all is sent or run -/
theorem C11_reply_fails (cfg : Config) (h : Handlers) (rest tin : Bytes) (hL : 4 ≤ effLimit cfg.L)
    (hw : cfg.wleft = some 0) :
    let r := serve cfg h (sslRequest ++ rest) tin
    r.ssl = none ∧ r.msgs = [] ∧ r.ev = [] ∧ r.ending = .closed := by
  have hne : versionSSL ≠ versionCancel := by decide
  intro r
  simp only [r]
  unfold serve
  simp only [read_sslRequest _ hL, version_sslRequest, hne, if_false, ne_eq, not_true_eq_false]
  split <;> simp [writeRaw, hw, finish]

/-- **the TLS session behaves exactly like its plaintext equivalent**: serving `tin` inside TLS
    gives the result of serving the same bytes on a plaintext connection (whose transport allows
    one write fewer: the 'S' has been spent), for every first packet that is not itself an
    SSLRequest -/
theorem C11_equivalent (cfg : Config) (h : Handlers) (rest tin : Bytes) (hL : 4 ≤ effLimit cfg.L)
    (ht : cfg.tls ≥ 2) (hw : cfg.wleft ≠ some 0)
    (hv : ∀ body r v b, readUntyped (effLimit cfg.L) tin = .msg body r → getU32 body = some (v, b) → v ≠ versionSSL) :
    let plain := serve { cfg with wleft := (afterReply cfg).wleft } h tin
    serve cfg h (sslRequest ++ rest) tin = { plain with ssl := some (ch 'S'), stuffed := !rest.isEmpty } := by
  intro plain
  rw [C11_upgrade cfg h rest tin hL ht hw]
  simp only [plain]
  unfold serve continueOn
  dsimp only
  have hs0 : ({ inp := { L := effLimit cfg.L, items := [], tail := cfg.tail }, wleft := (afterReply cfg).wleft } : Sess)
      = afterReply cfg := rfl
  rw [hs0]
  cases hr : readUntyped (effLimit cfg.L) tin with
  | short => simp [finish]
  | exceeded => simp [finish]
  | msg body r =>
    simp only []
    cases hg : getU32 body with
    | none => simp [finish]
    | some p =>
      obtain ⟨v, b⟩ := p
      have hvv := hv body r v b hr hg
      simp only []
      by_cases hc : v = versionCancel
      · simp [hc, finish]
      · simp only [hc, if_false, hvv, ne_eq, not_false_eq_true, if_true]
        rw [sav_fields cfg h (afterReply cfg) b r (!rest.isEmpty) (some (ch 'S'))]
        rw [sav_cfg cfg { cfg with wleft := (afterReply cfg).wleft } h (afterReply cfg) b r false none rfl rfl rfl]

/-- a CancelRequest sent inside the TLS session is refused like any other: no reply beyond the
    'S', no callback, connection closed -/
theorem C11_cancel_inside_tls (cfg : Config) (h : Handlers) (rest tin body r b : Bytes) (hL : 4 ≤ effLimit cfg.L)
    (ht : cfg.tls ≥ 2) (hw : cfg.wleft ≠ some 0)
    (h1 : readUntyped (effLimit cfg.L) tin = .msg body r) (h2 : getU32 body = some (versionCancel, b)) :
    let res := serve cfg h (sslRequest ++ rest) tin
    res.ssl = some (ch 'S') ∧ res.msgs = [] ∧ res.ev = [] ∧ res.ending = .closed := by
  intro res
  simp only [res, C11_upgrade cfg h rest tin hL ht hw]
  unfold continueOn
  simp [h1, h2, finish, afterReply]

/-- non-vacuity: SSLRequest with stuffed plaintext, then (inside TLS) a CancelRequest -/
example :
    let r := serve { tls := 2 } { parse := fun _ => .ok [], validate := fun _ _ _ => .accept, mws := [], terminate := none }
      (sslRequest ++ [1, 2, 3]) (be32 16 ++ be32 versionCancel ++ [0, 0, 0, 1, 0, 0, 0, 2])
    r.ssl = some 83 ∧ r.msgs = [] ∧ r.ending = .closed ∧ r.stuffed = true := by decide

end Pw.Props.C11
