import Pw.Props.C19
/-
  C15 — concurrent connections are isolated.

  The model of one connection (`serve`, `loop`, `stepCommand`) takes the server configuration
  and the handlers as VALUES and owns everything it mutates (reader state, statement and
  portal maps, discard flag, output).  A server with N connections is therefore a product of N
  such machines that share no mutable component; the theorem below is the noninterference
  statement for ANY interleaving of their steps.  That the Go code has the same shape (no
  unsynchronised shared write: per-connection type map, cloned parameter map, per-connection
  caches, no Server-field writes outside construction) is tied by pinned facts, the race
  detector and the solo-versus-concurrent differential campaign.
-/
namespace Pw.Props.C15
open Pw

/-- one connection between two commands: still running, or ended -/
inductive Conn where
  | running (s : Sess)
  | ended (s : Sess) (e : End)

/-- one scheduling step of a connection: process the next command -/
def connStep (h : Handlers) : Conn → Conn
  | .running s => match stepCommand h s with
    | .cont s' => .running s'
    | .stop s' e => .ended s' e
  | c => c

/-- `k` steps -/
def iter {α} (f : α → α) : Nat → α → α
  | 0, a => a
  | k + 1, a => iter f k (f a)

theorem iter_succ' {α} (f : α → α) (k : Nat) (a : α) : iter f (k + 1) a = f (iter f k a) := by
  induction k generalizing a with
  | zero => rfl
  | succ k ih => simp only [iter] at ih ⊢; rw [ih]

/-- the command loop of a connection served alone is the iteration of its step -/
theorem loop_eq_iterate (h : Handlers) : ∀ (fuel : Nat) (s : Sess),
    (match iter (connStep h) fuel (.running s) with
     | .running s' => (s', End.waiting)
     | .ended s' e => (s', e)) = loop h fuel s := by
  intro fuel
  induction fuel with
  | zero => intro s; simp [loop, iter]
  | succ n ih =>
    intro s
    simp only [iter, loop, connStep]
    cases hs : stepCommand h s with
    | cont s' => simp only; exact ih s'
    | stop s' e =>
      simp only
      have : ∀ k, iter (connStep h) k (.ended s' e) = .ended s' e := by
        intro k; induction k with
        | zero => rfl
        | succ k ihk => simp [iter, connStep, ihk]
      rw [this]

/-- a server with `n` connections: every scheduling step advances exactly one of them -/
def runSched {n : Nat} (h : Handlers) (sched : List (Fin n)) (st : Fin n → Conn) : Fin n → Conn :=
  sched.foldl (fun st i => fun j => if j = i then connStep h (st j) else st j) st

/-- **C15 (noninterference).** For any number of connections and ANY interleaving of their
    steps, the state (transcript, callback trace, name maps, fate) of connection `i` is what `i`
    reaches when served alone with the same number of its own steps: no connection can observe
    or alter another one. -/
theorem C15_noninterference {n : Nat} (h : Handlers) (sched : List (Fin n)) :
    ∀ (st : Fin n → Conn) (i : Fin n),
      runSched h sched st i = iter (connStep h) (sched.count i) (st i) := by
  induction sched with
  | nil => intro st i; rfl
  | cons a rest ih =>
    intro st i
    simp only [runSched, List.foldl_cons]
    have := ih (fun j => if j = a then connStep h (st j) else st j) i
    simp only [runSched] at this
    rw [this]
    by_cases hia : i = a
    · subst hia
      simp [List.count_cons, iter]
    · have : a ≠ i := fun e => hia e.symm
      simp [List.count_cons, hia, this]

/-- with enough steps each connection's result is exactly its solo command loop -/
theorem C15_solo_equivalence {n : Nat} (h : Handlers) (sched : List (Fin n)) (s0 : Fin n → Sess) (i : Fin n) :
    (match runSched h sched (fun j => .running (s0 j)) i with
     | .running s' => (s', End.waiting)
     | .ended s' e => (s', e)) = loop h (sched.count i) (s0 i) := by
  rw [C15_noninterference]
  exact loop_eq_iterate h _ _

end Pw.Props.C15
