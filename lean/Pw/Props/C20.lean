import Pw.Model.Params
import Pw.Lemmas.Backend
/-
  C20 — ParseParameters is total and counts placeholders correctly.

  `parseParameters` is a total structurally recursive function (no partiality, no panic
  outcome exists in its type); the theorems below give its exact result.
-/
namespace Pw.Props.C20
open Pw

def isPos : Marker → Bool
  | .pos _ => true
  | .anon => false

def isAnon : Marker → Bool
  | .anon => true
  | .pos _ => false

/-- highest positional index among the markers -/
def maxIndex : List Marker → Nat
  | [] => 0
  | .pos n :: r => max n (maxIndex r)
  | .anon :: r => maxIndex r

theorem paramStep_le (len : Nat) (m : Marker) (h : len ≤ maxArgs) : paramStep len m ≤ maxArgs := by
  cases m <;> simp only [paramStep] <;> (repeat' split) <;> simp only [maxArgs] at * <;> omega

theorem fold_le (ms : List Marker) : ∀ len, len ≤ maxArgs → ms.foldl paramStep len ≤ maxArgs := by
  induction ms with
  | nil => intro len h; simpa
  | cons m ms ih => intro len h; exact ih _ (paramStep_le len m h)

/-- **bounded result**: never more than the protocol's 65535 parameters -/
theorem C20_bounded (q : Bytes) : (parseParameters q).length ≤ 65535 := by
  simp only [parseParameters, List.length_replicate, paramCount]
  exact fold_le _ 0 (by simp [maxArgs])

theorem fold_pos (ms : List Marker) (h : ∀ m ∈ ms, isPos m = true) :
    ∀ len, len ≤ maxArgs → ms.foldl paramStep len = max len (min (maxIndex ms) maxArgs) := by
  induction ms with
  | nil => intro len hl; simp [maxIndex]
  | cons m ms ih =>
    intro len hl
    have hms : ∀ m ∈ ms, isPos m = true := fun x hx => h x (by simp [hx])
    cases m with
    | anon => exact absurd (h .anon (by simp)) (by simp [isPos])
    | pos n =>
      simp only [List.foldl_cons, maxIndex]
      rw [ih hms _ (paramStep_le len (.pos n) hl)]
      simp only [paramStep, maxArgs] at *
      by_cases h1 : n > 65535 <;> simp only [h1, if_true, if_false] <;> split <;> omega

/-- **$n-style queries**: the length is the highest positional index (capped at 65535),
    whatever the order, gaps and repetitions of the markers and however large the indexes -/
theorem C20_positional (q : Bytes) (h : ∀ m ∈ markers q, isPos m = true) :
    (parseParameters q).length = min (maxIndex (markers q)) 65535 := by
  simp only [parseParameters, List.length_replicate, paramCount]
  rw [fold_pos _ h 0 (by simp [maxArgs])]
  simp [maxArgs]

theorem fold_anon (ms : List Marker) (h : ∀ m ∈ ms, isAnon m = true) :
    ∀ len, len ≤ maxArgs → ms.foldl paramStep len = min (len + ms.length) maxArgs := by
  induction ms with
  | nil => intro len hl; simp; omega
  | cons m ms ih =>
    intro len hl
    have hms : ∀ m ∈ ms, isAnon m = true := fun x hx => h x (by simp [hx])
    cases m with
    | pos n => exact absurd (h (.pos n) (by simp)) (by simp [isAnon])
    | anon =>
      simp only [List.foldl_cons, List.length_cons]
      rw [ih hms _ (paramStep_le len .anon hl)]
      simp only [paramStep, maxArgs] at *
      by_cases h1 : len < 65535 <;> simp only [h1, if_true, if_false] <;> omega

/-- **?-style queries**: the length is the number of markers (capped at 65535) -/
theorem C20_anonymous (q : Bytes) (h : ∀ m ∈ markers q, isAnon m = true) :
    (parseParameters q).length = min (markers q).length 65535 := by
  simp only [parseParameters, List.length_replicate, paramCount]
  rw [fold_anon _ h 0 (by simp [maxArgs])]
  simp [maxArgs]

/-- every placeholder has the unspecified type (OID 0) -/
theorem C20_unspecified (q : Bytes) : ∀ o ∈ parseParameters q, o = 0 := by
  intro o ho
  simp only [parseParameters] at ho
  exact (List.mem_replicate.mp ho).2

/-- work: the scan yields at most one marker per input byte -/
theorem markersAux_length : ∀ fuel (s : Bytes), (markersAux fuel s).length ≤ fuel := by
  intro fuel
  induction fuel with
  | zero => intro s; simp [markersAux]
  | succ fuel ih =>
    intro s
    cases s with
    | nil => simp [markersAux]
    | cons b r =>
      simp only [markersAux]
      by_cases h1 : b = 63
      · simp only [h1, if_true, List.length_cons]; have := ih r; omega
      · simp only [h1, if_false]
        by_cases h2 : b = 36
        · simp only [h2, if_true]
          cases r with
          | nil => simp
          | cons d t =>
            by_cases h3 : isDigit d = true
            · simp only [h3, if_true, List.length_cons]
              have := ih (takeDigits (d :: t) 0).2; omega
            · simp only [h3]; have := ih (d :: t); simp; omega
        · simp only [h2, if_false]; have := ih r; omega

theorem C20_work (q : Bytes) : (markers q).length ≤ q.length := markersAux_length _ _

/-- **Describe**: the ParameterDescription built from the result is a well-formed message
    whose 16-bit count is exactly the reported length -/
theorem C20_describe (q : Bytes) :
    (BMsg.paramDesc (parseParameters q)).WF ∧
    rd16 (BMsg.paramDesc (parseParameters q)).body = some ((parseParameters q).length,
      (parseParameters q).flatMap be32) := by
  have hb := C20_bounded q
  refine ⟨⟨by omega, ?_⟩, ?_⟩
  · intro o ho; rw [C20_unspecified q o ho]; omega
  · simp only [BMsg.body]
    exact rd16_be16 _ (by omega) _

/-- non-vacuity / the formerly panicking inputs: `select $5` has length 5, `select ? $3`
    has length 3, a 20-digit index is capped -/
example : (parseParameters [115, 36, 53]).length = 5 := by decide
example : (parseParameters [63, 32, 36, 51]).length = 3 := by decide
example : paramCount ([36] ++ List.replicate 20 57) = 65535 := by decide
example : ∀ m ∈ markers [36, 50, 32, 36, 55, 32, 36, 49], isPos m = true := by decide

end Pw.Props.C20
