import Pw.Props.C06
/-
  C13 — COPY-in: data delivered in order, abort reported exactly once.
-/
namespace Pw.Props.C13
open Pw Pw.Props.C05

/-- Flush and Sync are the messages the COPY reader skips -/
def skippable : Item → Bool
  | .msg t _ => t = ch 'H' || t = ch 'S'
  | _ => false

/-- **Flush and Sync are ignored**: any run of them in front of the next message is skipped -/
theorem C13_skip_flush_sync (pre : List Item) (hpre : ∀ it ∈ pre, skippable it = true) :
    ∀ (i : Inp) (rest : List Item) (fuel : Nat), i.items = pre ++ rest → pre.length ≤ fuel →
      ∃ m, copyRead (fuel + 1) i = copyRead (fuel + 1 - pre.length) { i with items := rest, msg := m } := by
  induction pre with
  | nil => intro i rest fuel hi _; exact ⟨i.msg, by simp at hi; simp [← hi]⟩
  | cons it pre ih =>
    intro i rest fuel hi hf
    have hit := hpre it (by simp)
    have hpre' : ∀ it ∈ pre, skippable it = true := fun x hx => hpre x (by simp [hx])
    cases it with
    | big t size full => simp [skippable] at hit
    | msg t body =>
      simp only [skippable, Bool.or_eq_true, decide_eq_true_eq] at hit
      cases fuel with
      | zero => simp at hf
      | succ fuel =>
        have hf' : pre.length ≤ fuel := by simpa using hf
        obtain ⟨m, hm⟩ := ih hpre' { i with items := pre ++ rest, msg := body } rest fuel rfl hf'
        refine ⟨m, ?_⟩
        rw [show fuel + 1 + 1 - (List.length (Item.msg t body :: pre)) = fuel + 1 - pre.length by simp]
        rw [← hm]
        conv => lhs; unfold copyRead
        simp only [Inp.next, hi, List.cons_append]
        simp [hit]

/-- **CopyData**: the payload reaches the handler byte-exact, and only that message is consumed -/
theorem C13_data (i : Inp) (p : Bytes) (rest : List Item) (fuel : Nat)
    (hi : i.items = .msg (ch 'd') p :: rest) :
    copyRead (fuel + 1) i = (some (.data p), { i with items := rest, msg := p }) := by
  simp [copyRead, Inp.next, hi, ch]

/-- **CopyDone** surfaces as end-of-stream -/
theorem C13_done (i : Inp) (b : Bytes) (rest : List Item) (fuel : Nat)
    (hi : i.items = .msg (ch 'c') b :: rest) :
    copyRead (fuel + 1) i = (some .eof, { i with items := rest, msg := b }) := by
  simp [copyRead, Inp.next, hi, ch]

/-- **CopyFail** surfaces as an error that is neither nil nor EOF, and nothing is written -/
theorem C13_fail (i : Inp) (desc rest' : Bytes) (b : Bytes) (rest : List Item) (fuel : Nat)
    (hi : i.items = .msg (ch 'f') b :: rest) (hb : cstr b = some (desc, rest')) :
    copyRead (fuel + 1) i = (some (.err (.lib (errCopyFailed desc))), { i with items := rest, msg := rest' }) := by
  simp [copyRead, Inp.next, hi, ch, hb]

/-- **any non-COPY message** aborts the COPY with a non-nil, non-EOF error -/
theorem C13_foreign (i : Inp) (t : UInt8) (b : Bytes) (rest : List Item) (fuel : Nat)
    (hi : i.items = .msg t b :: rest)
    (h1 : t ≠ ch 'H') (h2 : t ≠ ch 'S') (h3 : t ≠ ch 'd') (h4 : t ≠ ch 'c') (h5 : t ≠ ch 'f') :
    copyRead (fuel + 1) i = (some (.err (.lib (errUnimplemented t))), { i with items := rest, msg := b }) := by
  simp [copyRead, Inp.next, hi, h1, h2, h3, h4, h5]

/-- the COPY reader itself never writes to the client: it is a function of the input
    component only (its type), so the only reports of an aborted COPY are those of the
    command cycle -/
theorem C13_reader_silent (fuel : Nat) (s : Sess) :
    ∀ r i', copyRead fuel s.inp = (r, i') → ({ s with inp := i' } : Sess).out = s.out := by
  intro r i' _; rfl

/-- **CopyInResponse** announces the requested format for every declared column -/
theorem C13_copyin_response (d : DW) (s : Sess) (fmt : Nat) (hc : d.closed = false) (hcols : d.cols.length ≠ 0)
    (hw : s.wleft = none) :
    (dwCopyIn d s fmt).1 = none ∧
    (dwCopyIn d s fmt).2.2.out = .copyIn (fmt % 256) d.cols.length :: s.out ∧
    (dwCopyIn d s fmt).2.1.copy = true := by
  simp [dwCopyIn, hc, hcols, Sess.send, hw, Sess.setMsg]

/-- a statement function — COPY reads included — can never emit an ErrorResponse or a
    ReadyForQuery itself -/
theorem C13_handler_emits_no_error (p : Prog) (d : DW) (s : Sess) :
    (runProg p d s).2.out.countP isErr = s.out.countP isErr ∧
    (runProg p d s).2.out.countP isReady = s.out.countP isReady :=
  ⟨(runProg_facts p d s).errs, (runProg_facts p d s).ready⟩

theorem runStatements_errs : ∀ (sts : List Stmt) (s s' : Sess), runStatements sts s = .cont s' →
    s'.out.countP isErr ≤ s.out.countP isErr + 1 := by
  intro sts
  induction sts with
  | nil =>
    intro s s' h
    simp only [runStatements] at h
    obtain ⟨a, _⟩ := send_cont _ _ _ h
    simp [a, isErr]
  | cons st rest ih =>
    intro s s' h
    simp only [runStatements] at h
    generalize hdef : (if st.cols.length = 0 then (s, true) else s.send (.rowDesc (colFormats [] st.cols))) = defined at h
    rcases defined with ⟨s1, ok⟩
    have hs1 : ok = true → s1.out.countP isErr = s.out.countP isErr := by
      intro hok; subst hok
      split at hdef
      · simp at hdef; rw [← hdef]
      · obtain ⟨a, _⟩ := send_ok _ _ _ hdef; simp [a, isErr]
    cases ok with
    | false =>
      simp only at h
      split at hdef
      · simp at hdef
      · exact absurd h (errorCode_after_fail s s1 s' _ _ hdef)
    | true =>
      simp only at h
      have hr := (runProg_facts (st.body []) { cols := st.cols, formats := [] } (s1.log (.exec st.q st.idx []))).errs
      rcases hrun : runProg (st.body []) { cols := st.cols, formats := [] } (s1.log (.exec st.q st.idx [])) with ⟨o, s2⟩
      rw [hrun] at h hr
      simp only [Sess.log] at hr
      cases o with
      | blocked => simp at h
      | panicked m => simp at h
      | done e =>
        cases e with
        | some e =>
          simp only at h
          obtain ⟨a, _⟩ := errorCode_cont _ _ _ h
          rw [a]
          simp only [List.countP_cons, isErr, isReady]
          rw [hr, hs1 rfl]
          simp
        | none =>
          simp only at h
          have := ih s2 s' h
          rw [hr, hs1 rfl] at this
          exact this

/-- **one cycle**: whatever happens during a COPY started by a simple Query — CopyFail, a
    foreign message, a handler that stops reading or fails — the cycle contains at most one
    ErrorResponse and exactly one ReadyForQuery -/
theorem C13_one_cycle (h : Handlers) (s s' : Sess) (hc : handleSimpleQuery h s = .cont s') :
    s'.out.countP isErr ≤ s.out.countP isErr + 1 ∧
    s'.out.countP isReady = s.out.countP isReady + 1 := by
  refine ⟨?_, (C05_cycle h s s' hc).1⟩
  unfold handleSimpleQuery at hc
  split at hc
  · simp at hc
  · dsimp only at hc
    split at hc
    · cases h1 : (s.setMsg _).send .emptyQuery with
      | mk s1 ok1 =>
        rw [h1] at hc
        cases ok1 with
        | false => simp at hc
        | true =>
          simp only at hc
          obtain ⟨a1, _⟩ := send_ok _ s1 _ h1
          obtain ⟨a2, _⟩ := send_cont _ _ _ hc
          simp [a2, a1, Sess.setMsg, isErr]
    · split at hc
      · obtain ⟨a, _⟩ := errorCode_cont _ _ _ hc
        rw [a]; simp [Sess.log, Sess.setMsg, List.countP_cons, isErr]
      · obtain ⟨a, _⟩ := errorCode_cont _ _ _ hc
        rw [a]; simp [Sess.log, Sess.setMsg, List.countP_cons, isErr]
      · have := runStatements_errs _ _ _ hc
        simpa [Sess.log, Sess.setMsg] using this

/-- non-vacuity: payloads in order, Sync/Flush skipped, CopyDone ends the stream -/
example :
    let i : Inp := { L := 100, tail := .wait, items :=
      [Item.msg 100 [1, 2], Item.msg 83 [], Item.msg 72 [], Item.msg 100 [3], Item.msg 99 []] }
    (copyRead 9 i).1 = some (.data [1, 2]) ∧
    (copyRead 9 (copyRead 9 i).2).1 = some (.data [3]) ∧
    (copyRead 9 (copyRead 9 (copyRead 9 i).2).2).1 = some .eof := by decide

end Pw.Props.C13
