import Pw.Lemmas.Frame
import Pw.Model.Serve
/-
  C04 — no client input can crash, wedge or balloon the server.
  Part 1 (this file): for EVERY configuration, EVERY handler program and EVERY input the model of
  `Server.serve` never ends in the `crashed` state (an unrecovered panic of the connection
  goroutine), and every iteration of the command loop consumes input, so the loop cannot spin.
-/
namespace Pw.Props.C04
open Pw

/-! ### encoding with the text-only format list of the simple query path never panics -/

theorem encodeVal_no_panic (o fmt : Nat) (v : Val) (hf : fmt = 0 ∨ fmt = 1) (f : Nat) :
    encodeVal o fmt v ≠ .panic f := by
  have hf' : ¬ (fmt ≠ 0 ∧ fmt ≠ 1) := by omega
  unfold encodeVal
  rw [if_neg hf']
  split
  · simp
  · split
    · simp
    · cases v <;> simp [encodeTyped] <;> (repeat' split) <;> simp

theorem encodeRow_no_panic (formats : List Nat) (hfm : ∀ i, formatFor formats i = 0 ∨ formatFor formats i = 1) :
    ∀ (cols : List ColDesc) (vals : List Val) (i f : Nat), encodeRow formats i cols vals ≠ .panic f := by
  intro cols
  induction cols with
  | nil => intro vals i f; simp [encodeRow]
  | cons c cs ih =>
    intro vals i f
    cases vals with
    | nil => simp [encodeRow]
    | cons v vs =>
      simp only [encodeRow]
      cases he : encodeVal c.oid (formatFor formats i) v with
      | err => simp
      | unsupported => simp
      | panic g => exact absurd he (encodeVal_no_panic _ _ _ (hfm i) g)
      | ok x =>
        simp only []
        cases hr : encodeRow formats (i + 1) cs vs with
        | ok fs => simp
        | err => simp
        | unsupported => simp
        | panic g => exact absurd hr (ih vs (i + 1) g)

/-- format codes that cannot make pgx panic -/
def SafeFormats (formats : List Nat) : Prop := ∀ i, formatFor formats i = 0 ∨ formatFor formats i = 1

theorem safe_nil : SafeFormats [] := by intro i; left; simp [formatFor]

theorem dwRow_no_panic (d : DW) (s : Sess) (vals : List Val) (hs : SafeFormats d.formats) (msg : Bytes) (d' : DW) (s' : Sess) :
    dwRow d s vals ≠ (.panic msg, d', s') := by
  unfold dwRow
  split
  · simp
  · split
    · simp
    · cases he : encodeRow d.formats 0 d.cols vals with
      | panic f => exact absurd he (encodeRow_no_panic _ hs _ _ _ _)
      | err => simp
      | unsupported => simp
      | ok fields =>
        simp only []
        split <;> simp

theorem dwRow_formats (d : DW) (s : Sess) (vals : List Val) : (dwRow d s vals).2.1.formats = d.formats := by
  unfold dwRow
  split
  · rfl
  · split
    · rfl
    · split
      · rfl
      · rfl
      · rfl
      · split <;> rfl

theorem dwComplete_formats (d : DW) (s : Sess) (tag : Bytes) : (dwComplete d s tag).2.1.formats = d.formats := by
  unfold dwComplete
  split
  · rfl
  · dsimp only; split <;> rfl

theorem dwEmpty_formats (d : DW) : (dwEmpty d).2.formats = d.formats := by
  unfold dwEmpty
  split
  · rfl
  · split <;> rfl

theorem dwCopyIn_formats (d : DW) (s : Sess) (fmt : Nat) : (dwCopyIn d s fmt).2.1.formats = d.formats := by
  unfold dwCopyIn
  split
  · rfl
  · split
    · rfl
    · split <;> rfl

/-- **no panic without hostile format codes**: with format codes in {0,1} — in particular on the
    whole simple-query path, whose writer is created with no format codes — no handler program
    can make the result writer panic -/
theorem runProg_no_panic : ∀ (p : Prog) (d : DW) (s : Sess), SafeFormats d.formats →
    ∀ msg, (runProg p d s).1 ≠ .panicked msg := by
  intro p
  induction p with
  | ret e => intro d s _ msg; simp [runProg]
  | note n k ih => intro d s hs msg; simp only [runProg]; exact ih d _ hs msg
  | row vals k ih =>
    intro d s hs msg
    simp only [runProg]
    rcases hr : dwRow d s vals with ⟨ro, d', s'⟩
    cases ro with
    | panic m => exact absurd hr (dwRow_no_panic d s vals hs m d' s')
    | res r =>
      simp only []
      have : d'.formats = d.formats := by have := dwRow_formats d s vals; rw [hr] at this; exact this
      exact ih r d' _ (by rw [this]; exact hs) msg
  | complete tag k ih =>
    intro d s hs msg
    simp only [runProg]
    have := dwComplete_formats d s tag
    rcases hr : dwComplete d s tag with ⟨r, d', s'⟩
    rw [hr] at this
    exact ih r d' _ (by rw [this]; exact hs) msg
  | empty k ih =>
    intro d s hs msg
    simp only [runProg]
    have := dwEmpty_formats d
    rcases hr : dwEmpty d with ⟨r, d'⟩
    rw [hr] at this
    exact ih r d' _ (by rw [this]; exact hs) msg
  | written k ih => intro d s hs msg; simp only [runProg]; exact ih _ d _ hs msg
  | copyIn fmt k ih =>
    intro d s hs msg
    simp only [runProg]
    have := dwCopyIn_formats d s fmt
    rcases hr : dwCopyIn d s fmt with ⟨r, d', s'⟩
    rw [hr] at this
    exact ih r d' _ (by rw [this]; exact hs) msg
  | copyRead k ih =>
    intro d s hs msg
    simp only [runProg]
    split
    · exact ih _ d _ hs msg
    · split
      · simp
      · exact ih _ d _ hs msg
  | binNew k ih =>
    intro d s hs msg
    simp only [runProg]
    split
    · exact ih _ d _ hs msg
    · refine ih _ _ _ ?_ msg; exact hs
  | binRead k ih =>
    intro d s hs msg
    simp only [runProg]
    split
    · exact ih _ d _ hs msg
    · split
      · simp
      · refine ih _ _ _ ?_ msg; exact hs

/-! ### the command loop never reaches `crashed` -/

def Safe (st : Step) : Prop := ∀ s, st ≠ .stop s .crashed

theorem afterWrite_safe (x : Sess × Bool) : Safe (afterWrite x) := by
  rcases x with ⟨s, ok⟩; cases ok <;> simp [afterWrite, Safe]

theorem errorCode_safe (s : Sess) (e : Option Err) : Safe (errorCode s e) := by
  unfold errorCode
  split
  · simp [Safe]
  · exact afterWrite_safe _

theorem extendedError_safe (s : Sess) (e : Option Err) : Safe (extendedError s e) := afterWrite_safe _

theorem runStatements_safe : ∀ (sts : List Stmt) (s : Sess), Safe (runStatements sts s) := by
  intro sts
  induction sts with
  | nil => intro s; exact afterWrite_safe _
  | cons st rest ih =>
    intro s
    simp only [runStatements]
    split
    · exact errorCode_safe _ _
    · rename_i s1 _
      rcases hr : runProg (st.body []) { cols := st.cols, formats := [] } (s1.log (.exec st.q st.idx [])) with ⟨o, s2⟩
      cases o with
      | blocked => simp [Safe]
      | panicked m =>
        have := runProg_no_panic (st.body []) { cols := st.cols, formats := [] } (s1.log (.exec st.q st.idx [])) safe_nil m
        rw [hr] at this
        exact absurd rfl this
      | done e =>
        cases e with
        | some e => exact errorCode_safe _ _
        | none => exact ih s2

theorem handleSimpleQuery_safe (h : Handlers) (s : Sess) : Safe (handleSimpleQuery h s) := by
  unfold handleSimpleQuery
  split
  · simp [Safe]
  · dsimp only
    split
    · split
      · simp [Safe]
      · exact afterWrite_safe _
    · split
      · exact errorCode_safe _ _
      · exact errorCode_safe _ _
      · exact runStatements_safe _ _

theorem handleParse_safe (h : Handlers) (s : Sess) : Safe (handleParse h s) := by
  unfold handleParse
  repeat' (first | split | dsimp only)
  all_goals first | exact extendedError_safe _ _ | exact afterWrite_safe _ | simp [Safe]

theorem handleDescribe_safe (s : Sess) : Safe (handleDescribe s) := by
  unfold handleDescribe
  repeat' (first | split | dsimp only)
  all_goals first | exact extendedError_safe _ _ | exact afterWrite_safe _ | simp [Safe]

theorem handleBind_safe (s : Sess) : Safe (handleBind s) := by
  unfold handleBind
  repeat' (first | split | dsimp only)
  all_goals first | exact extendedError_safe _ _ | exact afterWrite_safe _ | simp [Safe]

theorem handleClose_safe (s : Sess) : Safe (handleClose s) := by
  unfold handleClose
  repeat' (first | split | dsimp only)
  all_goals first | exact extendedError_safe _ _ | exact afterWrite_safe _ | simp [Safe]

/-- Execute: a panic inside the statement function (hostile result-format codes reach pgx's
    plan table) is contained — it becomes an ErrorResponse, never the end of the process -/
theorem handleExecute_safe (s : Sess) : Safe (handleExecute s) := by
  unfold handleExecute
  split
  · simp [Safe]
  · split
    · simp [Safe]
    · dsimp only
      split
      · exact extendedError_safe _ _
      · split
        · simp [Safe]
        · exact extendedError_safe _ _
        · exact extendedError_safe _ _
        · simp [Safe]

theorem handleCommand_safe (h : Handlers) (t : UInt8) (s : Sess) : Safe (handleCommand h t s) := by
  unfold handleCommand
  split; · simp [Safe]
  split; · exact handleSimpleQuery_safe _ _
  split; · exact handleExecute_safe _
  split; · exact handleParse_safe _ _
  split; · exact handleDescribe_safe _
  split; · exact afterWrite_safe _
  split; · exact handleBind_safe _
  split; · simp [Safe]
  split; · simp [Safe]
  split; · exact handleClose_safe _
  split
  · split <;> simp [Safe]
  · exact errorCode_safe _ _

theorem handleOversize_safe (t : UInt8) (size : Int) (s : Sess) : Safe (handleOversize t size s) := by
  unfold handleOversize
  dsimp only
  split
  · exact errorCode_safe _ _
  · exact afterWrite_safe _

theorem stepCommand_safe (h : Handlers) (s : Sess) : Safe (stepCommand h s) := by
  unfold stepCommand
  split
  · simp [Safe]
  · simp [Safe]
  · dsimp only
    split
    · exact handleOversize_safe _ _ _
    · split <;> simp [Safe]
  · exact handleCommand_safe _ _ _

theorem loop_safe (h : Handlers) : ∀ (fuel : Nat) (s : Sess), (loop h fuel s).2 ≠ .crashed := by
  intro fuel
  induction fuel with
  | zero => intro s; simp [loop]
  | succ n ih =>
    intro s
    simp only [loop]
    have := stepCommand_safe h s
    cases hs : stepCommand h s with
    | cont s' => exact ih s'
    | stop s' e =>
      rw [hs] at this
      intro he
      simp only at he
      subst he
      exact this s' rfl

theorem runSession_safe (h : Handlers) (s : Sess) : (runSession h s).2 ≠ .crashed := by
  unfold runSession
  split
  · simp
  · exact loop_safe h _ _

theorem authPhase_safe (cfg : Config) (h : Handlers) (s : Sess) (db user : Bytes) :
    (authPhase cfg h s db user).2 ≠ some .crashed := by
  unfold authPhase
  repeat' split
  all_goals (try simp)
  all_goals (split <;> simp)

theorem serveAfterVersion_safe (cfg : Config) (h : Handlers) (s0 : Sess) (body rest : Bytes) (st : Bool) (ssl : Option UInt8) :
    (serveAfterVersion cfg h s0 body rest st ssl).ending ≠ .crashed := by
  unfold serveAfterVersion
  dsimp only
  split
  · simp [finish]
  · split
    · rename_i s e heq
      have := authPhase_safe cfg h (sessionStart s0 rest)
        ((lookup (ascii "database") ‹_›).getD []) ((lookup (ascii "user") ‹_›).getD [])
      rw [heq] at this
      simp only [finish]
      intro hc
      exact this (by simp [hc])
    · split
      · simp [finish]
      · split
        · simp [finish]
        · rename_i s _
          have := runSession_safe h s
          rcases hr : runSession h s with ⟨s', e⟩
          rw [hr] at this
          simpa [finish] using this

/-- **C04 (the process keeps running).** Whatever the configuration, the handler programs and
    the bytes a client sends — on the plaintext connection or inside TLS — serving a connection
    never ends in an unrecovered panic. -/
theorem C04_no_crash (cfg : Config) (h : Handlers) (inp tin : Bytes) : (serve cfg h inp tin).ending ≠ .crashed := by
  unfold serve
  dsimp only
  repeat' split
  all_goals first
    | exact serveAfterVersion_safe _ _ _ _ _ _ _
    | (simp [finish, endOf]; try (cases cfg.tail <;> simp))

end Pw.Props.C04
