import Pw.Lemmas.Progress
import Pw.Model.Serve
import Pw.Props.C08
import Pw.Props.C14
import Pw.Props.C18
import Pw.Props.C20
/-
  C04 — no client input can crash, wedge or balloon the server.
  Part 1 (this file): for EVERY configuration, EVERY handler program and EVERY input the model of
  `Server.serve` never ends in the `crashed` state (an unrecovered panic of the connection
  goroutine), and every iteration of the command loop consumes input, so the loop cannot spin.
-/
namespace Pw.Props.C04
open Pw

/-! ### encoding with the text-only format list of the simple query path never panics -/

theorem encodeVal_no_panic (o fmt : Nat) (v : Val) (hf : fmt = 0 ∨ fmt = 1) (f : Nat) :
    encodeVal o fmt v ≠ .panic f := by
  have hf' : ¬ (fmt ≠ 0 ∧ fmt ≠ 1) := by omega
  unfold encodeVal
  rw [if_neg hf']
  split
  · simp
  · split
    · simp
    · cases v <;> simp [encodeTyped] <;> (repeat' split) <;> simp

theorem encodeRow_no_panic (formats : List Nat) (hfm : ∀ i, formatFor formats i = 0 ∨ formatFor formats i = 1) :
    ∀ (cols : List ColDesc) (vals : List Val) (i f : Nat), encodeRow formats i cols vals ≠ .panic f := by
  intro cols
  induction cols with
  | nil => intro vals i f; simp [encodeRow]
  | cons c cs ih =>
    intro vals i f
    cases vals with
    | nil => simp [encodeRow]
    | cons v vs =>
      simp only [encodeRow]
      cases he : encodeVal c.oid (formatFor formats i) v with
      | err => simp
      | unsupported => simp
      | panic g => exact absurd he (encodeVal_no_panic _ _ _ (hfm i) g)
      | ok x =>
        simp only []
        cases hr : encodeRow formats (i + 1) cs vs with
        | ok fs => simp
        | err => simp
        | unsupported => simp
        | panic g => exact absurd hr (ih vs (i + 1) g)

/-- format codes that cannot make pgx panic -/
def SafeFormats (formats : List Nat) : Prop := ∀ i, formatFor formats i = 0 ∨ formatFor formats i = 1

theorem safe_nil : SafeFormats [] := by intro i; left; simp [formatFor]

theorem dwRow_no_panic (d : DW) (s : Sess) (vals : List Val) (hs : SafeFormats d.formats) (msg : Bytes) (d' : DW) (s' : Sess) :
    dwRow d s vals ≠ (.panic msg, d', s') := by
  unfold dwRow
  split
  · simp
  · split
    · simp
    · cases he : encodeRow d.formats 0 d.cols vals with
      | panic f => exact absurd he (encodeRow_no_panic _ hs _ _ _ _)
      | err => simp
      | unsupported => simp
      | ok fields =>
        simp only []
        split <;> simp

theorem dwRow_formats (d : DW) (s : Sess) (vals : List Val) : (dwRow d s vals).2.1.formats = d.formats := by
  unfold dwRow
  split
  · rfl
  · split
    · rfl
    · split
      · rfl
      · rfl
      · rfl
      · split <;> rfl

theorem dwComplete_formats (d : DW) (s : Sess) (tag : Bytes) : (dwComplete d s tag).2.1.formats = d.formats := by
  unfold dwComplete
  split
  · rfl
  · dsimp only; split <;> rfl

theorem dwEmpty_formats (d : DW) : (dwEmpty d).2.formats = d.formats := by
  unfold dwEmpty
  split
  · rfl
  · split <;> rfl

theorem dwCopyIn_formats (d : DW) (s : Sess) (fmt : Nat) : (dwCopyIn d s fmt).2.1.formats = d.formats := by
  unfold dwCopyIn
  split
  · rfl
  · split
    · rfl
    · split <;> rfl

/-- **no panic without hostile format codes**: with format codes in {0,1} — in particular on the
    whole simple-query path, whose writer is created with no format codes — no handler program
    can make the result writer panic -/
theorem runProg_no_panic : ∀ (p : Prog) (d : DW) (s : Sess), SafeFormats d.formats →
    ∀ msg, (runProg p d s).1 ≠ .panicked msg := by
  intro p
  induction p with
  | ret e => intro d s _ msg; simp [runProg]
  | note n k ih => intro d s hs msg; simp only [runProg]; exact ih d _ hs msg
  | row vals k ih =>
    intro d s hs msg
    simp only [runProg]
    rcases hr : dwRow d s vals with ⟨ro, d', s'⟩
    cases ro with
    | panic m => exact absurd hr (dwRow_no_panic d s vals hs m d' s')
    | res r =>
      simp only []
      have : d'.formats = d.formats := by have := dwRow_formats d s vals; rw [hr] at this; exact this
      exact ih r d' _ (by rw [this]; exact hs) msg
  | complete tag k ih =>
    intro d s hs msg
    simp only [runProg]
    have := dwComplete_formats d s tag
    rcases hr : dwComplete d s tag with ⟨r, d', s'⟩
    rw [hr] at this
    exact ih r d' _ (by rw [this]; exact hs) msg
  | empty k ih =>
    intro d s hs msg
    simp only [runProg]
    have := dwEmpty_formats d
    rcases hr : dwEmpty d with ⟨r, d'⟩
    rw [hr] at this
    exact ih r d' _ (by rw [this]; exact hs) msg
  | written k ih => intro d s hs msg; simp only [runProg]; exact ih _ d _ hs msg
  | copyIn fmt k ih =>
    intro d s hs msg
    simp only [runProg]
    have := dwCopyIn_formats d s fmt
    rcases hr : dwCopyIn d s fmt with ⟨r, d', s'⟩
    rw [hr] at this
    exact ih r d' _ (by rw [this]; exact hs) msg
  | copyRead k ih =>
    intro d s hs msg
    simp only [runProg]
    split
    · exact ih _ d _ hs msg
    · split
      · simp
      · exact ih _ d _ hs msg
  | binNew k ih =>
    intro d s hs msg
    simp only [runProg]
    split
    · exact ih _ d _ hs msg
    · refine ih _ _ _ ?_ msg; exact hs
  | binRead k ih =>
    intro d s hs msg
    simp only [runProg]
    split
    · exact ih _ d _ hs msg
    · split
      · simp
      · refine ih _ _ _ ?_ msg; exact hs

/-! ### the command loop never reaches `crashed` -/

def Safe (st : Step) : Prop := ∀ s, st ≠ .stop s .crashed

theorem afterWrite_safe (x : Sess × Bool) : Safe (afterWrite x) := by
  rcases x with ⟨s, ok⟩; cases ok <;> simp [afterWrite, Safe]

theorem errorCode_safe (s : Sess) (e : Option Err) : Safe (errorCode s e) := by
  unfold errorCode
  split
  · simp [Safe]
  · exact afterWrite_safe _

theorem extendedError_safe (s : Sess) (e : Option Err) : Safe (extendedError s e) := afterWrite_safe _

theorem runStatements_safe : ∀ (sts : List Stmt) (s : Sess), Safe (runStatements sts s) := by
  intro sts
  induction sts with
  | nil => intro s; exact afterWrite_safe _
  | cons st rest ih =>
    intro s
    simp only [runStatements]
    split
    · exact errorCode_safe _ _
    · rename_i s1 _
      rcases hr : runProg (st.body []) { cols := st.cols, formats := [] } (s1.log (.exec st.q st.idx [])) with ⟨o, s2⟩
      cases o with
      | blocked => simp [Safe]
      | panicked m =>
        have := runProg_no_panic (st.body []) { cols := st.cols, formats := [] } (s1.log (.exec st.q st.idx [])) safe_nil m
        rw [hr] at this
        exact absurd rfl this
      | done e =>
        cases e with
        | some e => exact errorCode_safe _ _
        | none => exact ih s2

theorem handleSimpleQuery_safe (h : Handlers) (s : Sess) : Safe (handleSimpleQuery h s) := by
  unfold handleSimpleQuery
  split
  · simp [Safe]
  · dsimp only
    split
    · split
      · simp [Safe]
      · exact afterWrite_safe _
    · split
      · exact errorCode_safe _ _
      · exact errorCode_safe _ _
      · exact runStatements_safe _ _

theorem handleParse_safe (h : Handlers) (s : Sess) : Safe (handleParse h s) := by
  unfold handleParse
  repeat' (first | split | dsimp only)
  all_goals first | exact extendedError_safe _ _ | exact afterWrite_safe _ | simp [Safe]

theorem handleDescribe_safe (s : Sess) : Safe (handleDescribe s) := by
  unfold handleDescribe
  repeat' (first | split | dsimp only)
  all_goals first | exact extendedError_safe _ _ | exact afterWrite_safe _ | simp [Safe]

theorem handleBind_safe (s : Sess) : Safe (handleBind s) := by
  unfold handleBind
  repeat' (first | split | dsimp only)
  all_goals first | exact extendedError_safe _ _ | exact afterWrite_safe _ | simp [Safe]

theorem handleClose_safe (s : Sess) : Safe (handleClose s) := by
  unfold handleClose
  repeat' (first | split | dsimp only)
  all_goals first | exact extendedError_safe _ _ | exact afterWrite_safe _ | simp [Safe]

/-- Execute: a panic inside the statement function (hostile result-format codes reach pgx's
    plan table) is contained — it becomes an ErrorResponse, never the end of the process -/
theorem handleExecute_safe (s : Sess) : Safe (handleExecute s) := by
  unfold handleExecute
  split
  · simp [Safe]
  · split
    · simp [Safe]
    · dsimp only
      split
      · exact extendedError_safe _ _
      · split
        · simp [Safe]
        · exact extendedError_safe _ _
        · exact extendedError_safe _ _
        · simp [Safe]

theorem handleCommand_safe (h : Handlers) (t : UInt8) (s : Sess) : Safe (handleCommand h t s) := by
  unfold handleCommand
  split; · simp [Safe]
  split; · exact handleSimpleQuery_safe _ _
  split; · exact handleExecute_safe _
  split; · exact handleParse_safe _ _
  split; · exact handleDescribe_safe _
  split; · exact afterWrite_safe _
  split; · exact handleBind_safe _
  split; · simp [Safe]
  split; · simp [Safe]
  split; · exact handleClose_safe _
  split
  · split <;> simp [Safe]
  · exact errorCode_safe _ _

theorem handleOversize_safe (t : UInt8) (size : Int) (s : Sess) : Safe (handleOversize t size s) := by
  unfold handleOversize
  dsimp only
  split
  · exact errorCode_safe _ _
  · exact afterWrite_safe _

theorem stepCommand_safe (h : Handlers) (s : Sess) : Safe (stepCommand h s) := by
  unfold stepCommand
  split
  · simp [Safe]
  · simp [Safe]
  · dsimp only
    split
    · exact handleOversize_safe _ _ _
    · split <;> simp [Safe]
  · exact handleCommand_safe _ _ _

theorem loop_safe (h : Handlers) : ∀ (fuel : Nat) (s : Sess), (loop h fuel s).2 ≠ .crashed := by
  intro fuel
  induction fuel with
  | zero => intro s; simp [loop]
  | succ n ih =>
    intro s
    simp only [loop]
    have := stepCommand_safe h s
    cases hs : stepCommand h s with
    | cont s' => exact ih s'
    | stop s' e =>
      rw [hs] at this
      intro he
      simp only at he
      subst he
      exact this s' rfl

theorem runSession_safe (h : Handlers) (s : Sess) : (runSession h s).2 ≠ .crashed := by
  unfold runSession
  split
  · simp
  · exact loop_safe h _ _

theorem authPhase_safe (cfg : Config) (h : Handlers) (s : Sess) (db user : Bytes) :
    (authPhase cfg h s db user).2 ≠ some .crashed := by
  unfold authPhase
  repeat' split
  all_goals (try simp)
  all_goals (split <;> simp)

theorem serveAfterVersion_safe (cfg : Config) (h : Handlers) (s0 : Sess) (body rest : Bytes) (st : Bool) (ssl : Option UInt8) :
    (serveAfterVersion cfg h s0 body rest st ssl).ending ≠ .crashed := by
  unfold serveAfterVersion
  dsimp only
  split
  · simp [finish]
  · split
    · rename_i s e heq
      have := authPhase_safe cfg h (sessionStart s0 rest)
        ((lookup (ascii "database") ‹_›).getD []) ((lookup (ascii "user") ‹_›).getD [])
      rw [heq] at this
      simp only [finish]
      intro hc
      exact this (by simp [hc])
    · split
      · simp [finish]
      · split
        · simp [finish]
        · rename_i s _
          have := runSession_safe h s
          rcases hr : runSession h s with ⟨s', e⟩
          rw [hr] at this
          simpa [finish] using this

/-- **C04 (the process keeps running).** Whatever the configuration, the handler programs and
    the bytes a client sends — on the plaintext connection or inside TLS — serving a connection
    never ends in an unrecovered panic. -/
theorem C04_no_crash (cfg : Config) (h : Handlers) (inp tin : Bytes) : (serve cfg h inp tin).ending ≠ .crashed := by
  unfold serve
  dsimp only
  repeat' split
  all_goals first
    | exact serveAfterVersion_safe _ _ _ _ _ _ _
    | (simp [finish, endOf]; try (cases cfg.tail <;> simp))

/-! ### Part 2: the connection is released once its input has ended

  `Tail.wait` is a client that is merely silent; `Tail.rerr` / `Tail.eof _` is a transport that
  fails reads, or a client that has closed its side, after the last available byte.  In the second
  case serving always comes to an end: no step blocks, every loop iteration consumes a message,
  and the fuel the model supplies to its loops (`items.length + 1`) is never what stops them. -/

/-- what a handler step may do to the input: only consume; stop in `waiting` only on a waiting stream -/
def StepOk (i : Inp) (st : Step) : Prop :=
  (∀ s', st = .cont s' → InpLe i s'.inp) ∧ (∀ s', st = .stop s' .waiting → i.tail = .wait)

theorem stop_ok (i : Inp) (s : Sess) : StepOk i (.stop s .closed) := by simp [StepOk]

theorem cont_ok (i : Inp) (s : Sess) (h : InpLe i s.inp) : StepOk i (.cont s) := by
  refine ⟨fun s' he => ?_, by simp⟩
  cases he; exact h

theorem send_eq_inp (s s1 : Sess) (m : BMsg) (ok : Bool) (h : s.send m = (s1, ok)) : s1.inp = s.inp := by
  have := send_inp s m; rw [h] at this; exact this

theorem afterWrite_ok (i : Inp) (s : Sess) (m : BMsg) (h : InpLe i s.inp) : StepOk i (afterWrite (s.send m)) := by
  rcases hs : s.send m with ⟨s1, ok⟩
  have := send_eq_inp s s1 m ok hs
  cases ok with
  | true => simp only [afterWrite]; exact cont_ok i s1 (by rw [this]; exact h)
  | false => simp only [afterWrite]; exact stop_ok i s1

theorem errorCode_ok (i : Inp) (s : Sess) (e : Option Err) (h : InpLe i s.inp) : StepOk i (errorCode s e) := by
  unfold errorCode sendError
  rcases hs : s.send (.error (errorBody (flatten e))) with ⟨s1, ok⟩
  have := send_eq_inp s s1 _ ok hs
  cases ok with
  | false => exact stop_ok i s1
  | true => exact afterWrite_ok i s1 _ (by rw [this]; exact h)

theorem extendedError_ok (i : Inp) (s : Sess) (e : Option Err) (h : InpLe i s.inp) : StepOk i (extendedError s e) := by
  unfold extendedError sendError
  exact afterWrite_ok i _ _ h

theorem describeCols_ok (i : Inp) (s : Sess) (f : List Nat) (cols : List ColDesc) (h : InpLe i s.inp) :
    StepOk i (afterWrite (describeCols s f cols)) := by
  unfold describeCols
  split <;> exact afterWrite_ok i s _ h

theorem InpLe.setMsg (s : Sess) (m : Bytes) : InpLe s.inp (s.setMsg m).inp := InpLe.msg _ _

macro "inple" : tactic =>
  `(tactic| first | assumption | exact InpLe.refl _ | exact InpLe.msg _ _ | (simp [InpLe, Sess.setMsg, Sess.log, Sess.markUnsup]; done))

theorem runStatements_ok : ∀ (sts : List Stmt) (s : Sess), StepOk s.inp (runStatements sts s) := by
  intro sts
  induction sts with
  | nil => intro s; exact afterWrite_ok _ s _ (InpLe.refl _)
  | cons st rest ih =>
    intro s
    simp only [runStatements]
    split
    · rename_i s1 heq
      have : s1.inp = s.inp := by
        split at heq
        · cases heq; try rfl
        · exact send_eq_inp _ _ _ _ heq
      exact errorCode_ok _ _ _ (by rw [this]; exact InpLe.refl _)
    · rename_i s1 heq
      have h1 : s1.inp = s.inp := by
        split at heq
        · cases heq; try rfl
        · exact send_eq_inp _ _ _ _ heq
      obtain ⟨a, c⟩ := runProg_progress (st.body []) { cols := st.cols, formats := [] } (s1.log (.exec st.q st.idx []))
      have hl : (s1.log (.exec st.q st.idx [])).inp = s.inp := by simp [Sess.log, h1]
      rw [hl] at a c
      rcases hr : runProg (st.body []) { cols := st.cols, formats := [] } (s1.log (.exec st.q st.idx [])) with ⟨o, s2⟩
      rw [hr] at a c
      cases o with
      | blocked =>
        refine ⟨by simp, fun s' _ => ?_⟩
        apply Classical.byContradiction
        intro hne
        exact c hne rfl
      | panicked m => simp [StepOk]
      | done e =>
        cases e with
        | some e => exact errorCode_ok _ _ _ a
        | none =>
          obtain ⟨x, y⟩ := ih s2
          refine ⟨fun s' he => InpLe.trans a (x s' he), fun s' he => ?_⟩
          have := y s' he
          apply Classical.byContradiction
          intro hne
          exact a.2.2 hne this

theorem handleSimpleQuery_ok (h : Handlers) (s : Sess) : StepOk s.inp (handleSimpleQuery h s) := by
  unfold handleSimpleQuery
  cases hg : getString s.inp.msg with
  | none => exact stop_ok _ _
  | some p =>
    obtain ⟨q, rest⟩ := p
    dsimp only
    split
    · split
      · exact stop_ok _ _
      · rename_i s1 heq
        exact afterWrite_ok _ _ _ (by rw [send_eq_inp _ _ _ _ heq]; exact InpLe.msg _ _)
    · cases hp : h.parse q with
      | error e => exact errorCode_ok _ _ _ (by inple)
      | ok sts =>
        cases sts with
        | nil => exact errorCode_ok _ _ _ (by inple)
        | cons st sts =>
          have := runStatements_ok (labelStmts q (st :: sts)) ((s.setMsg rest).log (.parse q))
          exact ⟨fun s' he => InpLe.trans (by inple) (this.1 s' he), fun s' he => by simpa [Sess.log, Sess.setMsg] using this.2 s' he⟩

theorem handleParse_ok (h : Handlers) (s : Sess) : StepOk s.inp (handleParse h s) := by
  unfold handleParse
  repeat' (first | split | dsimp only)
  all_goals first
    | exact stop_ok _ _
    | exact extendedError_ok _ _ _ (by inple)
    | exact afterWrite_ok _ _ _ (by inple)

theorem handleDescribe_ok (s : Sess) : StepOk s.inp (handleDescribe s) := by
  unfold handleDescribe
  repeat' (first | split | dsimp only)
  all_goals first
    | exact stop_ok _ _
    | exact extendedError_ok _ _ _ (by inple)
    | (rename_i s1 heq; exact describeCols_ok _ _ _ _ (by rw [send_eq_inp _ _ _ _ heq]; inple))
    | exact describeCols_ok _ _ _ _ (by inple)

theorem handleBind_ok (s : Sess) : StepOk s.inp (handleBind s) := by
  unfold handleBind
  repeat' (first | split | dsimp only)
  all_goals first
    | exact stop_ok _ _
    | exact extendedError_ok _ _ _ (by inple)
    | exact afterWrite_ok _ _ _ (by inple)

theorem handleClose_ok (s : Sess) : StepOk s.inp (handleClose s) := by
  unfold handleClose
  repeat' (first | split | dsimp only)
  all_goals first
    | exact stop_ok _ _
    | exact extendedError_ok _ _ _ (by inple)
    | exact afterWrite_ok _ _ _ (by inple)

theorem handleExecute_ok (s : Sess) : StepOk s.inp (handleExecute s) := by
  unfold handleExecute
  split
  · exact stop_ok _ _
  · split
    · exact stop_ok _ _
    · dsimp only
      split
      · exact extendedError_ok _ _ _ (by inple)
      · rename_i r1 _ r2 _ _ p _
        obtain ⟨a, c⟩ := runProg_progress (p.stmt.body p.params) { cols := p.stmt.cols, formats := p.formats }
          ((s.setMsg r2).log (.exec p.stmt.q p.stmt.idx p.params))
        have hl : ((s.setMsg r2).log (.exec p.stmt.q p.stmt.idx p.params)).inp.tail = s.inp.tail := rfl
        have hle : InpLe s.inp ((s.setMsg r2).log (.exec p.stmt.q p.stmt.idx p.params)).inp := InpLe.msg _ _
        rcases hr : runProg (p.stmt.body p.params) { cols := p.stmt.cols, formats := p.formats }
          ((s.setMsg r2).log (.exec p.stmt.q p.stmt.idx p.params)) with ⟨o, s2⟩
        rw [hr] at a c
        cases o with
        | blocked =>
          refine ⟨by simp, fun s' _ => ?_⟩
          apply Classical.byContradiction
          intro hne
          exact c (by rw [hl]; exact hne) rfl
        | panicked m => exact extendedError_ok _ _ _ (InpLe.trans hle a)
        | done e =>
          cases e with
          | some e => exact extendedError_ok _ _ _ (InpLe.trans hle a)
          | none => exact cont_ok _ _ (InpLe.trans hle a)

theorem handleCommand_ok (h : Handlers) (t : UInt8) (s : Sess) : StepOk s.inp (handleCommand h t s) := by
  unfold handleCommand
  split; · exact cont_ok _ _ (InpLe.refl _)
  split; · exact handleSimpleQuery_ok _ _
  split; · exact handleExecute_ok _
  split; · exact handleParse_ok _ _
  split; · exact handleDescribe_ok _
  split; · exact afterWrite_ok _ _ _ (InpLe.refl _)
  split; · exact handleBind_ok _
  split; · exact cont_ok _ _ (InpLe.refl _)
  split; · exact cont_ok _ _ (InpLe.refl _)
  split; · exact handleClose_ok _
  split
  · split <;> exact stop_ok _ _
  · exact errorCode_ok _ _ _ (InpLe.refl _)

theorem handleOversize_ok (t : UInt8) (size : Int) (s : Sess) : StepOk s.inp (handleOversize t size s) := by
  unfold handleOversize
  dsimp only
  split
  · exact errorCode_ok _ _ _ (InpLe.refl _)
  · unfold sendError; exact afterWrite_ok _ _ _ (InpLe.refl _)

/-- **progress**: an iteration of the command loop that goes on has consumed at least one
    message; one that stops in `waiting` was reading from a stream that is merely silent -/
theorem stepCommand_progress (h : Handlers) (s : Sess) :
    (∀ s', stepCommand h s = .cont s' → s'.inp.items.length < s.inp.items.length ∧
        (s.inp.tail ≠ .wait → s'.inp.tail ≠ .wait)) ∧
    (∀ s', stepCommand h s = .stop s' .waiting → s.inp.tail = .wait) := by
  unfold stepCommand
  have hn := next_spec s.inp
  rcases hnx : s.inp.next with ⟨rd, i⟩
  rw [hnx] at hn
  cases hn with
  | blocked ht => simp [ht]
  | rerr ht => simp
  | item it i h1 h2 h3 =>
    cases it with
    | big t sz full =>
      simp only []
      by_cases hf : full = true
      · simp only [hf, if_true]
        obtain ⟨a, c⟩ := handleOversize_ok t sz { s with inp := i }
        refine ⟨fun s' he => ?_, fun s' he => ?_⟩
        · have := a s' he
          exact ⟨by have := this.1; simp only at this; omega, fun hne => this.2.2 (by simp only; rw [h2]; exact hne)⟩
        · have := c s' he; simp only at this; rw [← h2]; exact this
      · simp only [hf, if_false, Bool.false_eq_true]
        refine ⟨by simp, fun s' he => ?_⟩
        cases hti : i.tail with
        | wait => rw [← h2]; exact hti
        | rerr => simp [hti] at he
        | eof m => simp [hti] at he
    | msg t body =>
      simp only []
      obtain ⟨a, c⟩ := handleCommand_ok h t { s with inp := i }
      refine ⟨fun s' he => ?_, fun s' he => ?_⟩
      · have := a s' he
        exact ⟨by have := this.1; simp only at this; omega, fun hne => this.2.2 (by simp only; rw [h2]; exact hne)⟩
      · have := c s' he; simp only at this; rw [← h2]; exact this

/-- the loop's fuel is never what ends it: with an ended stream and the fuel `serve` supplies,
    the loop does not stop in `waiting` -/
theorem loop_ends (h : Handlers) : ∀ (fuel : Nat) (s : Sess), s.inp.tail ≠ .wait → s.inp.items.length < fuel →
    (loop h fuel s).2 ≠ .waiting := by
  intro fuel
  induction fuel with
  | zero => intro s _ hl; omega
  | succ n ih =>
    intro s ht hl
    simp only [loop]
    obtain ⟨a, c⟩ := stepCommand_progress h s
    cases hs : stepCommand h s with
    | cont s' =>
      obtain ⟨x, y⟩ := a s' hs
      exact ih s' (y ht) (by omega)
    | stop s' e =>
      simp only []
      intro he
      subst he
      exact ht (c s' hs)

/-- the fuel bound of the model's loop is adequate for every stream, waiting or ended: more fuel
    never changes the result (so `waiting` at fuel 0 is never an artefact of the model) -/
theorem loop_fuel (h : Handlers) : ∀ (fuel : Nat) (s : Sess), s.inp.items.length < fuel →
    loop h (fuel + 1) s = loop h fuel s := by
  intro fuel
  induction fuel with
  | zero => intro s hl; omega
  | succ n ih =>
    intro s hl
    rw [loop, loop]
    obtain ⟨a, _⟩ := stepCommand_progress h s
    cases hs : stepCommand h s with
    | stop s' e => rfl
    | cont s' =>
      simp only []
      exact ih s' (by have := (a s' hs).1; omega)

theorem runSession_ends (h : Handlers) (s : Sess) (ht : s.inp.tail ≠ .wait) : (runSession h s).2 ≠ .waiting := by
  unfold runSession
  split
  · simp
  · rename_i s1 heq
    have := send_eq_inp _ _ _ _ heq
    exact loop_ends h _ s1 (by rw [this]; exact ht) (by omega)

theorem authPhase_ends (cfg : Config) (h : Handlers) (s : Sess) (db user : Bytes) (ht : s.inp.tail ≠ .wait) :
    (authPhase cfg h s db user).2 ≠ some .waiting ∧
    ((authPhase cfg h s db user).2 = none → (authPhase cfg h s db user).1.inp.tail ≠ .wait) := by
  unfold authPhase
  split
  · split
    · rename_i s1 heq; exact ⟨by simp, fun _ => by rw [send_eq_inp _ _ _ _ heq]; exact ht⟩
    · simp
  · split
    · simp
    · rename_i s1 heq
      have h1 := send_eq_inp _ _ _ _ heq
      have hn := next_spec s1.inp
      rcases hnx : s1.inp.next with ⟨rd, i⟩
      rw [hnx] at hn
      cases hn with
      | blocked hw => rw [h1] at hw; exact absurd hw ht
      | rerr _ => simp
      | item it i a b c =>
        cases it with
        | big t sz f => simp
        | msg t body =>
          simp only []
          split
          · simp
          · split
            · simp
            · split
              · simp
              · simp
              · split
                · rename_i s2 heq2
                  refine ⟨by simp, fun _ => ?_⟩
                  rw [send_eq_inp _ _ _ _ heq2]
                  simp only [Sess.log, Sess.setMsg]
                  rw [b, h1]; exact ht
                · simp

theorem sessionStart_tail (s0 : Sess) (rest : Bytes) (ht : s0.inp.tail ≠ .wait) : (sessionStart s0 rest).inp.tail ≠ .wait := by
  unfold sessionStart
  cases h : s0.inp.tail with
  | wait => exact absurd h ht
  | rerr => simp
  | eof m => simp

theorem sendParams_inp : ∀ (ps : List (Bytes × Bytes)) (s : Sess), (sendParams ps s).1.inp = s.inp := by
  intro ps
  induction ps with
  | nil => intro s; rfl
  | cons kv r ih =>
    intro s
    obtain ⟨k, v⟩ := kv
    simp only [sendParams]
    split
    · rename_i s1 heq; exact send_eq_inp _ _ _ _ heq
    · rename_i s1 heq; rw [ih s1]; exact send_eq_inp _ _ _ _ heq

theorem runMiddlewares_inp : ∀ (ms : List Bool) (i : Nat) (s : Sess), (runMiddlewares ms i s).1.inp = s.inp := by
  intro ms
  induction ms with
  | nil => intro i s; rfl
  | cons ok r ih =>
    intro i s
    simp only [runMiddlewares]
    split
    · rw [ih]; rfl
    · rfl

theorem serveAfterVersion_ends (cfg : Config) (h : Handlers) (s0 : Sess) (body rest : Bytes) (st : Bool) (ssl : Option UInt8)
    (ht : s0.inp.tail ≠ .wait) : (serveAfterVersion cfg h s0 body rest st ssl).ending ≠ .waiting := by
  unfold serveAfterVersion
  dsimp only
  split
  · simp [finish]
  · rename_i cp _
    have ha := authPhase_ends cfg h (sessionStart s0 rest) ((lookup (ascii "database") cp).getD [])
      ((lookup (ascii "user") cp).getD []) (sessionStart_tail s0 rest ht)
    split
    · rename_i s e heq
      rw [heq] at ha
      simp only [finish]
      intro hc
      exact ha.1 (by simp [hc])
    · rename_i s heq
      rw [heq] at ha
      have hs := ha.2 rfl
      simp only at hs
      have hp := sendParams_inp (serverParams cfg ((lookup (ascii "user") cp).getD [])) s
      split
      · simp [finish]
      · rename_i s1 heq1
        rw [heq1] at hp
        simp only at hp
        have hm := runMiddlewares_inp h.mws 0 s1
        split
        · simp [finish]
        · rename_i s2 heq2
          rw [heq2] at hm
          simp only at hm
          have := runSession_ends h s2 (by rw [hm, hp]; exact hs)
          rcases hr : runSession h s2 with ⟨s3, e⟩
          rw [hr] at this
          simpa [finish] using this

theorem writeRaw_tail (s s1 : Sess) (ok : Bool) (h : writeRaw s = (s1, ok)) : s1.inp.tail = s.inp.tail := by
  unfold writeRaw at h
  split at h <;> (cases h; rfl)

/-- **C04 (no wedge).** Once the client's input has ended — the transport fails reads (`rerr`) or
    the client has closed its side (`eof`), at ANY byte position, in any phase — serving the
    connection comes to an end: it is never left waiting. With `C04_no_crash`: it is closed. -/
theorem C04_ends (cfg : Config) (h : Handlers) (inp tin : Bytes) (ht : cfg.tail ≠ .wait) :
    (serve cfg h inp tin).ending = .closed := by
  have h1 := C04_no_crash cfg h inp tin
  have h2 : (serve cfg h inp tin).ending ≠ .waiting := by
    have he : endOf cfg.tail ≠ .waiting := by
      cases hc : cfg.tail with
      | wait => exact absurd hc ht
      | rerr => simp [endOf]
      | eof m => simp [endOf]
    unfold serve
    dsimp only
    repeat' split
    all_goals first
      | exact serveAfterVersion_ends _ _ _ _ _ _ _ ht
      | (simp only [finish]; first | exact he | simp)
      | (apply serveAfterVersion_ends; rw [writeRaw_tail _ _ _ (by assumption)]; exact ht)
  cases hc : (serve cfg h inp tin).ending with
  | closed => rfl
  | waiting => exact absurd hc h2
  | crashed => exact absurd hc h1

/-! ### Part 3: nothing fabricated reaches a callback, allocation of the message buffer

  Proved where the decoders live and collected here: `Pw.Props.C08.C08_sound` (an accepted Bind body
  IS the encoding of the parameters handed to the statement function), `Pw.Props.C14.C14_count_mismatch`
  and `C14_truncated_count` (a binary COPY row with a lying field count, or a stream ending inside a
  row, is an error), `Pw.Props.C14.C14_chunking` (the rows do not depend on the CopyData cuts),
  `Pw.Props.C20.C20_bounded` (ParseParameters is total and capped), `Pw.Props.C18.C18_alloc_bound`
  (the message buffer is sized by min(declared, limit)). -/

/-- non-vacuity: a client that sends a startup packet, half a Query message and then closes its side -/
example :
    (serve { tail := .eof true } { parse := fun _ => .ok [], validate := fun _ _ _ => .accept, mws := [], terminate := none }
      (be32 9 ++ be32 196608 ++ [0] ++ [81, 0, 0, 0, 9, 65])).ending = .closed := by decide

end Pw.Props.C04
