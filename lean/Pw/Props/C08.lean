import Pw.Model.Session
import Pw.Lemmas.Backend
import Pw.Props.C02
/-
  C08 — Bind parameters and format codes reach the handler exactly.
-/
namespace Pw.Props.C08
open Pw

/-- what a client puts into a Bind message after the two names -/
structure BindSpec where
  pfmts : List Nat            -- parameter format codes
  params : List (Option Bytes) -- parameter values, `none` = NULL
  rfmts : List Nat            -- result-column format codes

/-- the protocol's rule for the format of parameter `i`: no codes → text, one code → that code
    for all, otherwise positional (text beyond the codes given) -/
def paramFormat (pfmts : List Nat) (i : Nat) : Nat :=
  match pfmts with
  | [] => 0
  | [f] => f
  | _ => pfmts.getD i 0

def encValue : Option Bytes → Bytes
  | none => be32 4294967295
  | some v => be32 v.length ++ v

/-- client-side encoding of the Bind tail -/
def encodeBind (b : BindSpec) : Bytes :=
  be16 b.pfmts.length ++ b.pfmts.flatMap be16 ++
  be16 b.params.length ++ b.params.flatMap encValue ++
  be16 b.rfmts.length ++ b.rfmts.flatMap be16

/-- admissible: counts and codes fit their 16-bit fields, value lengths fit 31 bits -/
structure Admissible (b : BindSpec) : Prop where
  npf : b.pfmts.length < 65536
  pf : ∀ f ∈ b.pfmts, f < 65536
  np : b.params.length < 65536
  pv : ∀ p ∈ b.params, ∀ v, p = some v → v.length < 2147483648
  nrf : b.rfmts.length < 65536
  rf : ∀ f ∈ b.rfmts, f < 65536

theorem readCodes_enc (fs : List Nat) (h : ∀ f ∈ fs, f < 65536) (rest : Bytes) :
    readCodes fs.length (fs.flatMap be16 ++ rest) = some (fs, rest) := by
  induction fs with
  | nil => simp [readCodes]
  | cons f fs ih =>
    have hf := h f (by simp)
    have hfs : ∀ f ∈ fs, f < 65536 := fun x hx => h x (by simp [hx])
    simp only [List.length_cons, List.flatMap_cons, List.append_assoc, readCodes, getU16]
    rw [rd16_be16 _ hf]
    simp only []
    rw [ih hfs]

theorem zipWith_congr_mem {α β γ} (f g : α → β → γ) : ∀ (as : List α) (bs : List β),
    (∀ a ∈ as, ∀ b, f a b = g a b) → List.zipWith f as bs = List.zipWith g as bs := by
  intro as
  induction as with
  | nil => intro bs _; simp
  | cons a as ih =>
    intro bs h
    cases bs with
    | nil => simp
    | cons b bs =>
      simp only [List.zipWith_cons_cons]
      rw [h a (by simp) b, ih bs (fun x hx y => h x (by simp [hx]) y)]

/-- the value loop returns the values in order, byte-exact, NULL distinguished from empty,
    each tagged with the format the rule of the Go code assigns to its index -/
theorem readValues_enc (formats : List Nat) (dflt : Nat) (ps : List (Option Bytes))
    (h : ∀ p ∈ ps, ∀ v, p = some v → v.length < 2147483648) (rest : Bytes) :
    ∀ i, readValues formats dflt ps.length i (ps.flatMap encValue ++ rest) =
      some ((List.range ps.length).zipWith
        (fun k p => (if formats.length > i + k then formats.getD (i + k) 0 else dflt, p)) ps, rest) := by
  induction ps with
  | nil => intro i; simp [readValues]
  | cons p ps ih =>
    intro i
    have hps : ∀ p ∈ ps, ∀ v, p = some v → v.length < 2147483648 := fun x hx => h x (by simp [hx])
    have hrange : List.range (ps.length + 1) = 0 :: (List.range ps.length).map (· + 1) := by
      rw [List.range_succ_eq_map]
    cases p with
    | none =>
      simp only [List.length_cons, List.flatMap_cons, encValue, List.append_assoc, readValues, getU32]
      rw [rd32_be32 _ (by omega)]
      simp only [if_true]
      rw [ih hps (i + 1), hrange]
      simp [List.zipWith_map_left, Nat.add_assoc, Nat.add_comm 1]
    | some v =>
      have hv := h (some v) (by simp) v rfl
      simp only [List.length_cons, List.flatMap_cons, encValue, List.append_assoc, readValues, getU32]
      rw [rd32_be32 _ (by omega)]
      have h1 : ¬ v.length = 4294967295 := by omega
      simp only [h1, if_false, getBytes, List.length_append]
      have h2 : ¬ (v.length + ((ps.flatMap encValue).length + rest.length) < v.length) := by omega
      simp only [h2, if_false, List.take_left', List.drop_left']
      rw [ih hps (i + 1), hrange]
      simp [List.zipWith_map_left, Nat.add_assoc, Nat.add_comm 1]

/-- the format rule as written in `readParameters` is the protocol's rule -/
theorem formatRule (pfmts : List Nat) (k : Nat) :
    (if pfmts.length > k then pfmts.getD k 0 else (if pfmts.length = 1 then pfmts.getD 0 0 else 0))
      = if pfmts.length = 1 ∨ pfmts.length > k then paramFormat pfmts k else 0 := by
  match pfmts with
  | [] => simp [paramFormat]
  | [f] => cases k <;> simp [paramFormat]
  | f :: g :: r =>
    simp only [List.length_cons, paramFormat]
    by_cases hk : r.length + 1 + 1 > k
    · simp [hk]
    · have : ¬ (r.length + 1 + 1 = 1) := by omega
      simp [hk, this]

/-- **C08 (parameters).** For every admissible Bind the decoder returns exactly what was sent:
    same count and order, byte-identical values, NULL (`none`) distinguished from the empty
    value (`some []`), each tagged by the protocol rule; the result-format codes are returned
    as sent; trailing bytes of the message are left untouched. -/
theorem C08_roundtrip (b : BindSpec) (h : Admissible b) (surplus : Bytes) :
    decodeBindTail (encodeBind b ++ surplus) =
      some ((List.range b.params.length).zipWith
              (fun k p => (if b.pfmts.length = 1 ∨ b.pfmts.length > k then paramFormat b.pfmts k else 0, p)) b.params,
            b.rfmts, surplus) := by
  simp only [decodeBindTail, encodeBind, List.append_assoc, getU16]
  rw [rd16_be16 _ h.npf]
  simp only []
  rw [readCodes_enc _ h.pf]
  simp only []
  rw [rd16_be16 _ h.np]
  simp only []
  rw [readValues_enc _ _ _ h.pv]
  simp only []
  rw [rd16_be16 _ h.nrf]
  simp only []
  rw [readCodes_enc _ h.rf]
  simp only [Nat.zero_add]
  congr 2
  apply zipWith_congr_mem
  intro k _ p
  rw [formatRule b.pfmts k]

/-- with an admissible number of codes (0, 1 or one per parameter) every parameter carries
    exactly the protocol's format -/
theorem C08_formats_admissible (b : BindSpec) (h : Admissible b)
    (hc : b.pfmts.length = 0 ∨ b.pfmts.length = 1 ∨ b.pfmts.length = b.params.length) (surplus : Bytes) :
    (decodeBindTail (encodeBind b ++ surplus)).map (·.1) =
      some ((List.range b.params.length).zipWith (fun k p => (paramFormat b.pfmts k, p)) b.params) := by
  rw [C08_roundtrip b h]
  simp only [Option.map_some]
  congr 1
  apply zipWith_congr_mem
  intro k hk p
  simp only [List.mem_range] at hk
  rcases hc with h0 | h1 | hn
  · have : b.pfmts = [] := List.eq_nil_of_length_eq_zero h0
    simp [this, paramFormat]
  · simp [h1]
  · have : b.pfmts.length > k := by omega
    simp [this]

/-! ### result formats: announced = used = the protocol rule -/

/-- the per-column rule of row.go for 0, 1 and one-per-column codes -/
theorem C08_result_rule (formats : List Nat) (ncols i : Nat) (hi : i < ncols) :
    (formats.length = 0 → formatFor formats i = 0) ∧
    (formats.length = 1 → formatFor formats i = formats.getD 0 0) ∧
    (formats.length = ncols → formatFor formats i = formats.getD i 0) := by
  refine ⟨?_, ?_, ?_⟩
  · intro h; simp [formatFor, h]
  · intro h
    simp only [formatFor, h]
    cases i with
    | zero => simp
    | succ k => simp
  · intro h
    have h0 : ¬ formats.length = 0 := by omega
    have h1 : formats.length > i := by omega
    simp [formatFor, h0, h1]

/-- the format announced for column `i` by RowDescription is the format used to encode
    column `i` of every DataRow (one rule, `formatFor`, serves both) -/
theorem C08_announced_is_used (formats : List Nat) (cols : List ColDesc) (i : Nat) (hi : i < cols.length) :
    ((colFormats formats cols)[i]?).map (·.2) = some (formatFor formats i) := by
  simp [colFormats, List.getElem?_zipWith, hi]

/-! ### Describe announces exactly the declared parameter types -/

theorem C08_paramdesc (oids : List Nat) (hn : oids.length < 65536) (ho : ∀ o ∈ oids, o < 4294967296) :
    parseBody (BMsg.paramDesc oids).tag (BMsg.paramDesc oids).body = some (.paramDesc oids) :=
  C02.C02_roundtrip _ ⟨hn, ho⟩

/-- non-vacuity: two parameters (NULL and empty), one binary code for both, two result codes -/
example :
    decodeBindTail (encodeBind { pfmts := [1], params := [none, some []], rfmts := [0, 1] } ++ [9]) =
      some ([(1, none), (1, some [])], [0, 1], [9]) := by decide

/-! ### soundness: the decoder never fabricates -/

theorem rd16_sound (m : Bytes) (n : Nat) (r : Bytes) (h : rd16 m = some (n, r)) : m = be16 n ++ r ∧ n < 65536 := by
  match m, h with
  | a :: b :: r', h =>
    simp [rd16] at h
    obtain ⟨rfl, rfl⟩ := h
    have ha := UInt8.toNat_lt a
    have hb := UInt8.toNat_lt b
    refine ⟨?_, by omega⟩
    have h1 : (a.toNat * 256 + b.toNat) / 256 % 256 = a.toNat := by omega
    have h2 : (a.toNat * 256 + b.toNat) % 256 = b.toNat := by omega
    simp [be16, h1, h2]

theorem rd32_sound (m : Bytes) (n : Nat) (r : Bytes) (h : rd32 m = some (n, r)) : m = be32 n ++ r ∧ n < 4294967296 := by
  match m, h with
  | a :: b :: c :: d :: r', h =>
    simp [rd32] at h
    obtain ⟨rfl, rfl⟩ := h
    have ha := UInt8.toNat_lt a
    have hb := UInt8.toNat_lt b
    have hc := UInt8.toNat_lt c
    have hd := UInt8.toNat_lt d
    refine ⟨?_, by omega⟩
    have h1 : (a.toNat * 16777216 + b.toNat * 65536 + c.toNat * 256 + d.toNat) / 16777216 % 256 = a.toNat := by omega
    have h2 : (a.toNat * 16777216 + b.toNat * 65536 + c.toNat * 256 + d.toNat) / 65536 % 256 = b.toNat := by omega
    have h3 : (a.toNat * 16777216 + b.toNat * 65536 + c.toNat * 256 + d.toNat) / 256 % 256 = c.toNat := by omega
    have h4 : (a.toNat * 16777216 + b.toNat * 65536 + c.toNat * 256 + d.toNat) % 256 = d.toNat := by omega
    simp [be32, h1, h2, h3, h4]

theorem getBytes_sound (n : Nat) (m v r : Bytes) (h : getBytes n m = some (v, r)) : m = v ++ r ∧ v.length = n := by
  unfold getBytes at h
  split at h
  · simp at h
  · simp at h
    obtain ⟨rfl, rfl⟩ := h
    exact ⟨(List.take_append_drop n m).symm, by simp; omega⟩

theorem readCodes_sound : ∀ (n : Nat) (m : Bytes) (cs : List Nat) (r : Bytes), readCodes n m = some (cs, r) →
    m = cs.flatMap be16 ++ r ∧ cs.length = n := by
  intro n
  induction n with
  | zero => intro m cs r h; simp [readCodes] at h; obtain ⟨rfl, rfl⟩ := h; simp
  | succ k ih =>
    intro m cs r h
    simp only [readCodes] at h
    split at h
    · simp at h
    · rename_i c r1 heq
      split at h
      · simp at h
      · rename_i cs' r' heq2
        simp at h
        obtain ⟨rfl, rfl⟩ := h
        obtain ⟨a, _⟩ := rd16_sound _ _ _ heq
        obtain ⟨b, c'⟩ := ih _ _ _ heq2
        refine ⟨?_, by simp [c']⟩
        rw [a, b]; simp

/-- **no fabrication**: whatever the value loop returns is literally in the message, at the
    position and with the length the message declares — the input is the encoding of the output -/
theorem readValues_sound (formats : List Nat) (dflt : Nat) : ∀ (n i : Nat) (m : Bytes) (ps : List Param) (r : Bytes),
    readValues formats dflt n i m = some (ps, r) →
    m = (ps.map (·.2)).flatMap encValue ++ r ∧ ps.length = n := by
  intro n
  induction n with
  | zero => intro i m ps r h; simp [readValues] at h; obtain ⟨rfl, rfl⟩ := h; simp
  | succ k ih =>
    intro i m ps r h
    simp only [readValues] at h
    split at h
    · simp at h
    · rename_i len r1 heq
      obtain ⟨a, hl⟩ := rd32_sound _ _ _ heq
      split at h
      · rename_i hnull
        split at h
        · simp at h
        · rename_i ps' r' heq2
          simp at h
          obtain ⟨rfl, rfl⟩ := h
          obtain ⟨b, c⟩ := ih _ _ _ _ heq2
          refine ⟨?_, by simp [c]⟩
          rw [a, b, hnull]; simp [encValue]
      · split at h
        · simp at h
        · rename_i v r' heq3
          split at h
          · simp at h
          · rename_i ps' r'' heq2
            simp at h
            obtain ⟨rfl, rfl⟩ := h
            obtain ⟨b, c⟩ := ih _ _ _ _ heq2
            obtain ⟨d, e⟩ := getBytes_sound _ _ _ _ heq3
            refine ⟨?_, by simp [c]⟩
            rw [a, d, b]; simp [encValue, e]

/-- **C08 / C04 (no fabricated parameters).** Whenever the Bind decoder accepts a message body,
    that body IS the client-side encoding of exactly the parameters and result-format codes it
    returns (for some list of parameter format codes), followed by the untouched rest: every value
    handed to the statement function is a contiguous piece of the message of the declared length;
    a lying count or length can only make the decoder reject. -/
theorem C08_sound (m : Bytes) (ps : List Param) (rf : List Nat) (r : Bytes) (h : decodeBindTail m = some (ps, rf, r)) :
    ∃ pf : List Nat, m = encodeBind { pfmts := pf, params := ps.map (·.2), rfmts := rf } ++ r := by
  unfold decodeBindTail at h
  cases h1 : getU16 m with
  | none => simp [h1] at h
  | some p1 =>
    obtain ⟨nf, r1⟩ := p1
    simp only [h1] at h
    cases h2 : readCodes nf r1 with
    | none => simp [h2] at h
    | some p2 =>
      obtain ⟨pf, r2⟩ := p2
      simp only [h2] at h
      cases h3 : getU16 r2 with
      | none => simp [h3] at h
      | some p3 =>
        obtain ⟨np, r3⟩ := p3
        simp only [h3] at h
        split at h
        · simp at h
        · rename_i ps' r4 h4
          split at h
          · simp at h
          · rename_i nr r5 h5
            split at h
            · simp at h
            · rename_i rf' r6 h6
              simp at h
              obtain ⟨rfl, rfl, rfl⟩ := h
              obtain ⟨a1, _⟩ := rd16_sound _ _ _ h1
              obtain ⟨a2, l2⟩ := readCodes_sound _ _ _ _ h2
              obtain ⟨a3, _⟩ := rd16_sound _ _ _ h3
              obtain ⟨a4, l4⟩ := readValues_sound _ _ _ _ _ _ _ h4
              obtain ⟨a5, _⟩ := rd16_sound _ _ _ h5
              obtain ⟨a6, l6⟩ := readCodes_sound _ _ _ _ h6
              refine ⟨pf, ?_⟩
              rw [a1, a2, a3, a4, a5, a6]
              simp [encodeBind, l2, l4, l6]

end Pw.Props.C08
