import Pw.Model.Session
import Pw.Lemmas.Backend
import Pw.Props.C02
/-
  C08 — Bind parameters and format codes reach the handler exactly.
-/
namespace Pw.Props.C08
open Pw

/-- what a client puts into a Bind message after the two names -/
structure BindSpec where
  pfmts : List Nat            -- parameter format codes
  params : List (Option Bytes) -- parameter values, `none` = NULL
  rfmts : List Nat            -- result-column format codes

/-- the protocol's rule for the format of parameter `i`: no codes → text, one code → that code
    for all, otherwise positional (text beyond the codes given) -/
def paramFormat (pfmts : List Nat) (i : Nat) : Nat :=
  match pfmts with
  | [] => 0
  | [f] => f
  | _ => pfmts.getD i 0

def encValue : Option Bytes → Bytes
  | none => be32 4294967295
  | some v => be32 v.length ++ v

/-- client-side encoding of the Bind tail -/
def encodeBind (b : BindSpec) : Bytes :=
  be16 b.pfmts.length ++ b.pfmts.flatMap be16 ++
  be16 b.params.length ++ b.params.flatMap encValue ++
  be16 b.rfmts.length ++ b.rfmts.flatMap be16

/-- admissible: counts and codes fit their 16-bit fields, value lengths fit 31 bits -/
structure Admissible (b : BindSpec) : Prop where
  npf : b.pfmts.length < 65536
  pf : ∀ f ∈ b.pfmts, f < 65536
  np : b.params.length < 65536
  pv : ∀ p ∈ b.params, ∀ v, p = some v → v.length < 2147483648
  nrf : b.rfmts.length < 65536
  rf : ∀ f ∈ b.rfmts, f < 65536

theorem readCodes_enc (fs : List Nat) (h : ∀ f ∈ fs, f < 65536) (rest : Bytes) :
    readCodes fs.length (fs.flatMap be16 ++ rest) = some (fs, rest) := by
  induction fs with
  | nil => simp [readCodes]
  | cons f fs ih =>
    have hf := h f (by simp)
    have hfs : ∀ f ∈ fs, f < 65536 := fun x hx => h x (by simp [hx])
    simp only [List.length_cons, List.flatMap_cons, List.append_assoc, readCodes, getU16]
    rw [rd16_be16 _ hf]
    simp only []
    rw [ih hfs]

theorem zipWith_congr_mem {α β γ} (f g : α → β → γ) : ∀ (as : List α) (bs : List β),
    (∀ a ∈ as, ∀ b, f a b = g a b) → List.zipWith f as bs = List.zipWith g as bs := by
  intro as
  induction as with
  | nil => intro bs _; simp
  | cons a as ih =>
    intro bs h
    cases bs with
    | nil => simp
    | cons b bs =>
      simp only [List.zipWith_cons_cons]
      rw [h a (by simp) b, ih bs (fun x hx y => h x (by simp [hx]) y)]

/-- the value loop returns the values in order, byte-exact, NULL distinguished from empty,
    each tagged with the format the rule of the Go code assigns to its index -/
theorem readValues_enc (formats : List Nat) (dflt : Nat) (ps : List (Option Bytes))
    (h : ∀ p ∈ ps, ∀ v, p = some v → v.length < 2147483648) (rest : Bytes) :
    ∀ i, readValues formats dflt ps.length i (ps.flatMap encValue ++ rest) =
      some ((List.range ps.length).zipWith
        (fun k p => (if formats.length > i + k then formats.getD (i + k) 0 else dflt, p)) ps, rest) := by
  induction ps with
  | nil => intro i; simp [readValues]
  | cons p ps ih =>
    intro i
    have hps : ∀ p ∈ ps, ∀ v, p = some v → v.length < 2147483648 := fun x hx => h x (by simp [hx])
    have hrange : List.range (ps.length + 1) = 0 :: (List.range ps.length).map (· + 1) := by
      rw [List.range_succ_eq_map]
    cases p with
    | none =>
      simp only [List.length_cons, List.flatMap_cons, encValue, List.append_assoc, readValues, getU32]
      rw [rd32_be32 _ (by omega)]
      simp only [if_true]
      rw [ih hps (i + 1), hrange]
      simp [List.zipWith_map_left, Nat.add_assoc, Nat.add_comm 1]
    | some v =>
      have hv := h (some v) (by simp) v rfl
      simp only [List.length_cons, List.flatMap_cons, encValue, List.append_assoc, readValues, getU32]
      rw [rd32_be32 _ (by omega)]
      have h1 : ¬ v.length = 4294967295 := by omega
      simp only [h1, if_false, getBytes, List.length_append]
      have h2 : ¬ (v.length + ((ps.flatMap encValue).length + rest.length) < v.length) := by omega
      simp only [h2, if_false, List.take_left', List.drop_left']
      rw [ih hps (i + 1), hrange]
      simp [List.zipWith_map_left, Nat.add_assoc, Nat.add_comm 1]

/-- the format rule as written in `readParameters` is the protocol's rule -/
theorem formatRule (pfmts : List Nat) (k : Nat) :
    (if pfmts.length > k then pfmts.getD k 0 else (if pfmts.length = 1 then pfmts.getD 0 0 else 0))
      = if pfmts.length = 1 ∨ pfmts.length > k then paramFormat pfmts k else 0 := by
  match pfmts with
  | [] => simp [paramFormat]
  | [f] => cases k <;> simp [paramFormat]
  | f :: g :: r =>
    simp only [List.length_cons, paramFormat]
    by_cases hk : r.length + 1 + 1 > k
    · simp [hk]
    · have : ¬ (r.length + 1 + 1 = 1) := by omega
      simp [hk, this]

/-- **C08 (parameters).** For every admissible Bind the decoder returns exactly what was sent:
    same count and order, byte-identical values, NULL (`none`) distinguished from the empty
    value (`some []`), each tagged by the protocol rule; the result-format codes are returned
    as sent; trailing bytes of the message are left untouched. -/
theorem C08_roundtrip (b : BindSpec) (h : Admissible b) (surplus : Bytes) :
    decodeBindTail (encodeBind b ++ surplus) =
      some ((List.range b.params.length).zipWith
              (fun k p => (if b.pfmts.length = 1 ∨ b.pfmts.length > k then paramFormat b.pfmts k else 0, p)) b.params,
            b.rfmts, surplus) := by
  simp only [decodeBindTail, encodeBind, List.append_assoc, getU16]
  rw [rd16_be16 _ h.npf]
  simp only []
  rw [readCodes_enc _ h.pf]
  simp only []
  rw [rd16_be16 _ h.np]
  simp only []
  rw [readValues_enc _ _ _ h.pv]
  simp only []
  rw [rd16_be16 _ h.nrf]
  simp only []
  rw [readCodes_enc _ h.rf]
  simp only [Nat.zero_add]
  congr 2
  apply zipWith_congr_mem
  intro k _ p
  rw [formatRule b.pfmts k]

/-- with an admissible number of codes (0, 1 or one per parameter) every parameter carries
    exactly the protocol's format -/
theorem C08_formats_admissible (b : BindSpec) (h : Admissible b)
    (hc : b.pfmts.length = 0 ∨ b.pfmts.length = 1 ∨ b.pfmts.length = b.params.length) (surplus : Bytes) :
    (decodeBindTail (encodeBind b ++ surplus)).map (·.1) =
      some ((List.range b.params.length).zipWith (fun k p => (paramFormat b.pfmts k, p)) b.params) := by
  rw [C08_roundtrip b h]
  simp only [Option.map_some]
  congr 1
  apply zipWith_congr_mem
  intro k hk p
  simp only [List.mem_range] at hk
  rcases hc with h0 | h1 | hn
  · have : b.pfmts = [] := List.eq_nil_of_length_eq_zero h0
    simp [this, paramFormat]
  · simp [h1]
  · have : b.pfmts.length > k := by omega
    simp [this]

/-! ### result formats: announced = used = the protocol rule -/

/-- the per-column rule of row.go for 0, 1 and one-per-column codes -/
theorem C08_result_rule (formats : List Nat) (ncols i : Nat) (hi : i < ncols) :
    (formats.length = 0 → formatFor formats i = 0) ∧
    (formats.length = 1 → formatFor formats i = formats.getD 0 0) ∧
    (formats.length = ncols → formatFor formats i = formats.getD i 0) := by
  refine ⟨?_, ?_, ?_⟩
  · intro h; simp [formatFor, h]
  · intro h
    simp only [formatFor, h]
    cases i with
    | zero => simp
    | succ k => simp
  · intro h
    have h0 : ¬ formats.length = 0 := by omega
    have h1 : formats.length > i := by omega
    simp [formatFor, h0, h1]

/-- the format announced for column `i` by RowDescription is the format used to encode
    column `i` of every DataRow (one rule, `formatFor`, serves both) -/
theorem C08_announced_is_used (formats : List Nat) (cols : List ColDesc) (i : Nat) (hi : i < cols.length) :
    ((colFormats formats cols)[i]?).map (·.2) = some (formatFor formats i) := by
  simp [colFormats, List.getElem?_zipWith, hi]

/-! ### Describe announces exactly the declared parameter types -/

theorem C08_paramdesc (oids : List Nat) (hn : oids.length < 65536) (ho : ∀ o ∈ oids, o < 4294967296) :
    parseBody (BMsg.paramDesc oids).tag (BMsg.paramDesc oids).body = some (.paramDesc oids) :=
  C02.C02_roundtrip _ ⟨hn, ho⟩

/-- non-vacuity: two parameters (NULL and empty), one binary code for both, two result codes -/
example :
    decodeBindTail (encodeBind { pfmts := [1], params := [none, some []], rfmts := [0, 1] } ++ [9]) =
      some ([(1, none), (1, some [])], [0, 1], [9]) := by decide

end Pw.Props.C08
