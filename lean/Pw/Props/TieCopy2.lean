import Pw.Props.TieCopy
import Pw.Props.TieSlurp
/-
  TIE THEOREMS, part 5: the rest of copy.go's binary reader against the COPY-in section of Model/Session.lean.

  1.  `takeLength` on a successful `take(4)` (`tie_takeLength_ok`, the error text through `tie_takeLength_ok_abs`).
  2.  `skipHeader` with the signature present, through what `take`/`takeLength` return (`tie_skipHeader_*`).
  4.  `BinaryCopyReader.Read`, compositionally: `tie_binRead_ctx/_started/_fresh`, the row part (`tie_rowPart_*`,
      `tie_rowBody_*`) and the field loop (`tie_fieldLoop_*`).
  3.  `fill` against `binFill` over a stream of complete in-limit messages (`c2_read_stream`, `tie_fill_stream`), then the
      simulation relation `c2_Sim` and, on top of it, `take`/`takeLength`/`skipHeader`/field loop/row part/`Read` against
      `binTake`/`binTakeLength`/`binSkipHeader`/`binFields`/`binRowStart`/`binRead` (`tie_*_sim`).
  5.  concrete worlds.

  Proof style: goals that contain the translated bodies are handled with `rw` and small `rfl` lemmas only — a `simp only`,
  `dsimp`, `unfold` of a run-time function or a closing `rfl` on such a goal makes the kernel re-check a definitional
  equality in which it starts evaluating `if length ≠ 4294967295 …` on a stuck term (minutes, or deep recursion).
  The long byte literals of the generated code are kept folded behind named constants (`lengthFmt`, `c2_extText`, …),
  each pinned to the literal by a `decide`d equation.
-/
set_option linter.unusedSimpArgs false
namespace Pw.Tie
open Pw Pw.Go

/-- the translated `takeLength` carries the format literal `lengthFmt` -/
theorem c2_takeLength_unfold (fuel : Nat) (w : CWorld) :
    TransCopy.BinaryCopyReader_takeLength fuel w =
      (TransCopy.BinaryCopyReader_take fuel 4 w).bind fun t1 w =>
        if (t1.2 ≠ none) then .ok (0, t1.2) w
        else chkC (beUint32 t1.1) fun length =>
          if ((length ≠ 4294967295) ∧ ((u64 length) > (u64 w.base.reader.MaxMessageSize))) then
            .ok (0, some (CErr.errorf lengthFmt [length, w.base.reader.MaxMessageSize])) w
          else .ok (length, none) w := by
  rw [lengthFmt_eq]; rfl

theorem c2_u64_id (i : Int) (h0 : 0 ≤ i) (h1 : i < 18446744073709551616) : u64 i = i := by
  unfold u64; omega

theorem c2_be32val_lt (x y z t : UInt8) : be32val x y z t < 4294967296 := by
  have := x.toNat_lt; have := y.toNat_lt; have := z.toNat_lt; have := t.toNat_lt
  unfold be32val; omega

/-- the model's `rd32` is `binary.BigEndian.Uint32` -/
theorem c2_rd32_be32val (x y z t : UInt8) (r : Bytes) : rd32 (x :: y :: z :: t :: r) = some (be32val x y z t, r) := rfl

theorem c2_chkC_ok {α β} (a : α) (k : α → COut β) : chkC (.ok a) k = k a := rfl
theorem c2_beUint32 (x y z t : UInt8) (r : Bytes) :
    beUint32 (x :: y :: z :: t :: r) = .ok ((be32val x y z t : Nat) : Int) := rfl
theorem c2_not_none_ne : ¬ ((none : Option CErr) ≠ none) := by simp

/- NOTE on proof style: on goals that contain the translated bodies, `simp only`/`dsimp`/`unfold`/`rfl` steps make the
   KERNEL re-check a definitional equality of the whole goal, which takes minutes here; `rw` with small `rfl` lemmas
   does not. -/
theorem c2_takeLength_unfold2 (fuel : Nat) (w w' : CWorld) (x y z t : UInt8) (r : Bytes)
    (ht : TransCopy.BinaryCopyReader_take fuel 4 w = .ok (x :: y :: z :: t :: r, none) w') :
    TransCopy.BinaryCopyReader_takeLength fuel w =
      if ((((be32val x y z t : Nat) : Int) ≠ 4294967295) ∧
          ((u64 (be32val x y z t : Nat)) > (u64 w'.base.reader.MaxMessageSize))) then
        .ok (0, some (CErr.errorf lengthFmt [((be32val x y z t : Nat) : Int), w'.base.reader.MaxMessageSize])) w'
      else .ok (((be32val x y z t : Nat) : Int), none) w' := by
  rw [c2_takeLength_unfold, ht, COut.bind, if_neg c2_not_none_ne, c2_beUint32, c2_chkC_ok]

/-- 1. `take(4)` succeeded with the bytes `x y z t`: `takeLength` returns their big-endian value, unless that is
    neither 0xFFFFFFFF nor within `MaxMessageSize`, in which case the length error (the `.ok v` line of `binTakeLength`) -/
theorem tie_takeLength_ok (fuel : Nat) (w w' : CWorld) (x y z t : UInt8) (r : Bytes)
    (ht : TransCopy.BinaryCopyReader_take fuel 4 w = .ok (x :: y :: z :: t :: r, none) w')
    (hm : 0 ≤ w'.base.reader.MaxMessageSize ∧ w'.base.reader.MaxMessageSize < 4611686018427387904) :
    TransCopy.BinaryCopyReader_takeLength fuel w =
      if be32val x y z t ≠ 4294967295 ∧ be32val x y z t > w'.base.reader.MaxMessageSize.toNat then
        .ok (0, some (.errorf lengthFmt [(be32val x y z t : Nat), w'.base.reader.MaxMessageSize])) w'
      else .ok ((be32val x y z t : Nat), none) w' := by
  rw [c2_takeLength_unfold2 fuel w w' x y z t r ht]
  have hb := c2_be32val_lt x y z t
  generalize lengthFmt = fmt
  obtain ⟨h0, h1⟩ := hm
  generalize be32val x y z t = n at hb
  rw [c2_u64_id n (by omega) (by omega), c2_u64_id _ h0 (by omega)]
  by_cases hc : n ≠ 4294967295 ∧ n > w'.base.reader.MaxMessageSize.toNat
  · have hc' : (((n : Int) ≠ 4294967295)) ∧ ((n : Int) > w'.base.reader.MaxMessageSize) := by omega
    rw [if_pos hc, if_pos hc']
  · have hc' : ¬ ((((n : Int) ≠ 4294967295)) ∧ ((n : Int) > w'.base.reader.MaxMessageSize)) := by omega
    rw [if_neg hc, if_neg hc']

/-- the same through `absErr`: the error value is the model's `errLengthExceeds` -/
theorem tie_takeLength_ok_abs (n : Nat) (M : Int) (h0 : 0 ≤ M) :
    absErr (.errorf lengthFmt [(n : Int), M]) = .lib (errLengthExceeds n M.toNat) := by
  obtain ⟨m, rfl⟩ := Int.eq_ofNat_of_zero_le h0
  rw [absErr_lengthExceeds]; simp

/-! ### 2. `skipHeader` once the signature is there: the `binHeaderRest` chain, through what `take`/`takeLength` return -/

/-- text of the error for an extension-area length of 0xFFFFFFFF, pinned to the literal in the generated code -/
def c2_extText : Bytes := ascii "unexpected header extension area length"
theorem c2_extText_eq : c2_extText = [117, 110, 101, 120, 112, 101, 99, 116, 101, 100, 32, 104, 101, 97, 100, 101, 114, 32, 101, 120, 116, 101, 110, 115, 105, 111, 110, 32, 97, 114, 101, 97, 32, 108, 101, 110, 103, 116, 104] := by decide

theorem c2_sig15 : i64 ((TransCopy.CopySignature.length : Int) + 4) = ((copySignature.length + 4 : Nat) : Int) := by decide
theorem c2_i64_id (i : Int) (h0 : 0 ≤ i) (h1 : i < 9223372036854775808) : i64 i = i := by
  unfold i64; omega
theorem c2_some_ne_none (e : CErr) : (some e : Option CErr) ≠ none := by simp

/-- the guard of `skipHeader` after `fill`: `fill` returned nil or `io.EOF`, and `pending` starts with the signature -/
def c2_SigSeen (fuel : Nat) (w w1 : CWorld) : Prop :=
  ∃ e : Option CErr, TransCopy.BinaryCopyReader_fill fuel (TransCopy.CopySignature.length : Int) w = .ok e w1 ∧
    (e = none ∨ e = some (.lib .eof)) ∧ hasPrefix w1.bin.pending TransCopy.CopySignature = true

/-- signature present: `skipHeader` is the rest of its body run from the world `fill` left -/
theorem c2_skipHeader_sig (fuel : Nat) (w w1 : CWorld) (h : c2_SigSeen fuel w w1) :
    TransCopy.BinaryCopyReader_skipHeader fuel w =
      (TransCopy.BinaryCopyReader_take fuel ((copySignature.length + 4 : Nat) : Int) w1).bind fun t2 w =>
        if (t2.2 ≠ none) then .ok t2.2 w
        else (TransCopy.BinaryCopyReader_takeLength fuel w).bind fun t3 w =>
          if (t3.2 ≠ none) then .ok t3.2 w
          else if (t3.1 = 4294967295) then .ok (some (CErr.new c2_extText)) w
          else (TransCopy.BinaryCopyReader_take fuel (i64 t3.1) w).bind fun t4 w => .ok t4.2 w := by
  obtain ⟨e, hf, he, hp⟩ := h
  have hc : ¬ ((e ≠ none) ∧ (e ≠ some (CErr.lib Go.Err.eof))) := by
    rcases he with he | he <;> simp [he]
  have hq : ¬ ¬ (hasPrefix w1.bin.pending TransCopy.CopySignature = true) := by simp [hp]
  unfold TransCopy.BinaryCopyReader_skipHeader
  rw [hf, COut.bind, if_neg hc, if_neg hq, c2_sig15, c2_extText_eq]

/-- `take(len(signature)+4)` fails: its error is returned (first `.err` line of `binHeaderRest`) -/
theorem tie_skipHeader_flags_err (fuel : Nat) (w w1 w2 : CWorld) (h : c2_SigSeen fuel w w1) (v : Bytes) (e : CErr)
    (h1 : TransCopy.BinaryCopyReader_take fuel ((copySignature.length + 4 : Nat) : Int) w1 = .ok (v, some e) w2) :
    TransCopy.BinaryCopyReader_skipHeader fuel w = .ok (some e) w2 := by
  rw [c2_skipHeader_sig fuel w w1 h, h1, COut.bind, if_pos (c2_some_ne_none e)]

theorem tie_skipHeader_flags_block (fuel : Nat) (w w1 : CWorld) (h : c2_SigSeen fuel w w1)
    (h1 : TransCopy.BinaryCopyReader_take fuel ((copySignature.length + 4 : Nat) : Int) w1 = .block) :
    TransCopy.BinaryCopyReader_skipHeader fuel w = .block := by
  rw [c2_skipHeader_sig fuel w w1 h, h1, COut.bind]

/-- `takeLength` for the extension area fails: its error is returned (second `.err` line of `binHeaderRest`) -/
theorem tie_skipHeader_extlen_err (fuel : Nat) (w w1 w2 w3 : CWorld) (h : c2_SigSeen fuel w w1) (v : Bytes) (n : Int) (e : CErr)
    (h1 : TransCopy.BinaryCopyReader_take fuel ((copySignature.length + 4 : Nat) : Int) w1 = .ok (v, none) w2)
    (h2 : TransCopy.BinaryCopyReader_takeLength fuel w2 = .ok (n, some e) w3) :
    TransCopy.BinaryCopyReader_skipHeader fuel w = .ok (some e) w3 := by
  rw [c2_skipHeader_sig fuel w w1 h, h1, COut.bind, if_neg c2_not_none_ne, h2, COut.bind, if_pos (c2_some_ne_none e)]

theorem tie_skipHeader_extlen_block (fuel : Nat) (w w1 w2 : CWorld) (h : c2_SigSeen fuel w w1) (v : Bytes)
    (h1 : TransCopy.BinaryCopyReader_take fuel ((copySignature.length + 4 : Nat) : Int) w1 = .ok (v, none) w2)
    (h2 : TransCopy.BinaryCopyReader_takeLength fuel w2 = .block) :
    TransCopy.BinaryCopyReader_skipHeader fuel w = .block := by
  rw [c2_skipHeader_sig fuel w w1 h, h1, COut.bind, if_neg c2_not_none_ne, h2, COut.bind]

/-- an extension-area length of 0xFFFFFFFF is rejected, with the model's text -/
theorem tie_skipHeader_ext_null (fuel : Nat) (w w1 w2 w3 : CWorld) (h : c2_SigSeen fuel w w1) (v : Bytes)
    (h1 : TransCopy.BinaryCopyReader_take fuel ((copySignature.length + 4 : Nat) : Int) w1 = .ok (v, none) w2)
    (h2 : TransCopy.BinaryCopyReader_takeLength fuel w2 = .ok (4294967295, none) w3) :
    TransCopy.BinaryCopyReader_skipHeader fuel w = .ok (some (.new c2_extText)) w3 ∧
    absErr (.new c2_extText) = .lib (.base (ascii "unexpected header extension area length")) := by
  refine ⟨?_, rfl⟩
  rw [c2_skipHeader_sig fuel w w1 h, h1, COut.bind, if_neg c2_not_none_ne, h2, COut.bind, if_neg c2_not_none_ne,
    if_pos rfl]

/-- any other extension-area length `n`: `skipHeader` returns whatever `take(n)` returns as its error
    (last `match` of `binHeaderRest`) -/
theorem tie_skipHeader_ext (fuel : Nat) (w w1 w2 w3 : CWorld) (h : c2_SigSeen fuel w w1) (v : Bytes) (n : Nat)
    (h1 : TransCopy.BinaryCopyReader_take fuel ((copySignature.length + 4 : Nat) : Int) w1 = .ok (v, none) w2)
    (h2 : TransCopy.BinaryCopyReader_takeLength fuel w2 = .ok ((n : Int), none) w3)
    (hn : n ≠ 4294967295) (hn' : n < 4294967296) :
    TransCopy.BinaryCopyReader_skipHeader fuel w =
      (TransCopy.BinaryCopyReader_take fuel (n : Int) w3).bind fun t4 w => .ok t4.2 w := by
  have hne : ¬ ((n : Int) = 4294967295) := by omega
  rw [c2_skipHeader_sig fuel w w1 h, h1, COut.bind, if_neg c2_not_none_ne, h2, COut.bind, if_neg c2_not_none_ne,
    if_neg hne, c2_i64_id (n : Int) (by omega) (by omega)]

/-- … so: `take(n)` succeeds → nil; fails → that error; blocks → blocks -/
theorem tie_skipHeader_ext_cases (fuel : Nat) (w w1 w2 w3 : CWorld) (h : c2_SigSeen fuel w w1) (v : Bytes) (n : Nat)
    (h1 : TransCopy.BinaryCopyReader_take fuel ((copySignature.length + 4 : Nat) : Int) w1 = .ok (v, none) w2)
    (h2 : TransCopy.BinaryCopyReader_takeLength fuel w2 = .ok ((n : Int), none) w3)
    (hn : n ≠ 4294967295) (hn' : n < 4294967296) :
    (∀ v' e w4, TransCopy.BinaryCopyReader_take fuel (n : Int) w3 = .ok (v', e) w4 →
      TransCopy.BinaryCopyReader_skipHeader fuel w = .ok e w4) ∧
    (TransCopy.BinaryCopyReader_take fuel (n : Int) w3 = .block → TransCopy.BinaryCopyReader_skipHeader fuel w = .block) := by
  rw [tie_skipHeader_ext fuel w w1 w2 w3 h v n h1 h2 hn hn']
  refine ⟨?_, ?_⟩
  · intro v' e w4 h3; rw [h3, COut.bind]
  · intro h3; rw [h3, COut.bind]

/-! ### 4. `BinaryCopyReader.Read`: compositional statements -/

def c2_trailerText : Bytes := ascii "unexpected copy data after the file trailer"
theorem c2_trailerText_eq : c2_trailerText = ([117, 110, 101, 120, 112, 101, 99, 116, 101, 100, 32, 99, 111, 112, 121, 32, 100, 97, 116, 97, 32, 97, 102, 116, 101, 114, 32, 116, 104, 101, 32, 102, 105, 108, 101, 32, 116, 114, 97, 105, 108, 101, 114] : Bytes) := by decide
def c2_fieldFmt : Bytes := ascii "unexpected number of fields, %d columns are defined but %d fields were given"
theorem c2_fieldFmt_eq : c2_fieldFmt = ([117, 110, 101, 120, 112, 101, 99, 116, 101, 100, 32, 110, 117, 109, 98, 101, 114, 32, 111, 102, 32, 102, 105, 101, 108, 100, 115, 44, 32, 37, 100, 32, 99, 111, 108, 117, 109, 110, 115, 32, 97, 114, 101, 32, 100, 101, 102, 105, 110, 101, 100, 32, 98, 117, 116, 32, 37, 100, 32, 102, 105, 101, 108, 100, 115, 32, 119, 101, 114, 101, 32, 103, 105, 118, 101, 110] : Bytes) := by decide
def c2_hdrText : Bytes := ascii "unexpected header: "
theorem c2_hdrText_eq : c2_hdrText = ([117, 110, 101, 120, 112, 101, 99, 116, 101, 100, 32, 104, 101, 97, 100, 101, 114, 58, 32] : Bytes) := by decide

/-- the two copies of the field loop the translator emits (one per call site) are the same function -/
theorem c2_loop_eq : ∀ fuel, TransCopy.BinaryCopyReader_Read.loop1 fuel = TransCopy.BinaryCopyReader_Read.loop2 fuel := by
  intro fuel
  induction fuel with
  | zero => funext err fields row value t7 index w; rfl
  | succ fuel ih =>
    funext err fields row value t7 index w
    unfold TransCopy.BinaryCopyReader_Read.loop1 TransCopy.BinaryCopyReader_Read.loop2
    rw [ih]

/-- `Read` from `take(2)` on (text of the generated code, the two message literals named) -/
def c2_rowBody (fuel : Nat) (w : CWorld) : COut (List AnyV × Option CErr) :=
  (TransCopy.BinaryCopyReader_take fuel 2 w).bind fun t13 w =>
  let value := t13.1
  let err := t13.2
  if (err ≠ none) then
    .ok (([] : List AnyV), err) w
  else
    chkC (beUint16 value) fun t14 =>
    let fields := t14
    if (fields = 65535) then
      (TransCopy.BinaryCopyReader_fill fuel 1 w).bind fun t15 w =>
      let err := t15
      if (err = (some (CErr.lib Err.eof))) then
        .ok (([] : List AnyV), (some (CErr.lib Err.eof))) w
      else
        if (err ≠ none) then
          .ok (([] : List AnyV), err) w
        else
          .ok (([] : List AnyV), (some (CErr.new c2_trailerText))) w
    else
      if ((i64 fields) ≠ (w.bin.nscanners : Int)) then
        .ok (([] : List AnyV), (some (CErr.errorf c2_fieldFmt [(w.bin.nscanners : Int), fields]))) w
      else
        chkC (makeAnys fields) fun t16 =>
        let row := t16
        let t17 : Int := fields
        let index : Int := 0
        TransCopy.BinaryCopyReader_Read.loop2 fuel err fields row value t17 index w

/-- `Read` from `fill(2)` on -/
def c2_rowPart (fuel : Nat) (w : CWorld) : COut (List AnyV × Option CErr) :=
  (TransCopy.BinaryCopyReader_fill fuel 2 w).bind fun t12 w =>
  let err := t12
  if ((err = (some (CErr.lib Err.eof))) ∧ ((w.bin.pending.length : Int) = 0)) then
    .ok (([] : List AnyV), (some (CErr.lib Err.eof))) w
  else
    if ((err ≠ none) ∧ (err ≠ (some (CErr.lib Err.eof)))) then
      .ok (([] : List AnyV), err) w
    else
      c2_rowBody fuel w

/-- a context error is returned before anything is read -/
theorem tie_binRead_ctx (fuel : Nat) (w : CWorld) (h : w.ctxErr ≠ none) :
    TransCopy.BinaryCopyReader_Read fuel w = .ok ([], w.ctxErr) w := by
  unfold TransCopy.BinaryCopyReader_Read
  rw [if_pos h]

/-- header already skipped: `Read` is the row part (`binRead`, `b.started`) -/
theorem tie_binRead_started (fuel : Nat) (w : CWorld) (hc : w.ctxErr = none) (hs : w.bin.started = true) :
    TransCopy.BinaryCopyReader_Read fuel w = c2_rowPart fuel w := by
  have h1 : ¬ (w.ctxErr ≠ none) := by simp [hc]
  have h2 : ¬ ¬ (w.bin.started = true) := by simp [hs]
  unfold TransCopy.BinaryCopyReader_Read
  rw [if_neg h1, if_neg h2]
  unfold c2_rowPart c2_rowBody
  rw [c2_trailerText_eq, c2_fieldFmt_eq]

/-- first call: `started` is set, `skipHeader` runs; its error is wrapped ("unexpected header: %w"), otherwise the
    row part follows (`binRead`, the `hdr` match) -/
theorem tie_binRead_fresh (fuel : Nat) (w : CWorld) (hc : w.ctxErr = none) (hs : w.bin.started = false) :
    TransCopy.BinaryCopyReader_Read fuel w =
      (TransCopy.BinaryCopyReader_skipHeader fuel { w with bin := { w.bin with started := true } }).bind fun t1 w =>
        if (t1 ≠ none) then .ok (([] : List AnyV), errorfW c2_hdrText ([] : Bytes) t1) w
        else c2_rowPart fuel w := by
  have h1 : ¬ (w.ctxErr ≠ none) := by simp [hc]
  have h2 : ¬ (w.bin.started = true) := by simp [hs]
  unfold TransCopy.BinaryCopyReader_Read
  rw [if_neg h1, if_pos h2, c2_loop_eq]
  unfold c2_rowPart c2_rowBody
  rw [c2_trailerText_eq, c2_fieldFmt_eq, c2_hdrText_eq]

/-! row start (`binRowStart`) -/

/-- `fill(2)` reports `io.EOF` with nothing pending: the stream ended between two rows, `Read` returns `io.EOF` -/
theorem tie_rowPart_eof (fuel : Nat) (w w1 : CWorld)
    (hf : TransCopy.BinaryCopyReader_fill fuel 2 w = .ok (some (.lib .eof)) w1) (hp : w1.bin.pending = []) :
    c2_rowPart fuel w = .ok ([], some (.lib .eof)) w1 := by
  have hg : (some (CErr.lib Go.Err.eof) = some (CErr.lib Go.Err.eof)) ∧ ((w1.bin.pending.length : Int) = 0) := by
    rw [hp]; exact ⟨rfl, rfl⟩
  unfold c2_rowPart
  rw [hf, COut.bind, if_pos hg]

/-- `fill(2)` fails otherwise: the error is returned unwrapped -/
theorem tie_rowPart_err (fuel : Nat) (w w1 : CWorld) (e : CErr)
    (hf : TransCopy.BinaryCopyReader_fill fuel 2 w = .ok (some e) w1) (he : e ≠ .lib .eof) :
    c2_rowPart fuel w = .ok ([], some e) w1 := by
  have hg : ¬ ((some e = some (CErr.lib Go.Err.eof)) ∧ ((w1.bin.pending.length : Int) = 0)) := by simp [he]
  have hg2 : (some e ≠ none) ∧ (some e ≠ some (CErr.lib Go.Err.eof)) := by simp [he]
  unfold c2_rowPart
  rw [hf, COut.bind, if_neg hg, if_pos hg2]

theorem tie_rowPart_block (fuel : Nat) (w : CWorld) (hf : TransCopy.BinaryCopyReader_fill fuel 2 w = .block) :
    c2_rowPart fuel w = .block := by
  unfold c2_rowPart
  rw [hf, COut.bind]

/-- `fill(2)` returned nil, or `io.EOF` with a byte pending: on to the field count -/
theorem tie_rowPart_body (fuel : Nat) (w w1 : CWorld) (e : Option CErr)
    (hf : TransCopy.BinaryCopyReader_fill fuel 2 w = .ok e w1)
    (he : e = none ∨ (e = some (.lib .eof) ∧ w1.bin.pending ≠ [])) :
    c2_rowPart fuel w = c2_rowBody fuel w1 := by
  have hg : ¬ ((e = some (CErr.lib Go.Err.eof)) ∧ ((w1.bin.pending.length : Int) = 0)) := by
    rcases he with he | ⟨_, he⟩
    · simp [he]
    · intro ⟨_, h⟩; exact he (List.length_eq_zero_iff.mp (by omega))
  have hg2 : ¬ ((e ≠ none) ∧ (e ≠ some (CErr.lib Go.Err.eof))) := by
    rcases he with he | ⟨he, _⟩ <;> simp [he]
  unfold c2_rowPart
  rw [hf, COut.bind, if_neg hg, if_neg hg2]

/-! row body (`binRowBody`) -/

/-- the 16-bit big-endian value of two bytes -/
def c2_be16val (a b : UInt8) : Nat := a.toNat * 256 + b.toNat
theorem c2_beUint16 (a b : UInt8) (r : Bytes) : beUint16 (a :: b :: r) = .ok ((c2_be16val a b : Nat) : Int) := rfl
theorem c2_fieldCount (a b : UInt8) (r : Bytes) : fieldCount (a :: b :: r) = c2_be16val a b := rfl
theorem c2_be16val_lt (a b : UInt8) : c2_be16val a b < 65536 := by
  have := a.toNat_lt; have := b.toNat_lt; unfold c2_be16val; omega

theorem tie_rowBody_take_err (fuel : Nat) (w w2 : CWorld) (v : Bytes) (e : CErr)
    (ht : TransCopy.BinaryCopyReader_take fuel 2 w = .ok (v, some e) w2) :
    c2_rowBody fuel w = .ok ([], some e) w2 := by
  unfold c2_rowBody
  rw [ht, COut.bind, if_pos (c2_some_ne_none e)]

theorem tie_rowBody_take_block (fuel : Nat) (w : CWorld)
    (ht : TransCopy.BinaryCopyReader_take fuel 2 w = .block) : c2_rowBody fuel w = .block := by
  unfold c2_rowBody
  rw [ht, COut.bind]

/-- the file trailer 0xFFFF: `fill(1)` decides — `io.EOF` → `io.EOF`; another error → that error; a byte arrives →
    "unexpected copy data after the file trailer" (the model's text); blocked → blocked -/
theorem tie_rowBody_trailer (fuel : Nat) (w w2 : CWorld) (a b : UInt8) (r : Bytes)
    (ht : TransCopy.BinaryCopyReader_take fuel 2 w = .ok (a :: b :: r, none) w2) (hc : c2_be16val a b = 65535) :
    (∀ w3, TransCopy.BinaryCopyReader_fill fuel 1 w2 = .ok (some (.lib .eof)) w3 →
        c2_rowBody fuel w = .ok ([], some (.lib .eof)) w3) ∧
    (∀ e w3, TransCopy.BinaryCopyReader_fill fuel 1 w2 = .ok (some e) w3 → e ≠ .lib .eof →
        c2_rowBody fuel w = .ok ([], some e) w3) ∧
    (∀ w3, TransCopy.BinaryCopyReader_fill fuel 1 w2 = .ok none w3 →
        c2_rowBody fuel w = .ok ([], some (.new c2_trailerText)) w3) ∧
    (TransCopy.BinaryCopyReader_fill fuel 1 w2 = .block → c2_rowBody fuel w = .block) ∧
    absErr (.new c2_trailerText) = .lib (.base (ascii "unexpected copy data after the file trailer")) := by
  have h65 : ((c2_be16val a b : Nat) : Int) = 65535 := by omega
  have e0 : c2_rowBody fuel w = (TransCopy.BinaryCopyReader_fill fuel 1 w2).bind fun t15 w =>
      if (t15 = (some (CErr.lib Go.Err.eof))) then .ok (([] : List AnyV), (some (CErr.lib Go.Err.eof))) w
      else if (t15 ≠ none) then .ok (([] : List AnyV), t15) w
      else .ok (([] : List AnyV), (some (CErr.new c2_trailerText))) w := by
    unfold c2_rowBody
    rw [ht, COut.bind, if_neg c2_not_none_ne, c2_beUint16, c2_chkC_ok, if_pos h65]
  rw [e0]
  refine ⟨?_, ?_, ?_, ?_, rfl⟩
  · intro w3 h; rw [h, COut.bind, if_pos rfl]
  · intro e w3 h he
    have h1 : ¬ (some e = some (CErr.lib Go.Err.eof)) := by simp [he]
    rw [h, COut.bind, if_neg h1, if_pos (c2_some_ne_none e)]
  · intro w3 h
    have h1 : ¬ ((none : Option CErr) = some (CErr.lib Go.Err.eof)) := by simp
    rw [h, COut.bind, if_neg h1, if_neg c2_not_none_ne]
  · intro h; rw [h, COut.bind]

/-- the structured `fmt.Errorf` value of the field-count check is the model's `errFieldCount` -/
theorem absErr_fieldCount (n f : Nat) :
    absErr (.errorf c2_fieldFmt [(n : Int), (f : Int)]) = .lib (errFieldCount n f) := by
  have h1 : ascii "unexpected number of fields, " = [117, 110, 101, 120, 112, 101, 99, 116, 101, 100, 32, 110, 117, 109, 98, 101, 114, 32, 111, 102, 32, 102, 105, 101, 108, 100, 115, 44, 32] := by decide
  have h2 : ascii " columns are defined but " = [32, 99, 111, 108, 117, 109, 110, 115, 32, 97, 114, 101, 32, 100, 101, 102, 105, 110, 101, 100, 32, 98, 117, 116, 32] := by decide
  have h3 : ascii " fields were given" = [32, 102, 105, 101, 108, 100, 115, 32, 119, 101, 114, 101, 32, 103, 105, 118, 101, 110] := by decide
  unfold errFieldCount
  rw [h1, h2, h3, c2_fieldFmt_eq]
  simp [absErr, fmtD, decInt_nat]

/-- a field count other than the number of columns: the model's `errFieldCount` -/
theorem tie_rowBody_count_mismatch (fuel : Nat) (w w2 : CWorld) (a b : UInt8) (r : Bytes)
    (ht : TransCopy.BinaryCopyReader_take fuel 2 w = .ok (a :: b :: r, none) w2) (hc : c2_be16val a b ≠ 65535)
    (hn : c2_be16val a b ≠ w2.bin.nscanners) :
    c2_rowBody fuel w =
      .ok ([], some (.errorf c2_fieldFmt [(w2.bin.nscanners : Int), (c2_be16val a b : Nat)])) w2 ∧
    absErr (.errorf c2_fieldFmt [(w2.bin.nscanners : Int), (c2_be16val a b : Nat)]) =
      .lib (errFieldCount w2.bin.nscanners (fieldCount (a :: b :: r))) := by
  refine ⟨?_, by rw [absErr_fieldCount, c2_fieldCount]⟩
  have hlt := c2_be16val_lt a b
  have h65 : ¬ (((c2_be16val a b : Nat) : Int) = 65535) := by omega
  have hi := c2_i64_id ((c2_be16val a b : Nat) : Int) (by omega) (by omega)
  have hne : ((c2_be16val a b : Nat) : Int) ≠ (w2.bin.nscanners : Int) := by omega
  unfold c2_rowBody
  rw [ht, COut.bind, if_neg c2_not_none_ne, c2_beUint16, c2_chkC_ok, if_neg h65, hi, if_pos hne]

theorem c2_makeAnys (n : Nat) : makeAnys (n : Int) = .ok (List.replicate n .nil) := by
  have : ¬ ((n : Int) < 0) := by omega
  simp [makeAnys, this]

/-- the field count matches: a row of `nil`s is made and the field loop starts at index 0 -/
theorem tie_rowBody_fields (fuel : Nat) (w w2 : CWorld) (a b : UInt8) (r : Bytes)
    (ht : TransCopy.BinaryCopyReader_take fuel 2 w = .ok (a :: b :: r, none) w2) (hc : c2_be16val a b ≠ 65535)
    (hn : c2_be16val a b = w2.bin.nscanners) :
    c2_rowBody fuel w =
      TransCopy.BinaryCopyReader_Read.loop2 fuel none (c2_be16val a b : Nat) (List.replicate (c2_be16val a b) .nil)
        (a :: b :: r) (c2_be16val a b : Nat) 0 w2 := by
  have hlt := c2_be16val_lt a b
  have h65 : ¬ (((c2_be16val a b : Nat) : Int) = 65535) := by omega
  have hi := c2_i64_id ((c2_be16val a b : Nat) : Int) (by omega) (by omega)
  have hne : ¬ (((c2_be16val a b : Nat) : Int) ≠ (w2.bin.nscanners : Int)) := by omega
  unfold c2_rowBody
  rw [ht, COut.bind, if_neg c2_not_none_ne, c2_beUint16, c2_chkC_ok, if_neg h65, hi, if_neg hne, c2_makeAnys, c2_chkC_ok]

/-! the field loop (`binFields`) -/

def c2_fieldLenText : Bytes := ascii "unexpected field length: "
theorem c2_fieldLenText_eq : c2_fieldLenText = ([117, 110, 101, 120, 112, 101, 99, 116, 101, 100, 32, 102, 105, 101, 108, 100, 32, 108, 101, 110, 103, 116, 104, 58, 32] : Bytes) := by decide
def c2_valueText : Bytes := ascii "unexpected value: "
theorem c2_valueText_eq : c2_valueText = ([117, 110, 101, 120, 112, 101, 99, 116, 101, 100, 32, 118, 97, 108, 117, 101, 58, 32] : Bytes) := by decide

/-- `fmt.Errorf(pre + "%w", err)` through `absErr` is the model's `wrapOp` -/
theorem absErr_wrap (pre : String) (e : CErr) : absErr (.wrap (ascii pre) [] e) = wrapOp pre (absErr e) := by
  cases h : absErr e <;> simp [absErr, wrapOp, h]

/-- all fields read: the row is returned -/
theorem tie_fieldLoop_done (fuel : Nat) (err : Option CErr) (fields : Int) (row : List AnyV) (value : Bytes)
    (t index : Int) (w : CWorld) (h : ¬ (index < t)) :
    TransCopy.BinaryCopyReader_Read.loop2 (fuel + 1) err fields row value t index w = .ok (row, none) w := by
  unfold TransCopy.BinaryCopyReader_Read.loop2
  rw [if_neg h]

/-- one iteration of the field loop, up to the result of `takeLength` -/
theorem c2_fieldLoop_step (fuel : Nat) (err : Option CErr) (fields : Int) (row : List AnyV) (value : Bytes)
    (t index : Int) (w : CWorld) (h : index < t) :
    TransCopy.BinaryCopyReader_Read.loop2 (fuel + 1) err fields row value t index w =
      (TransCopy.BinaryCopyReader_takeLength fuel w).bind fun t18 w =>
        if (t18.2 ≠ none) then .ok (([] : List AnyV), errorfW c2_fieldLenText ([] : Bytes) t18.2) w
        else if (t18.1 = 4294967295) then
          TransCopy.BinaryCopyReader_Read.loop2 fuel err fields row value t (index + 1) w
        else (TransCopy.BinaryCopyReader_take fuel (i64 t18.1) w).bind fun t19 w =>
          if (t19.2 ≠ none) then .ok (([] : List AnyV), errorfW c2_valueText ([] : Bytes) t19.2) w
          else (scanCall index t19.1 w).bind fun t20 w =>
            chkC (anySet row index t20.1) fun t21 =>
              if (t20.2 ≠ none) then .ok (([] : List AnyV), t20.2) w
              else TransCopy.BinaryCopyReader_Read.loop2 fuel err fields t21 value t (index + 1) w := by
  conv => lhs; unfold TransCopy.BinaryCopyReader_Read.loop2
  rw [if_pos h, c2_fieldLenText_eq, c2_valueText_eq]

/-- `takeLength` fails: "unexpected field length: %w" (the model's `wrapOp`) -/
theorem tie_fieldLoop_len_err (fuel : Nat) (err : Option CErr) (fields : Int) (row : List AnyV) (value : Bytes)
    (t index : Int) (w w1 : CWorld) (h : index < t) (n : Int) (e : CErr)
    (hl : TransCopy.BinaryCopyReader_takeLength fuel w = .ok (n, some e) w1) :
    TransCopy.BinaryCopyReader_Read.loop2 (fuel + 1) err fields row value t index w =
      .ok ([], some (.wrap c2_fieldLenText [] e)) w1 ∧
    absErr (.wrap c2_fieldLenText [] e) = wrapOp "unexpected field length: " (absErr e) := by
  refine ⟨?_, absErr_wrap _ e⟩
  rw [c2_fieldLoop_step _ _ _ _ _ _ _ _ h, hl, COut.bind, if_pos (c2_some_ne_none e)]
  rfl

theorem tie_fieldLoop_len_block (fuel : Nat) (err : Option CErr) (fields : Int) (row : List AnyV) (value : Bytes)
    (t index : Int) (w : CWorld) (h : index < t)
    (hl : TransCopy.BinaryCopyReader_takeLength fuel w = .block) :
    TransCopy.BinaryCopyReader_Read.loop2 (fuel + 1) err fields row value t index w = .block := by
  rw [c2_fieldLoop_step _ _ _ _ _ _ _ _ h, hl, COut.bind]

/-- a NULL field (length 0xFFFFFFFF): the loop goes on to the next index with the SAME row (the entry stays `nil`)
    in the world `takeLength` left — no `take`, no scanner call (`binFields`: `.null :: vs`) -/
theorem tie_fieldLoop_null (fuel : Nat) (err : Option CErr) (fields : Int) (row : List AnyV) (value : Bytes)
    (t index : Int) (w w1 : CWorld) (h : index < t)
    (hl : TransCopy.BinaryCopyReader_takeLength fuel w = .ok (4294967295, none) w1) :
    TransCopy.BinaryCopyReader_Read.loop2 (fuel + 1) err fields row value t index w =
      TransCopy.BinaryCopyReader_Read.loop2 fuel err fields row value t (index + 1) w1 := by
  rw [c2_fieldLoop_step _ _ _ _ _ _ _ _ h, hl, COut.bind, if_neg c2_not_none_ne, if_pos rfl]

/-- a NULL field does not consult the scanners: with any other scanner table the step is the same -/
theorem tie_fieldLoop_null_noscan (fuel : Nat) (err : Option CErr) (fields : Int) (row : List AnyV) (value : Bytes)
    (t index : Int) (w w1 : CWorld) (h : index < t)
    (hl : TransCopy.BinaryCopyReader_takeLength fuel w = .ok (4294967295, none) w1) :
    ∃ w', TransCopy.BinaryCopyReader_Read.loop2 (fuel + 1) err fields row value t index w =
      TransCopy.BinaryCopyReader_Read.loop2 fuel err fields row value t (index + 1) w' ∧ w'.bin = w1.bin ∧
      w'.base = w1.base :=
  ⟨w1, tie_fieldLoop_null fuel err fields row value t index w w1 h hl, rfl, rfl⟩

/-- `take(length)` fails: "unexpected value: %w" -/
theorem tie_fieldLoop_value_err (fuel : Nat) (err : Option CErr) (fields : Int) (row : List AnyV) (value : Bytes)
    (t index : Int) (w w1 w2 : CWorld) (h : index < t) (n : Nat) (v : Bytes) (e : CErr)
    (hl : TransCopy.BinaryCopyReader_takeLength fuel w = .ok ((n : Int), none) w1)
    (hn : n ≠ 4294967295) (hn' : n < 4294967296)
    (hv : TransCopy.BinaryCopyReader_take fuel (n : Int) w1 = .ok (v, some e) w2) :
    TransCopy.BinaryCopyReader_Read.loop2 (fuel + 1) err fields row value t index w =
      .ok ([], some (.wrap c2_valueText [] e)) w2 ∧
    absErr (.wrap c2_valueText [] e) = wrapOp "unexpected value: " (absErr e) := by
  refine ⟨?_, absErr_wrap _ e⟩
  have hne : ¬ ((n : Int) = 4294967295) := by omega
  rw [c2_fieldLoop_step _ _ _ _ _ _ _ _ h, hl, COut.bind, if_neg c2_not_none_ne, if_neg hne,
    c2_i64_id (n : Int) (by omega) (by omega), hv, COut.bind, if_pos (c2_some_ne_none e)]
  rfl

/-- a value: the scanner of that column is called once with exactly the bytes `take` returned; its error ends `Read`,
    otherwise its value is stored at `index` and the loop goes on -/
theorem tie_fieldLoop_value (fuel : Nat) (err : Option CErr) (fields : Int) (row : List AnyV) (value : Bytes)
    (t : Int) (index : Nat) (w w1 w2 : CWorld) (h : (index : Int) < t) (n : Nat) (v : Bytes)
    (hl : TransCopy.BinaryCopyReader_takeLength fuel w = .ok ((n : Int), none) w1)
    (hn : n ≠ 4294967295) (hn' : n < 4294967296)
    (hv : TransCopy.BinaryCopyReader_take fuel (n : Int) w1 = .ok (v, none) w2)
    (hi : index < w2.bin.nscanners) (hr : index < row.length) :
    TransCopy.BinaryCopyReader_Read.loop2 (fuel + 1) err fields row value t index w =
      if ((w2.scan index v).2 ≠ none) then .ok ([], (w2.scan index v).2) w2
      else TransCopy.BinaryCopyReader_Read.loop2 fuel err fields (row.set index (w2.scan index v).1) value t
        ((index : Int) + 1) w2 := by
  have hne : ¬ ((n : Int) = 4294967295) := by omega
  have hs : scanCall (index : Int) v w2 = .ok (w2.scan index v) w2 := by
    simp [scanCall, hi]
  have ha : ∀ x, anySet row (index : Int) x = .ok (row.set index x) := by
    intro x
    simp [anySet, hr]
  rw [c2_fieldLoop_step _ _ _ _ _ _ _ _ h, hl, COut.bind, if_neg c2_not_none_ne, if_neg hne,
    c2_i64_id (n : Int) (by omega) (by omega), hv, COut.bind, if_neg c2_not_none_ne, hs, COut.bind, ha, c2_chkC_ok]

/-! ### 3. `fill` over a stream of complete messages against `binFill`

  Inputs covered: the stream in front of the reader starts with the complete, in-limit messages `ms` (each of type
  'd', 'H', 'S' or 'c'), and the model — run on exactly these messages, nothing behind them, tail waiting — does not
  come back `blocked` (so: `fill` is decided within `ms`; running out of model fuel also counts as blocked).
  Oversized / truncated items and what follows `ms` are not covered. -/

/-- `src` starts with the complete in-limit messages `ms` (as `readItem` cuts them), `rest` follows -/
def c2_Stream (L : Nat) : List (UInt8 × Bytes) → Bytes → Bytes → Prop
  | [], src, rest => src = rest
  | p :: ms, src, rest => ∃ r, readItem L src = some (.msg p.1 p.2, r) ∧ c2_Stream L ms r rest

def c2_Allowed (ms : List (UInt8 × Bytes)) : Prop := ∀ p ∈ ms, p.1 = 100 ∨ p.1 = 72 ∨ p.1 = 83 ∨ p.1 = 99

def c2_items (ms : List (UInt8 × Bytes)) : List Item := ms.map fun p => Item.msg p.1 p.2

/-- the model's input: exactly the messages `ms`, nothing behind them yet -/
def c2_inp (L : Nat) (ms : List (UInt8 × Bytes)) (m : Bytes) (u : Bool) : Inp :=
  { L := L, items := c2_items ms, tail := .wait, msg := m, unsup := u }

/-- the model's `Bin` for the translated reader state -/
def c2_bin (oids : List Nat) (w : CWorld) : Bin :=
  { pending := w.bin.pending, started := w.bin.started, done := w.bin.done, oids := oids }

/-- the result of `fill` in the model's terms -/
def c2_absFill : Option CErr → FillRes
  | none => .ok
  | some (.lib .eof) => .eof
  | some e => .err (absErr e)

/-- the model did not run out of messages (or fuel) -/
def c2_NotBlocked : FillRes → Prop
  | .blocked => False
  | _ => True

instance : DecidablePred c2_NotBlocked := fun r => by
  cases r <;> unfold c2_NotBlocked <;> infer_instance

/-- `CopyReader.Read` over the stream: whenever the model's `copyRead` returns (does not block) within `ms`, the
    translated `Read` returns the same thing, and both are left with the same remaining messages `ms'` -/
theorem c2_read_stream (L : Nat) (rest : Bytes) (u : Bool) :
    ∀ (ms : List (UInt8 × Bytes)) (w : CWorld) (fuel mf : Nat) (m : Bytes), ReaderOK w.base →
      w.base.reader.MaxMessageSize.toNat = L → c2_Stream L ms w.base.src rest → c2_Allowed ms → ms.length + 1 ≤ fuel →
      ∀ r s', copyRead mf (c2_inp L ms m u) = (some r, s') →
      ∃ e w1 ms', TransCopy.CopyReader_Read fuel w = .ok e w1 ∧ r = absCopyRes e w1.base.reader.Msg.data ∧
        s' = c2_inp L ms' w1.base.reader.Msg.data u ∧ ReaderOK w1.base ∧
        w1.base.reader.MaxMessageSize = w.base.reader.MaxMessageSize ∧
        (w1.bin = w.bin ∧ w1.ctxErr = w.ctxErr ∧ w1.scan = w.scan) ∧
        c2_Stream L ms' w1.base.src rest ∧ c2_Allowed ms' ∧ ms'.length < ms.length ∧
        (e = none ∨ e = some (.lib .eof)) := by
  intro ms
  induction ms with
  | nil =>
    intro w fuel mf m ok hL hs ha hf r s' h
    cases mf with
    | zero => simp [copyRead] at h
    | succ mf => simp [copyRead, c2_inp, c2_items, Inp.next] at h
  | cons p ms ih =>
    intro w fuel mf m ok hL hs ha hf r s' h
    obtain ⟨t, body⟩ := p
    obtain ⟨r1, hri, hs1⟩ := hs
    have ha1 : c2_Allowed ms := fun q hq => ha q (List.mem_cons_of_mem _ hq)
    cases mf with
    | zero => simp [copyRead] at h
    | succ mf =>
      obtain ⟨f, rfl⟩ : ∃ f, fuel = f + 1 := ⟨fuel - 1, by simp at hf; omega⟩
      have hri' : readItem w.base.reader.MaxMessageSize.toNat w.base.src = some (.msg t body, r1) := by
        rw [hL]; exact hri
      by_cases ht : t = 72 ∨ t = 83
      · obtain ⟨w1, hrd, hadv, hmsg, hcr⟩ := tie_CopyRead_msg_skip f mf w ok t body r1 (c2_items ms) .wait m u hri' ht
        rw [hL] at hcr
        have h' : copyRead mf (c2_inp L ms body u) = (some r, s') := hcr.symm.trans h
        obtain ⟨hok1, hsrc1, hmax1, _, hbin1, hctx1, hscan1⟩ := hadv
        obtain ⟨e, w2, ms', hR, hr, hs', ok2, hmax2, ⟨hbin2, hctx2, hscan2⟩, hst2, ha2, hlen, hsh⟩ :=
          ih w1 f mf body hok1 (by rw [hmax1]; exact hL) (by rw [hsrc1]; exact hs1) ha1 (by simp at hf; omega) r s' h'
        exact ⟨e, w2, ms', by rw [hrd]; exact hR, hr, hs', ok2, hmax2.trans hmax1,
          ⟨hbin2.trans hbin1, hctx2.trans hctx1, hscan2.trans hscan1⟩, hst2, ha2,
          by simp; omega, hsh⟩
      · obtain ⟨e, w1, hrd, hadv, h100, h99, hne, hcr⟩ := tie_CopyRead_msg f mf w ok t body r1 (c2_items ms) .wait m u hri' ht
        rw [hL] at hcr
        have h2 := h.symm.trans hcr
        simp only [Prod.mk.injEq, Option.some.injEq] at h2
        obtain ⟨hr, hs'⟩ := h2
        obtain ⟨hok1, hsrc1, hmax1, _, hbin1, hctx1, hscan1⟩ := hadv
        refine ⟨e, w1, ms, hrd, hr, hs', hok1, hmax1, ⟨hbin1, hctx1, hscan1⟩, by rw [hsrc1]; exact hs1, ha1, by simp, ?_⟩
        have hta := ha (t, body) (List.mem_cons_self)
        simp only at hta
        rcases hta with hta | hta | hta | hta
        · exact Or.inl (h100 hta).1
        · exact absurd (Or.inl hta) ht
        · exact absurd (Or.inr hta) ht
        · exact Or.inr (h99 hta)

/-- what `fill`/`take`/`takeLength` leave alone -/
def c2_Same (w w' : CWorld) : Prop :=
  w'.bin.started = w.bin.started ∧ w'.bin.nscanners = w.bin.nscanners ∧ w'.ctxErr = w.ctxErr ∧ w'.scan = w.scan
theorem c2_Same.refl (w : CWorld) : c2_Same w w := ⟨rfl, rfl, rfl, rfl⟩
theorem c2_Same.trans {w1 w2 w3 : CWorld} (h1 : c2_Same w1 w2) (h2 : c2_Same w2 w3) : c2_Same w1 w3 :=
  ⟨h2.1.trans h1.1, h2.2.1.trans h1.2.1, h2.2.2.1.trans h1.2.2.1, h2.2.2.2.trans h1.2.2.2⟩

/-- 3. `fill` against `binFill` on a stream of complete messages: whenever the model's `binFill` (on exactly the
    messages `ms`) does not come back blocked, the translated `fill` returns, with the same result (`c2_absFill`), the
    same `pending` and `done` (`c2_bin`), the same remaining messages `ms'` in front of both, and
    `reader.Msg` = the model's `msg`. -/
theorem tie_fill_stream (L : Nat) (rest : Bytes) (u : Bool) (oids : List Nat) (size : Nat) :
    ∀ (fuel : Nat) (ms : List (UInt8 × Bytes)) (w : CWorld) (mf : Nat), ReaderOK w.base →
      w.base.reader.MaxMessageSize.toNat = L → c2_Stream L ms w.base.src rest → c2_Allowed ms → ms.length + 2 ≤ fuel →
      ∀ res b' s', binFill size mf (c2_bin oids w) (c2_inp L ms w.base.reader.Msg.data u) = (res, b', s') →
      c2_NotBlocked res →
      ∃ e w' ms', TransCopy.BinaryCopyReader_fill fuel (size : Int) w = .ok e w' ∧ res = c2_absFill e ∧
        b' = c2_bin oids w' ∧ s' = c2_inp L ms' w'.base.reader.Msg.data u ∧ ReaderOK w'.base ∧
        w'.base.reader.MaxMessageSize = w.base.reader.MaxMessageSize ∧ c2_Same w w' ∧
        c2_Stream L ms' w'.base.src rest ∧ c2_Allowed ms' ∧ ms'.length ≤ ms.length ∧
        (e = none ∨ e = some (.lib .eof)) := by
  intro fuel
  induction fuel with
  | zero => intro ms w mf ok hL hs ha hf; omega
  | succ fuel ih =>
    intro ms w mf ok hL hs ha hf res b' s' h hnb
    cases mf with
    | zero =>
      simp only [binFill, Prod.mk.injEq] at h
      rw [← h.1] at hnb; exact hnb.elim
    | succ mf =>
      unfold binFill at h
      by_cases hp : (c2_bin oids w).pending.length ≥ size
      · rw [if_pos hp] at h
        simp only [Prod.mk.injEq] at h
        obtain ⟨h1, h2, h3⟩ := h
        have hp' : (size : Int) ≤ (w.bin.pending.length : Int) := by simp [c2_bin] at hp; omega
        exact ⟨none, w, ms, tie_fill_enough fuel size w hp', h1.symm, h2.symm, h3.symm, ok, rfl, c2_Same.refl w, hs, ha,
          Nat.le_refl _, Or.inl rfl⟩
      · rw [if_neg hp] at h
        have hp' : (w.bin.pending.length : Int) < (size : Int) := by simp [c2_bin] at hp; omega
        by_cases hd : w.bin.done = true
        · have hd' : (c2_bin oids w).done = true := hd
          rw [if_pos hd'] at h
          simp only [Prod.mk.injEq] at h
          obtain ⟨h1, h2, h3⟩ := h
          exact ⟨_, w, ms, tie_fill_done fuel size w hp' hd, h1.symm, h2.symm, h3.symm, ok, rfl, c2_Same.refl w, hs, ha,
            Nat.le_refl _, Or.inr rfl⟩
        · have hd' : ¬ ((c2_bin oids w).done = true) := hd
          have hdf : w.bin.done = false := by simpa using hd
          rw [if_neg hd'] at h
          cases hc : copyRead ((c2_inp L ms w.base.reader.Msg.data u).items.length + 1)
              (c2_inp L ms w.base.reader.Msg.data u) with
          | mk ro s1 =>
            rw [hc] at h
            cases ro with
            | none =>
              simp only [Prod.mk.injEq] at h
              rw [← h.1] at hnb; exact hnb.elim
            | some r =>
              obtain ⟨e, w1, ms1, hR, hr, hs1, ok1, hmax1, ⟨hbin1, hctx1, hscan1⟩, hst1, ha1, hlen1, hsh⟩ :=
                c2_read_stream L rest u ms w fuel _ _ ok hL hs ha (by omega) r s1 hc
              rcases hsh with he | he
              · -- CopyData: the body moves to `pending`, the loop goes round
                subst he
                have hr' : r = .data w1.base.reader.Msg.data := hr
                subst hr'
                simp only at h
                have hstep := tie_fill_step_data fuel size w w1 hp' hdf hR ok1.wf
                obtain ⟨f1, f2, f3, f4, f5, f6, f7⟩ := fillStep_facts w1
                have hb : ({ c2_bin oids w with pending := (c2_bin oids w).pending ++ w1.base.reader.Msg.data } : Bin) =
                    c2_bin oids (fillStep w1) := by
                  simp [c2_bin, f1, f3, f4, hbin1]
                have hi : ({ s1 with msg := [] } : Inp) = c2_inp L ms1 (fillStep w1).base.reader.Msg.data u := by
                  rw [hs1, f2]; rfl
                rw [hb, hi] at h
                obtain ⟨e, w', ms', g1, g2, g3, g4, g5, g6, g7, g8, g9, g10, g11⟩ :=
                  ih ms1 (fillStep w1) mf (fillStep_ok w1 ok1) (by rw [f6, hmax1]; exact hL) (by rw [f5]; exact hst1) ha1
                    (by omega) res b' s' h hnb
                exact ⟨e, w', ms', by rw [hstep]; exact g1, g2, g3, g4, g5, by rw [g6, f6, hmax1],
                  c2_Same.trans (w2 := fillStep w1) ⟨by rw [f4, hbin1], by simp [fillStep, hbin1], hctx1, hscan1⟩ g7,
                  g8, g9, by omega, g11⟩
              · -- CopyDone: `done` is set
                subst he
                have hr' : r = .eof := hr
                subst hr'
                simp only [Prod.mk.injEq] at h
                obtain ⟨h1, h2, h3⟩ := h
                refine ⟨_, _, ms1, tie_fill_step_eof fuel size w w1 hp' hdf hR, h1.symm, ?_, ?_, ok1, hmax1, ?_, hst1, ha1,
                  by omega, Or.inr rfl⟩
                · rw [← h2]; simp [c2_bin, hbin1]
                · rw [← h3]; exact hs1
                · exact ⟨by simp [hbin1], by simp [hbin1], hctx1, hscan1⟩

/-- `take` against `binTake` on such a stream: the model's `.ok v` is the translated `(v, nil)`, and the worlds agree -/
theorem tie_take_stream (L : Nat) (rest : Bytes) (u : Bool) (oids : List Nat) (size fuel : Nat)
    (ms : List (UInt8 × Bytes)) (w : CWorld) (ok : ReaderOK w.base) (hL : w.base.reader.MaxMessageSize.toNat = L)
    (hs : c2_Stream L ms w.base.src rest) (ha : c2_Allowed ms) (hf : ms.length + 2 ≤ fuel) (v : Bytes) (b' : Bin) (s' : Inp)
    (h : binTake size (c2_bin oids w) (c2_inp L ms w.base.reader.Msg.data u) = (.ok v, b', s')) :
    ∃ w' ms', TransCopy.BinaryCopyReader_take fuel (size : Int) w = .ok (v, none) w' ∧ b' = c2_bin oids w' ∧
      s' = c2_inp L ms' w'.base.reader.Msg.data u ∧ ReaderOK w'.base ∧
      w'.base.reader.MaxMessageSize = w.base.reader.MaxMessageSize ∧
      c2_Stream L ms' w'.base.src rest ∧ c2_Allowed ms' ∧ ms'.length ≤ ms.length := by
  unfold binTake at h
  cases hb : binFill size (binFuel (c2_inp L ms w.base.reader.Msg.data u)) (c2_bin oids w)
      (c2_inp L ms w.base.reader.Msg.data u) with
  | mk res p =>
    obtain ⟨b1, s1⟩ := p
    rw [hb] at h
    cases res with
    | eof => simp at h
    | err e => simp at h
    | blocked => simp at h
    | ok =>
      simp only [Prod.mk.injEq, TakeRes.ok.injEq] at h
      obtain ⟨h1, h2, h3⟩ := h
      obtain ⟨e, w', ms', g1, g2, g3, g4, g5, g6, g7, g8, g9, g10, g11⟩ :=
        tie_fill_stream L rest u oids size fuel ms w _ ok hL hs ha hf _ _ _ hb trivial
      have he : e = none := by
        rcases g11 with g | g
        · exact g
        · subst g; cases g2
      subst he
      refine ⟨takeW w' size, ms', ?_, ?_, ?_, g5, g6, g8, g9, g10⟩
      · rw [tie_take_ok fuel size w w' g1, ← h1, g3]; rfl
      · rw [← h2, g3]; rfl
      · rw [← h3, g4]; rfl

/-! ### 3b. the simulation relation, and `fill` / `take` / `takeLength` / `skipHeader` against the model on such streams -/

/-- the translated world `w` in front of the complete messages `ms` and the model state `(b, s)` describe the same
    situation -/
structure c2_Sim (L : Nat) (rest : Bytes) (u : Bool) (oids : List Nat) (w : CWorld) (ms : List (UInt8 × Bytes))
    (b : Bin) (s : Inp) : Prop where
  ok : ReaderOK w.base
  hL : w.base.reader.MaxMessageSize.toNat = L
  st : c2_Stream L ms w.base.src rest
  al : c2_Allowed ms
  hb : b = c2_bin oids w
  hs : s = c2_inp L ms w.base.reader.Msg.data u

theorem tie_fill_sim {L : Nat} {rest : Bytes} {u : Bool} {oids : List Nat} {w : CWorld} {ms : List (UInt8 × Bytes)}
    {b : Bin} {s : Inp} (sim : c2_Sim L rest u oids w ms b s) (size fuel mf : Nat) (hf : ms.length + 2 ≤ fuel)
    (res : FillRes) (b' : Bin) (s' : Inp) (h : binFill size mf b s = (res, b', s')) (hnb : c2_NotBlocked res) :
    ∃ e w' ms', TransCopy.BinaryCopyReader_fill fuel (size : Int) w = .ok e w' ∧ res = c2_absFill e ∧
      (e = none ∨ e = some (.lib .eof)) ∧ c2_Sim L rest u oids w' ms' b' s' ∧ c2_Same w w' ∧ ms'.length ≤ ms.length := by
  obtain ⟨ok, hL, st, al, hb, hs⟩ := sim
  subst hb; subst hs
  obtain ⟨e, w', ms', g1, g2, g3, g4, g5, g6, g7, g8, g9, g10, g11⟩ :=
    tie_fill_stream L rest u oids size fuel ms w mf ok hL st al hf res b' s' h hnb
  exact ⟨e, w', ms', g1, g2, g11, ⟨g5, by rw [g6]; exact hL, g8, g9, g3, g4⟩, g7, g10⟩

def c2_TakeNB : TakeRes → Prop
  | .blocked => False
  | _ => True

/-- `take` against `binTake`: the value, or `io.ErrUnexpectedEOF` when the stream ended (CopyDone) first -/
theorem tie_take_sim {L : Nat} {rest : Bytes} {u : Bool} {oids : List Nat} {w : CWorld} {ms : List (UInt8 × Bytes)}
    {b : Bin} {s : Inp} (sim : c2_Sim L rest u oids w ms b s) (size fuel : Nat) (hf : ms.length + 2 ≤ fuel)
    (res : TakeRes) (b' : Bin) (s' : Inp) (h : binTake size b s = (res, b', s')) (hnb : c2_TakeNB res) :
    ∃ v e w' ms', TransCopy.BinaryCopyReader_take fuel (size : Int) w = .ok (v, e) w' ∧
      ((e = none ∧ res = .ok v ∧ v.length = size) ∨
       (e = some (.lib .unexpectedEOF) ∧ res = .err (absErr (.lib .unexpectedEOF)))) ∧
      c2_Sim L rest u oids w' ms' b' s' ∧ c2_Same w w' ∧ ms'.length ≤ ms.length := by
  unfold binTake at h
  cases hb : binFill size (binFuel s) b s with
  | mk fr p =>
    obtain ⟨b1, s1⟩ := p
    rw [hb] at h
    cases fr with
    | blocked =>
      simp only [Prod.mk.injEq] at h
      rw [← h.1] at hnb; exact hnb.elim
    | err e =>
      obtain ⟨e', w', ms', g1, g2, g3, _⟩ := tie_fill_sim sim size fuel _ hf _ _ _ hb trivial
      rcases g3 with g | g <;> subst g <;> cases g2
    | eof =>
      simp only [Prod.mk.injEq] at h
      obtain ⟨h1, h2, h3⟩ := h
      subst h1; subst h2; subst h3
      obtain ⟨e', w', ms', g1, g2, g3, g4, g5, g6⟩ := tie_fill_sim sim size fuel _ hf _ _ _ hb trivial
      have he : e' = some (.lib .eof) := by
        rcases g3 with g | g
        · subst g; cases g2
        · exact g
      subst he
      exact ⟨[], _, w', ms', tie_take_eof fuel size w w' g1, Or.inr ⟨rfl, rfl⟩, g4, g5, g6⟩
    | ok =>
      simp only [Prod.mk.injEq] at h
      obtain ⟨h1, h2, h3⟩ := h
      subst h1; subst h2; subst h3
      obtain ⟨e', w', ms', g1, g2, g3, g4, g5, g6⟩ := tie_fill_sim sim size fuel _ hf _ _ _ hb trivial
      have he : e' = none := by
        rcases g3 with g | g
        · exact g
        · subst g; cases g2
      subst he
      have hp := fill_post fuel size w w' g1
      obtain ⟨ok', hL', st', al', hb', hs'⟩ := g4
      refine ⟨_, none, takeW w' size, ms', tie_take_ok fuel size w w' g1, Or.inl ⟨rfl, ?_, ?_⟩,
        ⟨ok', hL', st', al', ?_, hs'⟩, ⟨g5.1, g5.2.1, g5.2.2.1, g5.2.2.2⟩, g6⟩
      · rw [hb']; rfl
      · rw [List.length_take]; omega
      · rw [hb']; rfl

def c2_LenNB : LenRes → Prop
  | .blocked => False
  | _ => True

theorem c2_len4 (v : Bytes) (h : v.length = 4) : ∃ x y z t, v = [x, y, z, t] := by
  match v, h with
  | [x, y, z, t], _ => exact ⟨x, y, z, t, rfl⟩

/-- `takeLength` against `binTakeLength`: the length (below 2^32; 0xFFFFFFFF or within the limit), or an error that is
    the model's error through `absErr` -/
theorem tie_takeLength_sim {L : Nat} {rest : Bytes} {u : Bool} {oids : List Nat} {w : CWorld} {ms : List (UInt8 × Bytes)}
    {b : Bin} {s : Inp} (sim : c2_Sim L rest u oids w ms b s) (fuel : Nat) (hf : ms.length + 2 ≤ fuel)
    (res : LenRes) (b' : Bin) (s' : Inp) (h : binTakeLength b s = (res, b', s')) (hnb : c2_LenNB res) :
    ∃ n e w' ms', TransCopy.BinaryCopyReader_takeLength fuel w = .ok (n, e) w' ∧
      ((∃ k : Nat, e = none ∧ n = (k : Int) ∧ res = .ok k ∧ k < 4294967296) ∨
       (∃ e', e = some e' ∧ res = .err (absErr e'))) ∧
      c2_Sim L rest u oids w' ms' b' s' ∧ c2_Same w w' ∧ ms'.length ≤ ms.length := by
  unfold binTakeLength at h
  cases hb : binTake 4 b s with
  | mk tr p =>
    obtain ⟨b1, s1⟩ := p
    rw [hb] at h
    cases tr with
    | blocked =>
      simp only [Prod.mk.injEq] at h
      rw [← h.1] at hnb; exact hnb.elim
    | err e =>
      simp only [Prod.mk.injEq] at h
      obtain ⟨h1, h2, h3⟩ := h
      subst h1; subst h2; subst h3
      obtain ⟨v, e', w', ms', g1, g2, g4, g5, g6⟩ := tie_take_sim sim 4 fuel hf _ _ _ hb trivial
      rcases g2 with ⟨_, g, _⟩ | ⟨g, g'⟩
      · cases g
      · subst g
        injection g' with g'
        exact ⟨0, _, w', ms', tie_takeLength_err fuel w w' v _ g1, Or.inr ⟨_, rfl, by rw [g']⟩, g4, g5, g6⟩
    | ok v =>
      obtain ⟨v', e', w', ms', g1, g2, g4, g5, g6⟩ := tie_take_sim sim 4 fuel hf _ _ _ hb trivial
      rcases g2 with ⟨ge, g, gl⟩ | ⟨_, g'⟩
      · injection g with g; subst g; subst ge
        obtain ⟨x, y, z, t, rfl⟩ := c2_len4 v gl
        have hmax := g4.ok.max
        have hlt := c2_be32val_lt x y z t
        have hsL : s1.L = w'.base.reader.MaxMessageSize.toNat := by rw [g4.hs, g4.hL]; rfl
        have hT := tie_takeLength_ok fuel w w' x y z t [] g1 hmax
        simp only [c2_rd32_be32val] at h
        rw [hsL] at h
        by_cases hc : be32val x y z t ≠ 4294967295 ∧ be32val x y z t > w'.base.reader.MaxMessageSize.toNat
        · rw [if_pos hc] at h; rw [if_pos hc] at hT
          simp only [Prod.mk.injEq] at h
          obtain ⟨h1, h2, h3⟩ := h
          subst h1; subst h2; subst h3
          exact ⟨0, _, w', ms', hT, Or.inr ⟨_, rfl, by rw [tie_takeLength_ok_abs _ _ hmax.1]⟩, g4, g5, g6⟩
        · rw [if_neg hc] at h; rw [if_neg hc] at hT
          simp only [Prod.mk.injEq] at h
          obtain ⟨h1, h2, h3⟩ := h
          subst h1; subst h2; subst h3
          exact ⟨_, none, w', ms', hT, Or.inl ⟨_, rfl, rfl, rfl, hlt⟩, g4, g5, g6⟩
      · cases g'

def c2_StepNB : StepRes → Prop
  | .blocked => False
  | _ => True

/-- the result of `skipHeader` in the model's terms -/
def c2_absStep : Option CErr → StepRes
  | none => .ok
  | some e => .err (absErr e)

/-- `skipHeader` after the signature has been seen, against `binHeaderRest` -/
theorem tie_headerRest_sim {L : Nat} {rest : Bytes} {u : Bool} {oids : List Nat} {w w1 : CWorld}
    {ms : List (UInt8 × Bytes)} {b : Bin} {s : Inp} (sim : c2_Sim L rest u oids w1 ms b s) (fuel : Nat)
    (hf : ms.length + 2 ≤ fuel) (sig : c2_SigSeen fuel w w1)
    (res : StepRes) (b' : Bin) (s' : Inp) (h : binHeaderRest b s = (res, b', s')) (hnb : c2_StepNB res) :
    ∃ e w' ms', TransCopy.BinaryCopyReader_skipHeader fuel w = .ok e w' ∧ res = c2_absStep e ∧
      c2_Sim L rest u oids w' ms' b' s' ∧ c2_Same w1 w' ∧ ms'.length ≤ ms.length := by
  unfold binHeaderRest at h
  cases ht1 : binTake (copySignature.length + 4) b s with
  | mk tr p =>
    obtain ⟨b2, s2⟩ := p
    rw [ht1] at h
    cases tr with
    | blocked =>
      simp only [Prod.mk.injEq] at h
      rw [← h.1] at hnb; exact hnb.elim
    | err e =>
      simp only [Prod.mk.injEq] at h
      obtain ⟨h1, h2, h3⟩ := h
      subst h1; subst h2; subst h3
      obtain ⟨v, e', w2, ms2, g1, g2, g4, g5, g6⟩ := tie_take_sim sim _ fuel hf _ _ _ ht1 trivial
      rcases g2 with ⟨_, g, _⟩ | ⟨g, g'⟩
      · cases g
      · subst g
        injection g' with g'
        exact ⟨_, w2, ms2, tie_skipHeader_flags_err fuel w w1 w2 sig v _ g1, by rw [g']; rfl, g4, g5, g6⟩
    | ok v =>
      obtain ⟨v', e', w2, ms2, g1, g2, g4, g5, g6⟩ := tie_take_sim sim _ fuel hf _ _ _ ht1 trivial
      rcases g2 with ⟨ge, g, _⟩ | ⟨_, g'⟩
      · injection g with g; subst g; subst ge
        simp only at h
        cases hl : binTakeLength b2 s2 with
        | mk lr p =>
          obtain ⟨b3, s3⟩ := p
          rw [hl] at h
          cases lr with
          | blocked =>
            simp only [Prod.mk.injEq] at h
            rw [← h.1] at hnb; exact hnb.elim
          | err e =>
            simp only [Prod.mk.injEq] at h
            obtain ⟨h1, h2, h3⟩ := h
            subst h1; subst h2; subst h3
            obtain ⟨n, e', w3, ms3, k1, k2, k4, k5, k6⟩ := tie_takeLength_sim g4 fuel (by omega) _ _ _ hl trivial
            rcases k2 with ⟨_, _, _, k, _⟩ | ⟨e'', ke, k'⟩
            · cases k
            · subst ke
              injection k' with k'
              exact ⟨_, w3, ms3, tie_skipHeader_extlen_err fuel w w1 w2 w3 sig v n e'' g1 k1, by rw [k']; rfl, k4,
                g5.trans k5, by omega⟩
          | ok ext =>
            obtain ⟨n, e', w3, ms3, k1, k2, k4, k5, k6⟩ := tie_takeLength_sim g4 fuel (by omega) _ _ _ hl trivial
            rcases k2 with ⟨k, ke, kn, kr, klt⟩ | ⟨e'', _, k'⟩
            · injection kr with kr; subst kr; subst ke; subst kn
              simp only at h
              by_cases hx : ext = 4294967295
              · rw [if_pos hx] at h
                simp only [Prod.mk.injEq] at h
                obtain ⟨h1, h2, h3⟩ := h
                subst h1; subst h2; subst h3; subst hx
                exact ⟨_, w3, ms3, (tie_skipHeader_ext_null fuel w w1 w2 w3 sig v g1 k1).1, rfl, k4, g5.trans k5, by omega⟩
              · rw [if_neg hx] at h
                obtain ⟨c1, c2⟩ := tie_skipHeader_ext_cases fuel w w1 w2 w3 sig v ext g1 k1 hx klt
                cases ht2 : binTake ext b3 s3 with
                | mk tr2 p =>
                  obtain ⟨b4, s4⟩ := p
                  rw [ht2] at h
                  cases tr2 with
                  | blocked =>
                    simp only [Prod.mk.injEq] at h
                    rw [← h.1] at hnb; exact hnb.elim
                  | err e =>
                    simp only [Prod.mk.injEq] at h
                    obtain ⟨h1, h2, h3⟩ := h
                    subst h1; subst h2; subst h3
                    obtain ⟨v4, e4, w4, ms4, m1, m2, m4, m5, m6⟩ := tie_take_sim k4 ext fuel (by omega) _ _ _ ht2 trivial
                    rcases m2 with ⟨_, m, _⟩ | ⟨m, m'⟩
                    · cases m
                    · subst m
                      injection m' with m'
                      exact ⟨_, w4, ms4, c1 _ _ _ m1, by rw [m']; rfl, m4, (g5.trans k5).trans m5, by omega⟩
                  | ok v4 =>
                    simp only [Prod.mk.injEq] at h
                    obtain ⟨h1, h2, h3⟩ := h
                    subst h1; subst h2; subst h3
                    obtain ⟨v4', e4, w4, ms4, m1, m2, m4, m5, m6⟩ := tie_take_sim k4 ext fuel (by omega) _ _ _ ht2 trivial
                    rcases m2 with ⟨m, _, _⟩ | ⟨_, m'⟩
                    · subst m
                      exact ⟨_, w4, ms4, c1 _ _ _ m1, rfl, m4, (g5.trans k5).trans m5, by omega⟩
                    · cases m'
            · cases k'
      · cases g'

/-- `skipHeader` against `binSkipHeader` -/
theorem tie_skipHeader_sim {L : Nat} {rest : Bytes} {u : Bool} {oids : List Nat} {w : CWorld}
    {ms : List (UInt8 × Bytes)} {b : Bin} {s : Inp} (sim : c2_Sim L rest u oids w ms b s) (fuel : Nat)
    (hf : ms.length + 2 ≤ fuel)
    (res : StepRes) (b' : Bin) (s' : Inp) (h : binSkipHeader b s = (res, b', s')) (hnb : c2_StepNB res) :
    ∃ e w' ms', TransCopy.BinaryCopyReader_skipHeader fuel w = .ok e w' ∧ res = c2_absStep e ∧
      c2_Sim L rest u oids w' ms' b' s' ∧ c2_Same w w' ∧ ms'.length ≤ ms.length := by
  unfold binSkipHeader at h
  cases hb : binFill copySignature.length (binFuel s) b s with
  | mk fr p =>
    obtain ⟨b1, s1⟩ := p
    rw [hb] at h
    have key : ∀ (hfr : c2_NotBlocked fr), binHeaderCheck b1 s1 = (res, b', s') →
        ∃ e w' ms', TransCopy.BinaryCopyReader_skipHeader fuel w = .ok e w' ∧ res = c2_absStep e ∧
          c2_Sim L rest u oids w' ms' b' s' ∧ c2_Same w w' ∧ ms'.length ≤ ms.length := by
      intro hfr hck
      obtain ⟨e0, w1, ms1, g1, g2, g3, g4, g5, g6⟩ := tie_fill_sim sim _ fuel _ hf _ _ _ hb hfr
      unfold binHeaderCheck at hck
      have hpend : b1.pending = w1.bin.pending := by rw [g4.hb]; rfl
      rw [hpend] at hck
      by_cases hpre : w1.bin.pending.take copySignature.length ≠ copySignature
      · rw [if_pos hpre] at hck
        simp only [Prod.mk.injEq] at hck
        obtain ⟨h1, h2, h3⟩ := hck
        subst h1; subst h2; subst h3
        exact ⟨none, w1, ms1, tie_skipHeader_noSig fuel w w1 e0 g1 g3 ((hasPrefix_model _).2 hpre), rfl, g4, g5, g6⟩
      · rw [if_neg hpre] at hck
        have hp : hasPrefix w1.bin.pending TransCopy.CopySignature = true := by
          cases hh : hasPrefix w1.bin.pending TransCopy.CopySignature with
          | true => rfl
          | false => exact absurd ((hasPrefix_model _).1 hh) hpre
        obtain ⟨e, w', ms', k1, k2, k3, k4, k5⟩ :=
          tie_headerRest_sim g4 fuel (by omega) ⟨e0, g1, g3, hp⟩ res b' s' hck hnb
        exact ⟨e, w', ms', k1, k2, k3, g5.trans k4, by omega⟩
    cases fr with
    | blocked =>
      simp only [Prod.mk.injEq] at h
      rw [← h.1] at hnb; exact hnb.elim
    | err e =>
      obtain ⟨e', w', ms', g1, g2, g3, _⟩ := tie_fill_sim sim _ fuel _ hf _ _ _ hb trivial
      rcases g3 with g | g <;> subst g <;> cases g2
    | eof => exact key trivial h
    | ok => exact key trivial h

/-! ### 4b. the field loop, the row part and `Read` against `binFields` / `binRowStart` / `binRead` on such streams

  The column scanners are external to copy.go.  ASSUMPTION `c2_ScanRel`: the scanner of column `i` returns the model's
  `decodeVal oid 1` of that column (through an interpretation `vm` of the opaque Go values, `vm nil = NULL`), and an
  (external) error value exactly when `decodeVal` fails; columns whose codec the model does not cover are excluded. -/

def c2_ScanRel (vm : AnyV → Val) (oids : List Nat) (scan : Nat → Bytes → AnyV × Option CErr) : Prop :=
  ∀ (pre : List Nat) (oid : Nat) (os : List Nat) (v : Bytes), oids = pre ++ oid :: os →
    match decodeVal oid 1 (some v) with
    | .ok val => (scan pre.length v).2 = none ∧ vm (scan pre.length v).1 = val
    | .err => ∃ id, (scan pre.length v).2 = some (.ext id)
    | .unsupported => True

/-- the model neither blocked nor left its coverage -/
def c2_FieldsNB : FieldsRes → Prop
  | .blocked => False
  | .unsupported => False
  | _ => True

/-- what the field loop returned, against the model's `FieldsRes`: the entries before `done` are kept, the others are
    the model's values -/
def c2_FieldsAgree (vm : AnyV → Val) (done : List AnyV) (r : List AnyV × Option CErr) : FieldsRes → Prop
  | .ok vals => ∃ tl, r = (done ++ tl, none) ∧ tl.map vm = vals
  | .err e => ∃ e', r = ([], some e') ∧ e' ≠ .lib .eof ∧ absErr e' = e
  | _ => False

theorem c2_set_done (done : List AnyV) (n : Nat) (x : AnyV) :
    (done ++ List.replicate (n + 1) AnyV.nil).set done.length x = (done ++ [x]) ++ List.replicate n AnyV.nil := by
  rw [List.set_append_right _ _ (Nat.le_refl _)]
  simp [List.replicate_succ]

theorem tie_fields_sim (vm : AnyV → Val) (hvm : vm .nil = .null) (L : Nat) (rest : Bytes) (u : Bool) (oids : List Nat)
    (err : Option CErr) (fields : Int) (value : Bytes) :
    ∀ (os pre : List Nat) (done : List AnyV) (w : CWorld) (ms : List (UInt8 × Bytes)) (b : Bin) (s : Inp) (fuel : Nat),
      oids = pre ++ os → done.length = pre.length → c2_Sim L rest u oids w ms b s → c2_ScanRel vm oids w.scan →
      w.bin.nscanners = oids.length → ms.length + os.length + 3 ≤ fuel →
      ∀ res b' s', binFields os b s = (res, b', s') → c2_FieldsNB res →
      ∃ r w' ms', TransCopy.BinaryCopyReader_Read.loop2 fuel err fields (done ++ List.replicate os.length .nil) value
          (oids.length : Int) (pre.length : Int) w = .ok r w' ∧
        c2_FieldsAgree vm done r res ∧ c2_Sim L rest u oids w' ms' b' s' ∧ c2_Same w w' ∧ ms'.length ≤ ms.length := by
  intro os
  induction os with
  | nil =>
    intro pre done w ms b s fuel ho hdl sim hsc hns hf res b' s' h hnb
    obtain ⟨f, rfl⟩ : ∃ f, fuel = f + 1 := ⟨fuel - 1, by omega⟩
    simp only [binFields, Prod.mk.injEq] at h
    obtain ⟨h1, h2, h3⟩ := h
    subst h1; subst h2; subst h3
    have hlt : ¬ ((pre.length : Int) < (oids.length : Int)) := by rw [ho]; simp
    exact ⟨_, w, ms, tie_fieldLoop_done f err fields _ value _ _ w hlt, ⟨[], by simp, rfl⟩, sim, c2_Same.refl w,
      Nat.le_refl _⟩
  | cons oid os ih =>
    intro pre done w ms b s fuel ho hdl sim hsc hns hf res b' s' h hnb
    obtain ⟨f, rfl⟩ : ∃ f, fuel = f + 1 := ⟨fuel - 1, by omega⟩
    have hlen : oids.length = pre.length + (os.length + 1) := by rw [ho]; simp
    have hlt : (pre.length : Int) < (oids.length : Int) := by omega
    have ho' : oids = (pre ++ [oid]) ++ os := by rw [ho]; simp
    have hcast : ((pre ++ [oid]).length : Int) = (pre.length : Int) + 1 := by simp
    simp only [List.length_cons] at hf ⊢
    unfold binFields at h
    cases hl : binTakeLength b s with
    | mk lr p =>
      obtain ⟨b1, s1⟩ := p
      rw [hl] at h
      cases lr with
      | blocked =>
        simp only [Prod.mk.injEq] at h
        rw [← h.1] at hnb; exact hnb.elim
      | err e =>
        simp only [Prod.mk.injEq] at h
        obtain ⟨h1, h2, h3⟩ := h
        subst h1; subst h2; subst h3
        obtain ⟨n, e', w1, ms1, k1, k2, k4, k5, k6⟩ := tie_takeLength_sim sim f (by omega) _ _ _ hl trivial
        rcases k2 with ⟨_, _, _, k, _⟩ | ⟨e'', ke, k'⟩
        · cases k
        · subst ke
          injection k' with k'
          obtain ⟨t1, t2⟩ := tie_fieldLoop_len_err f err fields (done ++ List.replicate (os.length + 1) .nil) value _ _ w w1
            hlt n e'' k1
          exact ⟨_, w1, ms1, t1, ⟨_, rfl, by simp, by rw [t2, k']⟩, k4, k5, k6⟩
      | ok len =>
        obtain ⟨n, e', w1, ms1, k1, k2, k4, k5, k6⟩ := tie_takeLength_sim sim f (by omega) _ _ _ hl trivial
        rcases k2 with ⟨k, ke, kn, kr, klt⟩ | ⟨e'', _, k'⟩
        · injection kr with kr; subst kr; subst ke; subst kn
          simp only at h
          have hsc1 : c2_ScanRel vm oids w1.scan := by rw [k5.2.2.2]; exact hsc
          have hns1 : w1.bin.nscanners = oids.length := by rw [k5.2.1]; exact hns
          by_cases hx : len = 4294967295
          · -- NULL: no `take`, no scanner
            rw [if_pos hx] at h
            subst hx
            have hstep := tie_fieldLoop_null f err fields (done ++ List.replicate (os.length + 1) .nil) value _ _ w w1 hlt k1
            cases hrec : binFields os b1 s1 with
            | mk res1 p =>
              obtain ⟨b2, s2⟩ := p
              rw [hrec] at h
              have hnb1 : c2_FieldsNB res1 := by
                cases res1 <;> simp only [Prod.mk.injEq] at h <;> first | trivial | (rw [← h.1] at hnb; exact hnb.elim)
              obtain ⟨r, w', ms', g1, g2, g3, g4, g5⟩ :=
                ih (pre ++ [oid]) (done ++ [.nil]) w1 ms1 b1 s1 f ho' (by simp [hdl]) k4 hsc1 hns1 (by omega) _ _ _ hrec hnb1
              rw [hcast, List.append_assoc, List.singleton_append, ← List.replicate_succ] at g1
              refine ⟨r, w', ms', by rw [hstep]; exact g1, ?_, ?_, k5.trans g4, by omega⟩
              · cases res1 with
                | ok vs =>
                  simp only [Prod.mk.injEq] at h
                  rw [← h.1]
                  obtain ⟨tl, q1, q2⟩ := g2
                  exact ⟨.nil :: tl, by rw [q1]; simp, by simp [hvm, q2]⟩
                | err e =>
                  simp only [Prod.mk.injEq] at h
                  rw [← h.1]; exact g2
                | blocked => exact hnb1.elim
                | unsupported => exact hnb1.elim
              · cases res1 <;> simp only [Prod.mk.injEq] at h <;> (rw [← h.2.1, ← h.2.2]; exact g3)
          · rw [if_neg hx] at h
            cases ht : binTake len b1 s1 with
            | mk tr p =>
              obtain ⟨b2, s2⟩ := p
              rw [ht] at h
              obtain ⟨v, e2, w2, ms2, m1, m2, m4, m5, m6⟩ : ∃ v e w' ms',
                  TransCopy.BinaryCopyReader_take f (len : Int) w1 = .ok (v, e) w' ∧
                  ((e = none ∧ tr = .ok v ∧ v.length = len) ∨
                   (e = some (.lib .unexpectedEOF) ∧ tr = .err (absErr (.lib .unexpectedEOF)))) ∧
                  c2_Sim L rest u oids w' ms' b2 s2 ∧ c2_Same w1 w' ∧ ms'.length ≤ ms1.length := by
                cases tr with
                | blocked =>
                  simp only [Prod.mk.injEq] at h
                  rw [← h.1] at hnb; exact hnb.elim
                | err e => exact tie_take_sim k4 len f (by omega) _ _ _ ht trivial
                | ok v => exact tie_take_sim k4 len f (by omega) _ _ _ ht trivial
              rcases m2 with ⟨me, mt, _⟩ | ⟨me, mt⟩
              · -- a value: the scanner is called
                subst me; subst mt
                simp only at h
                have hsc2 : c2_ScanRel vm oids w2.scan := by rw [m5.2.2.2]; exact hsc1
                have hns2 : w2.bin.nscanners = oids.length := by rw [m5.2.1]; exact hns1
                have hrel := hsc2 pre oid os v ho
                have hstep := tie_fieldLoop_value f err fields (done ++ List.replicate (os.length + 1) .nil) value
                  (oids.length : Int) pre.length w w1 w2 hlt len v k1 hx klt m1 (by omega) (by simp; omega)
                rw [← hdl, c2_set_done, hdl] at hstep
                cases hd : decodeVal oid 1 (some v) with
                | unsupported =>
                  rw [hd] at h
                  simp only [Prod.mk.injEq] at h
                  rw [← h.1] at hnb; exact hnb.elim
                | err =>
                  rw [hd] at h hrel
                  simp only [Prod.mk.injEq] at h
                  obtain ⟨h1, h2, h3⟩ := h
                  subst h1; subst h2; subst h3
                  obtain ⟨id, hid⟩ := hrel
                  have hne : (w2.scan pre.length v).2 ≠ none := by rw [hid]; simp
                  rw [if_pos hne, hid] at hstep
                  exact ⟨_, w2, ms2, hstep, ⟨_, rfl, by simp, rfl⟩, m4, k5.trans m5, by omega⟩
                | ok val =>
                  rw [hd] at h hrel
                  simp only at h hrel
                  obtain ⟨hn1, hn2⟩ := hrel
                  have hne : ¬ ((w2.scan pre.length v).2 ≠ none) := by rw [hn1]; simp
                  rw [if_neg hne] at hstep
                  cases hrec : binFields os b2 s2 with
                  | mk res1 p =>
                    obtain ⟨b3, s3⟩ := p
                    rw [hrec] at h
                    have hnb1 : c2_FieldsNB res1 := by
                      cases res1 <;> simp only [Prod.mk.injEq] at h <;>
                        first | trivial | (rw [← h.1] at hnb; exact hnb.elim)
                    obtain ⟨r, w', ms', g1, g2, g3, g4, g5⟩ :=
                      ih (pre ++ [oid]) (done ++ [(w2.scan pre.length v).1]) w2 ms2 b2 s2 f ho' (by simp [hdl]) m4 hsc2 hns2
                        (by omega) _ _ _ hrec hnb1
                    rw [hcast] at g1
                    refine ⟨r, w', ms', by rw [hstep]; exact g1, ?_, ?_, (k5.trans m5).trans g4, by omega⟩
                    · cases res1 with
                      | ok vs =>
                        simp only [Prod.mk.injEq] at h
                        rw [← h.1]
                        obtain ⟨tl, q1, q2⟩ := g2
                        exact ⟨(w2.scan pre.length v).1 :: tl, by rw [q1]; simp, by simp [hn2, q2]⟩
                      | err e =>
                        simp only [Prod.mk.injEq] at h
                        rw [← h.1]; exact g2
                      | blocked => exact hnb1.elim
                      | unsupported => exact hnb1.elim
                    · cases res1 <;> simp only [Prod.mk.injEq] at h <;> (rw [← h.2.1, ← h.2.2]; exact g3)
              · -- the value is cut short
                subst me; subst mt
                simp only [Prod.mk.injEq] at h
                obtain ⟨h1, h2, h3⟩ := h
                subst h1; subst h2; subst h3
                obtain ⟨t1, t2⟩ := tie_fieldLoop_value_err f err fields (done ++ List.replicate (os.length + 1) .nil) value
                  _ _ w w1 w2 hlt len v _ k1 hx klt m1
                exact ⟨_, w2, ms2, t1, ⟨_, rfl, by simp, by rw [t2]⟩, m4, k5.trans m5, by omega⟩
        · cases k'

/-- what `Read` returned, against the model's result (`none` = blocked: excluded) -/
def c2_ReadAgree (vm : AnyV → Val) (r : List AnyV × Option CErr) : Option BinRes → Prop
  | some (.row vals) => ∃ row, r = (row, none) ∧ row.map vm = vals
  | some .eof => r = ([], some (.lib .eof))
  | some (.err e) => ∃ e', r = ([], some e') ∧ e' ≠ .lib .eof ∧ absErr e' = e
  | none => False

theorem c2_len2 (v : Bytes) (h : v.length = 2) : ∃ x y, v = [x, y] := by
  match v, h with
  | [x, y], _ => exact ⟨x, y, rfl⟩

theorem c2_wrap_ne_eof (pre post : Bytes) (e : CErr) : CErr.wrap pre post e ≠ .lib .eof := by simp

/-- the row body (`take(2)`, trailer / field count / field loop) against `binRowBody` -/
theorem tie_rowBody_sim (vm : AnyV → Val) (hvm : vm .nil = .null) {L : Nat} {rest : Bytes} {oids : List Nat} {w : CWorld}
    {ms : List (UInt8 × Bytes)} {b : Bin} {s : Inp} (sim : c2_Sim L rest false oids w ms b s) (fuel : Nat)
    (hf : ms.length + oids.length + 3 ≤ fuel) (hsc : c2_ScanRel vm oids w.scan) (hns : w.bin.nscanners = oids.length)
    (res : Option BinRes) (b' : Bin) (s' : Inp) (h : binRowBody b s = (res, b', s')) (hnb : res ≠ none)
    (hcov : s'.unsup = false) :
    ∃ r w' ms', c2_rowBody fuel w = .ok r w' ∧ c2_ReadAgree vm r res ∧
      c2_Sim L rest false oids w' ms' b' s' ∧ c2_Same w w' ∧ ms'.length ≤ ms.length := by
  unfold binRowBody at h
  cases ht : binTake 2 b s with
  | mk tr p =>
    obtain ⟨b1, s1⟩ := p
    rw [ht] at h
    cases tr with
    | blocked =>
      simp only [Prod.mk.injEq] at h
      exact absurd h.1.symm hnb
    | err e =>
      simp only [Prod.mk.injEq] at h
      obtain ⟨h1, h2, h3⟩ := h
      subst h1; subst h2; subst h3
      obtain ⟨v, e', w2, ms2, g1, g2, g4, g5, g6⟩ := tie_take_sim sim 2 fuel (by omega) _ _ _ ht trivial
      rcases g2 with ⟨_, g, _⟩ | ⟨g, g'⟩
      · cases g
      · subst g
        injection g' with g'
        exact ⟨_, w2, ms2, tie_rowBody_take_err fuel w w2 v _ g1, ⟨_, rfl, by simp, by rw [g']⟩, g4, g5, g6⟩
    | ok v =>
      obtain ⟨v', e', w2, ms2, g1, g2, g4, g5, g6⟩ := tie_take_sim sim 2 fuel (by omega) _ _ _ ht trivial
      rcases g2 with ⟨ge, g, gl⟩ | ⟨_, g'⟩
      · injection g with g; subst g; subst ge
        obtain ⟨x, y, rfl⟩ := c2_len2 v gl
        have hboids : b1.oids = oids := by rw [g4.hb]; rfl
        have hns2 : w2.bin.nscanners = oids.length := by rw [g5.2.1]; exact hns
        have hsc2 : c2_ScanRel vm oids w2.scan := by rw [g5.2.2.2]; exact hsc
        simp only [c2_fieldCount, hboids] at h
        by_cases hc : c2_be16val x y = 65535
        · rw [if_pos hc] at h
          obtain ⟨c1, c2, c3, c4, c5⟩ := tie_rowBody_trailer fuel w w2 x y [] g1 hc
          cases hfl : binFill 1 (binFuel s1) b1 s1 with
          | mk fr p =>
            obtain ⟨b3, s3⟩ := p
            rw [hfl] at h
            cases fr with
            | blocked =>
              simp only [Prod.mk.injEq] at h
              exact absurd h.1.symm hnb
            | err e =>
              obtain ⟨e', w', ms', k1, k2, k3, _⟩ := tie_fill_sim g4 1 fuel _ (by omega) _ _ _ hfl trivial
              rcases k3 with k | k <;> subst k <;> cases k2
            | eof =>
              simp only [Prod.mk.injEq] at h
              obtain ⟨h1, h2, h3⟩ := h
              subst h1; subst h2; subst h3
              obtain ⟨e', w3, ms3, k1, k2, k3, k4, k5, k6⟩ := tie_fill_sim g4 1 fuel _ (by omega) _ _ _ hfl trivial
              have he : e' = some (.lib .eof) := by
                rcases k3 with k | k
                · subst k; cases k2
                · exact k
              subst he
              exact ⟨_, w3, ms3, c1 w3 k1, rfl, k4, g5.trans k5, by omega⟩
            | ok =>
              simp only [Prod.mk.injEq] at h
              obtain ⟨h1, h2, h3⟩ := h
              subst h1; subst h2; subst h3
              obtain ⟨e', w3, ms3, k1, k2, k3, k4, k5, k6⟩ := tie_fill_sim g4 1 fuel _ (by omega) _ _ _ hfl trivial
              have he : e' = none := by
                rcases k3 with k | k
                · exact k
                · subst k; cases k2
              subst he
              exact ⟨_, w3, ms3, c3 w3 k1, ⟨_, rfl, by simp, c5⟩, k4, g5.trans k5, by omega⟩
        · rw [if_neg hc] at h
          by_cases hn : c2_be16val x y ≠ oids.length
          · rw [if_pos hn] at h
            simp only [Prod.mk.injEq] at h
            obtain ⟨h1, h2, h3⟩ := h
            subst h1; subst h2; subst h3
            obtain ⟨t1, t2⟩ := tie_rowBody_count_mismatch fuel w w2 x y [] g1 hc (by rw [hns2]; exact hn)
            rw [hns2, c2_fieldCount] at t2
            rw [hns2] at t1
            exact ⟨_, w2, ms2, t1, ⟨_, rfl, by simp, t2⟩, g4, g5, g6⟩
          · rw [if_neg hn] at h
            have hn' : c2_be16val x y = oids.length := by simpa using hn
            have hstart := tie_rowBody_fields fuel w w2 x y [] g1 hc (by rw [hns2]; exact hn')
            rw [hn'] at hstart
            cases hfs : binFields oids b1 s1 with
            | mk fr p =>
              obtain ⟨b3, s3⟩ := p
              rw [hfs] at h
              have hnbf : c2_FieldsNB fr := by
                cases fr with
                | blocked => simp only [Prod.mk.injEq] at h; exact absurd h.1.symm hnb
                | unsupported =>
                  simp only [Prod.mk.injEq] at h
                  rw [← h.2.2] at hcov
                  cases hcov
                | ok _ => trivial
                | err _ => trivial
              obtain ⟨r, w', ms', k1, k2, k3, k4, k5⟩ :=
                tie_fields_sim vm hvm L rest false oids none (oids.length : Nat) [x, y] oids [] [] w2 ms2 b1 s1 fuel rfl rfl
                  g4 hsc2 hns2 (by omega) _ _ _ hfs hnbf
              simp only [List.nil_append, List.length_nil] at k1
              refine ⟨r, w', ms', by rw [hstart]; exact k1, ?_, ?_, g5.trans k4, by omega⟩
              · cases fr with
                | ok vals =>
                  simp only [Prod.mk.injEq] at h
                  rw [← h.1]
                  obtain ⟨tl, q1, q2⟩ := k2
                  exact ⟨tl, by rw [q1]; simp, q2⟩
                | err e =>
                  simp only [Prod.mk.injEq] at h
                  rw [← h.1]
                  exact k2
                | blocked => exact hnbf.elim
                | unsupported => exact hnbf.elim
              · cases fr with
                | ok vals => simp only [Prod.mk.injEq] at h; rw [← h.2.1, ← h.2.2]; exact k3
                | err e => simp only [Prod.mk.injEq] at h; rw [← h.2.1, ← h.2.2]; exact k3
                | blocked => exact hnbf.elim
                | unsupported => exact hnbf.elim
      · cases g'

/-- the row part (`fill(2)`, then the row body) against `binRowStart` -/
theorem tie_rowStart_sim (vm : AnyV → Val) (hvm : vm .nil = .null) {L : Nat} {rest : Bytes} {oids : List Nat} {w : CWorld}
    {ms : List (UInt8 × Bytes)} {b : Bin} {s : Inp} (sim : c2_Sim L rest false oids w ms b s) (fuel : Nat)
    (hf : ms.length + oids.length + 3 ≤ fuel) (hsc : c2_ScanRel vm oids w.scan) (hns : w.bin.nscanners = oids.length)
    (res : Option BinRes) (b' : Bin) (s' : Inp) (h : binRowStart b s = (res, b', s')) (hnb : res ≠ none)
    (hcov : s'.unsup = false) :
    ∃ r w' ms', c2_rowPart fuel w = .ok r w' ∧ c2_ReadAgree vm r res ∧
      c2_Sim L rest false oids w' ms' b' s' ∧ c2_Same w w' ∧ ms'.length ≤ ms.length := by
  unfold binRowStart at h
  cases hfl : binFill 2 (binFuel s) b s with
  | mk fr p =>
    obtain ⟨b1, s1⟩ := p
    rw [hfl] at h
    have key : ∀ (e0 : Option CErr) (w1 : CWorld) (ms1 : List (UInt8 × Bytes)),
        TransCopy.BinaryCopyReader_fill fuel ((2 : Nat) : Int) w = .ok e0 w1 →
        (e0 = none ∨ (e0 = some (.lib .eof) ∧ w1.bin.pending ≠ [])) →
        c2_Sim L rest false oids w1 ms1 b1 s1 → c2_Same w w1 → ms1.length ≤ ms.length →
        binRowBody b1 s1 = (res, b', s') →
        ∃ r w' ms', c2_rowPart fuel w = .ok r w' ∧ c2_ReadAgree vm r res ∧
          c2_Sim L rest false oids w' ms' b' s' ∧ c2_Same w w' ∧ ms'.length ≤ ms.length := by
      intro e0 w1 ms1 k1 ke k4 k5 k6 hbody
      obtain ⟨r, w', ms', q1, q2, q3, q4, q5⟩ :=
        tie_rowBody_sim vm hvm k4 fuel (by omega) (by rw [k5.2.2.2]; exact hsc) (by rw [k5.2.1]; exact hns)
          res b' s' hbody hnb hcov
      exact ⟨r, w', ms', by rw [tie_rowPart_body fuel w w1 e0 k1 ke]; exact q1, q2, q3, k5.trans q4, by omega⟩
    cases fr with
    | blocked =>
      simp only [Prod.mk.injEq] at h
      exact absurd h.1.symm hnb
    | err e =>
      obtain ⟨e', w', ms', k1, k2, k3, _⟩ := tie_fill_sim sim 2 fuel _ (by omega) _ _ _ hfl trivial
      rcases k3 with k | k <;> subst k <;> cases k2
    | ok =>
      simp only at h
      obtain ⟨e', w1, ms1, k1, k2, k3, k4, k5, k6⟩ := tie_fill_sim sim 2 fuel _ (by omega) _ _ _ hfl trivial
      have he : e' = none := by
        rcases k3 with k | k
        · exact k
        · subst k; cases k2
      exact key e' w1 ms1 k1 (Or.inl he) k4 k5 k6 h
    | eof =>
      simp only at h
      obtain ⟨e', w1, ms1, k1, k2, k3, k4, k5, k6⟩ := tie_fill_sim sim 2 fuel _ (by omega) _ _ _ hfl trivial
      have he : e' = some (.lib .eof) := by
        rcases k3 with k | k
        · subst k; cases k2
        · exact k
      subst he
      have hpend : b1.pending = w1.bin.pending := by rw [k4.hb]; rfl
      rw [hpend] at h
      cases hpe : w1.bin.pending with
      | nil =>
        rw [hpe] at h
        simp only [List.isEmpty_nil, if_true, Prod.mk.injEq] at h
        obtain ⟨h1, h2, h3⟩ := h
        subst h1; subst h2; subst h3
        exact ⟨_, w1, ms1, tie_rowPart_eof fuel w w1 k1 hpe, rfl, k4, k5, k6⟩
      | cons x xs =>
        rw [hpe] at h
        simp only [List.isEmpty_cons, Bool.false_eq_true, if_false] at h
        exact key _ w1 ms1 k1 (Or.inr ⟨rfl, by rw [hpe]; simp⟩) k4 k5 k6 h

/-- 4. `BinaryCopyReader.Read` against `binRead`, on a stream of complete messages (types 'd', 'H', 'S', 'c') within
    which the model's `binRead` is decided (it does not come back blocked), with scanners that behave like the model's
    `decodeVal` (`c2_ScanRel`) and stay inside the model's coverage (`s'.unsup = false`): the translated `Read` returns
    what the model returns (`c2_ReadAgree`: the row through `vm`, `io.EOF`, or an error whose `absErr` is the model's
    error), and the two are left in corresponding states again (`c2_Sim`), so the statement applies to the next call. -/
theorem tie_binRead_sim (vm : AnyV → Val) (hvm : vm .nil = .null) {L : Nat} {rest : Bytes} {oids : List Nat} {w : CWorld}
    {ms : List (UInt8 × Bytes)} {b : Bin} {s : Inp} (sim : c2_Sim L rest false oids w ms b s) (fuel : Nat)
    (hf : ms.length + oids.length + 3 ≤ fuel) (hsc : c2_ScanRel vm oids w.scan) (hns : w.bin.nscanners = oids.length)
    (hctx : w.ctxErr = none)
    (res : Option BinRes) (b' : Bin) (s' : Inp) (h : binRead b s = (res, b', s')) (hnb : res ≠ none)
    (hcov : s'.unsup = false) :
    ∃ r w' ms', TransCopy.BinaryCopyReader_Read fuel w = .ok r w' ∧ c2_ReadAgree vm r res ∧
      c2_Sim L rest false oids w' ms' b' s' ∧
      (w'.bin.started = true ∧ w'.bin.nscanners = w.bin.nscanners ∧ w'.ctxErr = w.ctxErr ∧ w'.scan = w.scan) ∧
      ms'.length ≤ ms.length := by
  have hbs : b.started = w.bin.started := by rw [sim.hb]; rfl
  unfold binRead at h
  cases hst : w.bin.started with
  | true =>
    rw [hbs, hst] at h
    simp only [if_true] at h
    obtain ⟨r, w', ms', q1, q2, q3, q4, q5⟩ := tie_rowStart_sim vm hvm sim fuel hf hsc hns res b' s' h hnb hcov
    exact ⟨r, w', ms', by rw [tie_binRead_started fuel w hctx hst]; exact q1, q2, q3,
      ⟨by rw [q4.1]; exact hst, q4.2.1, q4.2.2.1, q4.2.2.2⟩, q5⟩
  | false =>
    rw [hbs, hst] at h
    simp only [Bool.false_eq_true, if_false] at h
    have sim0 : c2_Sim L rest false oids { w with bin := { w.bin with started := true } } ms
        { b with started := true } s :=
      ⟨sim.ok, sim.hL, sim.st, sim.al, by rw [sim.hb]; rfl, sim.hs⟩
    have hfresh := tie_binRead_fresh fuel w hctx hst
    cases hsk : binSkipHeader { b with started := true } s with
    | mk sr p =>
      obtain ⟨b1, s1⟩ := p
      rw [hsk] at h
      cases sr with
      | blocked =>
        simp only [Prod.mk.injEq] at h
        exact absurd h.1.symm hnb
      | err e =>
        simp only [Prod.mk.injEq] at h
        obtain ⟨h1, h2, h3⟩ := h
        subst h1; subst h2; subst h3
        obtain ⟨e0, w1, ms1, k1, k2, k3, k4, k5⟩ := tie_skipHeader_sim sim0 fuel (by omega) _ _ _ hsk trivial
        cases e0 with
        | none => cases k2
        | some e' =>
          injection k2 with k2
          refine ⟨_, w1, ms1, ?_, ⟨.wrap c2_hdrText [] e', rfl, by simp, ?_⟩, k3, ⟨k4.1, k4.2.1, k4.2.2.1, k4.2.2.2⟩, k5⟩
          · rw [hfresh, k1, COut.bind, if_pos (c2_some_ne_none e')]; rfl
          · rw [k2]; exact absErr_wrap "unexpected header: " e'
      | ok =>
        simp only at h
        obtain ⟨e0, w1, ms1, k1, k2, k3, k4, k5⟩ := tie_skipHeader_sim sim0 fuel (by omega) _ _ _ hsk trivial
        cases e0 with
        | some e' => cases k2
        | none =>
          obtain ⟨r, w', ms', q1, q2, q3, q4, q5⟩ :=
            tie_rowStart_sim vm hvm k3 fuel (by omega) (by rw [k4.2.2.2]; exact hsc) (by rw [k4.2.1]; exact hns)
              res b' s' h hnb hcov
          have k4' := k4.trans q4
          refine ⟨r, w', ms', ?_, q2, q3, ⟨k4'.1, k4'.2.1, k4'.2.2.1, k4'.2.2.2⟩, by omega⟩
          rw [hfresh, k1, COut.bind, if_neg c2_not_none_ne]; exact q1

/-- a `.msg` item takes at least its 5 header bytes off the stream -/
theorem c2_readItem_rest_lt (L : Nat) (inp : Bytes) (t : UInt8) (body rest : Bytes)
    (h : readItem L inp = some (.msg t body, rest)) : rest.length + 5 ≤ inp.length := by
  unfold readItem at h
  rcases inp with _ | ⟨t', _ | ⟨a, _ | ⟨b, _ | ⟨c, _ | ⟨d, r⟩⟩⟩⟩⟩
  · simp at h
  · simp [rd32] at h
  · simp [rd32] at h
  · simp [rd32] at h
  · simp [rd32] at h
  simp only [rd32_declared] at h
  obtain ⟨n, _, _, hn, _, hr⟩ := readBody_msg _ _ _ _ _ _ _ h
  rw [hr]; simp

/-- `c2_Stream` in the terms of Model/Reader.lean: when nothing follows the messages, `deframe` of the stream is exactly
    these messages — so `c2_inp L ms …` is the `Inp` with `items := deframe L w.base.src` -/
theorem c2_stream_deframe (L : Nat) : ∀ (ms : List (UInt8 × Bytes)) (src : Bytes) (fuel : Nat),
    c2_Stream L ms src [] → src.length ≤ fuel → deframeAux L fuel src = c2_items ms := by
  intro ms
  induction ms with
  | nil =>
    intro src fuel hs _
    have : src = [] := hs
    subst this
    cases fuel <;> simp [deframeAux, readItem, c2_items]
  | cons p ms ih =>
    intro src fuel hs hf
    obtain ⟨r, hri, hs1⟩ := hs
    have hlt := c2_readItem_rest_lt L src p.1 p.2 r hri
    obtain ⟨f, rfl⟩ : ∃ f, fuel = f + 1 := ⟨fuel - 1, by omega⟩
    simp only [deframeAux, hri, c2_items, List.map_cons]
    rw [← c2_items, ih r f hs1 (by omega)]

theorem c2_stream_deframe' (L : Nat) (ms : List (UInt8 × Bytes)) (src : Bytes) (h : c2_Stream L ms src []) :
    deframe L src = c2_items ms := c2_stream_deframe L ms src _ h (Nat.le_refl _)

/-- the abstraction of the brief: the model input a translated world stands for (limit, `deframe` of the unread
    stream, the reader's current message, the tail from `fin`) -/
def c2_absInp (w : CWorld) : Inp :=
  { L := w.base.reader.MaxMessageSize.toNat,
    items := deframe w.base.reader.MaxMessageSize.toNat w.base.src,
    tail := (match w.base.fin with
      | .wait => .wait
      | .rerr => .rerr
      | .eof => .eof (leftover w.base.reader.MaxMessageSize.toNat w.base.src != [])),
    msg := w.base.reader.Msg.data }

/-- the simulation relation with nothing behind the messages and a waiting transport is `s = c2_absInp w` -/
theorem c2_Sim_absInp {L : Nat} {oids : List Nat} {w : CWorld} {ms : List (UInt8 × Bytes)} {b : Bin} {s : Inp}
    (sim : c2_Sim L [] false oids w ms b s) (hfin : w.base.fin = .wait) : s = c2_absInp w ∧ b = c2_bin oids w := by
  refine ⟨?_, sim.hb⟩
  have hd := c2_stream_deframe' L ms w.base.src sim.st
  rw [sim.hs]
  unfold c2_absInp c2_inp
  rw [sim.hL, hd, hfin]

/-! ### 5. concrete worlds: the hypotheses are satisfiable, and the translated code returns what the theorems say -/

-- `tie_takeLength_ok`: its hypothesis, and both branches of its conclusion
example : obs (TransCopy.BinaryCopyReader_take 5 4 (exWorld (frame 100 [0, 0, 1, 0, 9])))
    = some (([0, 0, 1, 0], none), [], [], [9]) := by decide +kernel
example : be32val 0 0 1 0 = 256 := by decide
example : (obs (TransCopy.BinaryCopyReader_takeLength 5 (exWorld (frame 100 [0, 0, 1, 0, 9])))).map (·.1)
    = some (0, some (.errorf lengthFmt [256, 100])) := by decide +kernel
example : absErr (.errorf lengthFmt [256, 100]) = .lib (errLengthExceeds 256 100) :=
  tie_takeLength_ok_abs 256 100 (by decide)
example : (obs (TransCopy.BinaryCopyReader_takeLength 5 (exWorld (frame 100 [0, 0, 0, 100, 9])))).map (·.1)
    = some (100, none) := by decide +kernel

-- `skipHeader` with the signature present: flags and an extension area of 2 bytes are consumed, one byte stays
def c2_exHeader (ext : Bytes) : Bytes := TransCopy.CopySignature ++ [0, 0, 0, 0] ++ ext
example : hasPrefix (c2_exHeader [0, 0, 0, 2, 9, 9] ++ [1]) TransCopy.CopySignature = true := by decide
example : obs (TransCopy.BinaryCopyReader_skipHeader 9 (exWorld (frame 100 (c2_exHeader [0, 0, 0, 2, 9, 9] ++ [1]))))
    = some (none, [], [], [1]) := by decide +kernel
-- an extension-area length of 0xFFFFFFFF (`tie_skipHeader_ext_null`); above the limit (`tie_skipHeader_extlen_err`);
-- the extension area cut short by CopyDone (`tie_skipHeader_ext_cases`)
example : (obs (TransCopy.BinaryCopyReader_skipHeader 9 (exWorld (frame 100 (c2_exHeader [255, 255, 255, 255]))))).map (·.1)
    = some (some (.new c2_extText)) := by decide +kernel
example : (obs (TransCopy.BinaryCopyReader_skipHeader 9 (exWorld (frame 100 (c2_exHeader [0, 0, 0, 101]))))).map (·.1)
    = some (some (.errorf lengthFmt [101, 100])) := by decide +kernel
example : (obs (TransCopy.BinaryCopyReader_skipHeader 9 (exWorld (frame 100 (c2_exHeader [0, 0, 0, 2, 9]) ++ frame 99 [])))).map (·.1)
    = some (some (.lib .unexpectedEOF)) := by decide +kernel

-- `tie_fill_stream` / `tie_take_stream`: Sync, two CopyData, CopyDone
def c2_exMs : List (UInt8 × Bytes) := [(83, []), (100, [1]), (100, [2, 3]), (99, [])]
def c2_exSrc : Bytes := frame 83 [] ++ frame 100 [1] ++ frame 100 [2, 3] ++ frame 99 []
theorem c2_exStream : c2_Stream 100 c2_exMs c2_exSrc [] :=
  ⟨frame 100 [1] ++ frame 100 [2, 3] ++ frame 99 [], by decide +kernel, frame 100 [2, 3] ++ frame 99 [], by decide +kernel,
    frame 99 [], by decide +kernel, [], by decide +kernel, rfl⟩
theorem c2_exAllowed : c2_Allowed c2_exMs := by
  intro p hp
  simp [c2_exMs] at hp
  rcases hp with rfl | rfl | rfl | rfl <;> simp
-- the model on these messages: `fill(2)` needs both CopyData, `fill(4)` runs into CopyDone
example : (binFill 2 9 (c2_bin [] (exWorld c2_exSrc)) (c2_inp 100 c2_exMs [] false)).2.1.pending = [1, 2, 3] ∧
    (binFill 2 9 (c2_bin [] (exWorld c2_exSrc)) (c2_inp 100 c2_exMs [] false)).2.2.items = [.msg 99 []] := by
  decide +kernel
example : ∃ e w' ms', TransCopy.BinaryCopyReader_fill 9 ((3 : Nat) : Int) (exWorld c2_exSrc) = .ok e w' ∧
    (binFill 3 9 (c2_bin [] (exWorld c2_exSrc)) (c2_inp 100 c2_exMs [] false)).1 = c2_absFill e ∧
    (binFill 3 9 (c2_bin [] (exWorld c2_exSrc)) (c2_inp 100 c2_exMs [] false)).2.1 = c2_bin [] w' ∧
    c2_Stream 100 ms' w'.base.src [] := by
  have hnb : c2_NotBlocked (binFill 3 9 (c2_bin [] (exWorld c2_exSrc)) (c2_inp 100 c2_exMs [] false)).1 := by
    decide +kernel
  obtain ⟨e, w', ms', g1, g2, g3, _, _, _, _, g8, _⟩ :=
    tie_fill_stream 100 [] false [] 3 9 c2_exMs (exWorld c2_exSrc) 9 (exWorld_ok _ _) rfl c2_exStream c2_exAllowed
      (by decide) _ _ _ rfl hnb
  exact ⟨e, w', ms', g1, g2, g3, g8⟩
example : obs (TransCopy.BinaryCopyReader_fill 9 3 (exWorld c2_exSrc)) = some (none, [], frame 99 [], [1, 2, 3]) := by
  decide +kernel
example : obs (TransCopy.BinaryCopyReader_fill 9 4 (exWorld c2_exSrc)) = some (some (.lib .eof), [], [], [1, 2, 3]) := by
  decide +kernel

-- `Read`: the file trailer followed by CopyDone → io.EOF; followed by more data → the trailer error
example : (obs (TransCopy.BinaryCopyReader_Read 9 (exWorld (frame 100 (c2_exHeader [0, 0, 0, 0] ++ [255, 255]) ++ frame 99 [])))).map (·.1)
    = some ([], some (.lib .eof)) := by decide +kernel
example : (obs (TransCopy.BinaryCopyReader_Read 9 (exWorld (frame 100 (c2_exHeader [0, 0, 0, 0] ++ [255, 255]) ++ frame 100 [7])))).map (·.1)
    = some ([], some (.new c2_trailerText)) := by decide +kernel
-- two fields for one column: the field-count error, in the model's text
example : (obs (TransCopy.BinaryCopyReader_Read 9 (exWorld (frame 100 (c2_exHeader [0, 0, 0, 0] ++ [0, 2]))))).map (·.1)
    = some ([], some (.errorf c2_fieldFmt [1, 2])) := by decide +kernel
example : absErr (.errorf c2_fieldFmt [1, 2]) = .lib (errFieldCount 1 2) := absErr_fieldCount 1 2
-- a NULL field: the row entry stays nil (the scanner of `exWorld` would have returned `.val _`)
example : (obs (TransCopy.BinaryCopyReader_Read 9 (exWorld (frame 100 (c2_exHeader [0, 0, 0, 0] ++ [0, 1, 255, 255, 255, 255]))))).map (·.1)
    = some ([.nil], none) := by decide +kernel
-- a field cut short: "unexpected value: %w"
example : (obs (TransCopy.BinaryCopyReader_Read 9 (exWorld (frame 100 (c2_exHeader [0, 0, 0, 0] ++ [0, 1, 0, 0, 0, 2, 7]) ++ frame 99 [])))).map (·.1)
    = some ([], some (.wrap c2_valueText [] (.lib .unexpectedEOF))) := by decide +kernel
-- a header error is wrapped: "unexpected header: %w"
example : (obs (TransCopy.BinaryCopyReader_Read 9 (exWorld (frame 100 (c2_exHeader [255, 255, 255, 255]))))).map (·.1)
    = some ([], some (.wrap c2_hdrText [] (.new c2_extText))) := by decide +kernel

-- `tie_binRead_sim` on a table without columns: header, one (empty) row, trailer in one CopyData, then CopyDone.
-- First call: the row; second call (from the states the first left, by the theorem again): io.EOF.
def c2_exWorld0 (src : Bytes) : CWorld :=
  { base := { reader := { MaxMessageSize := 100 }, src := src, fin := .wait }, bin := { nscanners := 0 } }
def c2_exMs0 : List (UInt8 × Bytes) := [(100, c2_exHeader [0, 0, 0, 0] ++ [0, 0] ++ [255, 255]), (99, [])]
def c2_exSrc0 : Bytes := frame 100 (c2_exHeader [0, 0, 0, 0] ++ [0, 0] ++ [255, 255]) ++ frame 99 []
theorem c2_exSim0 : c2_Sim 100 [] false [] (c2_exWorld0 c2_exSrc0) c2_exMs0 (c2_bin [] (c2_exWorld0 c2_exSrc0))
    (c2_inp 100 c2_exMs0 [] false) :=
  ⟨⟨by simp [c2_exWorld0, Sl.WF], by simp [c2_exWorld0, Sl.NilOK], rfl, by simp [c2_exWorld0]⟩, rfl,
   ⟨frame 99 [], by decide +kernel, [], by decide +kernel, rfl⟩,
   by intro p hp; simp [c2_exMs0] at hp; rcases hp with rfl | rfl <;> simp, rfl, rfl⟩
theorem c2_scanRel0 (vm : AnyV → Val) (scan : Nat → Bytes → AnyV × Option CErr) : c2_ScanRel vm [] scan := by
  intro pre oid os v h; simp at h
example : (binRead (c2_bin [] (c2_exWorld0 c2_exSrc0)) (c2_inp 100 c2_exMs0 [] false)).1 = some (.row []) := by
  decide +kernel
theorem c2_prod_eta {α β γ : Type} (p : α × β × γ) : p = (p.1, p.2.1, p.2.2) := rfl
example : ∃ (r : List AnyV × Option CErr) (w' : CWorld) (ms' : List (UInt8 × Bytes)),
    TransCopy.BinaryCopyReader_Read 9 (c2_exWorld0 c2_exSrc0) = .ok r w' ∧
    c2_ReadAgree (fun _ => Val.null) r (some (.row [])) ∧ w'.bin.started = true ∧ ms'.length ≤ 2 := by
  have h1 : (binRead (c2_bin [] (c2_exWorld0 c2_exSrc0)) (c2_inp 100 c2_exMs0 [] false)).1 = some (.row []) := by
    decide +kernel
  have h2 : (binRead (c2_bin [] (c2_exWorld0 c2_exSrc0)) (c2_inp 100 c2_exMs0 [] false)).2.2.unsup = false := by
    decide +kernel
  obtain ⟨r, w', ms', q1, q2, q3, q4, q5⟩ :=
    tie_binRead_sim (fun _ => Val.null) rfl c2_exSim0 9 (by decide) (c2_scanRel0 _ _) rfl rfl
      (binRead (c2_bin [] (c2_exWorld0 c2_exSrc0)) (c2_inp 100 c2_exMs0 [] false)).1
      (binRead (c2_bin [] (c2_exWorld0 c2_exSrc0)) (c2_inp 100 c2_exMs0 [] false)).2.1
      (binRead (c2_bin [] (c2_exWorld0 c2_exSrc0)) (c2_inp 100 c2_exMs0 [] false)).2.2 (c2_prod_eta _)
      (by rw [h1]; simp) h2
  rw [h1] at q2
  exact ⟨r, w', ms', q1, q2, q4.1, q5⟩
-- the same run computed: the row, then io.EOF
example : (obs (TransCopy.BinaryCopyReader_Read 9 (c2_exWorld0 c2_exSrc0))).map (·.1) = some ([], none) := by decide +kernel
example : (match TransCopy.BinaryCopyReader_Read 9 (c2_exWorld0 c2_exSrc0) with
           | .ok _ w => (obs (TransCopy.BinaryCopyReader_Read 9 w)).map (·.1)
           | _ => none) = some ([], some (.lib .eof)) := by decide +kernel

-- `tie_binRead_sim` with one bool column: `c2_ScanRel` holds for a scanner that decodes like the model
theorem c2_decodeBool (v : Bytes) :
    decodeVal 16 1 (some v) = match v with | [x] => .ok (.bool (x = 1)) | _ => .err := by
  rcases v with _ | ⟨x, _ | ⟨y, r⟩⟩ <;> simp [decodeVal, supportedOid, Oid.bool, Oid.bytea, Oid.int8, Oid.int2, Oid.int4, Oid.text, Oid.float4, Oid.float8,
    Oid.varchar, Oid.uuid, Oid.ztext]

/-- a one-column (bool) world: the scanner returns `val 1` / `val 0` for a one-byte value, an external error otherwise -/
def c2_boolScan : Nat → Bytes → AnyV × Option CErr := fun _ v =>
  match v with
  | [x] => (.val (if x = 1 then 1 else 0), none)
  | _ => (.nil, some (.ext 7))
def c2_boolVm : AnyV → Val
  | .nil => .null
  | .val n => .bool (n = 1)

theorem c2_boolScanRel : c2_ScanRel c2_boolVm [16] c2_boolScan := by
  intro pre oid os v h
  cases pre with
  | cons a pre => simp at h
  | nil =>
    simp at h
    obtain ⟨rfl, rfl⟩ := h
    rw [c2_decodeBool]
    match v with
    | [] => exact ⟨7, rfl⟩
    | [x] =>
      refine ⟨rfl, ?_⟩
      by_cases hx : x = 1 <;> simp [c2_boolScan, c2_boolVm, hx]
    | _ :: _ :: _ => exact ⟨7, rfl⟩

def c2_exWorld1 (src : Bytes) : CWorld :=
  { base := { reader := { MaxMessageSize := 100 }, src := src, fin := .wait }, bin := { nscanners := 1 },
    scan := c2_boolScan }
/-- header; a row `true`; a row NULL; a row whose value has two bytes -/
def c2_exData1 : Bytes :=
  c2_exHeader [0, 0, 0, 0] ++ [0, 1, 0, 0, 0, 1, 1] ++ [0, 1, 255, 255, 255, 255] ++ [0, 1, 0, 0, 0, 2, 1, 1]
def c2_exMs1 : List (UInt8 × Bytes) := [(100, c2_exData1), (99, [])]
def c2_exSrc1 : Bytes := frame 100 c2_exData1 ++ frame 99 []
theorem c2_exSim1 : c2_Sim 100 [] false [16] (c2_exWorld1 c2_exSrc1) c2_exMs1 (c2_bin [16] (c2_exWorld1 c2_exSrc1))
    (c2_inp 100 c2_exMs1 [] false) :=
  ⟨⟨by simp [c2_exWorld1, Sl.WF], by simp [c2_exWorld1, Sl.NilOK], rfl, by simp [c2_exWorld1]⟩, rfl,
   ⟨frame 99 [], by decide +kernel, [], by decide +kernel, rfl⟩,
   by intro p hp; simp [c2_exMs1] at hp; rcases hp with rfl | rfl <;> simp, rfl, rfl⟩
example : ∃ (r : List AnyV × Option CErr) (w' : CWorld),
    TransCopy.BinaryCopyReader_Read 9 (c2_exWorld1 c2_exSrc1) = .ok r w' ∧
    c2_ReadAgree c2_boolVm r (some (.row [.bool true])) ∧ w'.bin.started = true := by
  have h1 : (binRead (c2_bin [16] (c2_exWorld1 c2_exSrc1)) (c2_inp 100 c2_exMs1 [] false)).1 = some (.row [.bool true]) := by
    decide +kernel
  have h2 : (binRead (c2_bin [16] (c2_exWorld1 c2_exSrc1)) (c2_inp 100 c2_exMs1 [] false)).2.2.unsup = false := by
    decide +kernel
  obtain ⟨r, w', ms', q1, q2, q3, q4, q5⟩ :=
    tie_binRead_sim c2_boolVm rfl c2_exSim1 9 (by decide) c2_boolScanRel rfl rfl _ _ _ (c2_prod_eta _)
      (by rw [h1]; simp) h2
  rw [h1] at q2
  exact ⟨r, w', q1, q2, q4.1⟩
-- the same run computed: `val 1`; then the NULL row (`nil`: no scanner call); then the scanner's error, unwrapped
example : (obs (TransCopy.BinaryCopyReader_Read 9 (c2_exWorld1 c2_exSrc1))).map (·.1) = some ([.val 1], none) := by
  decide +kernel
example : (match TransCopy.BinaryCopyReader_Read 9 (c2_exWorld1 c2_exSrc1) with
           | .ok _ w => (obs (TransCopy.BinaryCopyReader_Read 9 w)).map (·.1)
           | _ => none) = some ([.nil], none) := by decide +kernel
example : (match TransCopy.BinaryCopyReader_Read 9 (c2_exWorld1 c2_exSrc1) with
           | .ok _ w => (match TransCopy.BinaryCopyReader_Read 9 w with
             | .ok _ w => (obs (TransCopy.BinaryCopyReader_Read 9 w)).map (·.1)
             | _ => none)
           | _ => none) = some ([], some (.ext 7)) := by decide +kernel

end Pw.Tie
