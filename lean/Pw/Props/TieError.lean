import Pw.Generated.TransError
import Pw.Props.TieWriter
import Pw.Model.Errors
import Pw.Model.Backend
/-
  TIE THEOREMS, part 6: the ErrorResponse builder of error.go as translated (`TransError.writeErrorResponse`,
  `TransError.ErrorCode`, and `TransError.readyForQuery` of handshake.go) against the model's
  `errorBody` (Model/Errors.lean) and `BMsg.error … |>.encode` (Model/Backend.lean).

  The calls on the writer are stepped through with the theorems of TieWriter.lean (`tie_Writer_Start`,
  `tie_Writer_AddByte`, `tie_Writer_AddString`, `tie_Writer_AddNullTerminate`, `tie_Writer_End_ok`).
-/
namespace Pw.Tie
open Pw Pw.Go

/-! ### what the translator saw -/

theorem error_untranslatable_nil : TransError.untranslatable = [] := rfl

/-- the two structs behind `ErrDesc` / `ErrSource` of RtError.lean, field for field -/
theorem error_struct_layout :
    TransError.structError = [("Code", "github.com/jeroenrinzema/psql-wire/codes.Code"), ("Message", "string"),
      ("Detail", "string"), ("Hint", "string"), ("Severity", "Severity"), ("ConstraintName", "string"),
      ("Source", "*Source")] ∧
    TransError.structSource = [("File", "string"), ("Line", "int32"), ("Function", "string")] := ⟨rfl, rfl⟩

/-! ### the description as the model sees it -/

def absSource (s : ErrSource) : Bytes × Int × Bytes := (s.File, s.Line, s.Function)

/-- `errors.Error` ↦ the model's `Flat` -/
def absDesc (d : ErrDesc) : Flat :=
  { code := d.Code, message := d.Message, detail := d.Detail, hint := d.Hint, severity := d.Severity,
    constr := d.ConstraintName, source := d.Source.map absSource }

/-- the line number is a Go `int32` (anything in the range of `int64` will do: `int64(desc.Source.Line)`) -/
def LineOK (d : ErrDesc) : Prop :=
  ∀ s, d.Source = some s → -9223372036854775808 ≤ s.Line ∧ s.Line < 9223372036854775808

instance (d : ErrDesc) : Decidable (LineOK d) := by
  unfold LineOK
  cases d.Source with
  | none => exact isTrue (by intro s h; cases h)
  | some s =>
    exact decidable_of_iff (-9223372036854775808 ≤ s.Line ∧ s.Line < 9223372036854775808)
      ⟨fun h s' hs => by cases hs; exact h, fun h => h s rfl⟩

theorem i64_id (x : Int) (h : -9223372036854775808 ≤ x ∧ x < 9223372036854775808) : i64 x = x := by
  unfold i64; omega

/-! ### stepping: a writer whose latch is clear -/

/-- a writer state with the latch clear -/
def wr (f pb : Bytes) : WriterS := { frame := f, putbuf := pb, err := none }

theorem setWriter_setWriter (w : World) (a b : WriterS) : setWriter (setWriter w a) b = setWriter w b := rfl
theorem wr_putbuf (f pb : Bytes) : (wr f pb).putbuf = pb := rfl
theorem setWriter_writer (w : World) (a : WriterS) : (setWriter w a).writer = a := rfl

/-- with the latch clear the model's view determines the state -/
theorem eq_wr_of_abs (s : WriterS) (f pb : Bytes) (h : absW s = { frame := f, err := false }) (hp : s.putbuf = pb) :
    s = wr f pb := by
  cases s with
  | mk fr p e =>
    simp [absW] at h
    cases e with
    | some x => simp at h
    | none => simp at hp; simp [wr, h.1, hp]

/-- `putbuf` after `Start(t)`: byte 0 is the type byte -/
def pbStart (t : UInt8) (pb : Bytes) : Bytes := t :: pb.tail

theorem pbStart_ok (t : UInt8) (pb : Bytes) (hp : PutbufOK pb) : PutbufOK (pbStart t pb) := by
  obtain ⟨x, rest, hx⟩ := hp
  exact ⟨t, rest, by simp [pbStart, hx]⟩

/-- `Start`: whatever frame and latch were, afterwards the latch is clear and the frame holds the type
    byte and the placeholder.  (`tie_Writer_Start` with the resulting `putbuf` made explicit; its
    model-level content is re-derived from `tie_Writer_Start` in `step_Start_abs`.) -/
theorem step_Start {α} (t : UInt8) (w : World) (hp : PutbufOK w.writer.putbuf) (k : Unit → World → Out α) :
    (Trans.Writer_Start t w).bind k = k () (setWriter w (wr [t, 0, 0, 0, 0] (pbStart t w.writer.putbuf))) := by
  obtain ⟨x, rest, hx⟩ := hp
  unfold Trans.Writer_Start
  have h1 : ¬ ((rest.length : Int) + 1 + 1 + 1 + 1 + 1 ≤ 0) := by omega
  have h2 : ¬ ((rest.length : Int) + 1 + 1 + 1 + 1 + 1 < 5) := by omega
  simp [tie_Writer_Reset, Out.bind, setWriter, chk, arrSet, arrSlice, hx, h1, h2, wr, pbStart]

/-- the state `step_Start` names is the one `tie_Writer_Start` speaks about -/
theorem step_Start_abs (t : UInt8) (w : World) (hp : PutbufOK w.writer.putbuf) :
    absW (wr [t, 0, 0, 0, 0] (pbStart t w.writer.putbuf)) = Writer.start t (absW w.writer) := by
  obtain ⟨s', h, ha, _⟩ := tie_Writer_Start t w hp
  have h2 := step_Start t w hp (fun _ w' => Out.ok () w')
  rw [h] at h2
  simp only [Out.bind] at h2
  injection h2 with _ h3
  have : s' = wr [t, 0, 0, 0, 0] (pbStart t w.writer.putbuf) := by
    have := congrArg World.writer h3
    simpa [setWriter] using this
  rw [← this, ha]

theorem step_AddByte {α} (b : UInt8) (w : World) (f pb : Bytes) (k : Unit → World → Out α) :
    (Trans.Writer_AddByte b (setWriter w (wr f pb))).bind k = k () (setWriter w (wr (f ++ [b]) pb)) := by
  obtain ⟨s', h, ha, hpb⟩ := tie_Writer_AddByte b (setWriter w (wr f pb))
  have : s' = wr (f ++ [b]) pb := eq_wr_of_abs s' _ _ (by simpa [Writer.add, absW, wr, setWriter] using ha) hpb
  rw [h, this]; rfl

theorem step_AddNullTerminate {α} (w : World) (f pb : Bytes) (k : Unit → World → Out α) :
    (Trans.Writer_AddNullTerminate (setWriter w (wr f pb))).bind k = k () (setWriter w (wr (f ++ [0]) pb)) := by
  obtain ⟨s', h, ha, hpb⟩ := tie_Writer_AddNullTerminate (setWriter w (wr f pb))
  have : s' = wr (f ++ [0]) pb := eq_wr_of_abs s' _ _ (by simpa [Writer.add, absW, wr, setWriter] using ha) hpb
  rw [h, this]; rfl

/-- the count `AddString` returns is not used by the builder -/
theorem step_AddString {α} (b : Bytes) (w : World) (f pb : Bytes) (k : World → Out α) :
    (Trans.Writer_AddString b (setWriter w (wr f pb))).bind (fun _ w' => k w') = k (setWriter w (wr (f ++ b) pb)) := by
  obtain ⟨s', n, h, ha, hpb⟩ := tie_Writer_AddString b (setWriter w (wr f pb))
  have : s' = wr (f ++ b) pb := eq_wr_of_abs s' _ _ (by simpa [Writer.add, absW, wr, setWriter] using ha) hpb
  rw [h, this]; rfl

theorem bind_ok {α} (o : Out α) : (o.bind fun a w => .ok a w) = o := by cases o <;> rfl

/-! ### the builder -/

/-- the frame the builder has assembled when it calls `End` -/
def errFrame (d : ErrDesc) : Bytes := 69 :: 0 :: 0 :: 0 :: 0 :: errorBody (absDesc d)

/-- MAIN STEP.  `writeErrorResponse` = `End` on a writer whose latch is clear and whose frame is the type byte
    'E', the four placeholder bytes and exactly the model's `errorBody` of the flattened description
    (fields S C M, then H, D, F L R, n when present, in this order, and the final NUL).  No hypothesis on
    the writer's frame or latch at entry: `Start` resets both. -/
theorem tie_writeErrorResponse_frame (e : ErrArg) (w : World) (hp : PutbufOK w.writer.putbuf) (hl : LineOK e.flat) :
    TransError.writeErrorResponse e w =
      Trans.Writer_End (setWriter w (wr (errFrame e.flat) (pbStart 69 w.writer.putbuf))) := by
  unfold TransError.writeErrorResponse
  simp only [flattenExt]
  rw [step_Start 69 w hp]
  cases e with
  | mk d =>
  cases d with
  | mk code msg det hint sev cn src =>
  cases src with
  | none =>
    by_cases h1 : hint = [] <;> by_cases h2 : det = [] <;> by_cases h4 : cn = [] <;>
      simp [step_AddByte, step_AddString, step_AddNullTerminate, bind_ok, errFrame, errorBody, absDesc, errField,
        h1, h2, h4]
  | some s =>
    have hl' := i64_id _ (hl s rfl)
    by_cases h1 : hint = [] <;> by_cases h2 : det = [] <;> by_cases h4 : cn = [] <;>
      simp [step_AddByte, step_AddString, step_AddNullTerminate, bind_ok, errFrame, errorBody, absDesc, errField,
        absSource, chk, derefPtr, formatInt10, hl', h1, h2, h4]

/-! ### `End`: the bytes on the connection -/

/-- `End` of a started frame whose latch is clear (`tie_Writer_End_ok` on a `wr` state): ONE `Write` of
    the model's `frame t body`; the frame is reset, `putbuf` untouched -/
theorem step_End (t : UInt8) (body pb : Bytes) (w : World) (hlen : body.length + 5 < 4294967296) :
    Trans.Writer_End (setWriter w (wr (t :: 0 :: 0 :: 0 :: 0 :: body) pb)) =
      (connWrite (frame t body) (setWriter w (wr (frame t body) pb))).bind fun r w' =>
        .ok r.2 (setWriter w' (wr [] pb)) := by
  obtain ⟨out, _, ho, h⟩ := tie_Writer_End_ok (setWriter w (wr (t :: 0 :: 0 :: 0 :: 0 :: body) pb)) t 0 0 0 0 body rfl rfl
    (by simpa [setWriter, wr] using hlen)
  have ho' : out = frame t body := by rw [ho]; simp [frame, setWriter, wr]
  rw [h, ho']
  simp only [setWriter, wr, connWrite]
  cases w.wleft with
  | none => rfl
  | some n => cases n <;> rfl

/-- the ErrorResponse as the model encodes it -/
def errMsg (d : ErrDesc) : Bytes := (BMsg.error (errorBody (absDesc d))).encode

theorem errMsg_eq (d : ErrDesc) : errMsg d = frame 69 (errorBody (absDesc d)) := rfl

/-- the body fits the 32-bit length field (Go: `uint32(len − 1)` would wrap silently otherwise) -/
def FitsFrame (d : ErrDesc) : Prop := (errorBody (absDesc d)).length + 5 < 4294967296

instance (d : ErrDesc) : Decidable (FitsFrame d) := by unfold FitsFrame; infer_instance

/-- TIE.  `writeErrorResponse` on ANY writer state (frame, latch) performs exactly one `Write` on the
    connection, of `(BMsg.error (errorBody desc)).encode`, returns that `Write`'s error, and leaves the
    writer reset. -/
theorem tie_writeErrorResponse (e : ErrArg) (w : World) (hp : PutbufOK w.writer.putbuf) (hl : LineOK e.flat)
    (hf : FitsFrame e.flat) :
    TransError.writeErrorResponse e w =
      (connWrite (errMsg e.flat) (setWriter w (wr (errMsg e.flat) (pbStart 69 w.writer.putbuf)))).bind fun r w' =>
        .ok r.2 (setWriter w' (wr [] (pbStart 69 w.writer.putbuf))) := by
  rw [tie_writeErrorResponse_frame e w hp hl, errFrame, step_End 69 _ _ w hf]
  rfl

/-- every `Write` succeeds: the message is on the connection, the result is nil -/
theorem tie_writeErrorResponse_sent (e : ErrArg) (w : World) (hp : PutbufOK w.writer.putbuf) (hl : LineOK e.flat)
    (hf : FitsFrame e.flat) (hw : w.wleft = none) :
    TransError.writeErrorResponse e w =
      .ok none { setWriter w (wr [] (pbStart 69 w.writer.putbuf)) with sink := errMsg e.flat :: w.sink } := by
  rw [tie_writeErrorResponse e w hp hl hf]
  simp [connWrite, setWriter, hw, Out.bind]

theorem tie_writeErrorResponse_sent_counted (e : ErrArg) (w : World) (hp : PutbufOK w.writer.putbuf)
    (hl : LineOK e.flat) (hf : FitsFrame e.flat) (n : Nat) (hw : w.wleft = some (n + 1)) :
    TransError.writeErrorResponse e w =
      .ok none { setWriter w (wr [] (pbStart 69 w.writer.putbuf)) with sink := errMsg e.flat :: w.sink, wleft := some n } := by
  rw [tie_writeErrorResponse e w hp hl hf]
  simp [connWrite, setWriter, hw, Out.bind]

/-- the `Write` fails: nothing reaches the connection, the write error is returned, the writer is reset -/
theorem tie_writeErrorResponse_writeFails (e : ErrArg) (w : World) (hp : PutbufOK w.writer.putbuf)
    (hl : LineOK e.flat) (hf : FitsFrame e.flat) (hw : w.wleft = some 0) :
    TransError.writeErrorResponse e w = .ok (some .writeErr) (setWriter w (wr [] (pbStart 69 w.writer.putbuf))) := by
  rw [tie_writeErrorResponse e w hp hl hf]
  simp [connWrite, setWriter, hw, Out.bind]

/-- NO PANIC (in particular no nil dereference of `desc.Source`, no slice panic in `End`), no blocking:
    the builder returns, with the writer reset and at most the one message added to the connection -/
theorem tie_writeErrorResponse_noPanic (e : ErrArg) (w : World) (hp : PutbufOK w.writer.putbuf) (hl : LineOK e.flat)
    (hf : FitsFrame e.flat) :
    ∃ r w', TransError.writeErrorResponse e w = .ok r w' ∧ w'.writer = wr [] (pbStart 69 w.writer.putbuf) ∧
      PutbufOK w'.writer.putbuf ∧
      ((r = none ∧ w'.sink = errMsg e.flat :: w.sink) ∨ (r = some .writeErr ∧ w'.sink = w.sink)) := by
  have hpb := pbStart_ok 69 _ hp
  cases hw : w.wleft with
  | none => exact ⟨_, _, tie_writeErrorResponse_sent e w hp hl hf hw, rfl, hpb, Or.inl ⟨rfl, rfl⟩⟩
  | some n =>
    cases n with
    | zero => exact ⟨_, _, tie_writeErrorResponse_writeFails e w hp hl hf hw, rfl, hpb, Or.inr ⟨rfl, rfl⟩⟩
    | succ n => exact ⟨_, _, tie_writeErrorResponse_sent_counted e w hp hl hf n hw, rfl, hpb, Or.inl ⟨rfl, rfl⟩⟩

/-- THE LATCH.  The frame and the error latch the writer holds at entry have no influence: `Start`
    resets both before the first field is added (and no `Add*` of this builder can set the latch), so the
    builder never takes the latch-set branch of `End` (`tie_Writer_End_err`) -/
theorem tie_writeErrorResponse_latch (e : ErrArg) (w : World) (f : Bytes) (le : Option Go.Err)
    (hp : PutbufOK w.writer.putbuf) (hl : LineOK e.flat) :
    TransError.writeErrorResponse e (setWriter w { w.writer with frame := f, err := le }) =
      TransError.writeErrorResponse e w := by
  rw [tie_writeErrorResponse_frame e w hp hl, tie_writeErrorResponse_frame e _ (by simpa [setWriter] using hp) hl]
  rfl

/-! ### against the model's `flatten` -/

/-- a model description as the Go value -/
def descOf (f : Flat) : ErrDesc :=
  { Code := f.code, Message := f.message, Detail := f.detail, Hint := f.hint, Severity := f.severity,
    ConstraintName := f.constr, Source := f.source.map fun (a, b, c) => { File := a, Line := b, Function := c } }

theorem absDesc_descOf (f : Flat) : absDesc (descOf f) = f := by
  cases f with
  | mk c m d h s n src => cases src <;> simp [absDesc, descOf, absSource]

theorem descOf_absDesc (d : ErrDesc) : descOf (absDesc d) = d := by
  cases d with
  | mk c m d h s n src => cases src <;> simp [absDesc, descOf, absSource]

/-- for a model error `err` (nil included) whose `Flatten` is what the caller's value flattens to, the
    message sent is the one Model/Session and C17 speak about: `BMsg.error (errorBody (flatten err))` -/
theorem tie_writeErrorResponse_model (err : Option Pw.Err) (w : World) (hp : PutbufOK w.writer.putbuf)
    (hl : LineOK (descOf (flatten err))) (hf : FitsFrame (descOf (flatten err))) (hw : w.wleft = none) :
    TransError.writeErrorResponse ⟨descOf (flatten err)⟩ w =
      .ok none { setWriter w (wr [] (pbStart 69 w.writer.putbuf)) with
                 sink := (BMsg.error (errorBody (flatten err))).encode :: w.sink } := by
  have h := tie_writeErrorResponse_sent ⟨descOf (flatten err)⟩ w hp hl hf hw
  rw [h]
  simp [errMsg, absDesc_descOf]

/-! ### readyForQuery, ErrorCode -/

theorem tie_readyForQuery (st : UInt8) (w : World) (hp : PutbufOK w.writer.putbuf) :
    TransError.readyForQuery st w =
      (connWrite (BMsg.ready st).encode (setWriter w (wr (BMsg.ready st).encode (pbStart 90 w.writer.putbuf)))).bind
        fun r w' => .ok r.2 (setWriter w' (wr [] (pbStart 90 w.writer.putbuf))) := by
  unfold TransError.readyForQuery
  rw [step_Start 90 w hp]
  simp only [step_AddByte, bind_ok]
  exact step_End 90 [st] _ w (by simp)

/-- `ErrorCode` = the ErrorResponse, then (only when its `Write` succeeded) ReadyForQuery('I') -/
theorem tie_ErrorCode (e : ErrArg) (w : World) :
    TransError.ErrorCode e w =
      (TransError.writeErrorResponse e w).bind fun r w' =>
        if r ≠ none then .ok r w' else TransError.readyForQuery 73 w' := by
  unfold TransError.ErrorCode
  simp only [bind_ok]

/-- every `Write` succeeds: ErrorResponse then ReadyForQuery(idle), two `Write`s, result nil -/
theorem tie_ErrorCode_sent (e : ErrArg) (w : World) (hp : PutbufOK w.writer.putbuf) (hl : LineOK e.flat)
    (hf : FitsFrame e.flat) (hw : w.wleft = none) :
    TransError.ErrorCode e w =
      .ok none { setWriter w (wr [] (pbStart 90 (pbStart 69 w.writer.putbuf))) with
                 sink := (BMsg.ready 73).encode :: errMsg e.flat :: w.sink } := by
  rw [tie_ErrorCode, tie_writeErrorResponse_sent e w hp hl hf hw]
  simp only [Out.bind, ne_eq, not_true_eq_false, if_false]
  rw [tie_readyForQuery 73 _ (pbStart_ok 69 _ hp)]
  simp [connWrite, setWriter, hw, Out.bind, wr_putbuf]

/-- the first `Write` fails: its error is returned and ReadyForQuery is NOT attempted -/
theorem tie_ErrorCode_writeFails (e : ErrArg) (w : World) (hp : PutbufOK w.writer.putbuf) (hl : LineOK e.flat)
    (hf : FitsFrame e.flat) (hw : w.wleft = some 0) :
    TransError.ErrorCode e w = .ok (some .writeErr) (setWriter w (wr [] (pbStart 69 w.writer.putbuf))) := by
  rw [tie_ErrorCode, tie_writeErrorResponse_writeFails e w hp hl hf hw]
  simp [Out.bind]

/-- the second `Write` fails: the ErrorResponse is out, ReadyForQuery is not, the error is returned -/
theorem tie_ErrorCode_readyFails (e : ErrArg) (w : World) (hp : PutbufOK w.writer.putbuf) (hl : LineOK e.flat)
    (hf : FitsFrame e.flat) (hw : w.wleft = some 1) :
    TransError.ErrorCode e w =
      .ok (some .writeErr) { setWriter w (wr [] (pbStart 90 (pbStart 69 w.writer.putbuf))) with
                             sink := errMsg e.flat :: w.sink, wleft := some 0 } := by
  rw [tie_ErrorCode, tie_writeErrorResponse_sent_counted e w hp hl hf 0 hw]
  simp only [Out.bind, ne_eq, not_true_eq_false, if_false]
  rw [tie_readyForQuery 73 _ (pbStart_ok 69 _ hp)]
  simp [connWrite, setWriter, Out.bind, wr_putbuf]

/-! ### concrete runs of the translated code (evaluated by the kernel) -/

/-- what a run left on the connection (newest first), the result, and whether the writer is reset -/
def ranTo {α} : Out (Option α) → Option (List Bytes × Bool × Bool)
  | .ok r w => some (w.sink, r.isSome, w.writer.frame.isEmpty && w.writer.err.isNone)
  | _ => none

def exDesc : ErrDesc :=
  { Code := ascii "42601"
    Message := ascii "boom"
    Severity := ascii "ERROR"
    Hint := ascii "try"
    Source := some { File := ascii "f.go", Line := -12, Function := ascii "fn" } }

/-- 'E' len=45  S"ERROR" C"42601" M"boom" H"try" F"f.go" L"-12" R"fn" NUL  (no D, no n) -/
def exBytes : Bytes :=
  [69, 0, 0, 0, 45, 83, 69, 82, 82, 79, 82, 0, 67, 52, 50, 54, 48, 49, 0, 77, 98, 111, 111, 109, 0, 72, 116, 114,
   121, 0, 70, 102, 46, 103, 111, 0, 76, 45, 49, 50, 0, 82, 102, 110, 0, 0]

example : ranTo (TransError.writeErrorResponse ⟨exDesc⟩ {}) = some ([exBytes], false, true) := by decide +kernel

/-- the model agrees on the bytes -/
example : errMsg exDesc = exBytes := by decide +kernel

/-- a stale frame and a set latch at entry change nothing -/
example : ranTo (TransError.writeErrorResponse ⟨exDesc⟩
    { writer := { frame := [1, 2, 3], err := some .writeErr } }) = some ([exBytes], false, true) := by decide +kernel

/-- a failing `Write`: nothing sent, error returned, writer reset -/
example : ranTo (TransError.writeErrorResponse ⟨exDesc⟩ { wleft := some 0 }) = some ([], true, true) := by
  decide +kernel

/-- `ErrorCode`: ErrorResponse, then ReadyForQuery('I') -/
example : ranTo (TransError.ErrorCode ⟨exDesc⟩ {}) = some ([[90, 0, 0, 0, 5, 73], exBytes], false, true) := by
  decide +kernel

/-- a decorated model error through the model's `flatten`: hint before detail, constraint last -/
example : ranTo (TransError.writeErrorResponse
      ⟨descOf (flatten (some (.constr (ascii "k") (.detail (ascii "d") (.hint (ascii "h") (.base (ascii "m")))))))⟩ {}) =
    some ([[69, 0, 0, 0, 31] ++ ascii "SERROR" ++ [0] ++ ascii "CXXUUU" ++ [0] ++ ascii "Mm" ++ [0] ++ ascii "Hh" ++ [0]
            ++ ascii "Dd" ++ [0] ++ ascii "nk" ++ [0, 0]], false, true) := by decide +kernel

end Pw.Tie
