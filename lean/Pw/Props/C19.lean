import Pw.Props.C12
/-
  C19 — session lifecycle: middleware order, terminate hook.
-/
namespace Pw.Props.C19
open Pw

/-- index of the first failing middleware, if any -/
def firstFail : List Bool → Option Nat
  | [] => none
  | ok :: r => if ok then (firstFail r).map (· + 1) else some 0

def mwEvents (i n : Nat) : List Event := ((List.range n).map (fun j => Event.mw (i + j))).reverse

theorem mwEvents_succ (i n : Nat) : mwEvents i (n + 1) = mwEvents (i + 1) n ++ [Event.mw i] := by
  simp only [mwEvents, List.range_succ_eq_map, List.map_cons, List.map_map, List.reverse_cons, Nat.add_zero]
  congr 2
  apply List.map_congr_left
  intro a _
  simp [Function.comp, Nat.add_assoc, Nat.add_comm 1]

/-- **middleware chain**: for ANY number of middlewares they run once each, in registration
    order, up to and including the first failing one; nothing is written; the chain succeeds
    exactly when none fails -/
theorem C19_chain : ∀ (mws : List Bool) (i : Nat) (s : Sess),
    (runMiddlewares mws i s).1.out = s.out ∧
    (runMiddlewares mws i s).2 = (firstFail mws).isNone ∧
    (runMiddlewares mws i s).1.ev =
      mwEvents i (match firstFail mws with | none => mws.length | some k => k + 1) ++ s.ev := by
  intro mws
  induction mws with
  | nil => intro i s; simp [runMiddlewares, firstFail, mwEvents]
  | cons ok r ih =>
    intro i s
    cases ok with
    | false => simp [runMiddlewares, firstFail, Sess.log, mwEvents]
    | true =>
      obtain ⟨a, b, c⟩ := ih (i + 1) (s.log (.mw i))
      simp only [runMiddlewares, if_true, firstFail]
      refine ⟨by simpa [Sess.log] using a, ?_, ?_⟩
      · rw [b]; cases hf : firstFail r <;> simp [hf]
      · rw [c]
        cases hf : firstFail r with
        | none => simp only [Option.map_none, List.length_cons, Sess.log, mwEvents_succ, List.append_assoc, List.cons_append, List.nil_append]
        | some k => simp only [Option.map_some, Sess.log, mwEvents_succ, List.append_assoc, List.cons_append, List.nil_append]

/-- a middleware error ends the connection before any command is served: no ReadyForQuery, no
    parser or statement callback — whatever the client has pipelined -/
theorem C19_failure_ends (cfg : Config) (h : Handlers) (s0 : Sess) (body rest : Bytes) (cp : List (Bytes × Bytes))
    (hcp : readClientParams (body.length + 1) body [] = some cp)
    (s1 : Sess)
    (hauth : authPhase cfg h (sessionStart s0 rest)
        ((lookup (ascii "database") cp).getD []) ((lookup (ascii "user") cp).getD []) = (s1, none))
    (s2 : Sess) (hpar : sendParams (serverParams cfg ((lookup (ascii "user") cp).getD [])) s1 = (s2, true))
    (hfail : (firstFail h.mws).isSome) :
    let r := serveAfterVersion cfg h s0 body rest
    r.ending = .closed ∧ r.msgs = (runMiddlewares h.mws 0 s2).1.out.reverse ∧
    r.ev = (runMiddlewares h.mws 0 s2).1.ev.reverse := by
  intro r
  have hm := (C19_chain h.mws 0 s2).2.1
  have hfalse : (runMiddlewares h.mws 0 s2).2 = false := by
    rw [hm]; cases hq : firstFail h.mws <;> simp_all
  simp only [r, serveAfterVersion, hcp, hauth, hpar]
  rcases hrm : runMiddlewares h.mws 0 s2 with ⟨s3, ok⟩
  rw [hrm] at hfalse
  simp only at hfalse
  subst hfalse
  simp [finish]

/-- **Terminate**: the hook (when configured) runs exactly once, the connection is closed and
    the command loop stops — nothing behind the Terminate is ever looked at -/
theorem C19_terminate (h : Handlers) (s : Sess) (body : Bytes) (rest : List Item) (fuel : Nat)
    (hi : s.inp.items = .msg (ch 'X') body :: rest) :
    loop h (fuel + 1) s =
      (match h.terminate with
       | none => { s with inp := { s.inp with items := rest, msg := body } }
       | some _ => ({ s with inp := { s.inp with items := rest, msg := body } } : Sess).log .terminate,
       .closed) := by
  simp only [loop, stepCommand, Inp.next, hi, handleCommand, ch]
  cases h.terminate <;> simp

end Pw.Props.C19
