import Pw.Props.TieFraming
import Pw.Model.Session
import Pw.Generated.TransCopy
/-
  TIE THEOREMS, part 4: copy.go (`CopyReader.Read`, `BinaryCopyReader.fill/take/takeLength/skipHeader`) against the
  COPY-in section of Model/Session.lean (`copyRead`, `binFill`, `binTake`, `binTakeLength`, `binSkipHeader`).

  `Pw/Generated/TransCopy.lean` is regenerated from /repo/copy.go on every check run by `go/translate -copy`
  (run-time semantics in Pw/Go/RtCopy.lean); when the source changes, the definitions below `TransCopy.` change
  and these proofs are re-checked against them.
-/
set_option linter.unusedSimpArgs false
namespace Pw.Tie
open Pw Pw.Go

/-! ### the translator handled everything; struct layouts and constants as mirrored in RtCopy.lean / the model -/
example : TransCopy.untranslatable = [] := rfl
example : TransCopy.structCopyReader = [("", "*buffer.Reader"), ("writer", "*buffer.Writer"), ("columns", "Columns"),
    ("chunk", "[]byte")] := rfl
example : TransCopy.structBinaryCopyReader = [("typeMap", "*pgtype.Map"), ("reader", "*CopyReader"),
    ("scanners", "[]Scanner"), ("pending", "[]byte"), ("started", "bool"), ("done", "bool")] := rfl
example : TransCopy.CopySignature = copySignature := rfl

def setBase (w : CWorld) (b : World) : CWorld := { w with base := b }

/-! ### `buffer.UnwrapMessageSizeExceeded` on the errors `ReadTypedMsg` can return -/
theorem unwrap_none : unwrapSizeExceeded none = ({}, false) := rfl
theorem unwrap_size (max size : Int) :
    unwrapSizeExceeded (some (.lib (.sizeExceeded max size))) = ({ Size := size, Max := max }, true) := rfl
theorem unwrap_lib (e : Go.Err) (he : ∀ max size, e ≠ .sizeExceeded max size) :
    unwrapSizeExceeded (some (.lib e)) = ({}, false) := by
  cases e <;> first | rfl | (exact absurd rfl (he _ _))

/-! ### (a) `CopyReader.Read`, branch by branch -/

theorem tie_CopyRead_fuel0 (w : CWorld) : TransCopy.CopyReader_Read 0 w = .fuel := rfl

theorem tie_CopyRead_data (fuel : Nat) (w : CWorld) (w' : World) (n : Int)
    (h : Trans.Reader_ReadTypedMsg w.base = .ok (100, n, none) w') :
    TransCopy.CopyReader_Read (fuel + 1) w = .ok none (setBase w w') := by
  unfold TransCopy.CopyReader_Read TransCopy.CopyReader_Read.loop1
  simp [h, liftR, COut.bind, liftErr, unwrap_none, setBase]

theorem tie_CopyRead_skip (fuel : Nat) (w : CWorld) (w' : World) (t : UInt8) (n : Int)
    (h : Trans.Reader_ReadTypedMsg w.base = .ok (t, n, none) w') (ht : t = 72 ∨ t = 83) :
    TransCopy.CopyReader_Read (fuel + 1) w = TransCopy.CopyReader_Read fuel (setBase w w') := by
  unfold TransCopy.CopyReader_Read
  conv => lhs; unfold TransCopy.CopyReader_Read.loop1
  simp [h, liftR, COut.bind, liftErr, unwrap_none, setBase, ht]

theorem tie_CopyRead_done (fuel : Nat) (w : CWorld) (w' : World) (n : Int)
    (h : Trans.Reader_ReadTypedMsg w.base = .ok (99, n, none) w') :
    TransCopy.CopyReader_Read (fuel + 1) w = .ok (some (.lib .eof)) (setBase w w') := by
  unfold TransCopy.CopyReader_Read TransCopy.CopyReader_Read.loop1
  simp [h, liftR, COut.bind, liftErr, unwrap_none, setBase]

theorem tie_CopyRead_other (fuel : Nat) (w : CWorld) (w' : World) (t : UInt8) (n : Int)
    (h : Trans.Reader_ReadTypedMsg w.base = .ok (t, n, none) w')
    (ht : t ≠ 72 ∧ t ≠ 83 ∧ t ≠ 100 ∧ t ≠ 99 ∧ t ≠ 102) :
    TransCopy.CopyReader_Read (fuel + 1) w = .ok (some (.unimplemented t)) (setBase w w') := by
  unfold TransCopy.CopyReader_Read TransCopy.CopyReader_Read.loop1
  simp [h, liftR, COut.bind, liftErr, unwrap_none, setBase, ht]

/-- CopyFail: the description is the model's `getString` (= `cstr`) of the message body -/
theorem tie_CopyRead_fail (fuel : Nat) (w : CWorld) (w' : World) (n : Int)
    (h : Trans.Reader_ReadTypedMsg w.base = .ok (102, n, none) w') (hwf : Sl.WF w'.reader.Msg) :
    TransCopy.CopyReader_Read (fuel + 1) w =
      match getString w'.reader.Msg.data with
      | some (desc, _) => .ok (some (.copyFailed desc)) (setBase w (setMsg w' (Sl.adv (desc.length + 1) w'.reader.Msg)))
      | none => .ok (some (.lib .missingNul)) (setBase w w') := by
  unfold TransCopy.CopyReader_Read TransCopy.CopyReader_Read.loop1
  simp [h, liftR, COut.bind, liftErr, unwrap_none, setBase, tie_GetString w' hwf]
  cases hg : getString w'.reader.Msg.data with
  | none => simp
  | some p => simp

/-- an oversized message: its body is skipped, then the size error is returned (or the skip's error) -/
theorem tie_CopyRead_exceeded (fuel : Nat) (w : CWorld) (w' : World) (t : UInt8) (n max size : Int)
    (h : Trans.Reader_ReadTypedMsg w.base = .ok (t, n, some (.sizeExceeded max size)) w') :
    TransCopy.CopyReader_Read (fuel + 1) w =
      match Trans.Reader_Slurp fuel size w' with
      | .ok none w'' => .ok (some (.lib (.sizeExceeded max size))) (setBase w w'')
      | .ok (some e) w'' => .ok (some (.lib e)) (setBase w w'')
      | .panic m => .panic m
      | .block => .block
      | .fuel => .fuel := by
  unfold TransCopy.CopyReader_Read TransCopy.CopyReader_Read.loop1
  simp only [h, liftR, COut.bind, liftErr, Option.map_some, unwrap_size, setBase]
  cases hs : Trans.Reader_Slurp fuel size w' with
  | ok e w'' => cases e <;> simp [liftR, COut.bind]
  | panic m => simp [liftR, COut.bind]
  | block => simp [liftR, COut.bind]
  | fuel => simp [liftR, COut.bind]

/-- any other error of `ReadTypedMsg` is returned as it is -/
theorem tie_CopyRead_err (fuel : Nat) (w : CWorld) (w' : World) (t : UInt8) (n : Int) (e : Go.Err)
    (h : Trans.Reader_ReadTypedMsg w.base = .ok (t, n, some e) w') (he : ∀ max size, e ≠ .sizeExceeded max size) :
    TransCopy.CopyReader_Read (fuel + 1) w = .ok (some (.lib e)) (setBase w w') := by
  unfold TransCopy.CopyReader_Read TransCopy.CopyReader_Read.loop1
  simp [h, liftR, COut.bind, liftErr, unwrap_lib e he, setBase]

/-- `ReadTypedMsg` blocks or panics: so does `Read` -/
theorem tie_CopyRead_nonok (fuel : Nat) (w : CWorld) :
    (Trans.Reader_ReadTypedMsg w.base = .block → TransCopy.CopyReader_Read (fuel + 1) w = .block) ∧
    (∀ m, Trans.Reader_ReadTypedMsg w.base = .panic m → TransCopy.CopyReader_Read (fuel + 1) w = .panic m) ∧
    (Trans.Reader_ReadTypedMsg w.base = .fuel → TransCopy.CopyReader_Read (fuel + 1) w = .fuel) := by
  unfold TransCopy.CopyReader_Read TransCopy.CopyReader_Read.loop1
  refine ⟨?_, ?_, ?_⟩ <;> intros <;> simp_all [liftR, COut.bind]

/-! ### (b) on a stream whose next item is a complete in-limit message: the model's `copyRead` -/

/-- a `.msg` item is within the limit -/
theorem readItem_msg_le (L : Nat) (src : Bytes) (t : UInt8) (body rest : Bytes)
    (h : readItem L src = some (.msg t body, rest)) : body.length ≤ L := by
  unfold readItem at h
  rcases src with _ | ⟨t', _ | ⟨a, _ | ⟨b, _ | ⟨c, _ | ⟨d, r⟩⟩⟩⟩⟩ <;> try (simp [rd32] at h; done)
  simp only [rd32_declared] at h
  obtain ⟨n, hv, _, hn, hb, _⟩ := readBody_msg _ _ _ _ _ _ _ h
  have : body.length = n := by rw [hb]; simp [List.length_take, Nat.min_eq_left hn]
  unfold sizeVerdict at hv
  simp only at hv
  split at hv
  · cases hv
  · injection hv with hv; omega

/-- the reader after a complete message: invariant kept, window = the body, stream advanced -/
theorem afterMsg_okC (w : World) (ok : ReaderOK w) (hdr r : Bytes) (n : Nat) (hh : hdr.length = 4)
    (hn : n ≤ r.length) (hL : (n : Int) ≤ w.reader.MaxMessageSize) :
    ReaderOK (afterMsg w hdr r n) ∧ (afterMsg w hdr r n).reader.Msg.data = r.take n ∧
    (afterMsg w hdr r n).src = r.drop n ∧ (afterMsg w hdr r n).reader.MaxMessageSize = w.reader.MaxMessageSize ∧
    (afterMsg w hdr r n).fin = w.fin := by
  obtain ⟨hm0, hm1⟩ := ok.max
  have hn62 : n < 4611686018427387904 := by omega
  have hwf : Sl.WF (setHeader { w with src := r } hdr).reader.Msg := ok.wf
  have hnk : Sl.NilOK (setHeader { w with src := r } hdr).reader.Msg := ok.nilok
  obtain ⟨_, h1, h2, h3⟩ := resetSpec_heap n (setHeader { w with src := r } hdr) [] hwf hnk hn62
  obtain ⟨_, f2, _, _, _, _, f7, f8⟩ := resetSpec_frame n (setHeader { w with src := r } hdr)
  simp [setHeader] at f2 f7 f8
  refine ⟨⟨?_, ?_, ?_, ?_⟩, ?_, ?_, ?_, ?_⟩
  · unfold Sl.WF at *; simp [afterMsg, setMsg, List.length_take, Nat.min_eq_left hn] at *; omega
  · unfold Sl.NilOK at *; intro hnil
    simp [afterMsg, setMsg] at hnil
    obtain ⟨hc, hd⟩ := h2 hnil
    rw [hd] at h3
    simp at h3
    subst h3
    simp [afterMsg, setMsg, hc]
  · simp [afterMsg, setMsg, f8, setHeader, hh]
  · simp [afterMsg, setMsg, f7, setHeader]; exact ⟨hm0, hm1⟩
  · simp [afterMsg, setMsg]
  · simp [afterMsg, setMsg]
  · simp [afterMsg, setMsg, f7, setHeader]
  · simp [afterMsg, setMsg, f2, setHeader]

/-! the error values of the translated code as the model's values -/

/-- `fmt.Sprintf(format, ints…)` for formats whose only verb is `%d` -/
def fmtD : Bytes → List Int → Bytes
  | [], _ => []
  | [c], _ => [c]
  | c :: d :: r, as =>
    if c = 37 ∧ d = 100 then
      match as with
      | a :: as' => decInt a ++ fmtD r as'
      | [] => c :: d :: fmtD r []
    else c :: fmtD (d :: r) as

def absLib : Go.Err → Pw.Err
  | .eof => .base (ascii "EOF")
  | .unexpectedEOF => errUnexpectedEOF
  | .readErr => errRead
  | .writeErr => errWrite
  | .sizeExceeded max size => errSizeExceeded max.toNat size
  | .missingNul => errMissingNul
  | .insufficient n => errInsufficient n.toNat

/-- `absErr`: what the handler gets, in the model's terms (`wrap` mirrors `wrapOp`; errors of the
    external scanners are the model's opaque pgx decode error) -/
def absErr : CErr → OpErr
  | .lib e => .lib (absLib e)
  | .copyFailed d => .lib (errCopyFailed d)
  | .unimplemented t => .lib (errUnimplemented t)
  | .new text => .lib (.base text)
  | .errorf f args => .lib (.base (fmtD f args))
  | .wrap pre post e => (match absErr e with | .lib e' => .lib (.wrap pre post e') | o => o)
  | .wrapNil pre post => .lib (.base (pre ++ ascii "%!w(<nil>)" ++ post))
  | .ext _ => .pgxDec

/-- the result of `CopyReader.Read` as the handler program sees it -/
def absCopyRes (e : Option CErr) (msg : Bytes) : CopyRes :=
  match e with
  | none => .data msg
  | some (.lib .eof) => .eof
  | some e => .err (absErr e)

/-- `w1` is `w` with the reader advanced to `rest`; nothing else moved -/
def Adv (w w1 : CWorld) (rest : Bytes) : Prop :=
  ReaderOK w1.base ∧ w1.base.src = rest ∧ w1.base.reader.MaxMessageSize = w.base.reader.MaxMessageSize ∧
  w1.base.fin = w.base.fin ∧ w1.bin = w.bin ∧ w1.ctxErr = w.ctxErr ∧ w1.scan = w.scan

/-- `ReadTypedMsg` on a complete in-limit message, in the form the dispatch theorems consume -/
theorem readTyped_msg (w : CWorld) (ok : ReaderOK w.base) (t : UInt8) (body rest : Bytes)
    (h : readItem w.base.reader.MaxMessageSize.toNat w.base.src = some (.msg t body, rest)) :
    ∃ n w', Trans.Reader_ReadTypedMsg w.base = .ok (t, n, none) w' ∧ Adv w (setBase w w') rest ∧ w'.reader.Msg.data = body := by
  obtain ⟨a, b, c, d, r, hsrc, hb, hr, hle, hrt⟩ := tie_ReadTypedMsg_msg w.base ok t body rest h
  have hL := readItem_msg_le _ _ _ _ _ h
  have ok' : ReaderOK { w.base with src := a :: b :: c :: d :: r } := ⟨ok.wf, ok.nilok, ok.hdr, ok.max⟩
  have hL' : (body.length : Int) ≤ w.base.reader.MaxMessageSize := by have := ok.max; omega
  obtain ⟨g1, g2, g3, g4, g5⟩ := afterMsg_okC { w.base with src := a :: b :: c :: d :: r } ok' [a, b, c, d] r body.length rfl hle hL'
  refine ⟨_, _, hrt, ⟨g1, ?_, g4, g5, rfl, rfl, rfl⟩, ?_⟩
  · simp only [setBase]; rw [g3]; exact hr.symm
  · rw [g2]; exact hb.symm

/-- a message the backend ignores during copy-in (Flush, Sync): both sides go on to the next message -/
theorem tie_CopyRead_msg_skip (fuel mf : Nat) (w : CWorld) (ok : ReaderOK w.base) (t : UInt8) (body rest : Bytes)
    (its : List Item) (tl : Tail) (m : Bytes) (u : Bool)
    (h : readItem w.base.reader.MaxMessageSize.toNat w.base.src = some (.msg t body, rest)) (ht : t = 72 ∨ t = 83) :
    ∃ w1, TransCopy.CopyReader_Read (fuel + 1) w = TransCopy.CopyReader_Read fuel w1 ∧ Adv w w1 rest ∧
      w1.base.reader.Msg.data = body ∧
      copyRead (mf + 1) { L := w.base.reader.MaxMessageSize.toNat, items := .msg t body :: its, tail := tl, msg := m, unsup := u } =
        copyRead mf { L := w.base.reader.MaxMessageSize.toNat, items := its, tail := tl, msg := body, unsup := u } := by
  obtain ⟨n, w', hrt, hadv, hmsg⟩ := readTyped_msg w ok t body rest h
  refine ⟨setBase w w', tie_CopyRead_skip fuel w w' t n hrt ht, hadv, hmsg, ?_⟩
  rcases ht with ht | ht <;> subst ht <;> simp [copyRead, Inp.next, ch]

theorem adv_nilok (n : Nat) (s : Sl) (h : Sl.NilOK s) : Sl.NilOK (Sl.adv n s) := by
  unfold Sl.NilOK Sl.adv at *
  intro hn
  obtain ⟨hc, hd⟩ := h hn
  simp [hc, hd]

/-- any other complete in-limit message: `Read` returns, and what it returns is the model's `copyRead`
    step (`.data body` / `.eof` / the error values through `absErr`), with `reader.Msg` = the model's `msg` -/
theorem tie_CopyRead_msg (fuel mf : Nat) (w : CWorld) (ok : ReaderOK w.base) (t : UInt8) (body rest : Bytes)
    (its : List Item) (tl : Tail) (m : Bytes) (u : Bool)
    (h : readItem w.base.reader.MaxMessageSize.toNat w.base.src = some (.msg t body, rest)) (ht : ¬ (t = 72 ∨ t = 83)) :
    ∃ e w1, TransCopy.CopyReader_Read (fuel + 1) w = .ok e w1 ∧ Adv w w1 rest ∧
      (t = 100 → e = none ∧ w1.base.reader.Msg.data = body) ∧ (t = 99 → e = some (.lib .eof)) ∧
      (t ≠ 100 → e ≠ none) ∧
      copyRead (mf + 1) { L := w.base.reader.MaxMessageSize.toNat, items := .msg t body :: its, tail := tl, msg := m, unsup := u } =
        (some (absCopyRes e w1.base.reader.Msg.data),
         { L := w.base.reader.MaxMessageSize.toNat, items := its, tail := tl, msg := w1.base.reader.Msg.data, unsup := u }) := by
  obtain ⟨n, w', hrt, hadv, hmsg⟩ := readTyped_msg w ok t body rest h
  have h72 : t ≠ 72 := fun e => ht (Or.inl e)
  have h83 : t ≠ 83 := fun e => ht (Or.inr e)
  by_cases h100 : t = 100
  · subst h100
    refine ⟨none, setBase w w', tie_CopyRead_data fuel w w' n hrt, hadv, fun _ => ⟨rfl, hmsg⟩, by decide, by simp, ?_⟩
    simp [copyRead, Inp.next, ch, absCopyRes, setBase, hmsg]
  by_cases h99 : t = 99
  · subst h99
    refine ⟨_, setBase w w', tie_CopyRead_done fuel w w' n hrt, hadv, fun h => absurd h (by decide), fun _ => rfl, by simp, ?_⟩
    simp [copyRead, Inp.next, ch, absCopyRes, setBase, hmsg]
  by_cases h102 : t = 102
  · subst h102
    have hwf : Sl.WF w'.reader.Msg := hadv.1.wf
    have e := tie_CopyRead_fail fuel w w' n hrt hwf
    cases hg : getString w'.reader.Msg.data with
    | none =>
      rw [hg] at e
      refine ⟨_, setBase w w', e, hadv, fun h => absurd h (by decide), fun h => absurd h (by decide), by simp, ?_⟩
      rw [hmsg] at hg
      simp [getString] at hg
      simp [copyRead, Inp.next, ch, absCopyRes, setBase, hmsg, hg, absErr, absLib]
    | some p =>
      obtain ⟨desc, r'⟩ := p
      rw [hg] at e
      simp only at e
      obtain ⟨_, _, _, h4⟩ := (cstr_index w'.reader.Msg.data).2 desc r' hg
      obtain ⟨k1, k2, k3, k4, k5, k6, k7⟩ := hadv
      refine ⟨_, _, e, ⟨⟨?_, adv_nilok _ _ k1.nilok, k1.hdr, k1.max⟩, k2, k3, k4, k5, k6, k7⟩, fun h => absurd h (by decide), fun h => absurd h (by decide), by simp, ?_⟩
      · exact adv_wf _ _ k1.wf
      · rw [hmsg] at hg h4
        simp [getString] at hg
        simp [copyRead, Inp.next, ch, absCopyRes, setBase, setMsg, Sl.adv, hmsg, hg, absErr, h4]
  · refine ⟨_, setBase w w', tie_CopyRead_other fuel w w' t n hrt ⟨h72, h83, h100, h99, h102⟩, hadv,
      fun e => absurd e h100, fun e => absurd e h99, by simp, ?_⟩
    simp [copyRead, Inp.next, ch, absCopyRes, setBase, hmsg, absErr, h72, h83, h100, h99, h102]

/-! ### (c) `BinaryCopyReader.fill`, `take`, `takeLength`, `skipHeader` -/

/-- enough bytes are pending: `fill` does nothing (first line of `binFill`) -/
theorem tie_fill_enough (fuel : Nat) (size : Int) (w : CWorld) (h : size ≤ (w.bin.pending.length : Int)) :
    TransCopy.BinaryCopyReader_fill (fuel + 1) size w = .ok none w := by
  unfold TransCopy.BinaryCopyReader_fill TransCopy.BinaryCopyReader_fill.loop1
  have : ¬ ((w.bin.pending.length : Int) < size) := by omega
  simp [this]

/-- the stream has ended before: `io.EOF` (second line of `binFill`) -/
theorem tie_fill_done (fuel : Nat) (size : Int) (w : CWorld) (h : (w.bin.pending.length : Int) < size)
    (hd : w.bin.done = true) :
    TransCopy.BinaryCopyReader_fill (fuel + 1) size w = .ok (some (.lib .eof)) w := by
  unfold TransCopy.BinaryCopyReader_fill TransCopy.BinaryCopyReader_fill.loop1
  simp [h, hd]

/-- what one iteration of the `fill` loop does to the world after `CopyReader.Read` returned nil:
    `pending = append(pending, Msg...)`, `Msg = Msg[len(Msg):]` -/
def fillStep (w : CWorld) : CWorld :=
  { w with bin := { w.bin with pending := w.bin.pending ++ w.base.reader.Msg.data },
           base := setMsg w.base (Sl.adv w.base.reader.Msg.data.length w.base.reader.Msg) }

theorem fillStep_facts (w : CWorld) :
    (fillStep w).bin.pending = w.bin.pending ++ w.base.reader.Msg.data ∧ (fillStep w).base.reader.Msg.data = [] ∧
    (fillStep w).bin.done = w.bin.done ∧ (fillStep w).bin.started = w.bin.started ∧
    (fillStep w).base.src = w.base.src ∧ (fillStep w).base.reader.MaxMessageSize = w.base.reader.MaxMessageSize ∧
    (fillStep w).base.fin = w.base.fin := by
  simp [fillStep, setMsg, Sl.adv]

theorem fillStep_ok (w : CWorld) (ok : ReaderOK w.base) : ReaderOK (fillStep w).base :=
  ⟨adv_wf _ _ ok.wf, adv_nilok _ _ ok.nilok, ok.hdr, ok.max⟩

/-- one iteration of the loop, `Read` returned nil: the message body moves to `pending` (the `.data p`
    line of `binFill`) -/
theorem tie_fill_step_data (fuel : Nat) (size : Int) (w w1 : CWorld) (h : (w.bin.pending.length : Int) < size)
    (hd : w.bin.done = false) (hr : TransCopy.CopyReader_Read fuel w = .ok none w1) (hwf : Sl.WF w1.base.reader.Msg) :
    TransCopy.BinaryCopyReader_fill (fuel + 1) size w = TransCopy.BinaryCopyReader_fill fuel size (fillStep w1) := by
  unfold TransCopy.BinaryCopyReader_fill
  conv => lhs; unfold TransCopy.BinaryCopyReader_fill.loop1
  have e := sliceFrom_ok w1.base.junk w1.base.reader.Msg w1.base.reader.Msg.data.length (Nat.le_refl _) hwf
  have e' : Sl.sliceFrom w1.base.junk w1.base.reader.Msg w1.base.reader.Msg.len = _ := e
  simp [h, hd, hr, COut.bind, chkC, e', fillStep, setMsg]

/-- one iteration, `Read` returned `io.EOF` (CopyDone): `done` is set (the `.eof` line of `binFill`) -/
theorem tie_fill_step_eof (fuel : Nat) (size : Int) (w w1 : CWorld) (h : (w.bin.pending.length : Int) < size)
    (hd : w.bin.done = false) (hr : TransCopy.CopyReader_Read fuel w = .ok (some (.lib .eof)) w1) :
    TransCopy.BinaryCopyReader_fill (fuel + 1) size w =
      .ok (some (.lib .eof)) { w1 with bin := { w1.bin with done := true } } := by
  unfold TransCopy.BinaryCopyReader_fill TransCopy.BinaryCopyReader_fill.loop1
  simp [h, hd, hr, COut.bind]

/-- one iteration, `Read` returned another error: it is passed on (the `.err e` line of `binFill`) -/
theorem tie_fill_step_err (fuel : Nat) (size : Int) (w w1 : CWorld) (e : CErr) (h : (w.bin.pending.length : Int) < size)
    (hd : w.bin.done = false) (hr : TransCopy.CopyReader_Read fuel w = .ok (some e) w1) (he : e ≠ .lib .eof) :
    TransCopy.BinaryCopyReader_fill (fuel + 1) size w = .ok (some e) w1 := by
  unfold TransCopy.BinaryCopyReader_fill TransCopy.BinaryCopyReader_fill.loop1
  simp [h, hd, hr, COut.bind, he]

/-- `Read` blocks: so does `fill` (the `none` line of `binFill`) -/
theorem tie_fill_step_block (fuel : Nat) (size : Int) (w : CWorld) (h : (w.bin.pending.length : Int) < size)
    (hd : w.bin.done = false) (hr : TransCopy.CopyReader_Read fuel w = .block) :
    TransCopy.BinaryCopyReader_fill (fuel + 1) size w = .block := by
  unfold TransCopy.BinaryCopyReader_fill TransCopy.BinaryCopyReader_fill.loop1
  simp [h, hd, hr, COut.bind]

/-- postcondition of `fill`: when it returns nil, at least `size` bytes are pending -/
theorem fill_post (fuel : Nat) (size : Int) : ∀ (w w' : CWorld),
    TransCopy.BinaryCopyReader_fill fuel size w = .ok none w' → size ≤ (w'.bin.pending.length : Int) := by
  unfold TransCopy.BinaryCopyReader_fill
  induction fuel with
  | zero => intro w w' h; simp [TransCopy.BinaryCopyReader_fill.loop1] at h
  | succ fuel ih =>
    intro w w' h
    unfold TransCopy.BinaryCopyReader_fill.loop1 at h
    by_cases hp : (w.bin.pending.length : Int) < size
    · by_cases hd : w.bin.done = true
      · simp [hp, hd] at h
      · simp only [hp, hd, if_true, if_false] at h
        cases hr : TransCopy.CopyReader_Read fuel w with
        | ok e w1 =>
          simp only [hr, COut.bind] at h
          cases e with
          | some e => by_cases he : e = .lib .eof <;> simp [he] at h
          | none =>
            simp only [if_false, ne_eq, not_true_eq_false] at h
            split at h
            · cases h
            · cases hs : Sl.sliceFrom w1.base.junk w1.base.reader.Msg w1.base.reader.Msg.len with
              | error m => simp [hs, chkC] at h
              | ok s => simp only [hs, chkC] at h; exact ih _ _ h
        | panic m => simp [hr, COut.bind] at h
        | block => simp [hr, COut.bind] at h
        | fuel => simp [hr, COut.bind] at h
    · simp [hp] at h
      subst h; omega

/-- the world after `take(size)` -/
def takeW (w : CWorld) (size : Nat) : CWorld := { w with bin := { w.bin with pending := w.bin.pending.drop size } }

/-- `take` when `fill` returned nil: the front of `pending` is handed out and removed (the `.ok` line of
    `binTake`).  No slice expression can panic: `fill`'s postcondition is what `pending[:size]` needs. -/
theorem tie_take_ok (fuel : Nat) (size : Nat) (w w' : CWorld)
    (hf : TransCopy.BinaryCopyReader_fill fuel (size : Int) w = .ok none w') :
    TransCopy.BinaryCopyReader_take fuel (size : Int) w = .ok (w'.bin.pending.take size, none) (takeW w' size) := by
  have hp := fill_post fuel size w w' hf
  unfold TransCopy.BinaryCopyReader_take
  have h1 : ¬ ((w'.bin.pending.length : Int) < (size : Int)) := by omega
  have h2 : ¬ ((size : Int) < 0) := by omega
  simp [hf, COut.bind, chkC, arrSlice, h1, h2, takeW]

/-- `fill` returned `io.EOF`: `take` reports `io.ErrUnexpectedEOF` (the `.eof` line of `binTake`) -/
theorem tie_take_eof (fuel : Nat) (size : Int) (w w' : CWorld)
    (hf : TransCopy.BinaryCopyReader_fill fuel size w = .ok (some (.lib .eof)) w') :
    TransCopy.BinaryCopyReader_take fuel size w = .ok ([], some (.lib .unexpectedEOF)) w' := by
  unfold TransCopy.BinaryCopyReader_take
  simp [hf, COut.bind]

/-- `fill` returned another error: `take` passes it on (the `.err` line of `binTake`) -/
theorem tie_take_err (fuel : Nat) (size : Int) (w w' : CWorld) (e : CErr)
    (hf : TransCopy.BinaryCopyReader_fill fuel size w = .ok (some e) w') (he : e ≠ .lib .eof) :
    TransCopy.BinaryCopyReader_take fuel size w = .ok ([], some e) w' := by
  unfold TransCopy.BinaryCopyReader_take
  simp [hf, COut.bind, he]

theorem tie_take_block (fuel : Nat) (size : Int) (w : CWorld)
    (hf : TransCopy.BinaryCopyReader_fill fuel size w = .block) :
    TransCopy.BinaryCopyReader_take fuel size w = .block := by
  unfold TransCopy.BinaryCopyReader_take
  simp [hf, COut.bind]

/-- `take` never panics for a non-negative size, whatever the stream does -/
theorem take_no_panic (fuel : Nat) (size : Nat) (w : CWorld) (m : String)
    (hf : TransCopy.BinaryCopyReader_fill fuel (size : Int) w ≠ .panic m) :
    TransCopy.BinaryCopyReader_take fuel (size : Int) w ≠ .panic m := by
  cases hr : TransCopy.BinaryCopyReader_fill fuel (size : Int) w with
  | ok e w' =>
    cases e with
    | none => rw [tie_take_ok fuel size w w' hr]; simp
    | some e =>
      by_cases he : e = .lib .eof
      · subst he; rw [tie_take_eof fuel size w w' hr]; simp
      · rw [tie_take_err fuel size w w' e hr he]; simp
  | panic m' => unfold TransCopy.BinaryCopyReader_take; simp [hr, COut.bind]; intro h; exact hf (by rw [hr, h])
  | block => rw [tie_take_block fuel size w hr]; simp
  | fuel => unfold TransCopy.BinaryCopyReader_take; simp [hr, COut.bind]

/-- the format of the length error of `takeLength`, pinned to the literal in the generated code -/
def lengthFmt : Bytes := ascii "length %d exceeds the maximum message size %d"

theorem lengthFmt_eq : lengthFmt = [108, 101, 110, 103, 116, 104, 32, 37, 100, 32, 101, 120, 99, 101, 101, 100, 115, 32, 116, 104, 101, 32, 109, 97, 120, 105, 109, 117, 109, 32, 109, 101, 115, 115, 97, 103, 101, 32, 115, 105, 122, 101, 32, 37, 100] := by decide

theorem decInt_nat (n : Nat) : decInt (n : Int) = decNat n := by
  have : ¬ ((n : Int) < 0) := by omega
  simp [decInt, this]

theorem errLengthExceeds_eq (n L : Nat) : errLengthExceeds n L = .base ([108, 101, 110, 103, 116, 104, 32] ++ decNat n ++ [32, 101, 120, 99, 101, 101, 100, 115, 32, 116, 104, 101, 32, 109, 97, 120, 105, 109, 117, 109, 32, 109, 101, 115, 115, 97, 103, 101, 32, 115, 105, 122, 101, 32] ++ decNat L) := by
  have h1 : ascii "length " = [108, 101, 110, 103, 116, 104, 32] := by decide
  have h2 : ascii " exceeds the maximum message size " = [32, 101, 120, 99, 101, 101, 100, 115, 32, 116, 104, 101, 32, 109, 97, 120, 105, 109, 117, 109, 32, 109, 101, 115, 115, 97, 103, 101, 32, 115, 105, 122, 101, 32] := by decide
  unfold errLengthExceeds; rw [h1, h2]

/-- the structured `fmt.Errorf` value of `takeLength` is the model's `errLengthExceeds` -/
theorem absErr_lengthExceeds (n L : Nat) :
    absErr (.errorf lengthFmt [(n : Int), (L : Int)]) = .lib (errLengthExceeds n L) := by
  rw [lengthFmt_eq, errLengthExceeds_eq]
  simp [absErr, fmtD, decInt_nat]

/-- `take(4)` failed: `takeLength` passes the error on (the `.err` line of `binTakeLength`) -/
theorem tie_takeLength_err (fuel : Nat) (w w' : CWorld) (v : Bytes) (e : CErr)
    (ht : TransCopy.BinaryCopyReader_take fuel 4 w = .ok (v, some e) w') :
    TransCopy.BinaryCopyReader_takeLength fuel w = .ok (0, some e) w' := by
  unfold TransCopy.BinaryCopyReader_takeLength
  rw [ht]
  rfl

theorem tie_takeLength_block (fuel : Nat) (w : CWorld)
    (ht : TransCopy.BinaryCopyReader_take fuel 4 w = .block) :
    TransCopy.BinaryCopyReader_takeLength fuel w = .block := by
  unfold TransCopy.BinaryCopyReader_takeLength
  rw [ht]
  rfl

/-- `skipHeader`: an error of `fill` other than `io.EOF` is returned (the `.err` line of `binSkipHeader`) -/
theorem tie_skipHeader_err (fuel : Nat) (w w1 : CWorld) (e : CErr)
    (hf : TransCopy.BinaryCopyReader_fill fuel (TransCopy.CopySignature.length : Int) w = .ok (some e) w1)
    (he : e ≠ .lib .eof) :
    TransCopy.BinaryCopyReader_skipHeader fuel w = .ok (some e) w1 := by
  unfold TransCopy.BinaryCopyReader_skipHeader
  rw [hf]
  have hc : (some e ≠ none) ∧ (some e ≠ some (CErr.lib Go.Err.eof)) := ⟨by simp, by simp [he]⟩
  simp only [COut.bind]
  rw [if_pos hc]

/-- `skipHeader`: the stream does not start with the signature (or is shorter): nothing is consumed
    (`binHeaderCheck`, first branch) -/
theorem tie_skipHeader_noSig (fuel : Nat) (w w1 : CWorld) (e : Option CErr)
    (hf : TransCopy.BinaryCopyReader_fill fuel (TransCopy.CopySignature.length : Int) w = .ok e w1)
    (he : e = none ∨ e = some (.lib .eof)) (hp : hasPrefix w1.bin.pending TransCopy.CopySignature = false) :
    TransCopy.BinaryCopyReader_skipHeader fuel w = .ok none w1 := by
  unfold TransCopy.BinaryCopyReader_skipHeader
  rw [hf]
  have hc : ¬ ((e ≠ none) ∧ (e ≠ some (CErr.lib Go.Err.eof))) := by
    rcases he with he | he <;> simp [he]
  have hq : ¬ (hasPrefix w1.bin.pending TransCopy.CopySignature = true) := by simp [hp]
  simp only [COut.bind]
  rw [if_neg hc, if_pos hq]

/-- the model's prefix test is `bytes.HasPrefix` -/
theorem hasPrefix_model (p : Bytes) :
    (hasPrefix p TransCopy.CopySignature = false) ↔ p.take copySignature.length ≠ copySignature := by
  have : TransCopy.CopySignature = copySignature := rfl
  simp [hasPrefix, this]

/-! ### concrete worlds: the hypotheses of the theorems above are satisfiable, and the translated code runs -/

/-- a fresh reader (limit 100) in front of `src`; one scanner that reports the length of its input -/
def exWorld (src : Bytes) (fin : Fin := .wait) : CWorld :=
  { base := { reader := { MaxMessageSize := 100 }, src := src, fin := fin },
    bin := { nscanners := 1 },
    scan := fun _ v => (.val v.length, none) }

theorem exWorld_ok (src : Bytes) (fin : Fin) : ReaderOK (exWorld src fin).base :=
  ⟨by simp [exWorld, Sl.WF], by simp [exWorld, Sl.NilOK], rfl, by simp [exWorld]⟩

/-- what a run returned: the error, `reader.Msg`, the rest of the stream, `pending` -/
def obs {α} : COut α → Option (α × Bytes × Bytes × Bytes)
  | .ok a w => some (a, w.base.reader.Msg.data, w.base.src, w.bin.pending)
  | _ => none

-- hypothesis of `tie_CopyRead_msg` / `readTyped_msg`
example : readItem (exWorld (frame 100 [1, 2, 3])).base.reader.MaxMessageSize.toNat (exWorld (frame 100 [1, 2, 3])).base.src
    = some (.msg 100 [1, 2, 3], []) := by decide +kernel
-- Sync, Flush, then CopyData: skipped, skipped, delivered
example : obs (TransCopy.CopyReader_Read 3 (exWorld (frame 83 [] ++ frame 72 [] ++ frame 100 [1, 2, 3] ++ [9])))
    = some (none, [1, 2, 3], [9], []) := by decide +kernel
-- CopyDone, CopyFail, an unknown type, an oversized message (its 200 declared bytes are skipped first)
example : obs (TransCopy.CopyReader_Read 1 (exWorld (frame 99 []))) = some (some (.lib .eof), [], [], []) := by decide +kernel
example : obs (TransCopy.CopyReader_Read 1 (exWorld (frame 102 [104, 105, 0])))
    = some (some (.copyFailed [104, 105]), [], [], []) := by decide +kernel
example : obs (TransCopy.CopyReader_Read 1 (exWorld (frame 81 [0]))) = some (some (.unimplemented 81), [0], [], []) := by decide +kernel
example : obs (TransCopy.CopyReader_Read 5 (exWorld (100 :: be32 204 ++ List.replicate 200 7 ++ [5])))
    = some (some (.lib (.sizeExceeded 100 200)), List.replicate 100 7, [5], []) := by decide +kernel
-- a silent stream blocks; a closed one is an unexpected EOF inside a message
example : obs (TransCopy.CopyReader_Read 1 (exWorld [100, 0, 0])) = none := by decide +kernel
example : obs (TransCopy.CopyReader_Read 1 (exWorld [100, 0, 0] .eof)) = some (some (.lib .unexpectedEOF), [], [], []) := by decide +kernel
-- take(2) over two CopyData messages: the value spans both, one byte stays pending
example : obs (TransCopy.BinaryCopyReader_take 5 2 (exWorld (frame 100 [1] ++ frame 100 [2, 3])))
    = some (([1, 2], none), [], [], [3]) := by decide +kernel
-- hypothesis of `tie_take_ok`
example : obs (TransCopy.BinaryCopyReader_fill 5 2 (exWorld (frame 100 [1] ++ frame 100 [2, 3])))
    = some (none, [], [], [1, 2, 3]) := by decide +kernel
-- a length above the limit is rejected, 0xFFFFFFFF is not
example : (obs (TransCopy.BinaryCopyReader_takeLength 5 (exWorld (frame 100 [0, 0, 0, 101])))).map (·.1)
    = some (0, some (.errorf lengthFmt [101, 100])) := by decide +kernel
example : (obs (TransCopy.BinaryCopyReader_takeLength 5 (exWorld (frame 100 [255, 255, 255, 255])))).map (·.1)
    = some (4294967295, none) := by decide +kernel
-- a whole binary stream: header, one row with one 2-byte field, trailer, CopyDone
def exBinary : Bytes :=
  frame 100 (TransCopy.CopySignature ++ [0, 0, 0, 0] ++ [0, 0, 0, 0] ++ [0, 1] ++ [0, 0, 0, 2, 7, 8] ++ [255, 255]) ++ frame 99 []
example : (obs (TransCopy.BinaryCopyReader_Read 9 (exWorld exBinary))).map (·.1) = some ([.val 2], none) := by decide +kernel
example : (match TransCopy.BinaryCopyReader_Read 9 (exWorld exBinary) with
           | .ok _ w => (obs (TransCopy.BinaryCopyReader_Read 9 w)).map (·.1)
           | _ => none) = some ([], some (.lib .eof)) := by decide +kernel

end Pw.Tie
