import Pw.Model.Serve
import Pw.Lemmas.Bytes
/-
  C10 — the message-size limit is enforced exactly and recoverably.
-/
namespace Pw.Props.C10
open Pw

/-- a non-positive setting means the 16 MiB default -/
theorem C10_default (cfg : Int) (h : cfg ≤ 0) : effLimit cfg = 16777216 := by
  simp [effLimit, h, defaultBufferSize]

theorem C10_positive (cfg : Int) (h : 0 < cfg) : (effLimit cfg : Int) = cfg := by
  have : ¬ cfg ≤ 0 := by omega
  simp only [effLimit, this, if_false]
  omega

/-- the guard `size > Max || size < 0` on the declared length, for every 32-bit header value:
    exact at the boundary (L accepted, L+1 rejected), sub-minimum lengths rejected -/
theorem C10_verdict (L declared : Nat) :
    sizeVerdict L declared =
      if declared < 4 then .exceeded ((declared : Int) - 4)
      else if declared - 4 ≤ L then .ok (declared - 4)
      else .exceeded ((declared : Int) - 4) := by
  show (if ((declared : Int) - 4 > (L : Int) ∨ (declared : Int) - 4 < 0) then
      SizeVerdict.exceeded ((declared : Int) - 4) else .ok ((declared : Int) - 4).toNat) = _
  by_cases h1 : declared < 4
  · have hc : ((declared : Int) - 4 > (L : Int) ∨ (declared : Int) - 4 < 0) := Or.inr (by omega)
    rw [if_pos hc, if_pos h1]
  · by_cases h2 : declared - 4 ≤ L
    · have hc : ¬ ((declared : Int) - 4 > (L : Int) ∨ (declared : Int) - 4 < 0) := by omega
      rw [if_neg hc, if_neg h1, if_pos h2]
      congr 1
      omega
    · have hc : ((declared : Int) - 4 > (L : Int) ∨ (declared : Int) - 4 < 0) := Or.inl (by omega)
      rw [if_pos hc, if_neg h1, if_neg h2]

theorem readItem_header (L : Nat) (t : UInt8) (d : Nat) (r : Bytes) (hd : d < 4294967296) :
    readItem L (t :: (be32 d ++ r)) = readBody L t d r := by
  simp only [readItem, rd32_be32 _ hd]

/-- **accept**: a message whose body is at most L bytes is read completely and exactly; the
    stream behind it is untouched -/
theorem C10_accept (L : Nat) (t : UInt8) (body rest : Bytes)
    (h1 : body.length ≤ L) (h2 : body.length + 4 < 4294967296) :
    readItem L (frame t body ++ rest) = some (.msg t body, rest) := by
  have h3 : ¬ body.length + 4 < 4 := by omega
  have h4 : ¬ body.length + rest.length < body.length := by omega
  have : frame t body ++ rest = t :: (be32 (body.length + 4) ++ (body ++ rest)) := by simp [frame]
  rw [this, readItem_header _ _ _ _ h2]
  simp only [readBody, C10_verdict, h3, if_false, Nat.add_sub_cancel, h1, if_true, List.length_append, h4]
  simp

/-- **skip**: a message whose declared body exceeds L is never delivered as a message: it is
    reported as oversized with its declared size, the declared body is consumed IN FULL and the
    stream continues exactly at the following message -/
theorem C10_skip (L : Nat) (t : UInt8) (body rest : Bytes)
    (h1 : L < body.length) (h2 : body.length + 4 < 4294967296) :
    readItem L (frame t body ++ rest) = some (.big t body.length true, rest) := by
  have h3 : ¬ body.length + 4 < 4 := by omega
  have h4 : ¬ body.length ≤ L := by omega
  have h6 : ((body.length + 4 : Nat) : Int) - 4 = (body.length : Int) := by omega
  have h7 : ¬ (body.length + rest.length < body.length) := by omega
  have h8 : ¬ ((body.length : Int) < 0) := by omega
  have : frame t body ++ rest = t :: (be32 (body.length + 4) ++ (body ++ rest)) := by simp [frame]
  rw [this, readItem_header _ _ _ _ h2]
  simp only [readBody, C10_verdict, h3, if_false, Nat.add_sub_cancel, h4, h6, h8, Int.toNat_natCast,
    List.length_append, h7]
  simp

/-- an oversized message whose body has not arrived completely yields no further item: the
    server keeps skipping (it never interprets the partial body) -/
theorem C10_skip_partial (L : Nat) (t : UInt8) (declared : Nat) (part : Bytes)
    (h0 : declared < 4294967296) (h1 : L + 4 < declared) (h2 : part.length + 4 < declared) :
    readItem L (t :: (be32 declared ++ part)) = some (.big t ((declared : Int) - 4) false, []) := by
  have h3 : ¬ declared < 4 := by omega
  have h4 : ¬ declared - 4 ≤ L := by omega
  have h5 : ¬ (declared : Int) - 4 < 0 := by omega
  have h6 : part.length < ((declared : Int) - 4).toNat := by omega
  rw [readItem_header _ _ _ _ h0]
  simp only [readBody, C10_verdict, h3, h4, h5, h6, if_false, if_true]

/-- **sub-minimum**: a declared length below 4 is rejected; no byte behind the header is read
    for it and no negative or wrapped size reaches a read -/
theorem C10_submin (L : Nat) (t : UInt8) (declared : Nat) (rest : Bytes) (h : declared < 4) :
    readItem L (t :: (be32 declared ++ rest)) = some (.big t ((declared : Int) - 4) true, rest) := by
  have h5 : (declared : Int) - 4 < 0 := by omega
  rw [readItem_header _ _ _ _ (show declared < 4294967296 by omega)]
  simp only [readBody, C10_verdict, h, h5, if_true]

/-- the report: SQLSTATE 54000, severity ERROR (non-fatal) -/
theorem C10_error_class (L : Nat) (size : Int) :
    (flatten (some (errSizeExceeded L size))).code = [53, 52, 48, 48, 48] ∧
    (flatten (some (errSizeExceeded L size))).severity = [69, 82, 82, 79, 82] := by
  constructor <;> simp [flatten, errSizeExceeded, Err.getCode, Err.getSev, levelError] <;> decide

/-- **report and continue (session)**: an oversized message is answered by exactly one
    ErrorResponse — followed by ReadyForQuery only when it was a simple Query outside a
    discarded batch — and the session goes on with the NEXT item, whatever it is -/
theorem C10_session_step (h : Handlers) (s : Sess) (t : UInt8) (size : Int) (rest : List Item)
    (hw : s.wleft = none) (hi : s.inp.items = .big t size true :: rest) :
    stepCommand h s =
      let s' := { s with inp := { s.inp with items := rest, msg := [] } }
      let e := BMsg.error (errorBody (flatten (some (errSizeExceeded s.inp.L size))))
      if t = ch 'Q' ∧ !s.discard then .cont { s' with out := .ready (ch 'I') :: e :: s.out }
      else .cont { s' with out := e :: s.out } := by
  simp only [stepCommand, Inp.next, hi, handleOversize, errorCode, sendError, Sess.send, hw, afterWrite]
  by_cases hq : t = ch 'Q' ∧ (!s.discard) = true
  · simp [hq]
  · simp [hq]

/-- **startup**: an oversized first packet ends the connection without any reply -/
theorem C10_startup (cfg : Config) (h : Handlers) (inp tin : Bytes)
    (hx : readUntyped (effLimit cfg.L) inp = .exceeded) :
    (serve cfg h inp tin).msgs = [] ∧ (serve cfg h inp tin).ssl = none ∧
    (serve cfg h inp tin).ending = .closed ∧ (serve cfg h inp tin).ev = [] := by
  simp [serve, hx, finish]

/-! ### `Slurp`: the skip is done in chunks no larger than the limit -/

/-- sizes passed to `reset` by the loop of `Slurp(size)` -/
def slurpChunks (L : Nat) : Nat → Nat → List Nat
  | 0, _ => []
  | fuel + 1, remaining =>
    if remaining = 0 then [] else
    let reading := if remaining > L then L else remaining
    reading :: slurpChunks L fuel (remaining - reading)

theorem slurpChunks_le (L : Nat) : ∀ fuel n, ∀ c ∈ slurpChunks L fuel n, c ≤ L ∧ 0 < c ∨ L = 0 := by
  intro fuel
  induction fuel with
  | zero => intro n c hc; simp [slurpChunks] at hc
  | succ fuel ih =>
    intro n c hc
    unfold slurpChunks at hc
    by_cases h0 : n = 0
    · simp [h0] at hc
    · simp only [h0, if_false, List.mem_cons] at hc
      rcases hc with rfl | hc
      · by_cases hL : L = 0
        · exact Or.inr hL
        · left; split <;> omega
      · exact ih _ c hc

/-- with a positive limit, `n` iterations are enough and the chunks add up to exactly the
    declared size: the whole body is skipped, never more than `L` bytes buffered at once -/
theorem slurpChunks_sum (L : Nat) (hL : 0 < L) : ∀ fuel n, n ≤ fuel → (slurpChunks L fuel n).sum = n := by
  intro fuel
  induction fuel with
  | zero => intro n hn; simp [slurpChunks]; omega
  | succ fuel ih =>
    intro n hn
    unfold slurpChunks
    by_cases h0 : n = 0
    · simp [h0]
    · simp only [h0, if_false, List.sum_cons]
      split
      · rw [ih (n - L) (by omega)]; omega
      · rw [ih (n - n) (by omega)]; omega

/-- non-vacuity: L = 16, a 17-byte Query is skipped, the Sync behind it is the next item -/
example : deframe 16 (frame 81 (List.replicate 17 65) ++ frame 83 []) =
    [.big 81 17 true, .msg 83 []] := by decide

end Pw.Props.C10
