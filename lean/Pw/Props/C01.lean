import Pw.Lemmas.Frame
import Pw.Model.Serve
/-
  C01 — rejected credentials never yield a session.
-/
namespace Pw.Props.C01
open Pw

/-- the strategy accepted this connection: the first message after the startup packet is a
    well-formed password message and the validator accepts its content -/
def Accepted (h : Handlers) (db user : Bytes) (i : Inp) : Prop :=
  ∃ body i' pw rest, i.next = (.item (.msg (ch 'p') body), i') ∧ cstr body = some (pw, rest) ∧
    h.validate db user pw = .accept

/-- what a non-accepting authentication exchange may have written / run: the password request,
    at most one ErrorResponse, and at most the validator callback -/
def Harmless (s s' : Sess) : Prop :=
  (s'.out = s.out ∨ s'.out = .auth 3 :: s.out ∨
    s'.out = .error (errorBody (flatten (some errInvalidPassword))) :: .auth 3 :: s.out) ∧
  (s'.ev = s.ev ∨ ∃ db user pw, s'.ev = .validate db user pw :: s.ev)

/-- **C01 (only if).** With an authentication strategy configured, the connection gets past
    authentication only if the strategy accepted its credentials. -/
theorem C01_only_if (cfg : Config) (h : Handlers) (s : Sess) (db user : Bytes) (ha : cfg.auth = true)
    (hp : (authPhase cfg h s db user).2 = none) :
    ∃ s1, s.send (.auth 3) = (s1, true) ∧ Accepted h db user s1.inp := by
  unfold authPhase at hp
  simp only [ha, Bool.not_true, Bool.false_eq_true, if_false] at hp
  rcases hs : s.send (.auth 3) with ⟨s1, ok⟩
  rw [hs] at hp
  cases ok with
  | false => simp at hp
  | true =>
    refine ⟨s1, rfl, ?_⟩
    simp only at hp
    rcases hn : s1.inp.next with ⟨rd, i'⟩
    rw [hn] at hp
    cases rd with
    | blocked => simp at hp
    | rerr => simp at hp
    | item it =>
      cases it with
      | big t sz f => simp at hp
      | msg t body =>
        simp only at hp
        by_cases ht : t ≠ ch 'p'
        · simp [ht] at hp
        · have ht' : t = ch 'p' := by simpa using ht
          subst ht'
          simp only [ne_eq, not_true_eq_false, if_false] at hp
          cases hc : cstr body with
          | none => simp [hc] at hp
          | some p =>
            obtain ⟨pw, rest⟩ := p
            simp only [hc] at hp
            cases hv : h.validate db user pw with
            | fail => simp [hv] at hp
            | reject => simp [hv] at hp
            | accept => exact ⟨body, i', pw, rest, hn, hc, hv⟩

/-- **C01 (gate).** In every non-accepting case — the validator answers false or fails, the
    client sends another message type, a malformed or oversized message, or nothing more — the
    exchange ends the connection (or waits for the missing bytes) having written nothing but the
    password request and, for a wrong password, one ErrorResponse; no AuthenticationOk, no
    ParameterStatus, no ReadyForQuery; and the only callback that ran is the validator. -/
theorem C01_gate (cfg : Config) (h : Handlers) (s : Sess) (db user : Bytes) (ha : cfg.auth = true)
    (e : End) (hp : (authPhase cfg h s db user).2 = some e) :
    Harmless s (authPhase cfg h s db user).1 ∧ (e = .closed ∨ e = .waiting) := by
  unfold authPhase at hp ⊢
  simp only [ha, Bool.not_true, Bool.false_eq_true, if_false] at hp ⊢
  rcases hs : s.send (.auth 3) with ⟨s1, ok⟩
  rw [hs] at hp
  cases ok with
  | false =>
    have := send_fail s s1 _ hs
    subst this
    simp at hp ⊢
    exact ⟨⟨Or.inl rfl, Or.inl rfl⟩, Or.inl hp.symm⟩
  | true =>
    obtain ⟨ho, he, _⟩ := send_ok s s1 _ hs
    simp only at hp ⊢
    rcases hn : s1.inp.next with ⟨rd, i'⟩
    rw [hn] at hp
    cases rd with
    | blocked => simp at hp ⊢; exact ⟨⟨Or.inr (Or.inl ho), Or.inl he⟩, Or.inr hp.symm⟩
    | rerr => simp at hp ⊢; exact ⟨⟨Or.inr (Or.inl ho), Or.inl he⟩, Or.inl hp.symm⟩
    | item it =>
      cases it with
      | big t sz f => simp at hp ⊢; exact ⟨⟨Or.inr (Or.inl ho), Or.inl he⟩, Or.inl hp.symm⟩
      | msg t body =>
        simp only at hp ⊢
        by_cases ht : t ≠ ch 'p'
        · rw [if_pos ht] at hp ⊢
          simp at hp
          exact ⟨⟨Or.inr (Or.inl ho), Or.inl he⟩, Or.inl hp.symm⟩
        · rw [if_neg ht] at hp ⊢
          cases hc : cstr body with
          | none =>
            simp only [hc] at hp ⊢
            simp at hp
            exact ⟨⟨Or.inr (Or.inl ho), Or.inl he⟩, Or.inl hp.symm⟩
          | some p =>
            obtain ⟨pw, rest⟩ := p
            simp only [hc] at hp ⊢
            cases hv : h.validate db user pw with
            | fail =>
              simp only [hv] at hp ⊢
              simp at hp
              exact ⟨⟨Or.inr (Or.inl (by simpa [Sess.log, Sess.setMsg] using ho)),
                Or.inr ⟨db, user, pw, by simp [Sess.log, Sess.setMsg, he]⟩⟩, Or.inl hp.symm⟩
            | reject =>
              simp only [hv] at hp ⊢
              simp at hp
              refine ⟨⟨?_, ?_⟩, Or.inl hp.symm⟩
              · unfold sendError
                rcases hs2 : Sess.send _ _ with ⟨s2, ok2⟩
                cases ok2 with
                | true =>
                  obtain ⟨ho2, _⟩ := send_ok _ s2 _ hs2
                  right; right
                  simpa [Sess.log, Sess.setMsg, ho] using ho2
                | false =>
                  have := send_fail _ s2 _ hs2
                  subst this
                  right; left
                  simpa [Sess.log, Sess.setMsg] using ho
              · unfold sendError
                rcases hs2 : Sess.send _ _ with ⟨s2, ok2⟩
                cases ok2 with
                | true =>
                  obtain ⟨_, he2, _⟩ := send_ok _ s2 _ hs2
                  exact Or.inr ⟨db, user, pw, by simpa [Sess.log, Sess.setMsg, he] using he2⟩
                | false =>
                  have := send_fail _ s2 _ hs2
                  subst this
                  exact Or.inr ⟨db, user, pw, by simp [Sess.log, Sess.setMsg, he]⟩
            | accept =>
              simp only [hv] at hp ⊢
              rcases hs2 : Sess.send _ _ with ⟨s2, ok2⟩
              rw [hs2] at hp
              cases ok2 with
              | true => simp at hp
              | false =>
                have := send_fail _ s2 _ hs2
                subst this
                simp at hp ⊢
                exact ⟨⟨Or.inr (Or.inl (by simpa [Sess.log, Sess.setMsg] using ho)),
                  Or.inr ⟨db, user, pw, by simp [Sess.log, Sess.setMsg, he]⟩⟩, Or.inl hp.symm⟩

/-- a wrong password is reported with SQLSTATE class 28 -/
theorem C01_class28 : (flatten (some errInvalidPassword)).code = [50, 56, 80, 48, 49] := by decide

/-- **nothing afterwards is parsed or executed**: when authentication does not succeed the
    whole connection's result is the authentication exchange's — whatever bytes follow, in the
    same segment or later -/
theorem C01_no_session (cfg : Config) (h : Handlers) (s0 : Sess) (body rest : Bytes) (cp : List (Bytes × Bytes))
    (hcp : readClientParams (body.length + 1) body [] = some cp) (e : End)
    (hp : (authPhase cfg h (sessionStart s0 rest)
            ((lookup (ascii "database") cp).getD []) ((lookup (ascii "user") cp).getD [])).2 = some e) :
    let a := authPhase cfg h (sessionStart s0 rest)
            ((lookup (ascii "database") cp).getD []) ((lookup (ascii "user") cp).getD [])
    let r := serveAfterVersion cfg h s0 body rest
    r.msgs = a.1.out.reverse ∧ r.ev = a.1.ev.reverse ∧ r.ending = e := by
  intro a r
  simp only [r, serveAfterVersion, hcp]
  rcases ha : authPhase cfg h (sessionStart s0 rest)
            ((lookup (ascii "database") cp).getD []) ((lookup (ascii "user") cp).getD []) with ⟨s1, oe⟩
  have : oe = some e := by rw [ha] at hp; exact hp
  subst this
  simp [a, ha, finish]

end Pw.Props.C01
