import Pw.Props.C07
import Pw.Model.Serve
import Pw.Lemmas.Bytes
/-
  C12 — startup negotiation delivers parameters both ways, once, in order.
-/
namespace Pw.Props.C12
open Pw Pw.Props.C07

/-- client-side encoding of the key/value pairs of a startup packet -/
def encPair (p : Bytes × Bytes) : Bytes := p.1 ++ ([0] ++ (p.2 ++ [0]))
def encPairs (kv : List (Bytes × Bytes)) : Bytes := kv.flatMap encPair

/-- what handlers must see: the last value sent for each key -/
def lastWins (kv : List (Bytes × Bytes)) : List (Bytes × Bytes) := kv.foldl (fun m p => store p.1 p.2 m) []

theorem readClientParams_enc (kv : List (Bytes × Bytes))
    (h : ∀ p ∈ kv, p.1 ≠ [] ∧ nulFree p.1 ∧ nulFree p.2) (rest : Bytes) :
    ∀ (acc : List (Bytes × Bytes)) (fuel : Nat), kv.length < fuel →
      readClientParams fuel (encPairs kv ++ 0 :: rest) acc = some (kv.foldl (fun m p => store p.1 p.2 m) acc) := by
  induction kv with
  | nil =>
    intro acc fuel hf
    cases fuel with
    | zero => omega
    | succ f => simp [encPairs, readClientParams, cstr]
  | cons p ps ih =>
    intro acc fuel hf
    obtain ⟨hne, hk, hv⟩ := h p (by simp)
    have hps : ∀ p ∈ ps, p.1 ≠ [] ∧ nulFree p.1 ∧ nulFree p.2 := fun q hq => h q (by simp [hq])
    cases fuel with
    | zero => omega
    | succ f =>
      have hf' : ps.length < f := by simp at hf; omega
      simp only [encPairs, List.flatMap_cons, encPair, List.append_assoc, readClientParams]
      rw [cstr_append'' p.1 hk _]
      simp only [hne, if_false]
      rw [cstr_append'' p.2 hv _]
      have := ih hps (store p.1 p.2 acc) f hf'
      simp only [encPairs] at this
      simpa using this

/-- **client parameters**: for every list of key/value pairs (duplicates, empty values
    allowed) the handlers see exactly the pairs sent, the last value winning for a repeated key;
    what follows the terminator inside the packet is ignored -/
theorem C12_client_params (kv : List (Bytes × Bytes))
    (h : ∀ p ∈ kv, p.1 ≠ [] ∧ nulFree p.1 ∧ nulFree p.2) (rest : Bytes) :
    readClientParams ((encPairs kv ++ 0 :: rest).length + 1) (encPairs kv ++ 0 :: rest) [] = some (lastWins kv) := by
  apply readClientParams_enc kv h rest [] _
  have : kv.length ≤ (encPairs kv).length := by
    clear h
    induction kv with
    | nil => simp
    | cons p ps ih => simp only [encPairs, List.flatMap_cons, encPair, List.length_append, List.length_cons] at ih ⊢; omega
  simp only [List.length_append, List.length_cons]
  omega

/-- a packet whose pairs are not closed by the terminator reaches no callback: the connection
    ends (the reader reports the missing NUL) -/
theorem C12_missing_terminator (k : Bytes) (hk : nulFree k) (hne : k ≠ []) (fuel : Nat) :
    readClientParams (fuel + 1) k [] = none := by
  have : cstr k = none := by
    induction k with
    | nil => rfl
    | cons b r ih =>
      have hb : b ≠ 0 := hk b (by simp)
      have hr : nulFree r := fun x hx => hk x (by simp [hx])
      unfold cstr
      simp only [hb, if_false]
      cases r with
      | nil => rfl
      | cons c r' => rw [ih hr (by simp)]
  simp [readClientParams, this]

/-! ### the server's ParameterStatus set -/

theorem mem_insertSorted (kv p : Bytes × Bytes) (m : List (Bytes × Bytes)) :
    p ∈ insertSorted kv m ↔ p = kv ∨ p ∈ m := by
  induction m with
  | nil => simp [insertSorted]
  | cons x r ih =>
    unfold insertSorted
    split
    · simp
    · simp only [List.mem_cons, ih]
      constructor
      · rintro (h | h | h) <;> simp [h]
      · rintro (h | h | h) <;> simp [h]

theorem mem_sortParams (p : Bytes × Bytes) (m : List (Bytes × Bytes)) : p ∈ sortParams m ↔ p ∈ m := by
  induction m with
  | nil => simp [sortParams]
  | cons x r ih =>
    simp only [sortParams, List.foldr_cons] at ih ⊢
    rw [mem_insertSorted, ih]
    simp [eq_comm]

theorem mem_store (k : Bytes) (v : Bytes) (m : List (Bytes × Bytes)) (p : Bytes × Bytes) :
    p ∈ store k v m ↔ p = (k, v) ∨ (p ∈ m ∧ p.1 ≠ k) := by
  simp [store, remove, List.mem_filter]

/-- **ParameterStatus content**: every parameter the server announces carries the prescribed
    value — UTF8 for both encodings (whatever the configured map says), `off` for
    is_superuser, the connecting user for session_authorization, the configured version — or
    comes unchanged from the configured map -/
theorem C12_param_values (cfg : Config) (user : Bytes) (k v : Bytes)
    (h : (k, v) ∈ serverParams cfg user) :
    (k = ascii "session_authorization" ∧ v = user) ∨
    (k = ascii "is_superuser" ∧ v = ascii "off") ∨
    (k = ascii "server_version" ∧ v = cfg.version ∧ cfg.version ≠ []) ∨
    (k = ascii "client_encoding" ∧ v = ascii "UTF8") ∨
    (k = ascii "server_encoding" ∧ v = ascii "UTF8") ∨
    (∃ m, cfg.gparams = some m ∧ (k, v) ∈ m) := by
  unfold serverParams at h
  rw [mem_sortParams] at h
  rw [mem_store] at h
  rcases h with h | ⟨h, _⟩
  · left; simpa using h
  rw [mem_store] at h
  rcases h with h | ⟨h, _⟩
  · right; left; simpa using h
  have h3 : (k, v) ∈ store (ascii "client_encoding") (ascii "UTF8")
      (store (ascii "server_encoding") (ascii "UTF8")
        (match cfg.gparams with | none => [] | some m => m.foldl (fun acc kv => store kv.1 kv.2 acc) [])) ∨
      (k = ascii "server_version" ∧ v = cfg.version ∧ cfg.version ≠ []) := by
    by_cases hv : cfg.version = []
    · simp only [hv, if_true] at h; exact Or.inl h
    · simp only [hv, if_false] at h
      rw [mem_store] at h
      rcases h with h | ⟨h, _⟩
      · right; simp at h; exact ⟨h.1, h.2, hv⟩
      · exact Or.inl h
  rcases h3 with h3 | h3
  case inr => right; right; left; exact h3
  rw [mem_store] at h3
  rcases h3 with h3 | ⟨h3, _⟩
  · right; right; right; left; simpa using h3
  rw [mem_store] at h3
  rcases h3 with h3 | ⟨h3, _⟩
  · right; right; right; right; left; simpa using h3
  right; right; right; right; right
  cases hg : cfg.gparams with
  | none => simp [hg] at h3
  | some m =>
    refine ⟨m, rfl, ?_⟩
    simp only [hg] at h3
    -- membership in the folded map implies membership in the configured list
    have key : ∀ (l : List (Bytes × Bytes)) (acc : List (Bytes × Bytes)),
        (k, v) ∈ l.foldl (fun acc kv => store kv.1 kv.2 acc) acc → (k, v) ∈ acc ∨ (k, v) ∈ l := by
      intro l
      induction l with
      | nil => intro acc h; exact Or.inl h
      | cons x xs ih =>
        intro acc h
        simp only [List.foldl_cons] at h
        rcases ih _ h with h' | h'
        · rw [mem_store] at h'
          rcases h' with h' | ⟨h', _⟩
          · right; simp [h']
          · exact Or.inl h'
        · right; simp [h']
    rcases key m [] h3 with h' | h'
    · simp at h'
    · exact h'

/-- the fixed parameters are always announced -/
theorem C12_params_present (cfg : Config) (user : Bytes) :
    (ascii "session_authorization", user) ∈ serverParams cfg user ∧
    (ascii "is_superuser", ascii "off") ∈ serverParams cfg user ∧
    (ascii "client_encoding", ascii "UTF8") ∈ serverParams cfg user ∧
    (ascii "server_encoding", ascii "UTF8") ∈ serverParams cfg user ∧
    (cfg.version ≠ [] → (ascii "server_version", cfg.version) ∈ serverParams cfg user) := by
  unfold serverParams
  simp only [mem_sortParams]
  refine ⟨?_, ?_, ?_, ?_, ?_⟩
  · rw [mem_store]; left; rfl
  · rw [mem_store]; right
    refine ⟨?_, by decide⟩
    rw [mem_store]; left; rfl
  · rw [mem_store]; right
    refine ⟨?_, by decide⟩
    rw [mem_store]; right
    refine ⟨?_, by decide⟩
    by_cases hv : cfg.version = []
    · simp only [hv, if_true]; rw [mem_store]; left; rfl
    · simp only [hv, if_false]; rw [mem_store]; right
      refine ⟨?_, by decide⟩
      rw [mem_store]; left; rfl
  · rw [mem_store]; right
    refine ⟨?_, by decide⟩
    rw [mem_store]; right
    refine ⟨?_, by decide⟩
    by_cases hv : cfg.version = []
    · simp only [hv, if_true]; rw [mem_store]; right
      refine ⟨?_, by decide⟩
      rw [mem_store]; left; rfl
    · simp only [hv, if_false]; rw [mem_store]; right
      refine ⟨?_, by decide⟩
      rw [mem_store]; right
      refine ⟨?_, by decide⟩
      rw [mem_store]; left; rfl
  · intro hv
    rw [mem_store]; right
    refine ⟨?_, (by show ascii "server_version" ≠ ascii "session_authorization"; decide)⟩
    rw [mem_store]; right
    refine ⟨?_, (by show ascii "server_version" ≠ ascii "is_superuser"; decide)⟩
    simp only [hv, if_false]
    rw [mem_store]; left; rfl

/-- **CancelRequest** as the first packet: closed, nothing written, no callback -/
theorem C12_cancel (cfg : Config) (h : Handlers) (inp tin body rest b' : Bytes)
    (h1 : readUntyped (effLimit cfg.L) inp = .msg body rest) (h2 : getU32 body = some (versionCancel, b')) :
    (serve cfg h inp tin).msgs = [] ∧ (serve cfg h inp tin).ssl = none ∧ (serve cfg h inp tin).ev = [] ∧
    (serve cfg h inp tin).ending = .closed := by
  simp [serve, h1, h2, finish]

/-- **CancelRequest after a refused SSL negotiation**: the single byte 'N' is all the client
    ever gets; closed, no callback -/
theorem C12_cancel_after_N (cfg : Config) (h : Handlers) (inp tin body rest b' body2 rest2 b2 : Bytes)
    (htls : cfg.tls < 2) (hw : cfg.wleft = none)
    (h1 : readUntyped (effLimit cfg.L) inp = .msg body rest) (h2 : getU32 body = some (versionSSL, b'))
    (h3 : readUntyped (effLimit cfg.L) rest = .msg body2 rest2) (h4 : getU32 body2 = some (versionCancel, b2)) :
    (serve cfg h inp tin).msgs = [] ∧ (serve cfg h inp tin).ssl = some (ch 'N') ∧ (serve cfg h inp tin).ev = [] ∧
    (serve cfg h inp tin).ending = .closed := by
  have hv : versionSSL ≠ versionCancel := by decide
  simp [serve, h1, h2, h3, h4, hv, htls, writeRaw, hw, finish]

end Pw.Props.C12
