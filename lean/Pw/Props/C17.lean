import Pw.Spec.Errors
import Pw.Lemmas.Bytes
import Pw.Lemmas.Backend
/-
  C17 — error decorations reach the client field for field.
-/
namespace Pw.Props.C17
open Pw Pw.Spec

/-! ### the `Get*` walks return the outermost layer's value (unbounded nesting, any wrapping) -/

theorem getCode_outer (e : Err) : e.getCode = (outerCode (layers e)).getD Err.uncategorized := by
  induction e <;> simp_all [Err.getCode, layers, outerCode, List.findSome?]

theorem getSev_outer (e : Err) : e.getSev = (outerSev (layers e)).getD [] := by
  induction e <;> simp_all [Err.getSev, layers, outerSev, List.findSome?]

theorem getHint_outer (e : Err) : e.getHint = (outerHint (layers e)).getD [] := by
  induction e <;> simp_all [Err.getHint, layers, outerHint, List.findSome?]

theorem getDetail_outer (e : Err) : e.getDetail = (outerDetail (layers e)).getD [] := by
  induction e <;> simp_all [Err.getDetail, layers, outerDetail, List.findSome?]

theorem getConstr_outer (e : Err) : e.getConstr = (outerConstr (layers e)).getD [] := by
  induction e <;> simp_all [Err.getConstr, layers, outerConstr, List.findSome?]

theorem getSource_outer (e : Err) : e.getSource = outerSource (layers e) := by
  induction e <;> simp_all [Err.getSource, layers, outerSource, List.findSome?]

theorem text_spec (e : Err) : e.text = textOf (layers e) (baseText e) := by
  induction e <;> simp_all [Err.text, layers, textOf, baseText]

/-! ### NUL-freeness of what goes into the fields -/

theorem natDigits_nulFree : ∀ fuel n, nulFree (natDigits fuel n) := by
  intro fuel
  induction fuel with
  | zero => intro n x hx; simp [natDigits] at hx
  | succ fuel ih =>
    intro n x hx
    unfold natDigits at hx
    split at hx
    · simp at hx; subst hx
      intro h0
      have := congrArg UInt8.toNat h0
      simp [UInt8.toNat_ofNat'] at this
      omega
    · simp at hx
      rcases hx with hx | hx
      · exact ih _ x hx
      · subst hx
        intro h0
        have := congrArg UInt8.toNat h0
        simp [UInt8.toNat_ofNat'] at this
        omega

theorem decInt_nulFree (i : Int) : nulFree (decInt i) := by
  unfold decInt decNat
  split
  · intro x hx
    simp at hx
    rcases hx with rfl | hx
    · decide
    · exact natDigits_nulFree _ _ x hx
  · exact natDigits_nulFree _ _

theorem text_nulFree (e : Err) (h : errNulFree e) : nulFree e.text := by
  induction e with
  | base t => exact h
  | wrap pre post e ih =>
    obtain ⟨h1, h2, h3⟩ := h
    exact nulFree_append (nulFree_append h1 (ih h3)) h2
  | code _ e ih => exact ih h.2
  | sev _ e ih => exact ih h.2
  | hint _ e ih => exact ih h.2
  | detail _ e ih => exact ih h.2
  | constr _ e ih => exact ih h.2
  | source _ _ _ e ih => exact ih h.2.2

theorem getCode_nulFree (e : Err) (h : errNulFree e) : nulFree e.getCode := by
  induction e with
  | base t => simp only [Err.getCode, Err.uncategorized]; decide
  | code c e _ => exact h.1
  | wrap _ _ e ih => exact ih h.2.2
  | sev _ e ih => exact ih h.2
  | hint _ e ih => exact ih h.2
  | detail _ e ih => exact ih h.2
  | constr _ e ih => exact ih h.2
  | source _ _ _ e ih => exact ih h.2.2

theorem nulFree_nil : nulFree ([] : Bytes) := by intro x hx; simp at hx

theorem getSev_nulFree (e : Err) (h : errNulFree e) : nulFree e.getSev := by
  induction e with
  | base t => exact nulFree_nil
  | sev c e _ => exact h.1
  | wrap _ _ e ih => exact ih h.2.2
  | code _ e ih => exact ih h.2
  | hint _ e ih => exact ih h.2
  | detail _ e ih => exact ih h.2
  | constr _ e ih => exact ih h.2
  | source _ _ _ e ih => exact ih h.2.2

theorem getHint_nulFree (e : Err) (h : errNulFree e) : nulFree e.getHint := by
  induction e with
  | base t => exact nulFree_nil
  | hint c e _ => exact h.1
  | wrap _ _ e ih => exact ih h.2.2
  | code _ e ih => exact ih h.2
  | sev _ e ih => exact ih h.2
  | detail _ e ih => exact ih h.2
  | constr _ e ih => exact ih h.2
  | source _ _ _ e ih => exact ih h.2.2

theorem getDetail_nulFree (e : Err) (h : errNulFree e) : nulFree e.getDetail := by
  induction e with
  | base t => exact nulFree_nil
  | detail c e _ => exact h.1
  | wrap _ _ e ih => exact ih h.2.2
  | code _ e ih => exact ih h.2
  | sev _ e ih => exact ih h.2
  | hint _ e ih => exact ih h.2
  | constr _ e ih => exact ih h.2
  | source _ _ _ e ih => exact ih h.2.2

theorem getConstr_nulFree (e : Err) (h : errNulFree e) : nulFree e.getConstr := by
  induction e with
  | base t => exact nulFree_nil
  | constr c e _ => exact h.1
  | wrap _ _ e ih => exact ih h.2.2
  | code _ e ih => exact ih h.2
  | sev _ e ih => exact ih h.2
  | hint _ e ih => exact ih h.2
  | detail _ e ih => exact ih h.2
  | source _ _ _ e ih => exact ih h.2.2

theorem getSource_nulFree (e : Err) (h : errNulFree e) :
    ∀ f l r, e.getSource = some (f, l, r) → nulFree f ∧ nulFree r := by
  induction e with
  | base t => intro f l r hs; simp [Err.getSource] at hs
  | source f0 l0 r0 e _ =>
    intro f l r hs
    simp [Err.getSource] at hs
    obtain ⟨rfl, _, rfl⟩ := hs
    exact ⟨h.1, h.2.1⟩
  | wrap _ _ e ih => exact ih h.2.2
  | code _ e ih => exact ih h.2
  | sev _ e ih => exact ih h.2
  | hint _ e ih => exact ih h.2
  | detail _ e ih => exact ih h.2
  | constr _ e ih => exact ih h.2

/-! ### the strict field parser inverts the serialisation -/

def encField1 (p : UInt8 × Bytes) : Bytes := p.1 :: (p.2 ++ [0])
def encFields (fs : List (UInt8 × Bytes)) : Bytes := fs.flatMap encField1

theorem parseErrFields_enc (fs : List (UInt8 × Bytes))
    (h : ∀ p ∈ fs, p.1 ≠ 0 ∧ nulFree p.2) :
    ∀ fuel, fs.length < fuel → parseErrFields fuel (encFields fs ++ [0]) = some fs := by
  induction fs with
  | nil => intro fuel hf; cases fuel with
    | zero => omega
    | succ n => simp [encFields, parseErrFields]
  | cons p ps ih =>
    intro fuel hf
    obtain ⟨hc, hv⟩ := h p (by simp)
    have hps : ∀ p ∈ ps, p.1 ≠ 0 ∧ nulFree p.2 := fun q hq => h q (by simp [hq])
    cases fuel with
    | zero => omega
    | succ n =>
      have hn : ps.length < n := by simp at hf; omega
      simp only [encFields, encField1, List.flatMap_cons, List.cons_append, List.append_assoc, parseErrFields, hc,
        if_false, List.nil_append]
      rw [cstr_append p.2 hv _]
      have ih' := ih hps n hn
      simp only [encFields] at ih'
      simp [ih']

theorem errorBody_eq (f : Flat) :
    errorBody f = encFields (
      [(UInt8.ofNat 'S'.toNat, f.severity), (UInt8.ofNat 'C'.toNat, f.code), (UInt8.ofNat 'M'.toNat, f.message)]
      ++ (if f.hint = [] then [] else [(UInt8.ofNat 'H'.toNat, f.hint)])
      ++ (if f.detail = [] then [] else [(UInt8.ofNat 'D'.toNat, f.detail)])
      ++ (match f.source with
          | none => []
          | some (file, line, fn) => [(UInt8.ofNat 'F'.toNat, file), (UInt8.ofNat 'L'.toNat, decInt line), (UInt8.ofNat 'R'.toNat, fn)])
      ++ (if f.constr = [] then [] else [(UInt8.ofNat 'n'.toNat, f.constr)])) ++ [0] := by
  unfold errorBody encFields errField
  rcases f with ⟨code, message, detail, hint, severity, constr, source⟩
  cases source with
  | none => by_cases h1 : hint = [] <;> by_cases h2 : detail = [] <;> by_cases h3 : constr = [] <;> simp [h1, h2, h3, encField1]
  | some s =>
    obtain ⟨file, line, fn⟩ := s
    by_cases h1 : hint = [] <;> by_cases h2 : detail = [] <;> by_cases h3 : constr = [] <;> simp [h1, h2, h3, encField1]

/-- the field list `writeErrorResponse` serialises, as a list -/
def fieldList (f : Flat) : List (UInt8 × Bytes) :=
  [(UInt8.ofNat 'S'.toNat, f.severity), (UInt8.ofNat 'C'.toNat, f.code), (UInt8.ofNat 'M'.toNat, f.message)]
  ++ (if f.hint = [] then [] else [(UInt8.ofNat 'H'.toNat, f.hint)])
  ++ (if f.detail = [] then [] else [(UInt8.ofNat 'D'.toNat, f.detail)])
  ++ (match f.source with
      | none => []
      | some (file, line, fn) => [(UInt8.ofNat 'F'.toNat, file), (UInt8.ofNat 'L'.toNat, decInt line), (UInt8.ofNat 'R'.toNat, fn)])
  ++ (if f.constr = [] then [] else [(UInt8.ofNat 'n'.toNat, f.constr)])

theorem nonEmpty_getD (o : Option Bytes) (d : Bytes) :
    (if o.getD [] = [] then d else o.getD []) = (nonEmpty o).getD d := by
  cases o with
  | none => simp [nonEmpty]
  | some v => cases v <;> simp [nonEmpty]

theorem optField (c : Char) (o : Option Bytes) :
    (if o.getD [] = [] then [] else [(UInt8.ofNat c.toNat, o.getD [])])
      = (match nonEmpty o with | some h => [(UInt8.ofNat c.toNat, h)] | none => []) := by
  cases o with
  | none => simp [nonEmpty]
  | some v => cases v <;> simp [nonEmpty]

/-- the flattened error's field list is the specification's field list -/
theorem fieldList_spec (e : Err) : fieldList (flatten (some e)) = expectedFields e := by
  unfold fieldList expectedFields flatten
  simp only [getCode_outer, getSev_outer, getHint_outer, getDetail_outer, getConstr_outer,
    getSource_outer, text_spec]
  rw [optField 'H', optField 'D', optField 'n', nonEmpty_getD]
  cases outerSource (layers e) with
  | none => rfl
  | some s => obtain ⟨f, l, r⟩ := s; rfl

theorem codeNZ (c : Char) (v : Bytes) (h : UInt8.ofNat c.toNat ≠ 0) : (UInt8.ofNat c.toNat, v).fst ≠ 0 := h

theorem fieldList_ok (e : Err) (h : errNulFree e) :
    ∀ p ∈ fieldList (flatten (some e)), p.1 ≠ 0 ∧ nulFree p.2 := by
  have hsev : nulFree (flatten (some e)).severity := by
    simp only [flatten]
    split
    · simp only [levelError]; decide
    · exact getSev_nulFree e h
  intro p hp
  simp only [fieldList, flatten] at hp hsev
  simp only [List.mem_append, List.mem_cons, List.mem_nil_iff, or_false] at hp
  rcases hp with (((hp | hp) | hp) | hp) | hp
  · rcases hp with rfl | rfl | rfl
    · exact ⟨codeNZ _ _ (by decide), hsev⟩
    · exact ⟨codeNZ _ _ (by decide), getCode_nulFree e h⟩
    · exact ⟨codeNZ _ _ (by decide), text_nulFree e h⟩
  · by_cases hh : e.getHint = []
    · simp [hh] at hp
    · simp [hh] at hp; subst hp; exact ⟨by simp, getHint_nulFree e h⟩
  · by_cases hh : e.getDetail = []
    · simp [hh] at hp
    · simp [hh] at hp; subst hp; exact ⟨by simp, getDetail_nulFree e h⟩
  · cases hsrc : e.getSource with
    | none => simp [hsrc] at hp
    | some src =>
      obtain ⟨file, line, fn⟩ := src
      have := getSource_nulFree e h file line fn hsrc
      simp [hsrc] at hp
      rcases hp with rfl | rfl | rfl
      · exact ⟨by simp, this.1⟩
      · exact ⟨by simp, decInt_nulFree _⟩
      · exact ⟨by simp, this.2⟩
  · by_cases hh : e.getConstr = []
    · simp [hh] at hp
    · simp [hh] at hp; subst hp; exact ⟨by simp, getConstr_nulFree e h⟩

theorem encFields_length (fs : List (UInt8 × Bytes)) : fs.length ≤ (encFields fs).length := by
  induction fs with
  | nil => simp [encFields]
  | cons p ps ih =>
    simp only [encFields, List.flatMap_cons, List.length_append, encField1, List.length_cons] at ih ⊢
    omega

/-- **C17.** For every error built from a base text and ANY nesting, order and repetition of
    the decorators and of `fmt.Errorf("%w")` wrapping (no bound on the depth), whose texts
    are representable in a field (NUL-free), the ErrorResponse body written by the server
    parses — under the strict grammar: code/text pairs closed by one zero byte, nothing after —
    to exactly the specification's field list: severity (default ERROR), SQLSTATE (default
    uncategorised), the error's text, and hint / detail / source file, line (decimal text),
    function / constraint name exactly when the outermost value is set and non-empty. -/
theorem C17_fields (e : Err) (h : errNulFree e) :
    let body := errorBody (flatten (some e))
    parseErrFields (body.length + 1) body = some (expectedFields e) := by
  intro body
  have hb : body = encFields (fieldList (flatten (some e))) ++ [0] := errorBody_eq _
  rw [hb, ← fieldList_spec e]
  apply parseErrFields_enc _ (fieldList_ok e h)
  have := encFields_length (fieldList (flatten (some e)))
  simp only [List.length_append, List.length_cons, List.length_nil]
  omega

/-- hence the message passes the C02 grammar as an ErrorResponse -/
theorem C17_wellformed (e : Err) (h : errNulFree e) :
    (BMsg.error (errorBody (flatten (some e)))).WF := by
  simp only [BMsg.WF, C17_fields e h, Option.isSome_some]

/-- each field code occurs at most once -/
theorem C17_codes_nodup (e : Err) : ((expectedFields e).map (·.1)).Nodup := by
  simp only [expectedFields]
  split <;> split <;> split <;> split <;> simp

/-- a nil error is reported as an internal fatal error, not as an empty message -/
theorem C17_nil :
    parseErrFields ((errorBody (flatten none)).length + 1) (errorBody (flatten none)) = some nilFields := by
  decide

/-- non-vacuity: a nested, repeatedly decorated, wrapped error meets the hypothesis, and the
    outer code / severity win while the inner hint survives -/
example :
    let e : Err := .code [52, 50] (.wrap [97, 58, 32] [] (.sev [70] (.code [88, 88] (.hint [104] (.source [102] 258 [103] (.base [120]))))))
    errNulFree e ∧ expectedFields e =
      [(83, [70]), (67, [52, 50]), (77, [97, 58, 32, 120]), (72, [104]), (70, [102]), (76, [50, 53, 56]), (82, [103])] := by
  refine ⟨?_, by decide⟩
  simp [errNulFree, nulFree]

end Pw.Props.C17
