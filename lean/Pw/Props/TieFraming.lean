import Pw.Props.Tie
/-
  TIE THEOREMS, part 2: message framing (`ReadUntypedMsg`, `ReadTypedMsg`, `Slurp`) against
  `readItem` / `sizeVerdict` of Model/Reader.lean.
-/
namespace Pw.Tie
open Pw Pw.Go

/-- the world after a complete message of `n` body bytes has been read from `hdr ++ r` -/
def afterMsg (w : World) (hdr r : Bytes) (n : Nat) : World :=
  let w1 := resetSpec n (setHeader { w with src := r } hdr)
  { setMsg w1 { w1.reader.Msg with data := r.take n } with src := r.drop n }

theorem tie_ReadUntypedMsg_ok (w : World) (ok : ReaderOK w) (a b c d : UInt8) (r : Bytes) (n : Nat)
    (hs : w.src = a :: b :: c :: d :: r)
    (hv : sizeVerdict w.reader.MaxMessageSize.toNat (declaredOf a b c d) = .ok n) (hr : n ≤ r.length) :
    Trans.Reader_ReadUntypedMsg w = .ok (4 + (n : Int), none) (afterMsg w [a, b, c, d] r n) := by
  have hdl := declaredOf_lt a b c d
  obtain ⟨hm0, hm1⟩ := ok.max
  have hfacts : ((declaredOf a b c d : Nat) : Int) - 4 = (n : Int) ∧ (n : Int) ≤ w.reader.MaxMessageSize := by
    unfold sizeVerdict at hv
    simp only at hv
    split at hv
    · cases hv
    · rename_i hcond
      injection hv with hv
      omega
  obtain ⟨hsz, hle⟩ := hfacts
  have e0 := tie_ReadMsgSize_full w a b c d r ok.hdr hs
  rw [hsz] at e0
  have hcond' : ¬ ((n : Int) > w.reader.MaxMessageSize ∨ (n : Int) < 0) := by omega
  unfold Trans.Reader_ReadUntypedMsg
  rw [e0]
  · simp only [Out.bind, setHeader, ne_eq, not_true_eq_false, if_false, hcond']
    have hwf : Sl.WF (setHeader { w with src := r } [a, b, c, d]).reader.Msg := ok.wf
    have hnk : Sl.NilOK (setHeader { w with src := r } [a, b, c, d]).reader.Msg := ok.nilok
    have e := tie_reset n (setHeader { w with src := r } [a, b, c, d]) hwf hnk
    simp only [setHeader] at e
    rw [e]
    have hn62 : n < 4611686018427387904 := by omega
    obtain ⟨_, _, _, hlen⟩ := resetSpec_heap n (setHeader { w with src := r } [a, b, c, d]) [] hwf hnk hn62
    have hsrc := (resetSpec_frame n (setHeader { w with src := r } [a, b, c, d])).1
    simp only [setHeader] at hlen hsrc
    have e2 := ioReadFullSl_enough _ _ (by rw [hlen, hsrc]; exact hr)
    simp only [e2, hlen, hsrc, afterMsg, setHeader, setMsg]
    have hi : i64 (4 + (n : Int)) = 4 + (n : Int) := by unfold i64; omega
    simp [hi]

theorem exceeded_facts (w : World) (ok : ReaderOK w) (a b c d : UInt8) (size : Int)
    (hv : sizeVerdict w.reader.MaxMessageSize.toNat (declaredOf a b c d) = .exceeded size) :
    ((declaredOf a b c d : Nat) : Int) - 4 = size ∧ (size > w.reader.MaxMessageSize ∨ size < 0) := by
  have hdl := declaredOf_lt a b c d
  obtain ⟨hm0, hm1⟩ := ok.max
  unfold sizeVerdict at hv
  simp only at hv
  split at hv
  · rename_i hcond
    injection hv with hv
    omega
  · cases hv

theorem tie_ReadUntypedMsg_big' (w : World) (ok : ReaderOK w) (a b c d : UInt8) (r : Bytes) (size : Int)
    (hs : w.src = a :: b :: c :: d :: r)
    (hsz : ((declaredOf a b c d : Nat) : Int) - 4 = size) (hcond : (size > w.reader.MaxMessageSize ∨ size < 0)) :
    Trans.Reader_ReadUntypedMsg w =
      .ok (size, some (.sizeExceeded w.reader.MaxMessageSize size)) (setHeader { w with src := r } [a, b, c, d]) := by
  have e0 := tie_ReadMsgSize_full w a b c d r ok.hdr hs
  rw [hsz] at e0
  unfold Trans.Reader_ReadUntypedMsg
  rw [e0]
  simp [Out.bind, setHeader, hcond]

theorem tie_ReadUntypedMsg_big (w : World) (ok : ReaderOK w) (a b c d : UInt8) (r : Bytes) (size : Int)
    (hs : w.src = a :: b :: c :: d :: r)
    (hv : sizeVerdict w.reader.MaxMessageSize.toNat (declaredOf a b c d) = .exceeded size) :
    Trans.Reader_ReadUntypedMsg w =
      .ok (size, some (.sizeExceeded w.reader.MaxMessageSize size)) (setHeader { w with src := r } [a, b, c, d]) :=
  tie_ReadUntypedMsg_big' w ok a b c d r size hs (exceeded_facts w ok a b c d size hv).1 (exceeded_facts w ok a b c d size hv).2

/-- what `readBody` says about a `.msg` item -/
theorem readBody_msg (L : Nat) (t t' : UInt8) (dcl : Nat) (r body rest : Bytes)
    (h : readBody L t' dcl r = some (.msg t body, rest)) :
    ∃ n, sizeVerdict L dcl = .ok n ∧ t' = t ∧ n ≤ r.length ∧ body = r.take n ∧ rest = r.drop n := by
  unfold readBody at h
  cases hv : sizeVerdict L dcl with
  | exceeded size =>
    rw [hv] at h
    simp only at h
    by_cases h0 : size < 0
    · rw [if_pos h0] at h; cases h
    · rw [if_neg h0] at h
      by_cases h1 : r.length < size.toNat
      · rw [if_pos h1] at h; cases h
      · rw [if_neg h1] at h; cases h
  | ok n =>
    rw [hv] at h
    simp only at h
    by_cases h1 : r.length < n
    · rw [if_pos h1] at h; cases h
    · rw [if_neg h1] at h
      injection h with h
      injection h with h1' h2
      injection h1' with ht hb
      exact ⟨n, rfl, ht, by omega, hb.symm, h2.symm⟩

/-- a complete in-limit message: `ReadTypedMsg` delivers exactly what `readItem` says -/
theorem tie_ReadTypedMsg_msg (w : World) (ok : ReaderOK w) (t : UInt8) (body rest : Bytes)
    (h : readItem w.reader.MaxMessageSize.toNat w.src = some (.msg t body, rest)) :
    ∃ a b c d r, w.src = t :: a :: b :: c :: d :: r ∧ body = r.take body.length ∧ rest = r.drop body.length ∧
      body.length ≤ r.length ∧
      Trans.Reader_ReadTypedMsg w =
        .ok (t, 4 + (body.length : Int), none) (afterMsg { w with src := a :: b :: c :: d :: r } [a, b, c, d] r body.length) := by
  unfold readItem at h
  rcases hsrc : w.src with _ | ⟨t', _ | ⟨a, _ | ⟨b, _ | ⟨c, _ | ⟨d, r⟩⟩⟩⟩⟩
  · simp [hsrc] at h
  · simp [hsrc, rd32] at h
  · simp [hsrc, rd32] at h
  · simp [hsrc, rd32] at h
  · simp [hsrc, rd32] at h
  simp only [hsrc, rd32_declared] at h
  obtain ⟨n, hv, ht, hn, hb, hr⟩ := readBody_msg _ _ _ _ _ _ _ h
  subst ht
  have hbl : body.length = n := by rw [hb]; simp [List.length_take, Nat.min_eq_left hn]
  refine ⟨a, b, c, d, r, rfl, ?_, ?_, ?_, ?_⟩
  · rw [hbl]; exact hb
  · rw [hbl]; exact hr
  · omega
  · unfold Trans.Reader_ReadTypedMsg
    rw [tie_ReadType, hsrc]
    simp only [Out.bind, ne_eq, not_true_eq_false, if_false]
    have ok' : ReaderOK { w with src := a :: b :: c :: d :: r } := ⟨ok.wf, ok.nilok, ok.hdr, ok.max⟩
    have e := tie_ReadUntypedMsg_ok { w with src := a :: b :: c :: d :: r } ok' a b c d r n rfl hv hn
    rw [e, hbl]
    simp

end Pw.Tie
