import Pw.Lemmas.Frame
/-
  C05 — Simple Query: ordered results, then exactly one ReadyForQuery; the result writer is a
  small state machine.  The writer theorems quantify over ALL handler programs (`Prog`).
-/
namespace Pw.Props.C05
open Pw

def isRow : BMsg → Bool | .dataRow _ => true | _ => false
def isComplete : BMsg → Bool | .complete _ => true | _ => false
def isReady : BMsg → Bool | .ready _ => true | _ => false
def isErr : BMsg → Bool | .error _ => true | _ => false
def isRowOk : Event → Bool | .rowRes none => true | _ => false

/-! ### one-step behaviour of the writer operations -/

theorem dwRow_ok (d : DW) (s : Sess) (vals : List Val) (d' : DW) (s' : Sess)
    (h : dwRow d s vals = (.res none, d', s')) :
    d.closed = false ∧ d'.closed = false ∧ d'.written = d.written + 1 ∧ s'.ev = s.ev ∧
    ∃ f, s'.out = .dataRow f :: s.out := by
  by_cases hcl : d.closed = true
  · simp [dwRow, hcl] at h
  · simp only [Bool.not_eq_true] at hcl
    by_cases har : vals.length ≠ d.cols.length
    · simp [dwRow, hcl, har] at h
    · simp only [dwRow, hcl, har, if_false, Bool.false_eq_true] at h
      split at h
      · simp at h
      · simp at h
      · simp at h
      · rename_i fields _
        split at h
        · rename_i s1 heq
          simp at h
          obtain ⟨rfl, rfl⟩ := h
          obtain ⟨ho, he, _⟩ := send_ok s s1 _ heq
          exact ⟨hcl, by simp [hcl], rfl, he, fields, ho⟩
        · simp at h

theorem dwRow_err (d : DW) (s : Sess) (vals : List Val) (e : OpErr) (d' : DW) (s' : Sess)
    (h : dwRow d s vals = (.res (some e), d', s')) :
    d' = d ∧ s'.out = s.out ∧ s'.ev = s.ev := by
  unfold dwRow at h
  split at h
  · simp at h; obtain ⟨_, rfl, rfl⟩ := h; exact ⟨rfl, rfl, rfl⟩
  · split at h
    · simp at h; obtain ⟨_, rfl, rfl⟩ := h; exact ⟨rfl, rfl, rfl⟩
    · split at h
      · simp at h; obtain ⟨_, rfl, rfl⟩ := h; exact ⟨rfl, rfl, rfl⟩
      · simp at h; obtain ⟨_, rfl, rfl⟩ := h; exact ⟨rfl, rfl, rfl⟩
      · simp at h
      · split at h
        · simp at h
        · rename_i s1 heq
          simp at h
          obtain ⟨_, rfl, rfl⟩ := h
          have := send_fail s s1 _ heq
          subst this
          exact ⟨rfl, rfl, rfl⟩

/-- a wrong-arity or unencodable row, and any row after completion, emits nothing and is
    not counted -/
theorem C05_bad_row_silent (d : DW) (s : Sess) (vals : List Val) (e : OpErr) (d' : DW) (s' : Sess)
    (h : dwRow d s vals = (.res (some e), d', s')) :
    s'.out = s.out ∧ d'.written = d.written := by
  obtain ⟨rfl, ho, _⟩ := dwRow_err d s vals e d' s' h
  exact ⟨ho, rfl⟩

theorem dwComplete_spec (d : DW) (s : Sess) (tag : Bytes) :
    (dwComplete d s tag).2.2.ev = s.ev ∧ (dwComplete d s tag).2.1.written = d.written ∧
    (d.closed = true → (dwComplete d s tag).2.2.out = s.out ∧ (dwComplete d s tag).2.1.closed = true) ∧
    (d.closed = false → (dwComplete d s tag).2.1.closed = true ∧
      ((dwComplete d s tag).2.2.out = s.out ∨ (dwComplete d s tag).2.2.out = .complete tag :: s.out)) := by
  by_cases hc : d.closed = true
  · simp [dwComplete, hc]
  · simp only [Bool.not_eq_true] at hc
    simp only [dwComplete, hc, Bool.false_eq_true, if_false]
    cases hsend : s.send (.complete tag) with
    | mk s1 ok =>
      cases ok with
      | true =>
        obtain ⟨ho, he, _⟩ := send_ok s s1 _ hsend
        simp [ho, he]
      | false =>
        have := send_fail s s1 _ hsend
        subst this
        simp

theorem dwEmpty_spec (d : DW) :
    (dwEmpty d).2.written = d.written ∧ (d.closed = true → (dwEmpty d).2.closed = true) := by
  unfold dwEmpty
  split
  · simp_all
  · split <;> simp_all

theorem dwCopyIn_spec (d : DW) (s : Sess) (fmt : Nat) :
    (dwCopyIn d s fmt).2.2.ev = s.ev ∧ (dwCopyIn d s fmt).2.1.written = d.written ∧
    (dwCopyIn d s fmt).2.1.closed = d.closed ∧
    (d.closed = true → (dwCopyIn d s fmt).2.2.out = s.out) ∧
    ((dwCopyIn d s fmt).2.2.out = s.out ∨
      (dwCopyIn d s fmt).2.2.out = .copyIn (fmt % 256) d.cols.length :: s.out) := by
  by_cases hc : d.closed = true
  · simp [dwCopyIn, hc]
  · simp only [Bool.not_eq_true] at hc
    simp only [dwCopyIn, hc, Bool.false_eq_true, if_false]
    split
    · simp [hc]
    · cases hsend : s.send (.copyIn (fmt % 256) d.cols.length) with
      | mk s1 ok =>
        cases ok with
        | true =>
          obtain ⟨ho, he, _⟩ := send_ok s s1 _ hsend
          simp [Sess.setMsg, ho, he, hc]
        | false =>
          have := send_fail s s1 _ hsend
          subst this
          simp [hc]

theorem dwRow_panic (d : DW) (s : Sess) (vals : List Val) (msg : Bytes) (d' : DW) (s' : Sess)
    (h : dwRow d s vals = (.panic msg, d', s')) : s' = s ∧ d.closed = false := by
  unfold dwRow at h
  split at h
  · simp at h
  · rename_i hc
    split at h
    · simp at h
    · split at h
      · simp at h
      · simp at h
      · simp at h; exact ⟨h.2.2.symm, by simpa using hc⟩
      · split at h <;> simp at h

theorem dwRow_closed (d : DW) (s : Sess) (vals : List Val) (h : d.closed = true) :
    dwRow d s vals = (.res (some (.lib errClosedWriter)), d, s) := by simp [dwRow, h]

/-- rows delivered since the statement function was entered (newest event first) -/
def rowsSince : List Event → Nat
  | [] => 0
  | .exec _ _ _ :: _ => 0
  | .rowRes none :: r => rowsSince r + 1
  | _ :: r => rowsSince r

/-- every `Written()` answer equals the number of rows delivered before it -/
def WOK : List Event → Prop
  | [] => True
  | .written n :: r => n = rowsSince r ∧ WOK r
  | _ :: r => WOK r

structure Facts (d : DW) (s s' : Sess) : Prop where
  rows : s'.out.countP isRow + s.ev.countP isRowOk = s.out.countP isRow + s'.ev.countP isRowOk
  written : d.written = rowsSince s.ev → WOK s.ev → WOK s'.ev
  closedSilent : d.closed = true → s'.out = s.out
  complete : s'.out.countP isComplete ≤ s.out.countP isComplete + (if d.closed then 0 else 1)
  ready : s'.out.countP isReady = s.out.countP isReady
  errs : s'.out.countP isErr = s.out.countP isErr

/-- composition: one writer operation `(d, s) ↦ (d', s2)` followed by a run with `Facts` -/
theorem Facts.step {d d' : DW} {s s2 s3 : Sess}
    (hrows : s2.out.countP isRow + s.ev.countP isRowOk = s.out.countP isRow + s2.ev.countP isRowOk)
    (hwr : d.written = rowsSince s.ev → WOK s.ev → (d'.written = rowsSince s2.ev ∧ WOK s2.ev))
    (hcl : d.closed = true → s2.out = s.out ∧ d'.closed = true)
    (hcomp : s2.out.countP isComplete + (if d'.closed then 0 else 1)
              ≤ s.out.countP isComplete + (if d.closed then 0 else 1))
    (hready : s2.out.countP isReady = s.out.countP isReady ∧ s2.out.countP isErr = s.out.countP isErr)
    (f : Facts d' s2 s3) : Facts d s s3 := by
  refine ⟨?_, ?_, ?_, ?_, ?_, ?_⟩
  · have := f.rows; omega
  · intro h1 h2; obtain ⟨a, b⟩ := hwr h1 h2; exact f.written a b
  · intro hc; obtain ⟨a, b⟩ := hcl hc; rw [f.closedSilent b, a]
  · have := f.complete; omega
  · rw [f.ready, hready.1]
  · rw [f.errs, hready.2]

theorem Facts.refl (d : DW) (s : Sess) : Facts d s s :=
  ⟨rfl, fun _ h => h, fun _ => rfl, by split <;> omega, rfl, rfl⟩

theorem rowsSince_neutral (e : Event) (r : List Event)
    (h1 : isRowOk e = false) (h3 : ∀ a b c, e ≠ .exec a b c) : rowsSince (e :: r) = rowsSince r := by
  cases e with
  | exec a b c => exact absurd rfl (h3 a b c)
  | rowRes x => cases x with
    | none => simp [isRowOk] at h1
    | some _ => rfl
  | _ => rfl

theorem WOK_neutral (e : Event) (r : List Event) (h2 : ∀ n, e ≠ .written n) : WOK (e :: r) = WOK r := by
  cases e with
  | written n => exact absurd rfl (h2 n)
  | _ => rfl

/-- logging an event that is neither a delivered row nor a `Written()` answer -/
theorem logNeutral (d : DW) (s : Sess) (e : Event) (s3 : Sess)
    (h1 : isRowOk e = false) (h2 : ∀ n, e ≠ .written n) (h3 : ∀ a b c, e ≠ .exec a b c)
    (f : Facts d (s.log e) s3) : Facts d s s3 := by
  apply Facts.step (d' := d) (s2 := s.log e) _ _ _ _ _ f
  · simp [Sess.log, h1]
  · intro a b
    simp only [Sess.log, rowsSince_neutral e s.ev h1 h3, WOK_neutral e s.ev h2]
    exact ⟨a, b⟩
  · intro hc; exact ⟨rfl, hc⟩
  · simp [Sess.log]
  · simp [Sess.log]

/-- the invariant behind all writer clauses, for every handler program -/
theorem runProg_facts : ∀ (p : Prog) (d : DW) (s : Sess), Facts d s (runProg p d s).2 := by
  intro p
  induction p with
  | ret e => intro d s; exact Facts.refl d s
  | note n k ih =>
    intro d s
    simp only [runProg]
    exact logNeutral d s _ _ rfl (by intro n h; cases h) (by intro a b c h; cases h) (ih d _)
  | row vals k ih =>
    intro d s
    simp only [runProg]
    rcases hr : dwRow d s vals with ⟨ro, d', s'⟩
    cases ro with
    | panic msg =>
      obtain ⟨rfl, hc⟩ := dwRow_panic d s vals msg d' s' hr
      exact Facts.refl d s'
    | res r =>
      cases r with
      | none =>
        obtain ⟨hc, hc', hw, he, f, ho⟩ := dwRow_ok d s vals d' s' hr
        apply Facts.step (d' := d') (s2 := s'.log (.rowRes none)) _ _ _ _ _ (ih none d' _)
        · simp [Sess.log, ho, he, List.countP_cons, isRow, isRowOk]; omega
        · intro a b
          simp only [Sess.log, he, rowsSince, WOK]
          exact ⟨by omega, b⟩
        · intro h; rw [hc] at h; cases h
        · simp [Sess.log, ho, List.countP_cons, isComplete, hc, hc']
        · simp [Sess.log, ho, List.countP_cons, isReady, isErr]
      | some e =>
        obtain ⟨rfl, ho, he⟩ := dwRow_err d s vals e d' s' hr
        apply Facts.step (d' := d') (s2 := s'.log (.rowRes (some e))) _ _ _ _ _ (ih (some e) d' _)
        · simp [Sess.log, ho, he, List.countP_cons, isRowOk]
        · intro a b
          simp only [Sess.log, he, rowsSince, WOK]
          exact ⟨a, b⟩
        · intro h; exact ⟨by simp [Sess.log, ho], h⟩
        · simp [Sess.log, ho]
        · simp [Sess.log, ho]
  | complete tag k ih =>
    intro d s
    simp only [runProg]
    obtain ⟨he, hw, hcl, hop⟩ := dwComplete_spec d s tag
    rcases hr : dwComplete d s tag with ⟨r, d', s'⟩
    rw [hr] at he hw hcl hop
    simp only at he hw hcl hop
    apply Facts.step (d' := d') (s2 := s'.log (.completeRes r)) _ _ _ _ _ (ih r d' _)
    · by_cases hc : d.closed = true
      · simp [Sess.log, (hcl hc).1, he, List.countP_cons, isRowOk]
      · simp only [Bool.not_eq_true] at hc
        rcases (hop hc).2 with ho | ho <;> simp [Sess.log, ho, he, List.countP_cons, isRowOk, isRow]
    · intro a b
      simp only [Sess.log, he, rowsSince, WOK]
      exact ⟨by omega, b⟩
    · intro hc; exact ⟨by simp [Sess.log, (hcl hc).1], (hcl hc).2⟩
    · by_cases hc : d.closed = true
      · simp [Sess.log, (hcl hc).1, (hcl hc).2, hc]
      · simp only [Bool.not_eq_true] at hc
        rcases (hop hc).2 with ho | ho <;> simp [Sess.log, ho, (hop hc).1, hc, List.countP_cons, isComplete]
    · by_cases hc : d.closed = true
      · simp [Sess.log, (hcl hc).1]
      · simp only [Bool.not_eq_true] at hc
        rcases (hop hc).2 with ho | ho <;> simp [Sess.log, ho, List.countP_cons, isReady, isErr]
  | empty k ih =>
    intro d s
    simp only [runProg]
    obtain ⟨hw, hcl⟩ := dwEmpty_spec d
    rcases hr : dwEmpty d with ⟨r, d'⟩
    rw [hr] at hw hcl
    simp only at hw hcl
    apply Facts.step (d' := d') (s2 := s.log (.emptyRes r)) _ _ _ _ _ (ih r d' _)
    · simp [Sess.log, List.countP_cons, isRowOk]
    · intro a b
      simp only [Sess.log, rowsSince, WOK]
      exact ⟨by omega, b⟩
    · intro hc; exact ⟨by simp [Sess.log], hcl hc⟩
    · simp only [Sess.log]
      by_cases hc : d.closed = true
      · simp [hcl hc, hc]
      · simp only [Bool.not_eq_true] at hc
        simp only [hc]
        split <;> simp
    · simp [Sess.log]
  | written k ih =>
    intro d s
    simp only [runProg]
    apply Facts.step (d' := d) (s2 := s.log (.written d.written)) _ _ _ _ _ (ih d.written d _)
    · simp [Sess.log, List.countP_cons, isRowOk]
    · intro a b
      simp only [Sess.log, rowsSince, WOK]
      exact ⟨a, a, b⟩
    · intro hc; exact ⟨by simp [Sess.log], hc⟩
    · simp [Sess.log]
    · simp [Sess.log]
  | copyIn fmt k ih =>
    intro d s
    simp only [runProg]
    obtain ⟨he, hw, hcl, hsil, ho⟩ := dwCopyIn_spec d s fmt
    rcases hr : dwCopyIn d s fmt with ⟨r, d', s'⟩
    rw [hr] at he hw hcl hsil ho
    simp only at he hw hcl hsil ho
    apply Facts.step (d' := d') (s2 := s'.log (.copyInRes r)) _ _ _ _ _ (ih r d' _)
    · rcases ho with ho | ho <;> simp [Sess.log, ho, he, List.countP_cons, isRowOk, isRow]
    · intro a b
      simp only [Sess.log, he, rowsSince, WOK]
      exact ⟨by omega, b⟩
    · intro hc; exact ⟨by simp [Sess.log, hsil hc], by rw [hcl]; exact hc⟩
    · rcases ho with ho | ho <;> simp [Sess.log, ho, hcl, List.countP_cons, isComplete]
    · rcases ho with ho | ho <;> simp [Sess.log, ho, List.countP_cons, isReady, isErr]
  | copyRead k ih =>
    intro d s
    simp only [runProg]
    split
    · exact logNeutral d s _ _ rfl (by intro n h; cases h) (by intro a b c h; cases h) (ih _ d _)
    · split
      · exact ⟨rfl, fun _ h => h, fun _ => rfl, by simp, rfl, rfl⟩
      · rename_i r i _
        have h := logNeutral d { s with inp := i } (.copyRes r) _ (by cases r <;> rfl)
          (by intro n h; cases h) (by intro a b c h; cases h) (ih r d _)
        exact ⟨h.rows, h.written, h.closedSilent, h.complete, h.ready, h.errs⟩
  | binNew k ih =>
    intro d s
    simp only [runProg]
    split
    · exact logNeutral d s _ _ rfl (by intro n h; cases h) (by intro a b c h; cases h) (ih _ d _)
    · generalize hs1 : (if (d.cols.all fun c => supportedOid c.oid) = true then s else s.markUnsup) = s1
      have hs1' : s1.out = s.out ∧ s1.ev = s.ev := by
        rw [← hs1]; split <;> simp [Sess.markUnsup]
      have h := logNeutral { d with bin := some { oids := d.cols.map (·.oid) } } s1 (.binNewRes none) _ rfl
        (by intro n h; cases h) (by intro a b c h; cases h) (ih none _ _)
      exact ⟨by have := h.rows; rw [hs1'.1, hs1'.2] at this; exact this,
        fun a b => h.written (by rw [hs1'.2]; exact a) (by rw [hs1'.2]; exact b),
        fun hc => by rw [h.closedSilent hc, hs1'.1],
        by have := h.complete; rw [hs1'.1] at this; exact this,
        by rw [h.ready, hs1'.1], by rw [h.errs, hs1'.1]⟩
  | binRead k ih =>
    intro d s
    simp only [runProg]
    split
    · exact logNeutral d s _ _ rfl (by intro n h; cases h) (by intro a b c h; cases h) (ih _ d _)
    · split
      · exact ⟨rfl, fun _ h => h, fun _ => rfl, by simp, rfl, rfl⟩
      · rename_i b0 _ r b i _
        have h := logNeutral { d with bin := some b } { s with inp := i } (.binRes r) _ (by cases r <;> rfl)
          (by intro n h; cases h) (by intro a b c h; cases h) (ih r _ _)
        exact ⟨h.rows, h.written, h.closedSilent, h.complete, h.ready, h.errs⟩

/-! ### the writer clauses of C05, for every handler program -/

/-- **rows**: the DataRows emitted are exactly the `Row` calls that returned success -/
theorem C05_rows_delivered (p : Prog) (d : DW) (s : Sess) :
    (runProg p d s).2.out.countP isRow + s.ev.countP isRowOk
      = s.out.countP isRow + (runProg p d s).2.ev.countP isRowOk := (runProg_facts p d s).rows

/-- **row counter**: every `Written()` answer observed by the handler equals the number of rows
    delivered so far by this statement execution -/
theorem C05_written (p : Prog) (cols : List ColDesc) (formats : List Nat) (s : Sess)
    (q : Bytes) (idx : Nat) (ps : List Param) (h : WOK s.ev) :
    WOK (runProg p { cols, formats } (s.log (.exec q idx ps))).2.ev := by
  apply (runProg_facts p _ _).written
  · simp [Sess.log, rowsSince]
  · simpa [Sess.log, WOK] using h

/-- **after completion** every operation fails without emitting a byte -/
theorem C05_after_completion_silent (p : Prog) (d : DW) (s : Sess) (h : d.closed = true) :
    (runProg p d s).2.out = s.out := (runProg_facts p d s).closedSilent h

/-- **completion** emits at most one CommandComplete, whatever the program does afterwards -/
theorem C05_one_complete (p : Prog) (d : DW) (s : Sess) :
    (runProg p d s).2.out.countP isComplete ≤ s.out.countP isComplete + 1 := by
  have := (runProg_facts p d s).complete
  split at this <;> omega

/-- a statement function can never emit ReadyForQuery -/
theorem C05_handler_no_ready (p : Prog) (d : DW) (s : Sess) :
    (runProg p d s).2.out.countP isReady = s.out.countP isReady := (runProg_facts p d s).ready

/-! ### the simple-query cycle -/

theorem errorCode_cont (s s' : Sess) (e : Option Err) (h : errorCode s e = .cont s') :
    s'.out = .ready (ch 'I') :: .error (errorBody (flatten e)) :: s.out ∧ s'.ev = s.ev := by
  unfold errorCode sendError at h
  cases h1 : s.send (.error (errorBody (flatten e))) with
  | mk s1 ok1 =>
    rw [h1] at h
    cases ok1 with
    | false => simp at h
    | true =>
      simp only at h
      cases h2 : s1.send (.ready (ch 'I')) with
      | mk s2 ok2 =>
        rw [h2] at h
        cases ok2 with
        | false => simp [afterWrite] at h
        | true =>
          simp [afterWrite] at h
          subst h
          obtain ⟨a1, b1, _⟩ := send_ok s s1 _ h1
          obtain ⟨a2, b2, _⟩ := send_ok s1 s2 _ h2
          exact ⟨by rw [a2, a1], by rw [b2, b1]⟩

/-- once a write has failed every later write fails: the error path cannot continue -/
theorem errorCode_after_fail (s s1 s' : Sess) (m : BMsg) (e : Option Err)
    (hf : s.send m = (s1, false)) : errorCode s1 e ≠ .cont s' := by
  have := send_fail s s1 m hf
  subst this
  unfold Sess.send at hf
  split at hf <;> simp at hf
  rename_i hw
  intro h
  simp [errorCode, sendError, Sess.send, hw] at h

/-- the statement loop ends the cycle with exactly one ReadyForQuery, as the last message -/
theorem runStatements_cycle : ∀ (sts : List Stmt) (s s' : Sess), runStatements sts s = .cont s' →
    s'.out.countP isReady = s.out.countP isReady + 1 ∧ s'.out.head? = some (.ready (ch 'I')) := by
  intro sts
  induction sts with
  | nil =>
    intro s s' h
    simp only [runStatements] at h
    cases h1 : s.send (.ready (ch 'I')) with
    | mk s1 ok =>
      rw [h1] at h
      cases ok with
      | false => simp [afterWrite] at h
      | true =>
        simp [afterWrite] at h; subst h
        obtain ⟨a, _⟩ := send_ok s s1 _ h1
        simp [a, List.countP_cons, isReady]
  | cons st rest ih =>
    intro s s' h
    simp only [runStatements] at h
    generalize hdef : (if st.cols.length = 0 then (s, true) else s.send (.rowDesc (colFormats [] st.cols))) = defined at h
    have hd : defined.2 = true → defined.1.out.countP isReady = s.out.countP isReady := by
      intro hok
      rw [← hdef] at hok ⊢
      split
      · rfl
      · rename_i hne
        simp only [hne, if_false] at hok
        cases hs : s.send (.rowDesc (colFormats [] st.cols)) with
        | mk s1 ok =>
          rw [hs] at hok
          simp only at hok
          subst hok
          obtain ⟨a, _⟩ := send_ok s s1 _ hs
          simp [a, List.countP_cons, isReady]
    rcases defined with ⟨s1, ok⟩
    cases ok with
    | false =>
      simp only at h
      -- the RowDescription write failed, so does every later write: errorCode cannot continue
      split at hdef
      · simp at hdef
      · exact absurd h (errorCode_after_fail s s1 s' _ _ hdef)
    | true =>
      simp only at h
      have hd' := hd rfl
      simp only at hd'
      have hr := C05_handler_no_ready (st.body []) { cols := st.cols, formats := [] } (s1.log (.exec st.q st.idx []))
      rcases hrun : runProg (st.body []) { cols := st.cols, formats := [] } (s1.log (.exec st.q st.idx [])) with ⟨o, s2⟩
      rw [hrun] at h hr
      simp only [Sess.log] at hr
      cases o with
      | blocked => simp at h
      | panicked m => simp at h
      | done e =>
        cases e with
        | some e =>
          simp only at h
          obtain ⟨a, _⟩ := errorCode_cont _ _ _ h
          simp [a, List.countP_cons, isReady, hr, hd']
        | none =>
          simp only at h
          obtain ⟨a, b⟩ := ih s2 s' h
          exact ⟨by rw [a, hr, hd'], b⟩

/-- **C05 (cycle).** Whenever a simple Query is answered and the session goes on, the answer
    contains exactly one ReadyForQuery and it is the last message of the cycle — for every query
    text, every parser result (error, zero, one, many statements) and every handler program. -/
theorem C05_cycle (h : Handlers) (s s' : Sess) (hc : handleSimpleQuery h s = .cont s') :
    s'.out.countP isReady = s.out.countP isReady + 1 ∧ s'.out.head? = some (.ready (ch 'I')) := by
  unfold handleSimpleQuery at hc
  split at hc
  · simp at hc
  · rename_i q rest _
    dsimp only at hc
    split at hc
    · -- blank query: EmptyQueryResponse, ReadyForQuery
      cases h1 : (s.setMsg rest).send .emptyQuery with
      | mk s1 ok1 =>
        rw [h1] at hc
        cases ok1 with
        | false => simp at hc
        | true =>
          simp only at hc
          cases h2 : s1.send (.ready (ch 'I')) with
          | mk s2 ok2 =>
            rw [h2] at hc
            cases ok2 with
            | false => simp [afterWrite] at hc
            | true =>
              simp [afterWrite] at hc; subst hc
              obtain ⟨a1, _⟩ := send_ok _ s1 _ h1
              obtain ⟨a2, _⟩ := send_ok s1 s2 _ h2
              simp [a2, a1, Sess.setMsg, List.countP_cons, isReady]
    · split at hc
      · obtain ⟨a, _⟩ := errorCode_cont _ _ _ hc
        simp [a, Sess.log, Sess.setMsg, List.countP_cons, isReady]
      · obtain ⟨a, _⟩ := errorCode_cont _ _ _ hc
        simp [a, Sess.log, Sess.setMsg, List.countP_cons, isReady]
      · have := runStatements_cycle _ _ _ hc
        simpa [Sess.log, Sess.setMsg] using this

/-- a blank query is answered without consulting the parser (no callback event at all) -/
theorem C05_blank_no_parse (h : Handlers) (s s' : Sess) (q rest : Bytes)
    (hq : getString s.inp.msg = some (q, rest)) (hb : isBlank q = true)
    (hc : handleSimpleQuery h s = .cont s') : s'.ev = s.ev := by
  simp only [handleSimpleQuery, hq, hb, if_true] at hc
  cases h1 : (s.setMsg rest).send .emptyQuery with
  | mk s1 ok1 =>
    rw [h1] at hc
    cases ok1 with
    | false => simp at hc
    | true =>
      simp only at hc
      cases h2 : s1.send (.ready (ch 'I')) with
      | mk s2 ok2 =>
        rw [h2] at hc
        cases ok2 with
        | false => simp [afterWrite] at hc
        | true =>
          simp [afterWrite] at hc; subst hc
          obtain ⟨_, b1, _⟩ := send_ok _ s1 _ h1
          obtain ⟨_, b2, _⟩ := send_ok s1 s2 _ h2
          rw [b2, b1]; rfl

/-- after a statement returns an error, no later statement of that query runs: the cycle
    continues with the ErrorResponse/ReadyForQuery pair only -/
theorem C05_error_stops (st : Stmt) (rest : List Stmt) (s s2 : Sess) (e : Err)
    (hcols : st.cols.length = 0)
    (hrun : runProg (st.body []) { cols := st.cols, formats := [] } (s.log (.exec st.q st.idx [])) = (.done (some e), s2)) :
    runStatements (st :: rest) s = errorCode s2 (some e) := by
  simp only [runStatements, hcols, if_true, hrun]

end Pw.Props.C05
