import Pw.Props.C02
