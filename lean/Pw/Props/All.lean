import Pw.Props.C02
import Pw.Props.C17
import Pw.Props.C20
import Pw.Props.C10
import Pw.Props.C03
import Pw.Props.C08
import Pw.Props.C05
import Pw.Props.C06
