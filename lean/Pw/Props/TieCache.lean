import Pw.Generated.TransCache
import Pw.Model.Session
import Pw.Props.C07
/-
  TIE THEOREMS, part 7: the statement / portal caches of cache.go as translated (`TransCache.DefaultStatementCache_*`,
  `TransCache.DefaultPortalCache_*`) against the model's name maps (`Sess.stmts`, `Sess.portals` with
  `store` / `lookup` / `remove`, Model/Session.lean) and the laws of Props/C07.lean.

  Abstraction.  `ca_absP` turns a Go map (`none` = nil map) into the model's association list, at the level of
  addresses (`α := Option Nat`: `*Statement` / `*Portal`); `ca_absS` / `ca_absPo` dereference the addresses
  (statement values / portals with their statement value).  Objects in the heaps are never modified by the
  translated code (the heaps only grow: `ca_*_heap`), which is why holding the address is as good as the
  model's holding the value.
-/
namespace Pw.Tie
open Pw Pw.Go.Cache Pw.TransCache

/-! ### what the translator saw -/

theorem cache_untranslatable_nil : TransCache.untranslatable = [] := rfl

/-- the structs behind `StmtCacheS`, `PortalCacheS`, `StatementV`, `PortalV`, `PreparedStatementV` of RtCache.lean -/
theorem cache_struct_layout :
    TransCache.structDefaultStatementCache = [("statements", "map[string]*Statement"), ("mu", "sync.RWMutex")] ∧
    TransCache.structDefaultPortalCache = [("portals", "map[string]*Portal"), ("mu", "sync.RWMutex")] ∧
    TransCache.structStatement = [("fn", "PreparedStatementFn"), ("parameters", "[]oid.Oid"), ("columns", "Columns")] ∧
    TransCache.structPortal = [("statement", "*Statement"), ("parameters", "[]Parameter"), ("formats", "[]FormatCode")] ∧
    TransCache.structPreparedStatement = [("fn", "PreparedStatementFn"), ("parameters", "[]oid.Oid"), ("columns", "Columns")] :=
  ⟨rfl, rfl, rfl, rfl, rfl⟩

/-! ### Go maps against the model's association lists -/

/-- a Go map as the model's name map (the nil map has no entries) -/
def ca_absP {α : Type} (m : GoMap α) : List (Bytes × α) := m.getD []

theorem ca_alGet_lookup {α : Type} (k : Bytes) (l : List (Bytes × α)) : alGet k l = lookup k l := by
  induction l with
  | nil => rfl
  | cons kv l ih => obtain ⟨k', v⟩ := kv; simp [alGet, lookup, ih]

theorem ca_alDelete_remove {α : Type} (k : Bytes) (l : List (Bytes × α)) : alDelete k l = remove k l := by
  induction l with
  | nil => rfl
  | cons kv l ih =>
    obtain ⟨k', v⟩ := kv
    rw [Pw.Props.C07.remove_cons]
    simp [alDelete, ih]

/-- `v, has := m[k]` is the model's `lookup` (also on the nil map) -/
theorem ca_mapGet_lookup {α : Type} (m : GoMap α) (k : Bytes) : mapGet m k = lookup k (ca_absP m) := by
  cases m with
  | none => rfl
  | some l => exact ca_alGet_lookup k l

/-- `m[k] = v` on a non-nil map is the model's `store` -/
theorem ca_mapSet_store {α : Type} (l : List (Bytes × α)) (k : Bytes) (v : α) :
    mapSet (some l) k v = .ok (some (store k v l)) := by
  simp [mapSet, store, ca_alDelete_remove]

/-- `m[k] = v` on the nil map panics -/
theorem ca_mapSet_nil {α : Type} (k : Bytes) (v : α) :
    mapSet (none : GoMap α) k v = .error (ascii "assignment to entry in nil map") := rfl

/-- `delete(m, k)` is the model's `remove` (a no-op on the nil map, which stays nil) -/
theorem ca_mapDelete_remove {α : Type} (m : GoMap α) (k : Bytes) :
    ca_absP (mapDelete m k) = remove k (ca_absP m) ∧ (mapIsNil (mapDelete m k) = mapIsNil m) := by
  cases m with
  | none => exact ⟨rfl, rfl⟩
  | some l => exact ⟨ca_alDelete_remove k l, rfl⟩

/-! ### the statement cache: closed forms -/

/-- the `Statement` that `Set` builds from the prepared statement -/
def ca_stmtOf (ps : PreparedStatementV) : StatementV :=
  { fn := ps.fn, parameters := ps.parameters, columns := ps.columns }

/-- the world with a new statement heap and statement map, the cache's lock released -/
def ca_scW (w : CW) (heap : List StatementV) (m : GoMap (Option Nat)) : CW :=
  { w with stmtHeap := heap, sc := { statements := m, mu := .free } }

theorem ca_scW_self (w : CW) (h : w.sc.mu = .free) : ca_scW w w.stmtHeap w.sc.statements = w := by
  obtain ⟨sh, ph, ⟨st, mu⟩, pc, orc, calls⟩ := w
  simp at h; subst h; rfl

def ca_nilDeref : Bytes := ascii "runtime error: invalid memory address or nil pointer dereference"

/-- `Set` with the lock free: the statement is a NEW object at the end of the heap, the name is bound to its
    address by the model's `store` (on the nil map after allocating it), the lock is free again, no error, no panic -/
theorem tie_ca_StatementCache_Set (name : Bytes) (ps : PreparedStatementV) (w : CW) (h : w.sc.mu = .free) :
    DefaultStatementCache_Set name (some ps) w =
      .ok none (ca_scW w (w.stmtHeap ++ [ca_stmtOf ps])
        (some (store name (some w.stmtHeap.length) (ca_absP w.sc.statements)))) := by
  obtain ⟨sh, ph, ⟨st, mu⟩, pc, orc, calls⟩ := w
  simp at h; subst h
  cases st <;>
    simp [DefaultStatementCache_Set, lockStep, rwLock, rwUnlock, deferRun, mapIsNil, mapMake, chk, caDeref, allocStmt,
      ca_mapSet_store, ca_scW, ca_stmtOf, ca_absP]

/-- `Set` with a nil `*PreparedStatement`: the nil dereference panics; the deferred `Unlock` has run (and the
    nil map has been replaced by an empty one before) -/
theorem tie_ca_StatementCache_Set_nil (name : Bytes) (w : CW) (h : w.sc.mu = .free) :
    DefaultStatementCache_Set name none w =
      .panic ca_nilDeref (ca_scW w w.stmtHeap (some (ca_absP w.sc.statements))) := by
  obtain ⟨sh, ph, ⟨st, mu⟩, pc, orc, calls⟩ := w
  simp at h; subst h
  cases st <;>
    simp [DefaultStatementCache_Set, lockStep, rwLock, rwUnlock, deferRun, mapIsNil, mapMake, chk, caDeref,
      ca_scW, ca_absP, ca_nilDeref]

/-- `Get` with the lock free: the model's `lookup` (an unknown name and the nil map give nil), nothing changes -/
theorem tie_ca_StatementCache_Get (name : Bytes) (w : CW) (h : w.sc.mu = .free) :
    DefaultStatementCache_Get name w = .ok ((lookup name (ca_absP w.sc.statements)).getD none, none) w := by
  obtain ⟨sh, ph, ⟨st, mu⟩, pc, orc, calls⟩ := w
  simp at h; subst h
  cases st with
  | none => simp [DefaultStatementCache_Get, lockStep, rwRLock, rwRUnlock, deferRun, mapIsNil, ca_absP, lookup]
  | some l =>
    simp only [DefaultStatementCache_Get, lockStep, rwRLock, rwRUnlock, deferRun, mapIsNil, ca_mapGet_lookup, ca_absP,
      Option.isNone, Option.getD]
    cases hl : lookup name l <;> simp

/-- `Get` while other goroutines hold read locks: the same result, their read locks are still counted -/
theorem tie_ca_StatementCache_Get_shared (name : Bytes) (w : CW) (n : Nat) (h : w.sc.mu = .rlocked n) :
    DefaultStatementCache_Get name w = .ok ((lookup name (ca_absP w.sc.statements)).getD none, none) w := by
  obtain ⟨sh, ph, ⟨st, mu⟩, pc, orc, calls⟩ := w
  simp at h; subst h
  cases st with
  | none => simp [DefaultStatementCache_Get, lockStep, rwRLock, rwRUnlock, deferRun, mapIsNil, ca_absP, lookup]
  | some l =>
    simp only [DefaultStatementCache_Get, lockStep, rwRLock, rwRUnlock, deferRun, mapIsNil, ca_mapGet_lookup, ca_absP,
      Option.isNone, Option.getD]
    cases hl : lookup name l <;> simp

/-- `Close` with the lock free: the model's `remove`; on the nil map nothing happens (no panic) -/
theorem tie_ca_StatementCache_Close (name : Bytes) (w : CW) (h : w.sc.mu = .free) :
    DefaultStatementCache_Close name w = .ok none (ca_scW w w.stmtHeap (mapDelete w.sc.statements name)) := by
  obtain ⟨sh, ph, ⟨st, mu⟩, pc, orc, calls⟩ := w
  simp at h; subst h
  simp [DefaultStatementCache_Close, lockStep, rwLock, rwUnlock, deferRun, ca_scW]

/-- a method that takes the write lock never returns when the lock is held (one goroutine: nobody releases it) -/
theorem tie_ca_StatementCache_held (name : Bytes) (ps : Option PreparedStatementV) (w : CW) (h : w.sc.mu ≠ .free) :
    DefaultStatementCache_Set name ps w = .deadlock w ∧ DefaultStatementCache_Close name w = .deadlock w := by
  obtain ⟨sh, ph, ⟨st, mu⟩, pc, orc, calls⟩ := w
  cases mu <;> simp at h <;> simp [DefaultStatementCache_Set, DefaultStatementCache_Close, lockStep, rwLock]

theorem tie_ca_StatementCache_Get_held (name : Bytes) (w : CW) (h : w.sc.mu = .wlocked) :
    DefaultStatementCache_Get name w = .deadlock w := by
  obtain ⟨sh, ph, ⟨st, mu⟩, pc, orc, calls⟩ := w
  simp at h; subst h
  simp [DefaultStatementCache_Get, lockStep, rwRLock]

/-! ### the statement cache: what the model's handlers rely on -/

/-- the statement names as the model sees them: name ↦ address -/
def ca_stmts (w : CW) : List (Bytes × Option Nat) := ca_absP w.sc.statements

/-- REFINEMENT (Parse).  `Set` is the model's `store` on the abstraction -/
theorem tie_ca_Set_refines_store (name : Bytes) (ps : PreparedStatementV) (w : CW) (h : w.sc.mu = .free) :
    ∃ w', DefaultStatementCache_Set name (some ps) w = .ok none w' ∧
      ca_stmts w' = store name (some w.stmtHeap.length) (ca_stmts w) ∧
      w'.stmtHeap = w.stmtHeap ++ [ca_stmtOf ps] ∧ w'.sc.mu = .free ∧
      w'.pc = w.pc ∧ w'.portalHeap = w.portalHeap ∧ w'.calls = w.calls :=
  ⟨_, tie_ca_StatementCache_Set name ps w h, rfl, rfl, rfl, rfl, rfl, rfl⟩

/-- REFINEMENT (Close 'S').  `Close` is the model's `remove` on the abstraction -/
theorem tie_ca_Close_refines_remove (name : Bytes) (w : CW) (h : w.sc.mu = .free) :
    ∃ w', DefaultStatementCache_Close name w = .ok none w' ∧
      ca_stmts w' = remove name (ca_stmts w) ∧ w'.stmtHeap = w.stmtHeap ∧ w'.sc.mu = .free ∧
      w'.pc = w.pc ∧ w'.portalHeap = w.portalHeap :=
  ⟨_, tie_ca_StatementCache_Close name w h, (ca_mapDelete_remove _ _).1, rfl, rfl, rfl, rfl⟩

/-- REFINEMENT (Bind / Describe 'S').  `Get` is the model's `lookup` on the abstraction; nil = unknown -/
theorem tie_ca_Get_refines_lookup (name : Bytes) (w : CW) (h : w.sc.mu = .free) :
    DefaultStatementCache_Get name w = .ok ((lookup name (ca_stmts w)).getD none, none) w :=
  tie_ca_StatementCache_Get name w h

/-- `Get` on a cache that was never written (zero value: nil map): nil, no error, no panic -/
theorem tie_ca_Get_fresh_cache (name : Bytes) (w : CW) (h : w.sc = {}) :
    DefaultStatementCache_Get name w = .ok (none, none) w := by
  have hm : w.sc.mu = .free := by rw [h]
  rw [tie_ca_StatementCache_Get name w hm, h]; rfl

/-- `Set` then `Get` of the same name: the address of the new object, which holds what was set -/
theorem tie_ca_Set_Get_same (name : Bytes) (ps : PreparedStatementV) (w : CW) (h : w.sc.mu = .free) :
    ∃ w', DefaultStatementCache_Set name (some ps) w = .ok none w' ∧
      DefaultStatementCache_Get name w' = .ok (some w.stmtHeap.length, none) w' ∧
      heapGet w'.stmtHeap (some w.stmtHeap.length) = .ok (ca_stmtOf ps) := by
  refine ⟨_, tie_ca_StatementCache_Set name ps w h, ?_, ?_⟩
  · rw [tie_ca_StatementCache_Get _ _ rfl]
    simp [ca_scW, ca_absP, Pw.Props.C07.lookup_store_same]
  · simp [heapGet, ca_scW]

/-- `Set` then `Get` of another name: what `Get` returned before -/
theorem tie_ca_Set_Get_other (name other : Bytes) (ps : PreparedStatementV) (w : CW) (h : w.sc.mu = .free)
    (hne : other ≠ name) :
    ∃ w' r, DefaultStatementCache_Set name (some ps) w = .ok none w' ∧
      DefaultStatementCache_Get other w = .ok (r, none) w ∧
      DefaultStatementCache_Get other w' = .ok (r, none) w' := by
  refine ⟨_, _, tie_ca_StatementCache_Set name ps w h, tie_ca_StatementCache_Get other w h, ?_⟩
  rw [tie_ca_StatementCache_Get _ _ rfl]
  simp [ca_scW, ca_absP, Pw.Props.C07.lookup_store_other _ _ _ _ hne]

/-- every address in the map points into the heap -/
def ca_WFs (w : CW) : Prop := ∀ k a, (k, some a) ∈ ca_stmts w → a < w.stmtHeap.length

/-- `Set` on an existing name REPLACES: the name gets a fresh object (an address no name had, the old object
    is untouched and still what holders of the old address see) -/
theorem tie_ca_Set_fresh (name : Bytes) (ps : PreparedStatementV) (w : CW) (h : w.sc.mu = .free) (hwf : ca_WFs w) :
    ∃ w', DefaultStatementCache_Set name (some ps) w = .ok none w' ∧
      (∀ k, (k, some w.stmtHeap.length) ∉ ca_stmts w) ∧
      (∀ a, a < w.stmtHeap.length → heapGet w'.stmtHeap (some a) = heapGet w.stmtHeap (some a)) ∧
      ca_WFs w' := by
  refine ⟨_, tie_ca_StatementCache_Set name ps w h, ?_, ?_, ?_⟩
  · intro k hk
    exact Nat.lt_irrefl _ (hwf k _ hk)
  · intro a ha
    simp [heapGet, ca_scW, List.getElem?_append_left ha]
  · intro k a hk
    simp only [ca_stmts, ca_scW, ca_absP, Option.getD, store, List.mem_cons, Prod.mk.injEq] at hk
    simp only [ca_scW, List.length_append, List.length_cons, List.length_nil]
    rcases hk with ⟨_, ha⟩ | hk
    · cases ha; omega
    · have := hwf k a (by
        simp only [remove, List.mem_filter] at hk
        exact hk.1)
      omega

/-- `Close` then `Get`: nil (unknown), other names unaffected -/
theorem tie_ca_Close_Get (name other : Bytes) (w : CW) (h : w.sc.mu = .free) :
    ∃ w', DefaultStatementCache_Close name w = .ok none w' ∧
      DefaultStatementCache_Get name w' = .ok (none, none) w' ∧
      (other ≠ name → ∃ r, DefaultStatementCache_Get other w = .ok (r, none) w ∧
        DefaultStatementCache_Get other w' = .ok (r, none) w') := by
  refine ⟨_, tie_ca_StatementCache_Close name w h, ?_, ?_⟩
  · rw [tie_ca_StatementCache_Get _ _ rfl]
    simp [ca_scW, (ca_mapDelete_remove _ _).1, Pw.Props.C07.lookup_remove_same]
  · intro hne
    refine ⟨_, tie_ca_StatementCache_Get other w h, ?_⟩
    rw [tie_ca_StatementCache_Get _ _ rfl]
    simp [ca_scW, (ca_mapDelete_remove _ _).1, Pw.Props.C07.lookup_remove_other _ _ _ hne]

/-! ### the portal cache: closed forms -/

/-- the world with a new portal heap and portal map, the cache's lock released -/
def ca_pcW (w : CW) (heap : List PortalV) (m : GoMap (Option Nat)) : CW :=
  { w with portalHeap := heap, pc := { portals := m, mu := .free } }

/-- the portal names as the model sees them: name ↦ address -/
def ca_portals (w : CW) : List (Bytes × Option Nat) := ca_absP w.pc.portals

/-- `Bind` with the lock free: a NEW portal object holding the statement address, the parameters and the formats
    handed in; the name is bound to it by the model's `store`; no error, no panic (the statement is not dereferenced) -/
theorem tie_ca_PortalCache_Bind (name : Bytes) (stmt : Option Nat) (params : List Bytes) (formats : List Nat) (w : CW)
    (h : w.pc.mu = .free) :
    DefaultPortalCache_Bind name stmt params formats w =
      .ok none (ca_pcW w (w.portalHeap ++ [{ statement := stmt, parameters := params, formats := formats }])
        (some (store name (some w.portalHeap.length) (ca_portals w)))) := by
  obtain ⟨sh, ph, sc, ⟨po, mu⟩, orc, calls⟩ := w
  simp at h; subst h
  cases po <;>
    simp [DefaultPortalCache_Bind, lockStep, rwLock, rwUnlock, deferRun, mapIsNil, mapMake, chk, allocPortal,
      ca_mapSet_store, ca_pcW, ca_absP, ca_portals]

/-- `Get` with the lock free: the model's `lookup`; nothing changes (the write lock it takes is released) -/
theorem tie_ca_PortalCache_Get (name : Bytes) (w : CW) (h : w.pc.mu = .free) :
    DefaultPortalCache_Get name w = .ok ((lookup name (ca_portals w)).getD none, none) w := by
  obtain ⟨sh, ph, sc, ⟨po, mu⟩, orc, calls⟩ := w
  simp at h; subst h
  cases po with
  | none => simp [DefaultPortalCache_Get, lockStep, rwLock, rwUnlock, deferRun, mapIsNil, ca_absP, ca_portals, lookup]
  | some l =>
    simp only [DefaultPortalCache_Get, lockStep, rwLock, rwUnlock, deferRun, mapIsNil, ca_mapGet_lookup, ca_absP,
      ca_portals, Option.isNone, Option.getD]
    cases hl : lookup name l <;> simp

/-- `Close` with the lock free: the model's `remove`; on the nil map nothing happens (no panic) -/
theorem tie_ca_PortalCache_Close (name : Bytes) (w : CW) (h : w.pc.mu = .free) :
    DefaultPortalCache_Close name w = .ok none (ca_pcW w w.portalHeap (mapDelete w.pc.portals name)) := by
  obtain ⟨sh, ph, sc, ⟨po, mu⟩, orc, calls⟩ := w
  simp at h; subst h
  simp [DefaultPortalCache_Close, lockStep, rwLock, rwUnlock, deferRun, ca_pcW]

/-- every method of the portal cache takes the write lock: on a held lock it never returns -/
theorem tie_ca_PortalCache_held (name : Bytes) (stmt : Option Nat) (params : List Bytes) (formats : List Nat) (w : CW)
    (h : w.pc.mu ≠ .free) :
    DefaultPortalCache_Bind name stmt params formats w = .deadlock w ∧ DefaultPortalCache_Get name w = .deadlock w ∧
    DefaultPortalCache_Close name w = .deadlock w ∧ DefaultPortalCache_Execute name w = .deadlock w := by
  obtain ⟨sh, ph, sc, ⟨po, mu⟩, orc, calls⟩ := w
  cases mu <;> simp at h <;>
    simp [DefaultPortalCache_Bind, DefaultPortalCache_Get, DefaultPortalCache_Close, DefaultPortalCache_Execute,
      lockStep, rwLock, recoverRun]

/-- REFINEMENT (Bind).  `Bind` is the model's `store` on the abstraction -/
theorem tie_ca_Bind_refines_store (name : Bytes) (stmt : Option Nat) (params : List Bytes) (formats : List Nat) (w : CW)
    (h : w.pc.mu = .free) :
    ∃ w', DefaultPortalCache_Bind name stmt params formats w = .ok none w' ∧
      ca_portals w' = store name (some w.portalHeap.length) (ca_portals w) ∧
      w'.portalHeap = w.portalHeap ++ [{ statement := stmt, parameters := params, formats := formats }] ∧
      w'.pc.mu = .free ∧ w'.sc = w.sc ∧ w'.stmtHeap = w.stmtHeap ∧ w'.calls = w.calls :=
  ⟨_, tie_ca_PortalCache_Bind name stmt params formats w h, rfl, rfl, rfl, rfl, rfl, rfl⟩

/-- REFINEMENT (Close 'P').  `Close` is the model's `remove` on the abstraction -/
theorem tie_ca_PortalClose_refines_remove (name : Bytes) (w : CW) (h : w.pc.mu = .free) :
    ∃ w', DefaultPortalCache_Close name w = .ok none w' ∧
      ca_portals w' = remove name (ca_portals w) ∧ w'.portalHeap = w.portalHeap ∧ w'.pc.mu = .free ∧
      w'.sc = w.sc ∧ w'.stmtHeap = w.stmtHeap :=
  ⟨_, tie_ca_PortalCache_Close name w h, (ca_mapDelete_remove _ _).1, rfl, rfl, rfl, rfl⟩

/-- `Get` on a portal cache that was never written: nil, no error, no panic -/
theorem tie_ca_PortalGet_fresh_cache (name : Bytes) (w : CW) (h : w.pc = {}) :
    DefaultPortalCache_Get name w = .ok (none, none) w := by
  have hm : w.pc.mu = .free := by rw [h]
  rw [tie_ca_PortalCache_Get name w hm, ca_portals, h]; rfl

/-- `Close` then `Get` on the portal cache: nil (unknown) -/
theorem tie_ca_PortalClose_Get (name : Bytes) (w : CW) (h : w.pc.mu = .free) :
    ∃ w', DefaultPortalCache_Close name w = .ok none w' ∧ DefaultPortalCache_Get name w' = .ok (none, none) w' := by
  refine ⟨_, tie_ca_PortalCache_Close name w h, ?_⟩
  rw [tie_ca_PortalCache_Get _ _ rfl]
  simp [ca_pcW, ca_portals, (ca_mapDelete_remove _ _).1, Pw.Props.C07.lookup_remove_same]

/-! ### what a portal name stands for: the model's `Portal` (statement VALUE, parameters, formats) -/

/-- the portal behind a name with its statement dereferenced (`none`: unknown name, nil portal, nil statement) -/
def ca_portalView (w : CW) (name : Bytes) : Option (StatementV × List Bytes × List Nat) :=
  match lookup name (ca_portals w) with
  | some (some a) =>
    match w.portalHeap[a]? with
    | some p =>
      match p.statement with
      | some b =>
        match w.stmtHeap[b]? with
        | some st => some (st, p.parameters, p.formats)
        | none => none
      | none => none
    | none => none
  | _ => none

theorem ca_portalView_some (w : CW) (name : Bytes) (v : StatementV × List Bytes × List Nat) :
    ca_portalView w name = some v ↔
      ∃ a p b st, lookup name (ca_portals w) = some (some a) ∧ w.portalHeap[a]? = some p ∧ p.statement = some b ∧
        w.stmtHeap[b]? = some st ∧ v = (st, p.parameters, p.formats) := by
  constructor
  · intro hv
    unfold ca_portalView at hv
    cases hl : lookup name (ca_portals w) with
    | none => rw [hl] at hv; cases hv
    | some oa =>
      cases oa with
      | none => rw [hl] at hv; cases hv
      | some a =>
        rw [hl] at hv
        simp only at hv
        cases hp : w.portalHeap[a]? with
        | none => rw [hp] at hv; cases hv
        | some p =>
          rw [hp] at hv
          simp only at hv
          cases hb : p.statement with
          | none => rw [hb] at hv; cases hv
          | some b =>
            rw [hb] at hv
            simp only at hv
            cases hst : w.stmtHeap[b]? with
            | none => rw [hst] at hv; cases hv
            | some st =>
              rw [hst] at hv
              simp only [Option.some.injEq] at hv
              exact ⟨a, p, b, st, rfl, hp, hb, hst, hv.symm⟩
  · rintro ⟨a, p, b, st, hl, hp, hb, hst, rfl⟩
    simp [ca_portalView, hl, hp, hb, hst]

/-- `Bind` snapshots: the name stands for the statement OBJECT handed in (the one `Get` returned), the parameters
    and the formats of this Bind -/
theorem tie_ca_Bind_snapshot (name : Bytes) (b : Nat) (st : StatementV) (params : List Bytes) (formats : List Nat) (w : CW)
    (h : w.pc.mu = .free) (hb : w.stmtHeap[b]? = some st) :
    ∃ w', DefaultPortalCache_Bind name (some b) params formats w = .ok none w' ∧
      ca_portalView w' name = some (st, params, formats) := by
  refine ⟨_, tie_ca_PortalCache_Bind name (some b) params formats w h, ?_⟩
  simp [ca_portalView, ca_pcW, ca_portals, ca_absP, Pw.Props.C07.lookup_store_same, hb]

/-- a later `Set` (Parse) of ANY statement name — the one the portal was bound from included — changes no portal:
    it neither touches the portal cache nor the statement object the portal points to -/
theorem tie_ca_Set_keeps_portals (sname : Bytes) (ps : PreparedStatementV) (w : CW) (h : w.sc.mu = .free)
    (pname : Bytes) (v : StatementV × List Bytes × List Nat) (hv : ca_portalView w pname = some v) :
    ∃ w', DefaultStatementCache_Set sname (some ps) w = .ok none w' ∧ ca_portalView w' pname = some v := by
  refine ⟨_, tie_ca_StatementCache_Set sname ps w h, ?_⟩
  obtain ⟨a, p, b, st, hl, hp, hb, hst, rfl⟩ := (ca_portalView_some w pname v).1 hv
  have hlt : b < w.stmtHeap.length := by
    rcases Nat.lt_or_ge b w.stmtHeap.length with h1 | h1
    · exact h1
    · rw [List.getElem?_eq_none h1] at hst; cases hst
  refine (ca_portalView_some _ pname _).2 ⟨a, p, b, st, hl, hp, hb, ?_, rfl⟩
  simp only [ca_scW]
  rw [List.getElem?_append_left hlt, hst]

/-- a later `Close` of a statement name changes no portal either -/
theorem tie_ca_StmtClose_keeps_portals (sname : Bytes) (w : CW) (h : w.sc.mu = .free) (pname : Bytes) :
    ∃ w', DefaultStatementCache_Close sname w = .ok none w' ∧ ca_portalView w' pname = ca_portalView w pname :=
  ⟨_, tie_ca_StatementCache_Close sname w h, rfl⟩

/-! ### Execute -/

theorem ca_panicFmt (msg : Bytes) : fmtErrorf1 "unexpected panic: %s" msg = .base (ascii "unexpected panic: " ++ msg) := by
  have h : ascii "unexpected panic: %s" = ascii "unexpected panic: " ++ [37, 115] := by decide +kernel
  have h2 : ∀ (pre : Bytes), (∀ c ∈ pre, c ≠ 37) → substS (pre ++ [37, 115]) msg = pre ++ msg := by
    intro pre
    induction pre with
    | nil => intro _; simp [substS]
    | cons c r ih =>
      intro hc
      have hc1 : c ≠ 37 := hc c (by simp)
      have ih' := ih (fun c' hc' => hc c' (by simp [hc']))
      cases r with
      | nil =>
        simp only [List.cons_append, List.nil_append] at ih' ⊢
        rw [substS, ih']
        · intro _ h1 _; exact hc1 h1
      | cons d r' =>
        simp only [List.cons_append] at ih' ⊢
        rw [substS, ih']
        · intro _ h1 _; exact hc1 h1
  rw [fmtErrorf1, h, h2]
  decide +kernel

/-- the world after the statement function was called -/
def ca_called (w : CW) (st : StatementV) (params : List Bytes) (formats : List Nat) : CW :=
  { w with calls := (st.fn, { columns := st.columns, formats := formats }, params) :: w.calls }

/-- Execute of an unknown name (also: on the nil map): the model's `errUnknownPortal`, nothing is called,
    the lock is released -/
theorem tie_ca_Execute_unknown (name : Bytes) (w : CW) (h : w.pc.mu = .free) (hl : lookup name (ca_portals w) = none) :
    DefaultPortalCache_Execute name w = .ok (some (errUnknownPortal name)) w := by
  obtain ⟨sh, ph, sc, ⟨po, mu⟩, orc, calls⟩ := w
  simp at h; subst h
  simp only [ca_portals] at hl
  simp [DefaultPortalCache_Execute, lockStep, rwLock, rwUnlock, deferRun, recoverRun, ca_mapGet_lookup, hl,
    newErrUnknownPortal]

/-- Execute of a bound name: the statement function of the portal's statement object is called with that object's
    columns, this portal's formats and parameters (the model's `runProg (p.stmt.body p.params) {cols, formats}`);
    its error is returned, its panic becomes the model's `unexpected panic: …` error; the lock is released in
    both cases -/
theorem tie_ca_Execute_known (name : Bytes) (w : CW) (h : w.pc.mu = .free) (st : StatementV) (params : List Bytes)
    (formats : List Nat) (hv : ca_portalView w name = some (st, params, formats)) :
    DefaultPortalCache_Execute name w =
      match w.fnOracle st.fn { columns := st.columns, formats := formats } params with
      | .ret e => .ok e (ca_called w st params formats)
      | .panics msg => .ok (some (.base (ascii "unexpected panic: " ++ msg))) (ca_called w st params formats) := by
  obtain ⟨sh, ph, sc, ⟨po, mu⟩, orc, calls⟩ := w
  simp at h; subst h
  obtain ⟨a, p, b, st', hl, hp, hb, hst, hv⟩ := (ca_portalView_some _ name _).1 hv
  simp only [Prod.mk.injEq] at hv
  obtain ⟨h1, h2, h3⟩ := hv
  subst h1 h2 h3
  simp only [ca_portals] at hl
  simp only at hp hst
  simp only [DefaultPortalCache_Execute, lockStep, rwLock, rwUnlock, deferRun, ca_mapGet_lookup, hl, Option.getD,
    Option.isSome, heapGet, hp, hb, hst, chk, cbind, extCallFn, Bool.not_true, Bool.false_eq_true, if_false, ca_called]
  cases ho : orc st.fn { columns := st.columns, formats := p.formats } p.parameters with
  | ret e => simp [recoverRun]
  | panics msg => simp [recoverRun, ca_panicFmt]

/-- Execute of a portal bound to a nil statement: the nil dereference is recovered into an error, the lock is
    released, nothing is called -/
theorem tie_ca_Execute_nil_statement (name : Bytes) (w : CW) (h : w.pc.mu = .free) (a : Nat) (p : PortalV)
    (hl : lookup name (ca_portals w) = some (some a)) (hp : w.portalHeap[a]? = some p) (hs : p.statement = none) :
    DefaultPortalCache_Execute name w = .ok (some (.base (ascii "unexpected panic: " ++ ca_nilDeref))) w := by
  obtain ⟨sh, ph, sc, ⟨po, mu⟩, orc, calls⟩ := w
  simp at h; subst h
  simp only [ca_portals] at hl
  simp only at hp
  simp [DefaultPortalCache_Execute, lockStep, rwLock, rwUnlock, deferRun, ca_mapGet_lookup, hl,
    heapGet, hp, hs, chk, recoverRun, ca_panicFmt, ca_nilDeref]

/-- Execute with the lock free ALWAYS returns (never panics: whatever the statement function, the map and the
    heaps are), with the lock released and the cache and the heaps as they were -/
theorem tie_ca_Execute_total (name : Bytes) (w : CW) (h : w.pc.mu = .free) :
    ∃ e w', DefaultPortalCache_Execute name w = .ok e w' ∧ w'.pc = w.pc ∧ w'.sc = w.sc ∧
      w'.portalHeap = w.portalHeap ∧ w'.stmtHeap = w.stmtHeap := by
  obtain ⟨sh, ph, sc, ⟨po, mu⟩, orc, calls⟩ := w
  simp at h; subst h
  simp only [DefaultPortalCache_Execute, lockStep, rwLock, chk, cbind, extCallFn]
  cases hm : mapGet po name with
  | none => simp [deferRun, rwUnlock, recoverRun]; exact ⟨_, _, ⟨rfl, rfl⟩, rfl, rfl, rfl, rfl⟩
  | some ptr =>
    simp only [Option.getD, Option.isSome, Bool.not_true, Bool.false_eq_true, if_false]
    cases hp : heapGet ph ptr with
    | error m => simp [deferRun, rwUnlock, recoverRun]; exact ⟨_, _, ⟨rfl, rfl⟩, rfl, rfl, rfl, rfl⟩
    | ok p =>
      simp only
      cases hs : heapGet sh p.statement with
      | error m => simp [deferRun, rwUnlock, recoverRun]; exact ⟨_, _, ⟨rfl, rfl⟩, rfl, rfl, rfl, rfl⟩
      | ok st =>
        simp only
        cases ho : orc st.fn { columns := st.columns, formats := p.formats } p.parameters <;>
          (refine ⟨_, _, rfl, ?_⟩; exact ⟨rfl, rfl, rfl, rfl⟩)

/-! ### lock discipline and absence of panics, all methods at once -/

/-- an outcome that returned (normally or by panic) with both locks free -/
def ca_released {α : Type} (o : COut α) : Prop :=
  match o with
  | .ok _ w => w.sc.mu = .free ∧ w.pc.mu = .free
  | .panic _ w => w.sc.mu = .free ∧ w.pc.mu = .free
  | _ => False

/-- started with the locks free, EVERY method of both caches returns with the locks free — on every path: the
    early returns of `Get`, the unknown-portal return of `Execute`, the panicking `Set(nil)`, a panicking
    statement function -/
theorem tie_cache_locks_released (name : Bytes) (ps : Option PreparedStatementV) (stmt : Option Nat)
    (params : List Bytes) (formats : List Nat) (w : CW) (hs : w.sc.mu = .free) (hp : w.pc.mu = .free) :
    ca_released (DefaultStatementCache_Set name ps w) ∧ ca_released (DefaultStatementCache_Get name w) ∧
    ca_released (DefaultStatementCache_Close name w) ∧ ca_released (DefaultPortalCache_Bind name stmt params formats w) ∧
    ca_released (DefaultPortalCache_Get name w) ∧ ca_released (DefaultPortalCache_Close name w) ∧
    ca_released (DefaultPortalCache_Execute name w) := by
  refine ⟨?_, ?_, ?_, ?_, ?_, ?_, ?_⟩
  · cases ps with
    | none => rw [tie_ca_StatementCache_Set_nil name w hs]; exact ⟨rfl, hp⟩
    | some ps => rw [tie_ca_StatementCache_Set name ps w hs]; exact ⟨rfl, hp⟩
  · rw [tie_ca_StatementCache_Get name w hs]; exact ⟨hs, hp⟩
  · rw [tie_ca_StatementCache_Close name w hs]; exact ⟨rfl, hp⟩
  · rw [tie_ca_PortalCache_Bind name stmt params formats w hp]; exact ⟨hs, rfl⟩
  · rw [tie_ca_PortalCache_Get name w hp]; exact ⟨hs, hp⟩
  · rw [tie_ca_PortalCache_Close name w hp]; exact ⟨hs, rfl⟩
  · obtain ⟨e, w', he, h1, h2, _, _⟩ := tie_ca_Execute_total name w hp
    rw [he]; exact ⟨by rw [h2]; exact hs, by rw [h1]; exact hp⟩

/-- the only panic that leaves any of the seven methods is `Set` with a nil `*PreparedStatement` (command.go never
    passes nil); in particular no write ever hits a nil map -/
theorem tie_cache_no_panic (name : Bytes) (ps : PreparedStatementV) (stmt : Option Nat)
    (params : List Bytes) (formats : List Nat) (w : CW) (hs : w.sc.mu = .free) (hp : w.pc.mu = .free) :
    (∃ w', DefaultStatementCache_Set name (some ps) w = .ok none w') ∧
    (∃ r, DefaultStatementCache_Get name w = .ok (r, none) w) ∧
    (∃ w', DefaultStatementCache_Close name w = .ok none w') ∧
    (∃ w', DefaultPortalCache_Bind name stmt params formats w = .ok none w') ∧
    (∃ r, DefaultPortalCache_Get name w = .ok (r, none) w) ∧
    (∃ w', DefaultPortalCache_Close name w = .ok none w') ∧
    (∃ e w', DefaultPortalCache_Execute name w = .ok e w') :=
  ⟨⟨_, tie_ca_StatementCache_Set name ps w hs⟩, ⟨_, tie_ca_StatementCache_Get name w hs⟩, ⟨_, tie_ca_StatementCache_Close name w hs⟩,
   ⟨_, tie_ca_PortalCache_Bind name stmt params formats w hp⟩, ⟨_, tie_ca_PortalCache_Get name w hp⟩,
   ⟨_, tie_ca_PortalCache_Close name w hp⟩, (tie_ca_Execute_total name w hp).imp fun _ h => h.imp fun _ h => h.1⟩

/-! ### the refinement with the model's value types -/

/-- the same name map with every value seen through `f` -/
def ca_vals {α β : Type} (f : α → β) (m : List (Bytes × α)) : List (Bytes × β) := m.map fun kv => (kv.1, f kv.2)

theorem ca_lookup_vals {α β : Type} (f : α → β) (n : Bytes) (m : List (Bytes × α)) :
    lookup n (ca_vals f m) = (lookup n m).map f := by
  induction m with
  | nil => rfl
  | cons kv m ih =>
    obtain ⟨k, v⟩ := kv
    by_cases hk : k = n <;> simp_all [ca_vals, lookup]

theorem ca_remove_vals {α β : Type} (f : α → β) (n : Bytes) (m : List (Bytes × α)) :
    remove n (ca_vals f m) = ca_vals f (remove n m) := by
  simp [remove, ca_vals, List.filter_map, Function.comp_def]

theorem ca_store_vals {α β : Type} (f : α → β) (n : Bytes) (v : α) (m : List (Bytes × α)) :
    store n (f v) (ca_vals f m) = ca_vals f (store n v m) := by
  simp only [store, ca_remove_vals]; rfl

/-- the object behind an address (`default` for nil / dangling: ruled out by `ca_WFs`) -/
def ca_deref (h : List StatementV) (p : Option Nat) : StatementV := ((p.bind (h[·]?)).getD {})

/-- the model's `Sess.stmts` for a world: the statement VALUES under their names, seen through an interpretation
    `interp` of a cached statement as a model `Stmt` (what the function identity denotes) -/
def ca_modelStmts (interp : StatementV → Stmt) (w : CW) : List (Bytes × Stmt) :=
  ca_vals (fun p => interp (ca_deref w.stmtHeap p)) (ca_stmts w)

/-- all stored addresses are non-nil and in the heap -/
def ca_WFs' (w : CW) : Prop := ∀ k p, (k, p) ∈ ca_stmts w → ∃ a, p = some a ∧ a < w.stmtHeap.length

/-- REFINEMENT to `Sess.stmts` (handleParse: `stmts := store name st s.stmts`) -/
theorem tie_ca_Set_refines_model (interp : StatementV → Stmt) (name : Bytes) (ps : PreparedStatementV) (w : CW)
    (h : w.sc.mu = .free) (hwf : ca_WFs' w) :
    ∃ w', DefaultStatementCache_Set name (some ps) w = .ok none w' ∧
      ca_modelStmts interp w' = store name (interp (ca_stmtOf ps)) (ca_modelStmts interp w) ∧ ca_WFs' w' := by
  refine ⟨_, tie_ca_StatementCache_Set name ps w h, ?_, ?_⟩
  · have hnew : ca_deref (w.stmtHeap ++ [ca_stmtOf ps]) (some w.stmtHeap.length) = ca_stmtOf ps := by
      simp [ca_deref]
    have hold : ∀ kv ∈ remove name (ca_stmts w),
        (kv.1, interp (ca_deref (w.stmtHeap ++ [ca_stmtOf ps]) kv.2)) = (kv.1, interp (ca_deref w.stmtHeap kv.2)) := by
      intro kv hkv
      obtain ⟨k, p⟩ := kv
      have hm : (k, p) ∈ ca_stmts w := by
        simp only [remove, List.mem_filter] at hkv; exact hkv.1
      obtain ⟨a, rfl, ha⟩ := hwf k p hm
      simp [ca_deref, List.getElem?_append_left ha]
    show ca_vals (fun p => interp (ca_deref (w.stmtHeap ++ [ca_stmtOf ps]) p))
        (store name (some w.stmtHeap.length) (ca_stmts w)) =
      store name (interp (ca_stmtOf ps)) (ca_vals (fun p => interp (ca_deref w.stmtHeap p)) (ca_stmts w))
    rw [← ca_store_vals (fun p => interp (ca_deref (w.stmtHeap ++ [ca_stmtOf ps]) p))]
    simp only [hnew, store, ca_remove_vals]
    congr 1
    exact List.map_congr_left hold
  · intro k p hk
    simp only [ca_stmts, ca_scW, ca_absP, Option.getD, store, List.mem_cons, Prod.mk.injEq] at hk
    simp only [ca_scW, List.length_append, List.length_cons, List.length_nil]
    rcases hk with ⟨_, hp⟩ | hk
    · exact ⟨_, hp, by omega⟩
    · obtain ⟨a, ha, hlt⟩ := hwf k p (by simp only [remove, List.mem_filter] at hk; exact hk.1)
      exact ⟨a, ha, by omega⟩

/-- REFINEMENT to `Sess.stmts` (handleClose: `stmts := remove name s.stmts`) -/
theorem tie_ca_Close_refines_model (interp : StatementV → Stmt) (name : Bytes) (w : CW) (h : w.sc.mu = .free) :
    ∃ w', DefaultStatementCache_Close name w = .ok none w' ∧
      ca_modelStmts interp w' = remove name (ca_modelStmts interp w) := by
  refine ⟨_, tie_ca_StatementCache_Close name w h, ?_⟩
  simp only [ca_modelStmts, ca_stmts, ca_scW, (ca_mapDelete_remove _ _).1, ca_remove_vals]

/-- REFINEMENT to `Sess.stmts` (handleBind / handleDescribe: `lookup sname s.stmts`): `Get` returns nil exactly when
    the model's lookup fails, and otherwise an address whose object is what the model's lookup yields -/
theorem tie_ca_Get_refines_model (interp : StatementV → Stmt) (name : Bytes) (w : CW) (h : w.sc.mu = .free)
    (hwf : ca_WFs' w) :
    ∃ r, DefaultStatementCache_Get name w = .ok (r, none) w ∧
      lookup name (ca_modelStmts interp w) = r.map fun a => interp (ca_deref w.stmtHeap (some a)) := by
  refine ⟨_, tie_ca_StatementCache_Get name w h, ?_⟩
  rw [ca_modelStmts, ca_lookup_vals]
  cases hl : lookup name (ca_stmts w) with
  | none => simp [ca_stmts] at hl; simp [hl]
  | some p =>
    have hm : (name, p) ∈ ca_stmts w := by
      clear hwf
      generalize ca_stmts w = m at hl
      induction m with
      | nil => cases hl
      | cons kv m ih =>
        obtain ⟨k, v⟩ := kv
        by_cases hk : k = name
        · simp [lookup, hk] at hl; simp [hk, hl]
        · simp [lookup, hk] at hl; exact List.mem_cons_of_mem _ (ih hl)
    obtain ⟨a, rfl, _⟩ := hwf name p hm
    simp only [ca_stmts] at hl
    simp [hl]

/-! ### examples -/

def ca_w1 : CW := (DefaultStatementCache_Set [97] (some { fn := 1 }) {}).world
def ca_w2 : CW := (DefaultStatementCache_Set [98] (some { fn := 2 }) ca_w1).world
def ca_w3 : CW := (DefaultPortalCache_Bind [112] (some 0) [[1]] [1] ca_w2).world
def ca_w4 : CW := (DefaultStatementCache_Set [97] (some { fn := 3 }) ca_w3).world
def ca_w5 : CW := (DefaultStatementCache_Close [98] ca_w4).world

/-- define a, b; bind portal p to a's object; redefine a; close b -/
example : ca_w5.sc.statements = some [([97], some 2)] ∧ ca_w5.stmtHeap.map (·.fn) = [1, 2, 3] ∧
    ca_w5.sc.mu = .free ∧ ca_w5.pc.mu = .free ∧ ca_w5.pc.portals = some [([112], some 0)] ∧
    ca_portalView ca_w5 [112] = some ({ fn := 1 }, [[1]], [1]) := by decide +kernel

/-- what an example can compare: the result and the two locks of a call that returned -/
def ca_obs {α : Type} (o : COut α) : Option (α × RWMutex × RWMutex) :=
  match o with
  | .ok r w => some (r, w.sc.mu, w.pc.mu)
  | _ => none

/-- Execute of p runs the OLD function 1 although a now names function 3; a panic of it becomes an error -/
example : (DefaultPortalCache_Execute [112] { ca_w5 with fnOracle := fun _ _ _ => .panics (ascii "boom") }).world.calls
      = [(1, { columns := [], formats := [1] }, [[1]])] ∧
    ca_obs (DefaultPortalCache_Execute [112] { ca_w5 with fnOracle := fun _ _ _ => .panics (ascii "boom") })
      = some (some (.base (ascii "unexpected panic: boom")), .free, .free) := by decide +kernel

/-- a never-initialised cache: Get and Close work on the nil map, Execute reports the unknown portal -/
example : ca_obs (DefaultStatementCache_Get [97] {}) = some ((none, none), .free, .free) ∧
    ca_obs (DefaultStatementCache_Close [97] {}) = some (none, .free, .free) ∧
    (DefaultStatementCache_Close [97] {}).world.sc.statements = none ∧
    ca_obs (DefaultPortalCache_Execute [97] {}) = some (some (errUnknownPortal [97]), .free, .free) := by
  decide +kernel

/-- a second Lock on the held mutex: deadlock -/
example : (match DefaultPortalCache_Get [97] { pc := { mu := .wlocked } } with | .deadlock _ => true | _ => false) = true := by
  decide +kernel

end Pw.Tie
