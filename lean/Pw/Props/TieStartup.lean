import Pw.Generated.TransStartup
import Pw.Props.TieFraming
import Pw.Model.Serve
/-
  TIE THEOREMS, start-up parsing: `Server.readVersion` and `Server.readClientParameters` of handshake.go,
  translated on every run (`go/translate -startup` -> `Pw/Generated/TransStartup.lean` over
  `Pw/Go/RtStartup.lean`), against what `Pw/Model/Serve.lean` uses in their place:

    readVersion              ~  `readUntyped` followed by `getU32` of the packet body (`serve`)
    readClientParameters     ~  `readClientParams` (`serveAfterVersion`), for EVERY packet body
    types.VersionCancel/…    ~  `versionCancel`, `versionSSL`

  All helper names of this file carry the prefix `su_`.
-/
namespace Pw.Tie
open Pw Pw.Go

/-! ### the translator handled everything it was asked to; the constants and where they are tested -/
example : TransStartup.untranslatable = [] := rfl
example : TransStartup.versionConsts = ["VersionCancel", "VersionSSLRequest"] := rfl
example : TransStartup.versionTests = [("Handshake", "==", "VersionCancel"),
    ("potentialConnUpgrade", "!=", "VersionSSLRequest"), ("sslUnsupported", "==", "VersionCancel")] := rfl

theorem su_tie_VersionCancel : TransStartup.VersionCancel = (versionCancel : Int) := by decide
theorem su_tie_VersionSSLRequest : TransStartup.VersionSSLRequest = (versionSSL : Int) := by decide

/-! ### the parameter map -/
/-- Go's `m[k] = v` on the association list is the model's `store` -/
theorem su_mapSet_store (m : Params) (k v : Bytes) : mapSet m k v = store k v m := rfl
theorem su_mapEmpty : (mapEmpty : Params) = [] := rfl
/-- reading the map back is the model's `lookup` -/
theorem su_mapGet_lookup (m : Params) (k : Bytes) : mapGet m k = lookup k m := by
  induction m with
  | nil => rfl
  | cons p r ih => obtain ⟨a, b⟩ := p; simp only [mapGet, lookup, ih]

/-! ### the window -/
/-- the world with the reader's window moved `n` bytes on -/
def su_adv (n : Nat) (w : World) : World := setMsg w (Sl.adv n w.reader.Msg)

theorem su_adv_data (n : Nat) (w : World) : (su_adv n w).reader.Msg.data = w.reader.Msg.data.drop n := rfl
theorem su_adv_wf (n : Nat) (w : World) (h : Sl.WF w.reader.Msg) : Sl.WF (su_adv n w).reader.Msg := adv_wf n _ h
theorem su_adv_zero (w : World) : su_adv 0 w = w := rfl
theorem su_adv_adv (a b : Nat) (w : World) : su_adv b (su_adv a w) = su_adv (a + b) w := by
  simp only [su_adv, setMsg, Sl.adv, List.drop_drop, Nat.add_assoc, Nat.sub_sub]
/-- moving the window touches nothing else -/
theorem su_adv_frame (n : Nat) (w : World) :
    (su_adv n w).src = w.src ∧ (su_adv n w).fin = w.fin ∧ (su_adv n w).writer = w.writer ∧
    (su_adv n w).sink = w.sink ∧ (su_adv n w).wleft = w.wleft ∧ (su_adv n w).nArenas = w.nArenas ∧
    (su_adv n w).allocs = w.allocs ∧ (su_adv n w).reader.MaxMessageSize = w.reader.MaxMessageSize ∧
    (su_adv n w).reader.header = w.reader.header :=
  ⟨rfl, rfl, rfl, rfl, rfl, rfl, rfl, rfl, rfl⟩

theorem su_GetString_some (w : World) (h : Sl.WF w.reader.Msg) (s r : Bytes)
    (hc : cstr w.reader.Msg.data = some (s, r)) :
    Trans.Reader_GetString w = .ok (s, none) (su_adv (s.length + 1) w) := by
  rw [tie_GetString w h]; unfold getString; rw [hc]; rfl

theorem su_GetString_none (w : World) (h : Sl.WF w.reader.Msg) (hc : cstr w.reader.Msg.data = none) :
    Trans.Reader_GetString w = .ok ([], some Go.Err.missingNul) w := by
  rw [tie_GetString w h]; unfold getString; rw [hc]

theorem su_cstr_drop (m s r : Bytes) (h : cstr m = some (s, r)) : m.drop (s.length + 1) = r ∧ r.length < m.length := by
  obtain ⟨_, h2, _, h4⟩ := (cstr_index m).2 s r h
  refine ⟨h4.symm, ?_⟩
  rw [h4, List.length_drop]; omega

/-! ### readClientParameters -/

/-- the model's `readClientParams` together with the number of bytes of the body it consumes -/
def su_scan : Nat → Bytes → Params → Option Params × Nat
  | 0, _, _ => (none, 0)
  | fuel + 1, m, acc =>
    match cstr m with
    | none => (none, 0)
    | some (k, r) =>
      if k = [] then (some acc, 1)
      else match cstr r with
        | none => (none, k.length + 1)
        | some (v, r') => ((su_scan fuel r' (store k v acc)).1, (k.length + 1) + (v.length + 1) + (su_scan fuel r' (store k v acc)).2)

/-- its first component IS the model's function -/
theorem su_scan_model (fuel : Nat) : ∀ (m : Bytes) (acc : Params), (su_scan fuel m acc).1 = readClientParams fuel m acc := by
  induction fuel with
  | zero => intro m acc; rfl
  | succ f ih =>
    intro m acc
    rw [su_scan, readClientParams]
    cases cstr m with
    | none => rfl
    | some p =>
      obtain ⟨k, r⟩ := p
      by_cases hk : k = []
      · simp only [hk, if_true]
      · simp only [hk, if_false]
        cases cstr r with
        | none => rfl
        | some q => obtain ⟨v, r'⟩ := q; exact ih r' (store k v acc)

/-- it never consumes more than there is -/
theorem su_scan_le (fuel : Nat) : ∀ (m : Bytes) (acc : Params), (su_scan fuel m acc).2 ≤ m.length := by
  induction fuel with
  | zero => intro m acc; simp [su_scan]
  | succ f ih =>
    intro m acc
    rw [su_scan]
    cases hc : cstr m with
    | none => simp
    | some p =>
      obtain ⟨k, r⟩ := p
      obtain ⟨_, h2, _, h4⟩ := (cstr_index m).2 k r hc
      by_cases hk : k = []
      · simp only [hk, if_true]; subst hk; simp at h2; omega
      · simp only [hk, if_false]
        have hr : r.length = m.length - (k.length + 1) := by rw [h4, List.length_drop]
        cases hc2 : cstr r with
        | none => simp only; omega
        | some q =>
          obtain ⟨v, r'⟩ := q
          obtain ⟨_, g2, _, g4⟩ := (cstr_index r).2 v r' hc2
          have hr' : r'.length = r.length - (v.length + 1) := by rw [g4, List.length_drop]
          have := ih r' (store k v acc)
          simp only
          omega

/-- what `readClientParameters` returns for a verdict of the model: the context with the parameter map attached,
    or a nil context and the reader's missing-terminator error; the window moved on over what was read -/
def su_result (w : World) (x : Option Params × Nat) : Out (CtxR × Option Go.Err) :=
  match x.1 with
  | some cp => .ok (.withClient cp, none) (su_adv x.2 w)
  | none => .ok (.nil, some Go.Err.missingNul) (su_adv x.2 w)

theorem su_result_shift (a : Nat) (w : World) (r : Option Params) (n : Nat) :
    su_result (su_adv a w) (r, n) = su_result w (r, a + n) := by
  unfold su_result; simp only [su_adv_adv]

/-- the loop of `readClientParameters`, for every window contents, accumulator and adequate fuel -/
theorem su_tie_loop : ∀ (fuel : Nat) (e : Option Go.Err) (acc : Params) (w : World),
    Sl.WF w.reader.Msg → w.reader.Msg.data.length < fuel →
    TransStartup.Server_readClientParameters.loop1 fuel e acc w = su_result w (su_scan fuel w.reader.Msg.data acc) := by
  intro fuel
  induction fuel with
  | zero => intro e acc w _ h; omega
  | succ f ih =>
    intro e acc w hwf hlen
    rw [TransStartup.Server_readClientParameters.loop1, su_scan]
    cases hc : cstr w.reader.Msg.data with
    | none =>
      rw [su_GetString_none w hwf hc]
      simp only [Out.bind, ne_eq, reduceCtorEq, not_false_eq_true, if_true, su_result, su_adv_zero]
    | some p =>
      obtain ⟨k, r⟩ := p
      rw [su_GetString_some w hwf k r hc]
      obtain ⟨hd, hl⟩ := su_cstr_drop _ _ _ hc
      simp only [Out.bind, ne_eq, not_true_eq_false, if_false]
      by_cases hk : k = []
      · subst hk
        simp only [List.length_nil, Int.natCast_zero, if_true, su_result, Nat.zero_add]
      · have hk0 : ¬ ((k.length : Int) = 0) := by
          cases k with
          | nil => exact absurd rfl hk
          | cons x xs => simp only [List.length_cons]; omega
        rw [if_neg hk0, if_neg hk]
        have hwf1 := su_adv_wf (k.length + 1) w hwf
        have hd1 : (su_adv (k.length + 1) w).reader.Msg.data = r := by rw [su_adv_data, hd]
        cases hc2 : cstr r with
        | none =>
          rw [su_GetString_none _ hwf1 (by rw [hd1]; exact hc2)]
          simp only [reduceCtorEq, not_false_eq_true, if_true, su_result]
        | some q =>
          obtain ⟨v, r'⟩ := q
          rw [su_GetString_some _ hwf1 v r' (by rw [hd1]; exact hc2)]
          obtain ⟨hd', hl'⟩ := su_cstr_drop _ _ _ hc2
          simp only [not_true_eq_false, if_false]
          have hwf2 := su_adv_wf (v.length + 1) _ hwf1
          have hd2 : (su_adv (v.length + 1) (su_adv (k.length + 1) w)).reader.Msg.data = r' := by
            rw [su_adv_data, hd1, hd']
          rw [ih e (mapSet acc k v) _ hwf2 (by rw [hd2]; omega), hd2, su_mapSet_store]
          rw [su_adv_adv]
          exact su_result_shift _ w _ _

/-- **readClientParameters = the model's `readClientParams`**, on ANY packet body (the reader's window `body`):
    the context carries exactly the model's parameter list (pairs stored in order, a repeated key overwritten,
    an empty key ends the list), a body that ends inside a key or a value — no terminator, or a key without
    value — is the reader's missing-terminator error with a nil context; the window is moved over exactly
    the bytes consumed; no panic, no fuel exhaustion, no blocking read -/
theorem su_tie_readClientParameters (w : World) (h : Sl.WF w.reader.Msg) (fuel : Nat)
    (hf : w.reader.Msg.data.length < fuel) :
    TransStartup.Server_readClientParameters fuel w =
      match readClientParams fuel w.reader.Msg.data [] with
      | some cp => .ok (.withClient cp, none) (su_adv (su_scan fuel w.reader.Msg.data []).2 w)
      | none => .ok (.nil, some Go.Err.missingNul) (su_adv (su_scan fuel w.reader.Msg.data []).2 w) := by
  unfold TransStartup.Server_readClientParameters
  simp only [su_mapEmpty]
  rw [su_tie_loop fuel none [] w h hf, ← su_scan_model]
  rfl

/-- the same with the fuel the model's `serveAfterVersion` uses -/
theorem su_tie_readClientParameters_model (w : World) (h : Sl.WF w.reader.Msg) :
    TransStartup.Server_readClientParameters (w.reader.Msg.data.length + 1) w =
      match readClientParams (w.reader.Msg.data.length + 1) w.reader.Msg.data [] with
      | some cp => .ok (.withClient cp, none) (su_adv (su_scan (w.reader.Msg.data.length + 1) w.reader.Msg.data []).2 w)
      | none => .ok (.nil, some Go.Err.missingNul) (su_adv (su_scan (w.reader.Msg.data.length + 1) w.reader.Msg.data []).2 w) :=
  su_tie_readClientParameters w h _ (Nat.lt_succ_self _)

/-- no panic, no exhausted fuel, no blocking read: `readClientParameters` always returns -/
theorem su_readClientParameters_returns (w : World) (h : Sl.WF w.reader.Msg) (fuel : Nat)
    (hf : w.reader.Msg.data.length < fuel) :
    ∃ r w', TransStartup.Server_readClientParameters fuel w = .ok r w' ∧ w'.src = w.src ∧ w'.sink = w.sink ∧
      w'.writer = w.writer ∧ Sl.WF w'.reader.Msg ∧
      ∃ n, n ≤ w.reader.Msg.data.length ∧ w'.reader.Msg.data = w.reader.Msg.data.drop n := by
  rw [su_tie_readClientParameters w h fuel hf]
  have hle := su_scan_le fuel w.reader.Msg.data []
  cases readClientParams fuel w.reader.Msg.data [] with
  | none => exact ⟨_, _, rfl, rfl, rfl, rfl, su_adv_wf _ w h, _, hle, rfl⟩
  | some cp => exact ⟨_, _, rfl, rfl, rfl, rfl, su_adv_wf _ w h, _, hle, rfl⟩

/-- the error can only be the missing terminator, and then the context is nil -/
theorem su_readClientParameters_error (w : World) (h : Sl.WF w.reader.Msg) (fuel : Nat)
    (hf : w.reader.Msg.data.length < fuel) (c : CtxR) (e : Go.Err) (w' : World)
    (hr : TransStartup.Server_readClientParameters fuel w = .ok (c, some e) w') :
    e = Go.Err.missingNul ∧ c = .nil ∧ readClientParams fuel w.reader.Msg.data [] = none := by
  rw [su_tie_readClientParameters w h fuel hf] at hr
  cases hm : readClientParams fuel w.reader.Msg.data [] with
  | none =>
    rw [hm] at hr
    injection hr with h1 _
    injection h1 with hc he
    injection he with he
    exact ⟨he.symm, hc.symm, rfl⟩
  | some cp =>
    rw [hm] at hr
    injection hr with h1 _
    injection h1 with _ he
    cases he

/-! ### readVersion -/

theorem su_rd32_lt (m r : Bytes) (v : Nat) (h : rd32 m = some (v, r)) : v < 4294967296 := by
  rcases m with _ | ⟨a, _ | ⟨b, _ | ⟨c, _ | ⟨d, t⟩⟩⟩⟩ <;> simp only [rd32, reduceCtorEq] at h
  injection h with h; injection h with h _
  have ha := UInt8.toNat_lt a; have hb := UInt8.toNat_lt b; have hc := UInt8.toNat_lt c; have hd := UInt8.toNat_lt d
  omega

theorem su_rd32_some (inp r : Bytes) (dcl : Nat) (h : rd32 inp = some (dcl, r)) :
    ∃ a b c d, inp = a :: b :: c :: d :: r ∧ dcl = declaredOf a b c d := by
  rcases inp with _ | ⟨a, _ | ⟨b, _ | ⟨c, _ | ⟨d, r'⟩⟩⟩⟩
  · simp only [rd32, reduceCtorEq] at h
  · simp only [rd32, reduceCtorEq] at h
  · simp only [rd32, reduceCtorEq] at h
  · simp only [rd32, reduceCtorEq] at h
  rw [rd32_declared] at h
  injection h with h; injection h with h1 h2
  exact ⟨a, b, c, d, by rw [h2], h1.symm⟩

theorem su_readUntyped_body (L dcl : Nat) (r body rest : Bytes)
    (h : (match sizeVerdict L dcl with
      | SizeVerdict.exceeded _ => URead.exceeded
      | SizeVerdict.ok n => if List.length r < n then URead.short else URead.msg (List.take n r) (List.drop n r)) =
      URead.msg body rest) :
    ∃ n, sizeVerdict L dcl = .ok n ∧ n ≤ r.length ∧ body = r.take n ∧ rest = r.drop n := by
  cases hv : sizeVerdict L dcl with
  | exceeded size => rw [hv] at h; cases h
  | ok n =>
    rw [hv] at h
    simp only at h
    by_cases hl : r.length < n
    · rw [if_pos hl] at h; cases h
    · rw [if_neg hl] at h
      injection h with hb hr
      exact ⟨n, rfl, by omega, hb.symm, hr.symm⟩

/-- what the model's `readUntyped` says when it delivers a packet -/
theorem su_readUntyped_msg (L : Nat) (inp body rest : Bytes) (h : readUntyped L inp = .msg body rest) :
    ∃ a b c d r n, inp = a :: b :: c :: d :: r ∧ sizeVerdict L (declaredOf a b c d) = .ok n ∧ n ≤ r.length ∧
      body = r.take n ∧ rest = r.drop n := by
  unfold readUntyped at h
  cases hr : rd32 inp with
  | none => rw [hr] at h; cases h
  | some p =>
    obtain ⟨dcl, r⟩ := p
    rw [hr] at h
    obtain ⟨n, h1, h2, h3, h4⟩ := su_readUntyped_body L dcl r body rest h
    obtain ⟨a, b, c, d, hi, hd⟩ := su_rd32_some inp r dcl hr
    subst hd
    exact ⟨a, b, c, d, r, n, hi, h1, h2, h3, h4⟩

theorem su_afterMsg_data (w : World) (hdr r : Bytes) (n : Nat) : (afterMsg w hdr r n).reader.Msg.data = r.take n := rfl
theorem su_afterMsg_src (w : World) (hdr r : Bytes) (n : Nat) : (afterMsg w hdr r n).src = r.drop n := rfl

theorem su_afterMsg_wf (w : World) (ok : ReaderOK w) (hdr r : Bytes) (n : Nat) (hn : n ≤ r.length)
    (h62 : n < 4611686018427387904) : Sl.WF (afterMsg w hdr r n).reader.Msg := by
  have hwf : Sl.WF (setHeader { w with src := r } hdr).reader.Msg := ok.wf
  have hnk : Sl.NilOK (setHeader { w with src := r } hdr).reader.Msg := ok.nilok
  obtain ⟨_, hw, _, hlen⟩ := resetSpec_heap n (setHeader { w with src := r } hdr) [] hwf hnk h62
  unfold Sl.WF at hw ⊢
  show (r.take n).length ≤ (resetSpec n (setHeader { w with src := r } hdr)).reader.Msg.cap ∧
    (resetSpec n (setHeader { w with src := r } hdr)).reader.Msg.cap < 4611686018427387904
  rw [List.length_take, Nat.min_eq_left hn]
  omega

/-- **readVersion = the model's version read**: when the model's `readUntyped` delivers a start-up packet
    (`serve`), `readVersion` returns the big-endian 32 bit value of the first four bytes of its body
    (`getU32 body`, as the model does), leaves the rest of the body in the reader's window and the rest of the
    stream unread; a body shorter than four bytes is the reader's insufficient-data error, passed on -/
theorem su_tie_readVersion (w : World) (ok : ReaderOK w) (body rest : Bytes)
    (h : readUntyped w.reader.MaxMessageSize.toNat w.src = .msg body rest) :
    ∃ w', w'.reader.Msg.data = body ∧ w'.src = rest ∧ Sl.WF w'.reader.Msg ∧ w'.sink = w.sink ∧ w'.writer = w.writer ∧
      TransStartup.Server_readVersion w =
        match getU32 body with
        | some (v, _) => .ok ((v : Int), none) (su_adv 4 w')
        | none => .ok (0, some (Go.Err.insufficient (body.length : Int))) w' := by
  obtain ⟨a, b, c, d, r, n, hs, hv, hn, hb, hr⟩ := su_readUntyped_msg _ _ _ _ h
  have e := tie_ReadUntypedMsg_ok w ok a b c d r n hs hv hn
  have h62 : n < 4611686018427387904 := by
    obtain ⟨_, hm1⟩ := ok.max
    unfold sizeVerdict at hv
    simp only at hv
    split at hv
    · cases hv
    · injection hv with hv; omega
  have hwf := su_afterMsg_wf w ok [a, b, c, d] r n hn h62
  have hfr := resetSpec_frame n (setHeader { w with src := r } [a, b, c, d])
  refine ⟨afterMsg w [a, b, c, d] r n, ?_, ?_, hwf, ?_, ?_, ?_⟩
  · rw [su_afterMsg_data, hb]
  · rw [su_afterMsg_src, hr]
  · exact hfr.2.2.2.1
  · exact hfr.2.2.1
  · unfold TransStartup.Server_readVersion
    rw [e]
    simp only [Out.bind, ne_eq, not_true_eq_false, if_false]
    rw [tie_GetUint32 _ hwf, su_afterMsg_data, ← hb]
    cases hg : getU32 body with
    | none =>
      simp only [reduceCtorEq, not_false_eq_true, if_true]
      have : (afterMsg w [a, b, c, d] r n).reader.Msg.len = (body.length : Int) := by
        unfold Sl.len; rw [su_afterMsg_data, hb]
      rw [this]
    | some p =>
      obtain ⟨v, b'⟩ := p
      have hlt := su_rd32_lt body b' v hg
      have hu : u32 (v : Int) = (v : Int) := by unfold u32; omega
      simp only [not_true_eq_false, if_false, hu]
      rfl

/-- the same, read as the model's `serve` reads it: the three verdicts on the version -/
theorem su_tie_readVersion_value (w : World) (ok : ReaderOK w) (body rest b' : Bytes) (v : Nat)
    (h : readUntyped w.reader.MaxMessageSize.toNat w.src = .msg body rest) (hg : getU32 body = some (v, b')) :
    ∃ w', TransStartup.Server_readVersion w = .ok ((v : Int), none) w' ∧ w'.reader.Msg.data = b' ∧ w'.src = rest ∧
      Sl.WF w'.reader.Msg ∧
      (((v : Int) = TransStartup.VersionCancel) ↔ v = versionCancel) ∧
      (((v : Int) ≠ TransStartup.VersionSSLRequest) ↔ v ≠ versionSSL) := by
  obtain ⟨w', hd, hsrc, hwf, _, _, e⟩ := su_tie_readVersion w ok body rest h
  rw [hg] at e
  have hb' : b' = body.drop 4 := by
    unfold getU32 at hg
    rcases body with _ | ⟨x, _ | ⟨y, _ | ⟨z, _ | ⟨t, q⟩⟩⟩⟩ <;> simp only [rd32, reduceCtorEq] at hg
    injection hg with hg; injection hg with _ hg
    exact hg.symm
  refine ⟨su_adv 4 w', e, ?_, hsrc, su_adv_wf 4 w' hwf, ?_, ?_⟩
  · rw [su_adv_data, hd, hb']
  · rw [su_tie_VersionCancel]; omega
  · rw [su_tie_VersionSSLRequest]; omega

/-- errors are passed on (1): a declared length outside the limit — `ReadUntypedMsg`'s error, version 0 -/
theorem su_tie_readVersion_exceeded (w : World) (ok : ReaderOK w) (a b c d : UInt8) (r : Bytes) (size : Int)
    (hs : w.src = a :: b :: c :: d :: r)
    (hv : sizeVerdict w.reader.MaxMessageSize.toNat (declaredOf a b c d) = .exceeded size) :
    TransStartup.Server_readVersion w =
      .ok (0, some (Go.Err.sizeExceeded w.reader.MaxMessageSize size)) (setHeader { w with src := r } [a, b, c, d]) := by
  unfold TransStartup.Server_readVersion
  rw [tie_ReadUntypedMsg_big w ok a b c d r size hs hv]
  simp only [Out.bind, ne_eq, reduceCtorEq, not_false_eq_true, if_true]

/-- errors are passed on (2): the stream ends inside the length word — blocked on a silent stream, otherwise
    the transport's error (EOF on an empty stream, unexpected EOF inside the word), version 0 -/
theorem su_tie_readVersion_short (w : World) (ok : ReaderOK w) (hs : w.src.length < 4) :
    TransStartup.Server_readVersion w =
      match w.fin with
      | .wait => .block
      | .rerr => .ok (0, some Go.Err.readErr) (setHeader { w with src := [] } (w.src ++ w.reader.header.drop w.src.length))
      | .eof => .ok (0, some (if w.src = [] then Go.Err.eof else Go.Err.unexpectedEOF))
          (setHeader { w with src := [] } (w.src ++ w.reader.header.drop w.src.length)) := by
  unfold TransStartup.Server_readVersion Trans.Reader_ReadUntypedMsg
  rw [tie_ReadMsgSize_short w ok.hdr hs]
  cases w.fin <;> simp only [Out.bind, ne_eq, reduceCtorEq, not_false_eq_true, if_true]

/-! ### concrete packets -/
/-- a reader whose window holds `body` -/
def su_world (body : Bytes) : World :=
  { reader := { Msg := { nil := false, arena := 0, off := 0, cap := 4096, data := body }, MaxMessageSize := 4096 } }

/-- user=al, then the terminator, then a stray byte -/
def su_body1 : Bytes := [117, 115, 101, 114, 0, 97, 108, 0, 0, 9]
/-- user=a, user=b (a repeated key) -/
def su_body2 : Bytes := [117, 0, 97, 0, 117, 0, 98, 0, 0]
/-- a key without terminator -/
def su_body3 : Bytes := [117, 0, 97, 0, 100, 98]
/-- a key without value -/
def su_body4 : Bytes := [117, 0, 97, 0, 100, 98, 0]

def su_view (o : Out (CtxR × Option Go.Err)) : Option (CtxR × Option Go.Err × Bytes) :=
  match o with
  | .ok r w => some (r.1, r.2, w.reader.Msg.data)
  | _ => none

example : su_view (TransStartup.Server_readClientParameters 11 (su_world su_body1)) =
    some (.withClient [([117, 115, 101, 114], [97, 108])], none, [9]) := by decide +kernel
example : su_view (TransStartup.Server_readClientParameters 10 (su_world su_body2)) =
    some (.withClient [([117], [98])], none, []) := by decide +kernel
example : su_view (TransStartup.Server_readClientParameters 10 (su_world su_body3)) =
    some (.nil, some Go.Err.missingNul, [100, 98]) := by decide +kernel
example : su_view (TransStartup.Server_readClientParameters 10 (su_world su_body4)) =
    some (.nil, some Go.Err.missingNul, []) := by decide +kernel
example : readClientParams 10 su_body4 [] = none := by decide +kernel
example : readClientParams 10 su_body2 [] = some [([117], [98])] := by decide +kernel

/-- SSLRequest packet on the stream: length 8, version 80877103 -/
def su_ssl : Bytes := [0, 0, 0, 8, 4, 210, 22, 47]
def su_streamWorld (src : Bytes) : World := { reader := { MaxMessageSize := 4096 }, src := src }
def su_viewV (o : Out (Int × Option Go.Err)) : Option (Int × Option Go.Err × Bytes × Bytes) :=
  match o with
  | .ok r w => some (r.1, r.2, w.reader.Msg.data, w.src)
  | _ => none
example : su_viewV (TransStartup.Server_readVersion (su_streamWorld (su_ssl ++ [1, 2]))) =
    some (TransStartup.VersionSSLRequest, none, [], [1, 2]) := by decide +kernel
example : su_viewV (TransStartup.Server_readVersion (su_streamWorld [0, 0, 0, 6, 4, 210, 7])) =
    some (0, some (Go.Err.insufficient 2), [4, 210], [7]) := by decide +kernel

/-! ### fuel -/
/-- any adequate fuel gives the same verdict -/
theorem su_scan_fuel : ∀ (f g : Nat) (m : Bytes) (acc : Params), m.length < f → m.length < g →
    su_scan f m acc = su_scan g m acc := by
  intro f
  induction f with
  | zero => intro g m acc h; omega
  | succ f ih =>
    intro g m acc hf hg
    cases g with
    | zero => omega
    | succ g =>
      rw [su_scan, su_scan]
      cases hc : cstr m with
      | none => rfl
      | some p =>
        obtain ⟨k, r⟩ := p
        obtain ⟨_, hl⟩ := su_cstr_drop _ _ _ hc
        by_cases hk : k = []
        · simp only [hk, if_true]
        · simp only [hk, if_false]
          cases hc2 : cstr r with
          | none => rfl
          | some q =>
            obtain ⟨v, r'⟩ := q
            obtain ⟨_, hl'⟩ := su_cstr_drop _ _ _ hc2
            simp only
            rw [ih g r' (store k v acc) (by omega) (by omega)]

/-- `readClientParameters` with ANY adequate fuel is the model's `readClientParams` with the fuel of `serveAfterVersion` -/
theorem su_tie_readClientParameters_anyfuel (w : World) (h : Sl.WF w.reader.Msg) (fuel : Nat)
    (hf : w.reader.Msg.data.length < fuel) :
    TransStartup.Server_readClientParameters fuel w =
      TransStartup.Server_readClientParameters (w.reader.Msg.data.length + 1) w := by
  rw [su_tie_readClientParameters w h fuel hf, su_tie_readClientParameters w h _ (Nat.lt_succ_self _),
    ← su_scan_model, ← su_scan_model, su_scan_fuel fuel (w.reader.Msg.data.length + 1) _ _ hf (Nat.lt_succ_self _)]
end Pw.Tie
