import Pw.Model.Conc
/-
  C16 — Close is graceful, final, idempotent and concurrency-safe.
-/
namespace Pw.Props.C16
open Pw.Conc

/-- the inductive invariant -/
structure Inv (s : St) : Prop where
  chan : s.chanCloses = if s.closing then 1 else 0
  wg : s.wg = running s + (if s.helperDone then 0 else 1)
  helper : s.helperDone = true → s.closing = true
  closers : ∀ c ∈ s.closers, c ≠ .start → s.closing = true

theorem inv_init (nc nw : Nat) : Inv (init nc nw) := by
  refine ⟨rfl, ?_, by simp [init], ?_⟩
  · simp [init, running, List.count_replicate]
  · intro c hc hne
    simp [init] at hc
    exact absurd hc.2 hne

theorem count_set_running (ws : List WPc) (j : Nat) (old new : WPc) (h : ws[j]? = some old) :
    (ws.set j new).count .running + (if old = .running then 1 else 0)
      = ws.count .running + (if new = .running then 1 else 0) := by
  induction ws generalizing j with
  | nil => simp at h
  | cons w ws ih =>
    cases j with
    | zero =>
      simp at h
      subst h
      simp only [List.set_cons_zero, List.count_cons]
      by_cases h1 : w = .running <;> by_cases h2 : new = .running <;> simp [h1, h2]
    | succ j =>
      simp at h
      have := ih j h
      simp only [List.set_cons_succ, List.count_cons]
      omega

theorem mem_set {α} (l : List α) (i : Nat) (v x : α) (h : x ∈ l.set i v) : x = v ∨ x ∈ l := by
  induction l generalizing i with
  | nil => simp at h
  | cons a l ih =>
    cases i with
    | zero => simp at h; rcases h with h | h <;> simp [h]
    | succ i =>
      simp at h
      rcases h with h | h
      · simp [h]
      · rcases ih i h with h' | h' <;> simp [h']

/-- the invariant is preserved by every enabled step of every thread -/
theorem inv_step (a : Act) (s s' : St) (hi : Inv s) (hs : step a s = some s') : Inv s' := by
  obtain ⟨hc, hw, hh, hcl⟩ := hi
  cases a with
  | closer i =>
    simp only [step] at hs
    cases hci : s.closers[i]? with
    | none => simp [hci] at hs
    | some pc =>
      cases pc with
      | start =>
        simp only [hci] at hs
        by_cases hcg : s.closing = true
        · simp only [hcg, if_true, Option.some.injEq] at hs
          subst hs
          exact ⟨by simpa [hcg] using hc, by simpa [running] using hw, by simp,
            fun c _ _ => rfl⟩
        · simp only [Bool.not_eq_true] at hcg
          simp only [hcg, Bool.false_eq_true, if_false, Option.some.injEq] at hs
          subst hs
          exact ⟨by simp [hc, hcg], by simpa [running] using hw, fun _ => rfl, fun _ _ _ => rfl⟩
      | waiting =>
        simp only [hci] at hs
        by_cases hz : s.wg = 0
        · simp only [hz, if_true, Option.some.injEq] at hs
          subst hs
          refine ⟨by simpa using hc, by simpa [running, hz] using hw, by simpa using hh, ?_⟩
          intro c hmem hne
          rcases mem_set _ _ _ _ hmem with h | h
          · exact hcl .waiting (List.mem_of_getElem? hci) (by decide)
          · exact hcl c h hne
        · simp [hz] at hs
      | returned => simp [hci] at hs
  | worker j =>
    simp only [step] at hs
    cases hwj : s.workers[j]? with
    | none => simp [hwj] at hs
    | some pc =>
      cases pc with
      | start =>
        simp only [hwj] at hs
        by_cases hcg : s.closing = true
        · simp only [hcg, if_true, Option.some.injEq] at hs
          subst hs
          have := count_set_running s.workers j .start .refused hwj
          simp at this
          exact ⟨by simpa [hcg] using hc, by simp only [running] at hw ⊢; omega, by simp,
            fun c hm hn => rfl⟩
        · simp only [Bool.not_eq_true] at hcg
          simp only [hcg, Bool.false_eq_true, if_false, Option.some.injEq] at hs
          subst hs
          have := count_set_running s.workers j .start .running hwj
          simp at this
          exact ⟨by simpa [hcg] using hc, by simp only [running] at hw ⊢; omega, by simpa [hcg] using hh,
            fun c hm hn => by simpa [hcg] using hcl c hm hn⟩
      | running =>
        simp only [hwj, Option.some.injEq] at hs
        subst hs
        have := count_set_running s.workers j .running .finished hwj
        simp at this
        have hpos : 1 ≤ s.workers.count .running := by
          have : WPc.running ∈ s.workers := List.mem_of_getElem? hwj
          exact List.count_pos_iff.mpr this
        exact ⟨by simpa using hc, by simp only [running] at hw ⊢; omega, by simpa using hh,
          fun c hm hn => hcl c hm hn⟩
      | finished => simp [hwj] at hs
      | refused => simp [hwj] at hs
  | helper =>
    simp only [step] at hs
    by_cases he : s.chanCloses ≥ 1 ∧ (!s.helperDone) = true
    · rw [if_pos he] at hs
      simp only [Option.some.injEq] at hs
      subst hs
      have hnd : s.helperDone = false := by simpa using he.2
      have hcg : s.closing = true := by
        by_cases h : s.closing = true
        · exact h
        · simp only [Bool.not_eq_true] at h; rw [h] at hc; simp at hc; omega
      refine ⟨by simpa using hc, ?_, fun _ => hcg, fun c hm hn => hcl c hm hn⟩
      simp only [running, hnd] at hw ⊢
      simp at hw ⊢
      omega
    · rw [if_neg he] at hs; simp at hs

/-- every state reachable by any schedule of any number of closers and workers satisfies the
    invariant -/
theorem inv_run (sched : List Act) : ∀ s, Inv s → Inv (run sched s) := by
  induction sched with
  | nil => intro s h; exact h
  | cons a r ih =>
    intro s h
    simp only [run, List.foldl_cons]
    cases hs : step a s with
    | none => simpa [run] using ih s h
    | some s' => simpa [run] using ih s' (inv_step a s s' h hs)

/-- **never a double close**: the closer channel is closed at most once, however many
    goroutines call Close concurrently and however their steps interleave -/
theorem C16_no_double_close (nc nw : Nat) (sched : List Act) :
    (run sched (init nc nw)).chanCloses ≤ 1 := by
  have := (inv_run sched _ (inv_init nc nw)).chan
  split at this <;> omega

/-- **Close waits**: a Close call can only return in a state in which no admitted handler is
    still running (and the listener has been closed) -/
theorem C16_waits (s s' : St) (i : Nat) (hi : Inv s) (hpc : s.closers[i]? = some .waiting)
    (hs : step (.closer i) s = some s') : running s = 0 ∧ s.helperDone = true := by
  simp only [step, hpc] at hs
  by_cases hz : s.wg = 0
  · have := hi.wg
    rw [hz] at this
    constructor
    · omega
    · by_cases hd : s.helperDone = true
      · exact hd
      · simp [hd] at this
  · simp [hz] at hs

/-- **Close is final**: once any Close call has returned, no command is admitted any more:
    every later admission attempt is refused, on every connection -/
theorem C16_final (s s' : St) (j : Nat) (hi : Inv s) (hret : CPc.returned ∈ s.closers)
    (hpc : s.workers[j]? = some .start) (hs : step (.worker j) s = some s') :
    s'.workers[j]? = some .refused ∧ running s' = running s := by
  have hcg : s.closing = true := hi.closers .returned hret (by decide)
  simp only [step, hpc, hcg, if_true, Option.some.injEq] at hs
  subst hs
  have hlt : j < s.workers.length := by
    rcases List.getElem?_eq_some_iff.mp hpc with ⟨h, _⟩; exact h
  refine ⟨by simp [hlt], ?_⟩
  have := count_set_running s.workers j .start .refused hpc
  simp at this
  simp only [running]; omega

/-- `closing` is never reset -/
theorem closing_mono (a : Act) (s s' : St) (hs : step a s = some s') (hc : s.closing = true) : s'.closing = true := by
  cases a with
  | closer i =>
    simp only [step] at hs
    cases h : s.closers[i]? with
    | none => simp [h] at hs
    | some pc =>
      cases pc with
      | start => simp [h, hc] at hs; subst hs; rfl
      | waiting =>
        simp only [h] at hs
        by_cases hz : s.wg = 0
        · simp [hz] at hs; subst hs; exact hc
        · simp [hz] at hs
      | returned => simp [h] at hs
  | worker j =>
    simp only [step] at hs
    cases h : s.workers[j]? with
    | none => simp [h] at hs
    | some pc =>
      cases pc with
      | start => simp [h, hc] at hs; subst hs; rfl
      | running => simp [h] at hs; subst hs; exact hc
      | finished => simp [h] at hs
      | refused => simp [h] at hs
  | helper =>
    simp only [step] at hs
    by_cases he : s.chanCloses ≥ 1 ∧ (!s.helperDone) = true
    · rw [if_pos he] at hs; simp at hs; subst hs; exact hc
    · rw [if_neg he] at hs; simp at hs

/-- **no deadlock**: as long as some Close call has not returned, some thread can take a step -/
theorem C16_no_deadlock (s : St) (hi : Inv s)
    (hpend : ∃ (i : Nat) (pc : CPc), s.closers[i]? = some pc ∧ pc ≠ CPc.returned) :
    ∃ a, (step a s).isSome = true := by
  obtain ⟨i, pc, hpc, hne⟩ := hpend
  cases pc with
  | returned => exact absurd rfl hne
  | start =>
    by_cases hcg : s.closing = true
    · exact ⟨.closer i, by simp [step, hpc, hcg]⟩
    · simp only [Bool.not_eq_true] at hcg
      exact ⟨.closer i, by simp [step, hpc, hcg]⟩
  | waiting =>
    have hcg : s.closing = true := hi.closers .waiting (List.mem_of_getElem? hpc) (by decide)
    by_cases hz : s.wg = 0
    · exact ⟨.closer i, by simp [step, hpc, hz]⟩
    · -- some handler is running, or the helper has not run yet
      by_cases hd : s.helperDone = true
      · have hw := hi.wg
        simp only [hd, if_true, Nat.add_zero] at hw
        have hpos : 0 < s.workers.count .running := by simp only [running] at hw; omega
        have hmem : WPc.running ∈ s.workers := List.count_pos_iff.mp hpos
        obtain ⟨j, hj, hjv⟩ := List.getElem_of_mem hmem
        have : s.workers[j]? = some .running := by simp [hj, hjv]
        exact ⟨.worker j, by simp [step, this]⟩
      · have hch := hi.chan
        simp only [hcg, if_true] at hch
        simp only [Bool.not_eq_true] at hd
        exact ⟨.helper, by simp [step, hch, hd]⟩

/-- non-vacuity: two closers and two workers under a schedule where the second closer enters
    while the first is waiting and a worker races the closing transition -/
example :
    let s := run [.worker 0, .closer 0, .closer 1, .worker 1, .helper, .closer 0, .worker 0, .closer 0, .closer 1]
      (init 2 2)
    s.chanCloses = 1 ∧ s.closers = [.returned, .returned] ∧ s.workers = [.finished, .refused] ∧ s.wg = 0 := by decide

end Pw.Props.C16
