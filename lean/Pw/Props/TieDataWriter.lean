import Pw.Generated.TransWriter
import Pw.Props.TieError
import Pw.Model.Session
/-
  TIE THEOREMS, part 7: the result writer of writer.go / row.go as translated (`TransWriter.dataWriter_Row`,
  `dataWriter_Complete`, `dataWriter_Empty`, `dataWriter_Written`, `Columns_Write`, `Column_Write`,
  `commandComplete`) against the model's `dwRow`, `dwComplete`, `dwEmpty` (Model/Session.lean, section
  "result writer") and `BMsg.complete … |>.encode` (Model/Backend.lean).

  The calls on the buffer writer are stepped through with the `step_*` lemmas of TieError.lean, lifted to the
  `DWorld` of RtWriter.lean.  All helper names of this file carry the prefix `dw_`.
-/
namespace Pw.Tie
open Pw Pw.Go

/-! ### what the translator saw -/

theorem dw_untranslatable_nil : TransWriter.untranslatable = [] := rfl

/-- the structs behind `DataWriterS` / `ColumnS` of RtWriter.lean, field for field (`ctx`, `client`, `reader`
    are the world's context, buffer.Writer and buffer.Reader) -/
theorem dw_struct_layout :
    TransWriter.structdataWriter = [("ctx", "context.Context"), ("columns", "Columns"), ("formats", "[]FormatCode"),
      ("client", "*buffer.Writer"), ("reader", "*buffer.Reader"), ("closed", "bool"), ("written", "uint64")] ∧
    TransWriter.structColumn = [("Table", "int32"), ("ID", "int32"), ("Attr", "int16"), ("Name", "string"),
      ("AttrNo", "int16"), ("Oid", "oid.Oid"), ("Width", "int16"), ("TypeModifier", "int32")] := ⟨rfl, rfl⟩

/-! ### errors: the code's values as the model's -/

/-- `fmt.Errorf(format, integers…)` with `%d` verbs only -/
def dw_fmtD : Bytes → List Int → Bytes
  | 37 :: 100 :: r, a :: as => decInt a ++ dw_fmtD r as
  | c :: r, as => c :: dw_fmtD r as
  | [], _ => []

/-- an error value of writer.go / row.go as the handler-visible `OpErr` of the model (an error of the
    encoder is `pgxEnc`; errors of the buffer writer are the transport's) -/
def dw_absErr : DErr → OpErr
  | .new t => .lib (.base t)
  | .errorf f as => .lib (.base (dw_fmtD f as))
  | .lib _ => .lib errWrite
  | .ext _ => .pgxEnc

theorem dw_ErrClosedWriter : TransWriter.ErrClosedWriter.map dw_absErr = some (.lib errClosedWriter) := by
  decide +kernel

theorem dw_ErrDataWritten : TransWriter.ErrDataWritten.map dw_absErr = some (.lib errDataWritten) := by
  decide +kernel

/-! ### the model's view of the world -/

/-- the model's `DW.closed` / `DW.written` / number of columns, read off the Go state -/
def dw_closed (w : DWorld) : Bool := w.dw.closed
def dw_written (w : DWorld) : Nat := w.dw.written.toNat

/-- the connection as the model's session sees it: messages sent (`out`, as bytes) and the write budget -/
def dw_Conn (w : DWorld) (s : Sess) : Prop :=
  w.base.sink = s.out.map BMsg.encode ∧ w.base.wleft = s.wleft

/-- ONE `Writer.End` of the message bytes `m` started with type byte `t`: the byte-level `Sess.send` -/
def dw_send (m : Bytes) (t : UInt8) (w : DWorld) : DOut (Option DErr) :=
  match w.base.wleft with
  | some 0 => .ok (some (.lib .writeErr)) { w with base := setWriter w.base (wr [] (pbStart t w.base.writer.putbuf)) }
  | some (n + 1) => .ok none { w with base := { setWriter w.base (wr [] (pbStart t w.base.writer.putbuf)) with
                                                sink := m :: w.base.sink, wleft := some n } }
  | none => .ok none { w with base := { setWriter w.base (wr [] (pbStart t w.base.writer.putbuf)) with
                                        sink := m :: w.base.sink } }

/-- `dw_send` is the model's `Sess.send`: same message list, same budget, same verdict -/
theorem dw_send_model (m : BMsg) (t : UInt8) (w : DWorld) (s : Sess) (hc : dw_Conn w s) :
    ∃ r w', dw_send m.encode t w = .ok r w' ∧ dw_Conn w' (s.send m).1 ∧ w'.dw = w.dw ∧
      ((s.send m).2 = true ∧ r = none ∨ (s.send m).2 = false ∧ r = some (.lib .writeErr)) := by
  obtain ⟨h1, h2⟩ := hc
  unfold dw_send Sess.send dw_Conn
  rw [h2]
  cases hs : s.wleft with
  | none => exact ⟨_, _, rfl, ⟨by simp [h1], by simp [setWriter, h2, hs]⟩, rfl, Or.inl ⟨rfl, rfl⟩⟩
  | some n =>
    cases n with
    | zero => exact ⟨_, _, rfl, ⟨by simp [setWriter, h1], by simp [setWriter, h2, hs]⟩, rfl, Or.inr ⟨rfl, rfl⟩⟩
    | succ n => exact ⟨_, _, rfl, ⟨by simp [h1], by simp⟩, rfl, Or.inl ⟨rfl, rfl⟩⟩

/-! ### stepping the buffer writer inside a `DWorld` -/

theorem dw_liftW_ok {α} (f : World → Out α) (w : DWorld) (a : α) (b : World) (h : f w.base = .ok a b) :
    liftW f w = .ok a { w with base := b } := by
  unfold liftW; rw [h]

theorem dw_out_of_step {α} (o : Out α) (a : α) (b : World) (h : ∀ k : α → World → Out α, o.bind k = k a b) :
    o = .ok a b := by
  have := h (fun a w => .ok a w); rwa [bind_ok] at this

def dw_setW (w : DWorld) (s : WriterS) : DWorld := { w with base := setWriter w.base s }

theorem dw_setW_setW (w : DWorld) (a b : WriterS) : dw_setW (dw_setW w a) b = dw_setW w b := rfl
theorem dw_setW_dw (w : DWorld) (a : WriterS) : (dw_setW w a).dw = w.dw := rfl

theorem dw_step_Start {α} (t : UInt8) (w : DWorld) (hp : PutbufOK w.base.writer.putbuf) (k : Unit → DWorld → DOut α) :
    (liftW (Trans.Writer_Start t) w).bind k = k () (dw_setW w (wr [t, 0, 0, 0, 0] (pbStart t w.base.writer.putbuf))) := by
  rw [dw_liftW_ok _ w () _ (dw_out_of_step _ _ _ (fun k => step_Start t w.base hp k))]; rfl

theorem dw_step_AddString {α} (b f pb : Bytes) (w : DWorld) (k : Int → DWorld → DOut α) :
    ∃ n, (liftW (Trans.Writer_AddString b) (dw_setW w (wr f pb))).bind k = k n (dw_setW w (wr (f ++ b) pb)) := by
  obtain ⟨s', n, h, ha, hpb⟩ := tie_Writer_AddString b (setWriter w.base (wr f pb))
  have : s' = wr (f ++ b) pb := eq_wr_of_abs s' _ _ (by simpa [Writer.add, absW, wr, setWriter] using ha) hpb
  refine ⟨n, ?_⟩
  rw [dw_liftW_ok _ (dw_setW w (wr f pb)) n _ h, this]; rfl

theorem dw_step_AddNullTerminate {α} (f pb : Bytes) (w : DWorld) (k : Unit → DWorld → DOut α) :
    (liftW Trans.Writer_AddNullTerminate (dw_setW w (wr f pb))).bind k = k () (dw_setW w (wr (f ++ [0]) pb)) := by
  rw [dw_liftW_ok _ (dw_setW w (wr f pb)) () _
    (dw_out_of_step _ _ _ (fun k => step_AddNullTerminate w.base f pb k))]; rfl

/-- `End` of a started frame with the latch clear, in a `DWorld`: `dw_send` of the model's `frame t body` -/
theorem dw_step_End (t : UInt8) (body pb : Bytes) (w : DWorld) (hlen : body.length + 5 < 4294967296)
    (hpb : pb = pbStart t w.base.writer.putbuf) :
    ((liftW Trans.Writer_End (dw_setW w (wr (t :: 0 :: 0 :: 0 :: 0 :: body) pb))).bind fun r w' => .ok (liftErrD r) w') =
      dw_send (frame t body) t w := by
  have h := step_End t body pb w.base hlen
  unfold liftW dw_send
  simp only [dw_setW]
  rw [h, hpb]
  simp only [setWriter, wr, connWrite]
  cases w.base.wleft with
  | none => rfl
  | some n => cases n <;> rfl

/-! ### `Written`, `Empty`, `commandComplete`, `Complete` -/

/-- `Written()` returns the counter and changes nothing -/
theorem dw_tie_Written (w : DWorld) : TransWriter.dataWriter_Written w = .ok w.dw.written w := rfl

/-- `Empty()` = the model's `dwEmpty`: closed → ErrClosedWriter; rows written → ErrDataWritten; otherwise the
    writer closes.  Nothing is sent in any case. -/
theorem dw_tie_Empty (w : DWorld) :
    TransWriter.dataWriter_Empty w =
      if w.dw.closed = true then .ok TransWriter.ErrClosedWriter w
      else if w.dw.written ≠ 0 then .ok TransWriter.ErrDataWritten w
      else .ok none { w with dw := { w.dw with closed := true } } := by
  unfold TransWriter.dataWriter_Empty TransWriter.dataWriter_close
  by_cases h1 : w.dw.closed = true
  · simp [h1]
  · by_cases h2 : w.dw.written = 0 <;> simp [h1, h2, DOut.bind]

/-- … and against `dwEmpty` itself, for any model writer `d` that agrees on `closed` and `written` -/
theorem dw_tie_Empty_model (w : DWorld) (d : DW) (hc : d.closed = w.dw.closed) (hw : (d.written : Int) = w.dw.written) :
    ∃ r w', TransWriter.dataWriter_Empty w = .ok r w' ∧ r.map dw_absErr = (dwEmpty d).1 ∧
      (dwEmpty d).2.closed = w'.dw.closed ∧ ((dwEmpty d).2.written : Int) = w'.dw.written ∧ w'.base = w.base := by
  rw [dw_tie_Empty]
  unfold dwEmpty
  by_cases h1 : w.dw.closed = true
  · have h1' : d.closed = true := by rw [hc]; exact h1
    rw [if_pos h1, if_pos h1']
    exact ⟨_, _, rfl, dw_ErrClosedWriter, hc, hw, rfl⟩
  · have h1' : ¬ d.closed = true := by rw [hc]; exact h1
    rw [if_neg h1, if_neg h1']
    by_cases h2 : w.dw.written = 0
    · have h2' : ¬ d.written ≠ 0 := by omega
      have h2'' : ¬ w.dw.written ≠ 0 := by simp [h2]
      rw [if_neg h2'', if_neg h2']
      exact ⟨_, _, rfl, rfl, rfl, hw, rfl⟩
    · have : d.written ≠ 0 := by omega
      rw [if_pos h2, if_pos this]
      exact ⟨_, _, rfl, dw_ErrDataWritten, hc, hw, rfl⟩

/-- `commandComplete(writer, tag)`: ONE `Write` of the model's `(BMsg.complete tag).encode`, whatever frame
    and latch the writer held -/
theorem dw_tie_commandComplete (tag : Bytes) (w : DWorld) (hp : PutbufOK w.base.writer.putbuf)
    (hlen : tag.length + 6 < 4294967296) :
    TransWriter.commandComplete tag w = dw_send (BMsg.complete tag).encode 67 w := by
  unfold TransWriter.commandComplete
  rw [dw_step_Start 67 w hp]
  obtain ⟨n, h⟩ := dw_step_AddString tag [67, 0, 0, 0, 0] (pbStart 67 w.base.writer.putbuf) w
    (fun t2 w => (liftW (Trans.Writer_AddNullTerminate) w).bind fun t3 w =>
      (liftW (Trans.Writer_End) w).bind fun t4 w => DOut.ok (liftErrD t4) w)
  rw [h, dw_step_AddNullTerminate]
  have := dw_step_End 67 (tag ++ [0]) (pbStart 67 w.base.writer.putbuf) w (by simp; omega) rfl
  exact this

theorem dw_Empty_fresh (w : DWorld) (hc : w.dw.closed = false) (h0 : w.dw.written = 0) :
    TransWriter.dataWriter_Empty w = .ok none { w with dw := { w.dw with closed := true } } := by
  rw [dw_tie_Empty]; simp [hc, h0]

theorem dw_bind_ok {α β} (a : α) (w : DWorld) (k : α → DWorld → DOut β) : (DOut.ok a w).bind k = k a w := rfl

/-- `Complete(tag)` on a closed writer: ErrClosedWriter, nothing sent, nothing changed -/
theorem dw_tie_Complete_closed (tag : Bytes) (w : DWorld) (hc : w.dw.closed = true) :
    TransWriter.dataWriter_Complete tag w = .ok TransWriter.ErrClosedWriter w := by
  unfold TransWriter.dataWriter_Complete; simp [hc]

/-- `Complete(tag)` on an open writer: exactly one CommandComplete carrying the tag goes to the connection
    (`dw_send` = the model's `Sess.send (.complete tag)`), its `Write` error is returned, and the writer is
    closed either way — the model's `dwComplete`.  (With no rows and non-nil columns the code goes through
    `Empty()` first; the outcome is the same.) -/
theorem dw_tie_Complete (tag : Bytes) (w : DWorld) (hc : w.dw.closed = false) (hp : PutbufOK w.base.writer.putbuf)
    (hlen : tag.length + 6 < 4294967296) :
    TransWriter.dataWriter_Complete tag w =
      (dw_send (BMsg.complete tag).encode 67 w).bind fun r w' =>
        .ok r { w' with dw := { w'.dw with closed := true } } := by
  unfold TransWriter.dataWriter_Complete
  simp only [hc, Bool.false_eq_true, if_false]
  by_cases h : w.dw.written = 0 ∧ w.dw.columns ≠ none
  · rw [if_pos h, dw_Empty_fresh w hc h.1, dw_bind_ok]
    simp only [ne_eq, not_true_eq_false, if_false]
    rw [dw_tie_commandComplete tag { w with dw := { w.dw with closed := true } } hp hlen]
    unfold dw_send TransWriter.dataWriter_close
    cases w.base.wleft with
    | none => rfl
    | some n => cases n <;> rfl
  · rw [if_neg h, dw_tie_commandComplete tag _ hp hlen]
    unfold dw_send TransWriter.dataWriter_close
    cases w.base.wleft with
    | none => rfl
    | some n => cases n <;> rfl

/-- after `Complete` the writer is closed, whatever the `Write` did; the counter is untouched -/
theorem dw_tie_Complete_closes (tag : Bytes) (w : DWorld) (hc : w.dw.closed = false) (hp : PutbufOK w.base.writer.putbuf)
    (hlen : tag.length + 6 < 4294967296) :
    ∃ r w', TransWriter.dataWriter_Complete tag w = .ok r w' ∧ w'.dw.closed = true ∧ w'.dw.written = w.dw.written ∧
      PutbufOK w'.base.writer.putbuf ∧
      ((r = none ∧ w'.base.sink = (BMsg.complete tag).encode :: w.base.sink) ∨
       (r = some (.lib .writeErr) ∧ w'.base.sink = w.base.sink)) := by
  rw [dw_tie_Complete tag w hc hp hlen]
  have hpb := pbStart_ok 67 _ hp
  unfold dw_send
  cases w.base.wleft with
  | none => exact ⟨_, _, rfl, rfl, rfl, hpb, Or.inl ⟨rfl, rfl⟩⟩
  | some n =>
    cases n with
    | zero => exact ⟨_, _, rfl, rfl, rfl, hpb, Or.inr ⟨rfl, rfl⟩⟩
    | succ n => exact ⟨_, _, rfl, rfl, rfl, hpb, Or.inl ⟨rfl, rfl⟩⟩

/-- against `dwComplete`: same verdict, same connection, same `closed`/`written` -/
theorem dw_tie_Complete_model (tag : Bytes) (w : DWorld) (d : DW) (s : Sess) (hcl : d.closed = w.dw.closed)
    (hw : (d.written : Int) = w.dw.written) (hconn : dw_Conn w s) (hp : PutbufOK w.base.writer.putbuf)
    (hlen : tag.length + 6 < 4294967296) :
    ∃ r w', TransWriter.dataWriter_Complete tag w = .ok r w' ∧ r.map dw_absErr = (dwComplete d s tag).1 ∧
      (dwComplete d s tag).2.1.closed = w'.dw.closed ∧ ((dwComplete d s tag).2.1.written : Int) = w'.dw.written ∧
      dw_Conn w' (dwComplete d s tag).2.2 := by
  cases hc : w.dw.closed with
  | true =>
    rw [dw_tie_Complete_closed tag w hc]
    have : d.closed = true := by rw [hcl, hc]
    exact ⟨_, _, rfl, by simp [dwComplete, this, dw_ErrClosedWriter], by simp [dwComplete, this, hc],
      by simp [dwComplete, this, hw], by simpa [dwComplete, this] using hconn⟩
  | false =>
    rw [dw_tie_Complete tag w hc hp hlen]
    have hd : d.closed = false := by rw [hcl, hc]
    obtain ⟨r, w', h1, h2, h3, h4⟩ := dw_send_model (.complete tag) 67 w s hconn
    rw [h1]
    refine ⟨r, _, rfl, ?_⟩
    unfold dwComplete
    simp only [hd, Bool.false_eq_true, if_false]
    rcases h4 with ⟨hs, hr⟩ | ⟨hs, hr⟩
    · cases hsend : s.send (.complete tag) with
      | mk s' ok =>
        rw [hsend] at hs h2; simp at hs h2; subst hs
        simp [hr, h3, hw, h2, dw_Conn] at *
        exact h2
    · cases hsend : s.send (.complete tag) with
      | mk s' ok =>
        rw [hsend] at hs h2; simp at hs h2; subst hs
        simp [hr, h3, hw, h2, dw_Conn, dw_absErr] at *
        exact h2

/-! ### `Row`: closed writer, arity, and the counter (defect D09) -/

/-- `Row` on a closed writer: ErrClosedWriter, nothing written, nothing changed -/
theorem dw_tie_Row_closed (fuel : Nat) (vals : List DVal) (w : DWorld) (hc : w.dw.closed = true) :
    TransWriter.dataWriter_Row fuel vals w = .ok TransWriter.ErrClosedWriter w := by
  unfold TransWriter.dataWriter_Row; simp [hc]

/-- the format string of the arity error -/
def dw_arityFormat : Bytes :=
  ascii "unexpected columns, %d columns are defined inside the given table but %d were given"

/-- wrong arity: the error names both counts; NOTHING is written (not even into the frame buffer: the check
    precedes `Start`), the counter is unchanged — the whole world is -/
theorem dw_tie_Row_arity (fuel : Nat) (vals : List DVal) (w : DWorld) (hc : w.dw.closed = false)
    (ha : (vals.length : Int) ≠ colsLen w.dw.columns) :
    TransWriter.dataWriter_Row fuel vals w =
      .ok (some (.errorf dw_arityFormat [colsLen w.dw.columns, (vals.length : Int)])) w := by
  unfold TransWriter.dataWriter_Row TransWriter.Columns_Write
  simp only [hc, Bool.false_eq_true, if_false, ha, ne_eq, not_false_eq_true, if_true, DOut.bind]
  rfl

/-- the text of that error is the model's `errArity` (concrete counts; `dw_fmtD` renders `%d`) -/
example : dw_absErr (.errorf dw_arityFormat [2, 3]) = .lib (errArity 2 3) := by decide +kernel
example : dw_absErr (.errorf dw_arityFormat [0, 11]) = .lib (errArity 0 11) := by decide +kernel

/-! #### what `Columns.Write` can touch -/

/-- `w'` differs from `w` in the pkg/buffer part only (`dw`, the context and the encoder are the same) -/
def dw_OnlyBase (w w' : DWorld) : Prop := ∃ b, w' = { w with base := b }

theorem dw_ob_refl (w : DWorld) : dw_OnlyBase w w := ⟨w.base, rfl⟩
theorem dw_ob_trans {a b c : DWorld} (h1 : dw_OnlyBase a b) (h2 : dw_OnlyBase b c) : dw_OnlyBase a c := by
  obtain ⟨x, rfl⟩ := h1; obtain ⟨y, rfl⟩ := h2; exact ⟨y, rfl⟩

/-- every normal outcome of `o` leaves everything but `base` as it was in `w0` -/
def dw_Keeps {α} (w0 : DWorld) (o : DOut α) : Prop := ∀ a w', o = .ok a w' → dw_OnlyBase w0 w'

theorem dw_keeps_ok {α} (w0 w : DWorld) (a : α) (h : dw_OnlyBase w0 w) : dw_Keeps w0 (DOut.ok a w) := by
  intro a' w' e; cases e; exact h

theorem dw_keeps_bind {α β} (w0 : DWorld) (o : DOut α) (k : α → DWorld → DOut β) (ho : dw_Keeps w0 o)
    (hk : ∀ a w1, dw_OnlyBase w0 w1 → dw_Keeps w0 (k a w1)) : dw_Keeps w0 (o.bind k) := by
  intro b w' h
  cases o with
  | ok a w1 => exact hk a w1 (ho a w1 rfl) b w' h
  | panic m => cases h
  | block => cases h
  | fuel => cases h

theorem dw_keeps_liftW {α} (f : World → Out α) (w0 w : DWorld) (h : dw_OnlyBase w0 w) : dw_Keeps w0 (liftW f w) := by
  intro a w' e
  unfold liftW at e
  cases hf : f w.base with
  | ok a1 b => rw [hf] at e; cases e; exact dw_ob_trans h ⟨b, rfl⟩
  | panic m => rw [hf] at e; cases e
  | block => rw [hf] at e; cases e
  | fuel => rw [hf] at e; cases e

theorem dw_keeps_chk {α β} (w0 : DWorld) (e : Except String α) (k : α → DOut β) (hk : ∀ a, dw_Keeps w0 (k a)) :
    dw_Keeps w0 (chkD e k) := by
  cases e with
  | ok a => exact hk a
  | error m => intro a w' h; cases h

theorem dw_keeps_encodeExt (w0 w : DWorld) (tm : Option TMap) (o f : Int) (v : DVal) (b : Option Bytes)
    (h : dw_OnlyBase w0 w) : dw_Keeps w0 (encodeExt tm o f v b w) := by
  cases tm with
  | none => intro a w' e; cases e
  | some t => exact dw_keeps_ok _ _ _ h

theorem dw_keeps_ite {α} (w0 : DWorld) (c : Prop) [Decidable c] (a b : DOut α) (ha : dw_Keeps w0 a) (hb : dw_Keeps w0 b) :
    dw_Keeps w0 (if c then a else b) := by
  by_cases h : c <;> simp [h, ha, hb]

theorem dw_keeps_Column_Write (w0 w : DWorld) (c : ColumnS) (f : Int) (v : DVal) (h : dw_OnlyBase w0 w) :
    dw_Keeps w0 (TransWriter.Column_Write c f v w) := by
  unfold TransWriter.Column_Write
  refine dw_keeps_ite _ _ _ _ (dw_keeps_ok _ _ _ h) ?_
  refine dw_keeps_ite _ _ _ _ (dw_keeps_ok _ _ _ h) ?_
  refine dw_keeps_bind _ _ _ (dw_keeps_encodeExt _ _ _ _ _ _ _ h) fun a w1 h1 => ?_
  refine dw_keeps_ite _ _ _ _ (dw_keeps_ok _ _ _ h1) ?_
  refine dw_keeps_bind _ _ _ (dw_keeps_liftW _ _ _ h1) fun a w2 h2 => ?_
  refine dw_keeps_bind _ _ _ (dw_keeps_liftW _ _ _ h2) fun a w3 h3 => ?_
  exact dw_keeps_ok _ _ _ h3

theorem dw_keeps_loop (w0 : DWorld) (fuel : Nat) : ∀ (cols : Cols) (fs : List Int) (srcs : List DVal) (err : Option DErr)
    (xs : List ColumnS) (i : Int) (w : DWorld), dw_OnlyBase w0 w →
    dw_Keeps w0 (TransWriter.Columns_Write.loop1 fuel cols fs srcs err xs i w) := by
  induction fuel with
  | zero => intro _ _ _ _ _ _ w _ a w' e; unfold TransWriter.Columns_Write.loop1 at e; cases e
  | succ n ih =>
    intro cols fs srcs err xs i w h
    unfold TransWriter.Columns_Write.loop1
    refine dw_keeps_ite _ _ _ _ ?_ ?_
    · refine dw_keeps_chk _ _ _ fun col => ?_
      refine dw_keeps_chk _ _ _ fun f0 => ?_
      refine dw_keeps_ite _ _ _ _ ?_ ?_
      · refine dw_keeps_chk _ _ _ fun f1 => ?_
        refine dw_keeps_chk _ _ _ fun v => ?_
        refine dw_keeps_bind _ _ _ (dw_keeps_Column_Write _ _ _ _ _ h) fun e w1 h1 => ?_
        exact dw_keeps_ite _ _ _ _ (dw_keeps_ok _ _ _ h1) (ih _ _ _ _ _ _ _ h1)
      · refine dw_keeps_chk _ _ _ fun v => ?_
        refine dw_keeps_bind _ _ _ (dw_keeps_Column_Write _ _ _ _ _ h) fun e w1 h1 => ?_
        exact dw_keeps_ite _ _ _ _ (dw_keeps_ok _ _ _ h1) (ih _ _ _ _ _ _ _ h1)
    · refine dw_keeps_bind _ _ _ (dw_keeps_liftW _ _ _ h) fun a w1 h1 => ?_
      exact dw_keeps_ok _ _ _ h1

/-- `Columns.Write` touches nothing but the buffer writer and the connection behind it -/
theorem dw_keeps_Columns_Write (fuel : Nat) (cols : Cols) (fs : List Int) (srcs : List DVal) (w : DWorld) :
    dw_Keeps w (TransWriter.Columns_Write fuel cols fs srcs w) := by
  unfold TransWriter.Columns_Write
  refine dw_keeps_ite _ _ _ _ (dw_keeps_ok _ _ _ (dw_ob_refl w)) ?_
  refine dw_keeps_bind _ _ _ (dw_keeps_liftW _ _ _ (dw_ob_refl w)) fun a w1 h1 => ?_
  refine dw_keeps_bind _ _ _ (dw_keeps_liftW _ _ _ h1) fun a w2 h2 => ?_
  exact dw_keeps_loop _ _ _ _ _ _ _ _ _ h2

/-- `Row` = `Columns.Write`, then the counter: incremented (at `uint64`) exactly when the write returned nil -/
theorem dw_tie_Row_open (fuel : Nat) (vals : List DVal) (w : DWorld) (hc : w.dw.closed = false) :
    TransWriter.dataWriter_Row fuel vals w =
      (TransWriter.Columns_Write fuel w.dw.columns w.dw.formats vals w).bind fun e w' =>
        if e ≠ none then .ok e w'
        else .ok none { w' with dw := { w'.dw with written := dwU64 (w'.dw.written + 1) } } := by
  unfold TransWriter.dataWriter_Row
  simp only [hc, Bool.false_eq_true, if_false]

/-- THE COUNTER (defect D09, fixed).  For EVERY world, value list and fuel: whenever `Row` returns, `written`
    is incremented if and only if the result is nil — i.e. only after `Columns.Write` went through its final
    `End` without error.  A row that fails (closed writer, arity, context, encoder, transport) is never
    counted; `closed`, the columns and the formats are never touched. -/
theorem dw_tie_Row_counter (fuel : Nat) (vals : List DVal) (w : DWorld) (r : Option DErr) (w' : DWorld)
    (h : TransWriter.dataWriter_Row fuel vals w = .ok r w') :
    w'.dw.closed = w.dw.closed ∧ w'.dw.columns = w.dw.columns ∧ w'.dw.formats = w.dw.formats ∧
    (r = none → w'.dw.written = dwU64 (w.dw.written + 1)) ∧ (r ≠ none → w'.dw.written = w.dw.written) := by
  cases hc : w.dw.closed with
  | true =>
    rw [dw_tie_Row_closed fuel vals w hc] at h
    cases h
    exact ⟨hc, rfl, rfl, fun h => absurd h (by decide), fun _ => rfl⟩
  | false =>
    rw [dw_tie_Row_open fuel vals w hc] at h
    have hk := dw_keeps_Columns_Write fuel w.dw.columns w.dw.formats vals w
    cases ho : TransWriter.Columns_Write fuel w.dw.columns w.dw.formats vals w with
    | ok e w1 =>
      obtain ⟨b, rfl⟩ := hk e w1 ho
      rw [ho] at h
      simp only [DOut.bind] at h
      by_cases he : e = none
      · simp only [he, ne_eq, not_true_eq_false, if_false] at h
        cases h
        exact ⟨hc, rfl, rfl, fun _ => rfl, fun h => absurd rfl h⟩
      · simp only [he, ne_eq, not_false_eq_true, if_true] at h
        cases h
        exact ⟨hc, rfl, rfl, fun h => absurd h he, fun _ => rfl⟩
    | panic m => rw [ho] at h; cases h
    | block => rw [ho] at h; cases h
    | fuel => rw [ho] at h; cases h

/-- a second `Row` / `Empty` / `Complete` after `Complete` fails with ErrClosedWriter and sends nothing -/
theorem dw_tie_after_Complete (tag : Bytes) (w : DWorld) (hc : w.dw.closed = false) (hp : PutbufOK w.base.writer.putbuf)
    (hlen : tag.length + 6 < 4294967296) :
    ∃ r w', TransWriter.dataWriter_Complete tag w = .ok r w' ∧
      (∀ fuel vals, TransWriter.dataWriter_Row fuel vals w' = .ok TransWriter.ErrClosedWriter w') ∧
      (∀ tag', TransWriter.dataWriter_Complete tag' w' = .ok TransWriter.ErrClosedWriter w') ∧
      TransWriter.dataWriter_Empty w' = .ok TransWriter.ErrClosedWriter w' := by
  obtain ⟨r, w', h, hcl, _⟩ := dw_tie_Complete_closes tag w hc hp hlen
  refine ⟨r, w', h, fun fuel vals => dw_tie_Row_closed fuel vals w' hcl, fun t => dw_tie_Complete_closed t w' hcl, ?_⟩
  rw [dw_tie_Empty]; simp [hcl]

/-- `Empty` after a row has been counted → ErrDataWritten, nothing changes -/
theorem dw_tie_Empty_after_rows (w : DWorld) (hc : w.dw.closed = false) (hw : w.dw.written ≠ 0) :
    TransWriter.dataWriter_Empty w = .ok TransWriter.ErrDataWritten w := by
  rw [dw_tie_Empty]; simp [hc, hw]

/-! ### concrete runs of the translated code (evaluated by the kernel) -/

/-- what a run left on the connection (newest first), whether it returned an error, `written`, `closed` -/
def dw_ranTo : DOut (Option DErr) → Option (List Bytes × Bool × Int × Bool)
  | .ok r w => some (w.base.sink, r.isSome, w.dw.written, w.dw.closed)
  | _ => none

/-- two columns (int4 oid 23, text oid 25); the encoder: value 0 ↦ NULL (nil buffer), value 9 ↦ an error,
    value n ↦ the n bytes `n, n, …` -/
def dw_exWorld : DWorld :=
  { dw := { columns := some [{ Name := ascii "a", Oid := 23 }, { Name := ascii "b", Oid := 25 }], formats := [1] },
    encode := fun _ _ v b => if v.id = 0 then (none, none) else if v.id = 9 then (b, some (.ext 1))
                             else (some (List.replicate v.id (UInt8.ofNat v.id)), none) }

/-- a row `(2, NULL)`: ONE DataRow, the model's encoding of it; counted -/
example : dw_ranTo (TransWriter.dataWriter_Row 5 [⟨2⟩, ⟨0⟩] dw_exWorld) =
    some ([(BMsg.dataRow [some [2, 2], none]).encode], false, 1, false) := by decide +kernel

example : (BMsg.dataRow [some [2, 2], none]).encode = [68, 0, 0, 0, 16, 0, 2, 0, 0, 0, 2, 2, 2, 255, 255, 255, 255] := by
  decide +kernel

/-- the second value fails to encode: nothing reaches the connection, the row is NOT counted (D09) -/
example : dw_ranTo (TransWriter.dataWriter_Row 5 [⟨2⟩, ⟨9⟩] dw_exWorld) = some ([], true, 0, false) := by decide +kernel

/-- the transport fails in `End`: not counted either -/
example : dw_ranTo (TransWriter.dataWriter_Row 5 [⟨2⟩, ⟨0⟩] { dw_exWorld with base := { wleft := some 0 } }) =
    some ([], true, 0, false) := by decide +kernel

/-- wrong arity, cancelled context, missing type map: an error, nothing sent, not counted -/
example : dw_ranTo (TransWriter.dataWriter_Row 5 [⟨2⟩] dw_exWorld) = some ([], true, 0, false) := by decide +kernel
example : dw_ranTo (TransWriter.dataWriter_Row 5 [⟨2⟩, ⟨0⟩] { dw_exWorld with ctxErr := some (.ext 7) }) =
    some ([], true, 0, false) := by decide +kernel
example : dw_ranTo (TransWriter.dataWriter_Row 5 [⟨2⟩, ⟨0⟩] { dw_exWorld with typeMap := none }) =
    some ([], true, 0, false) := by decide +kernel

/-- a row, then `Complete("SELECT 1")`: DataRow, CommandComplete; closed; a further `Row` fails and sends nothing -/
example : dw_ranTo ((TransWriter.dataWriter_Row 5 [⟨1⟩, ⟨3⟩] dw_exWorld).bind fun _ w =>
      (TransWriter.dataWriter_Complete (ascii "SELECT 1") w).bind fun _ w => TransWriter.dataWriter_Row 5 [⟨1⟩, ⟨3⟩] w) =
    some ([(BMsg.complete (ascii "SELECT 1")).encode, (BMsg.dataRow [some [1], some [3, 3, 3]]).encode], true, 1, true) := by
  decide +kernel

/-- `Empty` after a row: ErrDataWritten, still open -/
example : dw_ranTo ((TransWriter.dataWriter_Row 5 [⟨1⟩, ⟨3⟩] dw_exWorld).bind fun _ w => TransWriter.dataWriter_Empty w) =
    some ([(BMsg.dataRow [some [1], some [3, 3, 3]]).encode], true, 1, false) := by decide +kernel

/-- `Complete` with no rows and columns defined goes through `Empty` and still sends CommandComplete -/
example : dw_ranTo (TransWriter.dataWriter_Complete (ascii "OK") dw_exWorld) =
    some ([(BMsg.complete (ascii "OK")).encode], false, 0, true) := by decide +kernel

/-- `Define`: the RowDescription of the model, formats by the `formatFor` rule (one code for all columns) -/
example : dw_ranTo (TransWriter.dataWriter_Define 5 dw_exWorld.dw.columns dw_exWorld) =
    some ([(BMsg.rowDesc [({ name := ascii "a", oid := 23 }, 1), ({ name := ascii "b", oid := 25 }, 1)]).encode],
      false, 0, false) := by decide +kernel

/-- `Columns.CopyIn(format 1)`: the model's CopyInResponse -/
example : dw_ranTo (TransWriter.Columns_CopyIn 5 dw_exWorld.dw.columns 1 dw_exWorld) =
    some ([(BMsg.copyIn 1 2).encode], false, 0, false) := by decide +kernel

end Pw.Tie
