import Pw.Props.C06
/-
  C07 — statement and portal names resolve to the latest definition, per connection.
-/
namespace Pw.Props.C07
open Pw

/-! ### the name maps behave like partial functions (NameSpec) -/

theorem lookup_store_same {α} (n : Bytes) (v : α) (m : List (Bytes × α)) :
    lookup n (store n v m) = some v := by simp [store, lookup]

theorem remove_cons {α} (n k : Bytes) (v : α) (m : List (Bytes × α)) :
    remove n ((k, v) :: m) = if k = n then remove n m else (k, v) :: remove n m := by
  by_cases hk : k = n <;> simp [remove, List.filter_cons, hk]

theorem lookup_remove_other {α} (n n' : Bytes) (m : List (Bytes × α)) (h : n' ≠ n) :
    lookup n' (remove n m) = lookup n' m := by
  induction m with
  | nil => simp [remove, lookup]
  | cons kv m ih =>
    obtain ⟨k, v⟩ := kv
    rw [remove_cons]
    by_cases hk : k = n
    · subst hk
      have : ¬ (k = n') := fun e => h e.symm
      simp [lookup, this, ih]
    · by_cases hk' : k = n'
      · subst hk'; simp [hk, lookup]
      · simp [hk, lookup, hk', ih]

theorem lookup_remove_same {α} (n : Bytes) (m : List (Bytes × α)) : lookup n (remove n m) = none := by
  induction m with
  | nil => simp [remove, lookup]
  | cons kv m ih =>
    obtain ⟨k, v⟩ := kv
    rw [remove_cons]
    by_cases hk : k = n
    · simp [hk, ih]
    · simp [hk, lookup, ih]

theorem lookup_store_other {α} (n n' : Bytes) (v : α) (m : List (Bytes × α)) (h : n' ≠ n) :
    lookup n' (store n v m) = lookup n' m := by
  have : ¬ (n = n') := fun e => h e.symm
  simp [store, lookup, this, lookup_remove_other n n' m h]

/-- the abstract view: a name map is a partial function from names -/
def abs {α} (m : List (Bytes × α)) : Bytes → Option α := fun n => lookup n m

/-- re-using a name (the unnamed one included) replaces the earlier definition for every
    subsequent use and touches no other name -/
theorem C07_store_refines {α} (n : Bytes) (v : α) (m : List (Bytes × α)) :
    abs (store n v m) = fun k => if k = n then some v else abs m k := by
  funext k
  by_cases hk : k = n
  · subst hk; simp [abs, lookup_store_same]
  · simp [abs, hk, lookup_store_other n k v m hk]

/-- Close makes exactly that name unresolvable -/
theorem C07_remove_refines {α} (n : Bytes) (m : List (Bytes × α)) :
    abs (remove n m) = fun k => if k = n then none else abs m k := by
  funext k
  by_cases hk : k = n
  · subst hk; simp [abs, lookup_remove_same]
  · simp [abs, hk, lookup_remove_other n k m hk]

/-! ### what the handlers do to the maps -/

/-- Parse defines (or redefines) the statement name and never touches a portal: a portal bound
    earlier keeps the statement it was bound to -/
theorem C07_parse (h : Handlers) (s s' : Sess) (hc : handleParse h s = .cont s') :
    s'.portals = s.portals ∧
    (s'.stmts = s.stmts ∨ ∃ name st, s'.stmts = store name st s.stmts) := by
  unfold handleParse at hc
  split at hc
  · simp at hc
  · split at hc
    · simp at hc
    · split at hc
      · simp at hc
      · dsimp only at hc
        split at hc
        · obtain ⟨_, _, _, a, b, _⟩ := extendedError_cont _ _ _ hc
          exact ⟨by simpa [Sess.log, Sess.setMsg] using b, Or.inl (by simpa [Sess.log, Sess.setMsg] using a)⟩
        · obtain ⟨_, _, _, a, b, _⟩ := extendedError_cont _ _ _ hc
          exact ⟨by simpa [Sess.log, Sess.setMsg] using b, Or.inl (by simpa [Sess.log, Sess.setMsg] using a)⟩
        · obtain ⟨_, _, _, a, b, _⟩ := send_cont _ _ _ hc
          exact ⟨by simpa [Sess.log, Sess.setMsg] using b, Or.inr ⟨_, _, by simpa [Sess.log, Sess.setMsg] using a⟩⟩
        · obtain ⟨_, _, _, a, b, _⟩ := extendedError_cont _ _ _ hc
          exact ⟨by simpa [Sess.log, Sess.setMsg] using b, Or.inl (by simpa [Sess.log, Sess.setMsg] using a)⟩

/-- Bind attaches the portal to the statement CURRENTLY stored under the given name, together
    with this Bind's parameters and result formats (a snapshot: the statement value itself) -/
theorem C07_bind (s s' : Sess) (pname sname r1 r2 r3 : Bytes) (params : List Param) (rf : List Nat) (st : Stmt)
    (h1 : getString s.inp.msg = some (pname, r1)) (h2 : getString r1 = some (sname, r2))
    (h3 : decodeBindTail r2 = some (params, rf, r3)) (hk : lookup sname s.stmts = some st)
    (hc : handleBind s = .cont s') :
    s'.stmts = s.stmts ∧
    lookup pname s'.portals = some { stmt := st, params := params, formats := rf } ∧
    ∀ other, other ≠ pname → lookup other s'.portals = lookup other s.portals := by
  simp only [handleBind, h1, h2, h3, Sess.setMsg, hk] at hc
  obtain ⟨_, _, _, a, b, _⟩ := send_cont _ _ _ hc
  simp only at a b
  refine ⟨a, ?_, ?_⟩
  · rw [b]; exact lookup_store_same _ _ _
  · intro other ho; rw [b]; exact lookup_store_other _ _ _ _ ho

/-- Execute runs the statement the portal was bound to, with that Bind's parameters and result
    formats — whatever has happened to the statement NAME since -/
theorem C07_execute (s : Sess) (name r1 r2 : Bytes) (lim : Nat) (p : Portal)
    (h1 : getString s.inp.msg = some (name, r1)) (h2 : getU32 r1 = some (lim, r2))
    (hk : lookup name s.portals = some p) :
    handleExecute s =
      match runProg (p.stmt.body p.params) { cols := p.stmt.cols, formats := p.formats }
              ((s.setMsg r2).log (.exec p.stmt.q p.stmt.idx p.params)) with
      | (.blocked, s) => .stop s .waiting
      | (.panicked msg, s) => extendedError s (some (.base (ascii "unexpected panic: " ++ msg)))
      | (.done (some e), s) => extendedError s (some e)
      | (.done none, s) => .cont s := by
  have hk' : lookup name (s.setMsg r2).portals = some p := by simpa [Sess.setMsg] using hk
  simp only [handleExecute, h1, h2, hk']
  rfl

/-- non-vacuity of the map laws on a concrete history: define a, rebind a, close b -/
example : lookup [97] (store [97] 2 (store [98] 9 (store [97] 1 []))) = some 2 ∧
    lookup [98] (remove [98] (store [97] 2 (store [98] 9 []))) = none ∧
    lookup [97] (remove [98] (store [97] 2 (store [98] 9 []))) = some 2 := by decide

end Pw.Props.C07
