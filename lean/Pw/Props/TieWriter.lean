import Pw.Generated.Trans
import Pw.Model.Writer
/-
  TIE THEOREMS, part 3: pkg/buffer/writer.go as translated (`Trans.Writer_*`) against
  Model/Writer.lean (`Writer.start`, `add`, `finish`, `reset`).
-/
namespace Pw.Tie
open Pw Pw.Go

/-- the model's view of a `buffer.Writer` -/
def absW (s : WriterS) : Pw.Writer := { frame := s.frame, err := s.err.isSome }

def setWriter (w : World) (s : WriterS) : World := { w with writer := s }

/-- bytes 1–4 of `putbuf` are never written: they are the zero placeholder of every frame -/
def PutbufOK (pb : Bytes) : Prop := ∃ x rest, pb = x :: 0 :: 0 :: 0 :: 0 :: rest

theorem putbuf_init : PutbufOK ({} : WriterS).putbuf := ⟨0, List.replicate 59 0, by decide⟩

theorem tie_Writer_Reset (w : World) :
    Trans.Writer_Reset w = .ok () (setWriter w { w.writer with frame := [], err := none }) := rfl

theorem tie_Writer_Start (t : UInt8) (w : World) (hp : PutbufOK w.writer.putbuf) :
    ∃ s', Trans.Writer_Start t w = .ok () (setWriter w s') ∧ absW s' = Writer.start t (absW w.writer) ∧
      PutbufOK s'.putbuf := by
  obtain ⟨x, rest, hx⟩ := hp
  refine ⟨{ frame := [t, 0, 0, 0, 0], putbuf := t :: 0 :: 0 :: 0 :: 0 :: rest, err := none }, ?_, ?_, ⟨t, rest, rfl⟩⟩
  · unfold Trans.Writer_Start
    have h1 : ¬ ((rest.length : Int) + 1 + 1 + 1 + 1 + 1 ≤ 0) := by omega
    have h2 : ¬ ((rest.length : Int) + 1 + 1 + 1 + 1 + 1 < 5) := by omega
    simp [tie_Writer_Reset, Out.bind, setWriter, chk, arrSet, arrSlice, hx, h1, h2]
  · simp [absW, Writer.start]

/-- every `Add*` is `Writer.add` of the bytes it appends -/
theorem tie_Writer_AddByte (b : UInt8) (w : World) :
    ∃ s', Trans.Writer_AddByte b w = .ok () (setWriter w s') ∧ absW s' = Writer.add [b] (absW w.writer) ∧
      s'.putbuf = w.writer.putbuf := by
  unfold Trans.Writer_AddByte
  cases he : w.writer.err with
  | some e => exact ⟨w.writer, by simp [setWriter], by simp [absW, Writer.add, he], rfl⟩
  | none => exact ⟨{ w.writer with frame := w.writer.frame ++ [b], err := none }, by simp [setWriter],
      by simp [absW, Writer.add, he], rfl⟩

theorem tie_Writer_AddNullTerminate (w : World) :
    ∃ s', Trans.Writer_AddNullTerminate w = .ok () (setWriter w s') ∧ absW s' = Writer.add [0] (absW w.writer) ∧
      s'.putbuf = w.writer.putbuf := by
  unfold Trans.Writer_AddNullTerminate
  cases he : w.writer.err with
  | some e => exact ⟨w.writer, by simp [setWriter], by simp [absW, Writer.add, he], rfl⟩
  | none => exact ⟨{ w.writer with frame := w.writer.frame ++ [0], err := none }, by simp [setWriter],
      by simp [absW, Writer.add, he], rfl⟩

theorem tie_Writer_AddBytes (b : Bytes) (w : World) :
    ∃ s' n, Trans.Writer_AddBytes b w = .ok n (setWriter w s') ∧ absW s' = Writer.add b (absW w.writer) ∧
      s'.putbuf = w.writer.putbuf := by
  unfold Trans.Writer_AddBytes
  cases he : w.writer.err with
  | some e => exact ⟨w.writer, 0, by simp [setWriter], by simp [absW, Writer.add, he], rfl⟩
  | none => exact ⟨{ w.writer with frame := w.writer.frame ++ b, err := none }, b.length, by simp [setWriter],
      by simp [absW, Writer.add, he], rfl⟩

theorem tie_Writer_AddString (b : Bytes) (w : World) :
    ∃ s' n, Trans.Writer_AddString b w = .ok n (setWriter w s') ∧ absW s' = Writer.add b (absW w.writer) ∧
      s'.putbuf = w.writer.putbuf := by
  unfold Trans.Writer_AddString
  cases he : w.writer.err with
  | some e => exact ⟨w.writer, 0, by simp [setWriter], by simp [absW, Writer.add, he], rfl⟩
  | none => exact ⟨{ w.writer with frame := w.writer.frame ++ b, err := none }, b.length, by simp [setWriter],
      by simp [absW, Writer.add, he], rfl⟩

/-- `AddInt16(i)` appends the big-endian two's-complement encoding of `i` (`uint16(i)`) -/
theorem tie_Writer_AddInt16 (i : Int) (w : World) :
    ∃ s' n, Trans.Writer_AddInt16 i w = .ok n (setWriter w s') ∧
      absW s' = Writer.add (be16 (toU16 i)) (absW w.writer) ∧ s'.putbuf = w.writer.putbuf := by
  unfold Trans.Writer_AddInt16
  cases he : w.writer.err with
  | some e => exact ⟨w.writer, 0, by simp [setWriter], by simp [absW, Writer.add, he], rfl⟩
  | none =>
    refine ⟨{ w.writer with frame := w.writer.frame ++ be16 (toU16 i), err := none }, 2, ?_, by simp [absW, Writer.add, he], rfl⟩
    simp [setWriter, makeScratch, bePutUint16, chk, u16, toU16, be16]

theorem tie_Writer_AddInt32 (i : Int) (w : World) :
    ∃ s' n, Trans.Writer_AddInt32 i w = .ok n (setWriter w s') ∧
      absW s' = Writer.add (be32 (toU32 i)) (absW w.writer) ∧ s'.putbuf = w.writer.putbuf := by
  unfold Trans.Writer_AddInt32
  cases he : w.writer.err with
  | some e => exact ⟨w.writer, 0, by simp [setWriter], by simp [absW, Writer.add, he], rfl⟩
  | none =>
    refine ⟨{ w.writer with frame := w.writer.frame ++ be32 (toU32 i), err := none }, 4, ?_, by simp [absW, Writer.add, he], rfl⟩
    simp [setWriter, makeScratch, bePutUint32, chk, u32, toU32, be32]

/-- `End` with the latch set: nothing is written, the error is returned, the frame is reset -/
theorem tie_Writer_End_err (e : Err) (w : World) (he : w.writer.err = some e) :
    Trans.Writer_End w = .ok (some e) (setWriter w { w.writer with frame := [], err := none }) ∧
    Writer.finish (absW w.writer) = some (none, (absW w.writer).reset) := by
  constructor
  · unfold Trans.Writer_End Trans.Writer_Error
    simp [Out.bind, he, tie_Writer_Reset, setWriter]
  · simp [Writer.finish, absW, he]

/-- `End` of a started frame: bytes 1–4 are back-patched with `len − 1` and the frame goes to the
    connection in ONE `Write` — exactly the bytes `Writer.finish` computes; then the frame is reset -/
theorem tie_Writer_End_ok (w : World) (t p1 p2 p3 p4 : UInt8) (body : Bytes)
    (hf : w.writer.frame = t :: p1 :: p2 :: p3 :: p4 :: body) (he : w.writer.err = none)
    (hl : w.writer.frame.length < 4294967296) :
    ∃ out, Writer.finish (absW w.writer) = some (some out, (absW w.writer).reset) ∧
      out = t :: be32 (w.writer.frame.length - 1) ++ body ∧
      Trans.Writer_End w =
        (connWrite out (setWriter w { w.writer with frame := out })).bind fun r w' =>
          .ok r.2 (setWriter w' { w'.writer with frame := [], err := none }) := by
  refine ⟨t :: be32 (w.writer.frame.length - 1) ++ body, ?_, rfl, ?_⟩
  · simp [Writer.finish, absW, he, hf]
  · unfold Trans.Writer_End Trans.Writer_Error
    have hbl : body.length + 5 < 4294967296 := by simpa [hf] using hl
    have h1 : ¬ ((body.length : Int) + 1 + 1 + 1 + 1 + 1 < 5) := by omega
    have h2 : (u32 (i64 ((body.length : Int) + 1 + 1 + 1 + 1))).toNat = body.length + 4 := by unfold u32 i64; omega
    have h3 : ∀ x, (be32 x).length = 4 := by intro x; simp [be32]
    simp only [Out.bind, he, ne_eq, not_true_eq_false, if_false, hf]
    simp [arrSlice, chk, bePutUint32, arrPatch, tie_Writer_Reset, setWriter, h1, h2, h3, arrIndex]
    have h4 : ¬ ((4 : Int) + (body.length : Int) + 1 ≤ 0) := by omega
    cases connWrite (t :: (be32 (body.length + 4) ++ body)) _ <;> simp [h4]

end Pw.Tie
