import Pw.Props.C05
/-
  C06 — Extended Query: designated replies, one ReadyForQuery per Sync, skip on error.
  Per-message theorems about the command handlers, for every session state and every handler.
-/
namespace Pw.Props.C06
open Pw Pw.Props.C05

/-- **skip**: while a batch is being discarded, every message other than Sync and Terminate is
    dropped: no reply, no callback, no state change whatsoever -/
theorem C06_skip (h : Handlers) (t : UInt8) (s : Sess)
    (hd : s.discard = true) (h1 : t ≠ ch 'S') (h2 : t ≠ ch 'X') :
    handleCommand h t s = .cont s := by
  simp [handleCommand, hd, h1, h2]

/-- **Sync**: exactly one ReadyForQuery, and normal processing resumes -/
theorem C06_sync (h : Handlers) (s s' : Sess) (hc : handleCommand h (ch 'S') s = .cont s') :
    s'.out = .ready (ch 'I') :: s.out ∧ s'.discard = false ∧ s'.ev = s.ev := by
  have hq : handleCommand h (ch 'S') s
      = afterWrite (({ s with discard := false } : Sess).send (.ready (ch 'I'))) := by
    simp [handleCommand, ch]
  rw [hq] at hc
  cases hs : ({ s with discard := false } : Sess).send (.ready (ch 'I')) with
  | mk s1 ok =>
    rw [hs] at hc
    cases ok with
    | false => simp [afterWrite] at hc
    | true =>
      simp [afterWrite] at hc; subst hc
      obtain ⟨a, b, _, _, _, d⟩ := send_ok _ s1 _ hs
      exact ⟨a, d, b⟩

/-- **a failing message** produces exactly one ErrorResponse (no ReadyForQuery) and starts
    discarding -/
theorem C06_error_one (s s' : Sess) (e : Option Err) (hc : extendedError s e = .cont s') :
    s'.out = .error (errorBody (flatten e)) :: s.out ∧ s'.discard = true ∧ s'.ev = s.ev := by
  unfold extendedError sendError at hc
  cases hs : ({ s with discard := true } : Sess).send (.error (errorBody (flatten e))) with
  | mk s1 ok =>
    rw [hs] at hc
    cases ok with
    | false => simp [afterWrite] at hc
    | true =>
      simp [afterWrite] at hc; subst hc
      obtain ⟨a, b, _, _, _, d⟩ := send_ok _ s1 _ hs
      exact ⟨a, d, b⟩

/-- **unknown statement**: a well-formed Bind naming a statement that does not exist is
    answered by an ErrorResponse through the failing-message path — never silence, never a
    dropped connection -/
theorem C06_bind_unknown (s : Sess) (pname sname r1 r2 r3 : Bytes) (params : List Param) (rf : List Nat)
    (h1 : getString s.inp.msg = some (pname, r1)) (h2 : getString r1 = some (sname, r2))
    (h3 : decodeBindTail r2 = some (params, rf, r3)) (hu : lookup sname s.stmts = none) :
    handleBind s = extendedError (s.setMsg r3) (some (errUnknownStatement sname)) := by
  simp [handleBind, h1, h2, h3, Sess.setMsg, hu]

/-- **unknown portal**: Execute of a portal that does not exist is such an error too, and no
    statement function runs -/
theorem C06_execute_unknown (s : Sess) (name r1 r2 : Bytes) (lim : Nat)
    (h1 : getString s.inp.msg = some (name, r1)) (h2 : getU32 r1 = some (lim, r2))
    (hu : lookup name s.portals = none) :
    handleExecute s = extendedError (s.setMsg r2) (some (errUnknownPortal name)) := by
  simp [handleExecute, h1, h2, Sess.setMsg, hu]

theorem afterWrite_cont (s s1 s' : Sess) (m : BMsg) (ok : Bool)
    (hs : s.send m = (s1, ok)) (hc : afterWrite (s1, ok) = .cont s') :
    s' = s1 ∧ s1.out = m :: s.out ∧ s1.ev = s.ev ∧ s1.discard = s.discard := by
  cases ok with
  | false => simp [afterWrite] at hc
  | true =>
    simp [afterWrite] at hc
    obtain ⟨a, b, _, _, _, d⟩ := send_ok s s1 m hs
    exact ⟨hc.symm, a, b, d⟩

/-- **Parse**: ParseComplete, or the failing-message path; never a ReadyForQuery -/
theorem C06_parse_reply (h : Handlers) (s s' : Sess) (hc : handleParse h s = .cont s') :
    (s'.out = .parseComplete :: s.out ∧ s'.discard = s.discard) ∨
    (∃ e, s'.out = .error (errorBody (flatten e)) :: s.out ∧ s'.discard = true) := by
  unfold handleParse at hc
  split at hc
  · simp at hc
  · split at hc
    · simp at hc
    · split at hc
      · simp at hc
      · dsimp only at hc
        split at hc
        · right; obtain ⟨a, b, _⟩ := C06_error_one _ _ _ hc; exact ⟨_, by simpa [Sess.log, Sess.setMsg] using a, b⟩
        · right; obtain ⟨a, b, _⟩ := C06_error_one _ _ _ hc; exact ⟨_, by simpa [Sess.log, Sess.setMsg] using a, b⟩
        · left
          rename_i st _
          cases hs : Sess.send { ((s.setMsg _).log (.parse _)) with stmts := store _ { st with q := _, idx := 0 } _ } .parseComplete with
          | mk s1 ok =>
            rw [hs] at hc
            obtain ⟨rfl, a, _, d⟩ := afterWrite_cont _ _ _ _ _ hs hc
            exact ⟨by simpa [Sess.log, Sess.setMsg] using a, by simpa [Sess.log, Sess.setMsg] using d⟩
        · right; obtain ⟨a, b, _⟩ := C06_error_one _ _ _ hc; exact ⟨_, by simpa [Sess.log, Sess.setMsg] using a, b⟩

/-- **Flush** and stray COPY messages: nothing at all -/
theorem C06_flush (h : Handlers) (s : Sess) (hd : s.discard = false) :
    handleCommand h (ch 'H') s = .cont s ∧ handleCommand h (ch 'd') s = .cont s ∧
    handleCommand h (ch 'c') s = .cont s ∧ handleCommand h (ch 'f') s = .cont s := by
  refine ⟨?_, ?_, ?_, ?_⟩ <;> simp [handleCommand, hd, ch]

theorem exec_tail (p : Portal) (s0 s' : Sess) (q : Bytes) (idx : Nat)
    (hc : (match runProg (p.stmt.body p.params) { cols := p.stmt.cols, formats := p.formats }
              (s0.log (.exec q idx p.params)) with
            | (.blocked, s) => Step.stop s .waiting
            | (.panicked msg, s) => extendedError s (some (.base (ascii "unexpected panic: " ++ msg)))
            | (.done (some e), s) => extendedError s (some e)
            | (.done none, s) => .cont s) = .cont s') :
    s'.out.countP isReady = s0.out.countP isReady := by
  have hr := C05_handler_no_ready (p.stmt.body p.params) { cols := p.stmt.cols, formats := p.formats }
    (s0.log (.exec q idx p.params))
  rcases hrun : runProg (p.stmt.body p.params) { cols := p.stmt.cols, formats := p.formats }
      (s0.log (.exec q idx p.params)) with ⟨o, s2⟩
  rw [hrun] at hc hr
  simp only [Sess.log] at hr
  cases o with
  | blocked => simp at hc
  | panicked m =>
    simp only at hc
    obtain ⟨a, _⟩ := C06_error_one _ _ _ hc
    simp [a, isReady, hr]
  | done e =>
    cases e with
    | some e =>
      simp only at hc
      obtain ⟨a, _⟩ := C06_error_one _ _ _ hc
      simp [a, isReady, hr]
    | none =>
      simp only at hc
      cases hc
      exact hr

/-- **Execute**: whatever the statement function does, no ReadyForQuery is emitted -/
theorem C06_execute_no_ready (s s' : Sess) (hc : handleExecute s = .cont s') :
    s'.out.countP isReady = s.out.countP isReady := by
  unfold handleExecute at hc
  split at hc
  · simp at hc
  · split at hc
    · simp at hc
    · dsimp only at hc
      split at hc
      · obtain ⟨a, _⟩ := C06_error_one _ _ _ hc
        simp [a, Sess.setMsg, isReady]
      · have := exec_tail _ _ _ _ _ hc
        simpa [Sess.setMsg] using this

/-- non-vacuity: a pipelined batch with a failing Parse — `E`, then silence until `Z` -/
def exHandlers : Handlers :=
  { parse := (fun _ => Except.error (Err.base [120])), validate := (fun _ _ _ => Verdict.accept), mws := [], terminate := none }

def exItems : List Item :=
  [Item.msg 80 [0, 113, 0, 0, 0], Item.msg 66 [0, 0, 0, 0, 0, 0, 0, 0], Item.msg 69 [0, 0, 0, 0, 0], Item.msg 83 []]

def exSess : Sess := { inp := { L := 100, tail := Tail.wait, items := exItems } }

example : ((loop exHandlers 5 exSess).1.out.reverse.map BMsg.tag) = [69, 90] ∧
    (loop exHandlers 5 exSess).1.ev.length = 1 := by decide

end Pw.Props.C06
