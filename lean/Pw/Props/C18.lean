import Pw.Model.Heap
/-
  C18 — data handed to callbacks is never overwritten by later traffic.
-/
namespace Pw.Props.C18
open Pw.Heap

/-- the invariant: every view handed out so far lies in an allocated arena and, inside the
    CURRENT arena, entirely below the end of the current window; the window fits its arena -/
structure Inv (s : St) : Prop where
  arenas : ∀ v ∈ s.views, v.arena < s.nArenas
  below : ∀ w, s.cur = some w → ∀ v ∈ s.views, v.arena = w.arena → v.hi ≤ w.off + w.len
  fits : ∀ w, s.cur = some w → w.len ≤ w.cap ∧ w.arena < s.nArenas

theorem inv_init : Inv {} := ⟨by simp, by simp, by simp⟩

/-- **the write of the next message never touches a view handed out before**: after
    `reset(size)` the window the body is read into is disjoint from EVERY earlier view — whether
    the window reuses spare capacity behind the previous message or lives in a new arena -/
theorem C18_write_disjoint (s : St) (size : Nat) (hi : Inv s) :
    ∀ r, window (reset size s) = some r → ∀ v ∈ s.views, v.disjoint r := by
  intro r hr v hv
  unfold reset at hr
  cases hc : s.cur with
  | none =>
    simp only [hc, Option.map_none] at hr
    by_cases h0 : (0 : Nat) ≥ size
    · simp [h0, window, hc] at hr
    · simp only [h0, if_false, window, Option.map_some, Option.some.injEq] at hr
      subst hr
      left
      have := hi.arenas v hv
      simp; omega
  | some w =>
    simp only [hc, Option.map_some] at hr
    by_cases hcap : w.cap - w.len ≥ size
    · simp only [hcap, if_true, window, Option.map_some, Option.some.injEq] at hr
      subst hr
      by_cases ha : v.arena = w.arena
      · right; left
        have := hi.below w hc v hv ha
        simpa using this
      · left; simpa using ha
    · simp only [hcap, if_false, window, Option.map_some, Option.some.injEq] at hr
      subst hr
      left
      have := hi.arenas v hv
      simp; omega

theorem inv_reset (s : St) (size : Nat) (hi : Inv s) : Inv (reset size s) := by
  unfold reset
  cases hc : s.cur with
  | none =>
    simp only [Option.map_none]
    by_cases h0 : (0 : Nat) ≥ size
    · simp only [h0, if_true]
      exact ⟨hi.arenas, by simp, by simp⟩
    · simp only [h0, if_false]
      refine ⟨fun v hv => by have := hi.arenas v hv; simp; omega, ?_, ?_⟩
      · intro w hw v hv ha
        simp at hw; subst hw
        have := hi.arenas v hv
        simp at ha; omega
      · intro w hw
        simp at hw; subst hw
        simp only [granule]
        constructor
        · by_cases h : size < 4096 <;> simp [h] <;> omega
        · omega
  | some w =>
    simp only [Option.map_some]
    have hf := hi.fits w hc
    by_cases hcap : w.cap - w.len ≥ size
    · simp only [hcap, if_true]
      refine ⟨hi.arenas, ?_, ?_⟩
      · intro w' hw' v hv ha
        simp at hw'; subst hw'
        have := hi.below w hc v hv (by simpa using ha)
        simp; omega
      · intro w' hw'
        simp at hw'; subst hw'
        exact ⟨by simpa using hcap, hf.2⟩
    · simp only [hcap, if_false]
      refine ⟨fun v hv => by have := hi.arenas v hv; simp; omega, ?_, ?_⟩
      · intro w' hw' v hv ha
        simp at hw'; subst hw'
        have := hi.arenas v hv
        simp at ha; omega
      · intro w' hw'
        simp at hw'; subst hw'
        simp only [granule]
        constructor
        · by_cases h : size < 4096 <;> simp [h] <;> omega
        · omega

theorem reset_views (s : St) (size : Nat) : (reset size s).views = s.views := by
  cases hc : s.cur with
  | none => by_cases h : (0 : Nat) ≥ size <;> simp [reset, hc, h]
  | some w => by_cases h : w.cap - w.len ≥ size <;> simp [reset, hc, h]

theorem take_views (s : St) (n e : Nat) : ∀ v ∈ s.views, v ∈ (take n e s).views := by
  intro v hv
  cases hc : s.cur with
  | none => simpa [take, hc] using hv
  | some w => by_cases h : n + e ≤ w.len <;> simp [take, hc, h, hv]

theorem inv_take (s : St) (n e : Nat) (hi : Inv s) : Inv (take n e s) := by
  unfold take
  cases hc : s.cur with
  | none => simpa [hc] using hi
  | some w =>
    simp only
    have hf := hi.fits w hc
    by_cases hn : n + e ≤ w.len
    · simp only [hn, if_true]
      refine ⟨?_, ?_, ?_⟩
      · intro v hv
        simp at hv
        rcases hv with rfl | hv
        · exact hf.2
        · exact hi.arenas v hv
      · intro w' hw' v hv ha
        simp at hw'; subst hw'
        simp at hv
        rcases hv with rfl | hv
        · simp; omega
        · have := hi.below w hc v hv (by simpa using ha)
          simp; omega
      · intro w' hw'
        simp at hw'; subst hw'
        exact ⟨by simp; omega, hf.2⟩
    · simpa [hn, hc] using hi

theorem inv_step (s : St) (op : Op) (hi : Inv s) : Inv (step s op) := by
  cases op with
  | read size => exact inv_reset s size hi
  | take n e => exact inv_take s n e hi

theorem inv_run (ops : List Op) : ∀ s, Inv s → Inv (ops.foldl step s) := by
  induction ops with
  | nil => intro s h; exact h
  | cons o r ih => intro s h; exact ih _ (inv_step s o h)

/-- **C18.** For EVERY history of message reads (of any sizes: below, at and above the 4 KiB
    granule, chunks of skipped oversized messages, COPY data) and accessor calls, every view
    handed out at some point is disjoint from the memory written by every LATER read. -/
theorem C18_never_overwritten (before after : List Op) (size : Nat) :
    let s := before.foldl step {}
    let s' := after.foldl step s
    ∀ r, window (reset size s') = some r → ∀ v ∈ s.views, v.disjoint r := by
  intro s s' r hr v hv
  have hinv : Inv s' := inv_run after s (inv_run before {} inv_init)
  -- views are only ever added
  have hmono : ∀ (ops : List Op) (t : St), (∀ v ∈ t.views, v ∈ (ops.foldl step t).views) := by
    intro ops
    induction ops with
    | nil => intro t v h; exact h
    | cons o r ih =>
      intro t v h
      apply ih
      cases o with
      | read sz => simp only [step, reset_views]; exact h
      | take n e => exact take_views t n e v h
  exact C18_write_disjoint s' size hinv r hr v (hmono after s v hv)

/-- allocation: `reset` never asks `make` for more than max(size, 4096) bytes -/
theorem C18_alloc_bound (s : St) (size : Nat) :
    ∀ a ∈ (reset size s).allocs, a ∈ s.allocs ∨ a = max size granule := by
  intro a ha
  have hmax : (if size < granule then granule else size) = max size granule := by
    simp only [granule]; by_cases h : size < 4096 <;> simp [h] <;> omega
  cases hc : s.cur with
  | none =>
    by_cases h : (0 : Nat) ≥ size
    · simp [reset, hc, h] at ha; exact Or.inl ha
    · simp only [reset, hc, Option.map_none, h, if_false, List.mem_cons] at ha
      rcases ha with rfl | ha
      · exact Or.inr hmax
      · exact Or.inl ha
  | some w =>
    by_cases h : w.cap - w.len ≥ size
    · simp [reset, hc, h] at ha; exact Or.inl ha
    · simp only [reset, hc, Option.map_some, h, if_false, List.mem_cons] at ha
      rcases ha with rfl | ha
      · exact Or.inr hmax
      · exact Or.inl ha

/-- non-vacuity: sizes 10, 100, 3000, 1000, 5000 — the fourth message no longer fits behind
    the third (10+100+3000+1000 > 4096) and opens a new arena; 5000 another one -/
example :
    let s := [Op.read 10, .take 4 1, .read 100, .read 3000, .read 1000, .read 5000].foldl step {}
    s.nArenas = 3 ∧ s.cur = some { arena := 2, off := 0, len := 5000, cap := 5000 } ∧
    s.views = [{ arena := 0, lo := 0, hi := 4 }] := by decide

end Pw.Props.C18
