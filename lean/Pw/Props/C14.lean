import Pw.Props.C13
import Pw.Spec.CopyFlat
import Pw.Lemmas.Bytes
/-
  C14 — binary COPY rows decode to what was sent, however the stream is chunked.

  The reader (`binFill` / `binTake` / … / `binRead`) pulls CopyData messages on demand.  The
  theorems relate it to a decoder that works on the CONCATENATED stream, for every way of
  cutting that stream into CopyData messages.
-/
namespace Pw.Props.C14
open Pw

/-- the COPY data stream as the client sends it: CopyData messages, then CopyDone -/
def streamItems (chunks : List Bytes) (rest : List Item) : List Item :=
  chunks.map (Item.msg (ch 'd')) ++ Item.msg (ch 'c') [] :: rest

/-- what the reader state stands for: the bytes of the stream not yet decoded -/
inductive Rel : Bin → Inp → Bytes → List Item → Prop where
  | live (b : Bin) (i : Inp) (chunks : List Bytes) (rest : List Item)
      (hd : b.done = false) (hi : i.items = streamItems chunks rest) :
      Rel b i (b.pending ++ chunks.flatten) rest
  | ended (b : Bin) (i : Inp) (rest : List Item) (hd : b.done = true) (hi : i.items = rest) :
      Rel b i b.pending rest

theorem copyRead_data (i : Inp) (c : Bytes) (cs : List Bytes) (rest : List Item) (fuel : Nat)
    (hi : i.items = streamItems (c :: cs) rest) :
    copyRead (fuel + 1) i = (some (.data c), { i with items := streamItems cs rest, msg := c }) := by
  have : i.items = .msg (ch 'd') c :: streamItems cs rest := by simpa [streamItems] using hi
  exact C13.C13_data i c _ fuel this

theorem copyRead_done (i : Inp) (rest : List Item) (fuel : Nat)
    (hi : i.items = streamItems [] rest) :
    copyRead (fuel + 1) i = (some .eof, { i with items := rest, msg := [] }) := by
  have : i.items = .msg (ch 'c') [] :: rest := by simpa [streamItems] using hi
  exact C13.C13_done i [] _ fuel this

/-- **fill**: whatever the chunking, `fill n` succeeds exactly when the remaining stream has
    at least `n` bytes, it never loses or reorders a byte, and afterwards the first `n` bytes
    are buffered -/
theorem fill_spec (n : Nat) : ∀ (chunks : List Bytes) (b : Bin) (i : Inp) (rest : List Item) (fuel : Nat),
    b.done = false → i.items = streamItems chunks rest → chunks.length + 1 ≤ fuel →
    ∃ b' i', binFill n fuel b i =
        (if n ≤ (b.pending ++ chunks.flatten).length then FillRes.ok else FillRes.eof, b', i') ∧
      Rel b' i' (b.pending ++ chunks.flatten) rest ∧
      (n ≤ (b.pending ++ chunks.flatten).length → n ≤ b'.pending.length) ∧
      (¬ n ≤ (b.pending ++ chunks.flatten).length → b'.pending = b.pending ++ chunks.flatten) ∧
      b'.started = b.started ∧ b'.oids = b.oids ∧ i'.L = i.L ∧ i'.unsup = i.unsup ∧ i'.tail = i.tail := by
  intro chunks
  induction chunks with
  | nil =>
    intro b i rest fuel hd hi hf
    cases fuel with
    | zero => omega
    | succ fuel =>
      simp only [List.flatten_nil, List.append_nil]
      by_cases hn : n ≤ b.pending.length
      · refine ⟨b, i, ?_, ?_, fun _ => hn, fun h => absurd hn h, rfl, rfl, rfl, rfl, rfl⟩
        · simp [binFill, hn]
        · have := Rel.live b i [] rest hd hi
          simpa using this
      · have hn' : ¬ b.pending.length ≥ n := by omega
        refine ⟨{ b with done := true }, { i with items := rest, msg := [] }, ?_, ?_, fun h => absurd h hn, fun _ => rfl, rfl, rfl, rfl, rfl, rfl⟩
        · simp only [binFill, hn', hd, if_false, hn]
          rw [copyRead_done i rest _ hi]
          simp
        · exact Rel.ended _ _ rest rfl rfl
  | cons c cs ih =>
    intro b i rest fuel hd hi hf
    cases fuel with
    | zero => omega
    | succ fuel =>
      by_cases hn : n ≤ b.pending.length
      · have hn2 : n ≤ (b.pending ++ (c :: cs).flatten).length := by simp; omega
        refine ⟨b, i, ?_, Rel.live b i (c :: cs) rest hd hi, fun _ => hn, fun h => absurd hn2 h, rfl, rfl, rfl, rfl, rfl⟩
        rw [if_pos hn2]
        simp [binFill, hn]
      · have hn' : ¬ b.pending.length ≥ n := by omega
        have hf' : cs.length + 1 ≤ fuel := by simp at hf; omega
        obtain ⟨b', i', h1, h2, h3, h3', h4, h5, h6, h7, h8⟩ :=
          ih { pending := b.pending ++ c, started := b.started, done := false, oids := b.oids }
            { i with items := streamItems cs rest, msg := [] } rest fuel rfl rfl hf'
        refine ⟨b', i', ?_, ?_, ?_, ?_, h4, h5, h6, h7, h8⟩
        · simp only [binFill, hn', hd, if_false, Bool.false_eq_true]
          rw [copyRead_data i c cs rest _ hi]
          simp only [List.flatten_cons, List.append_assoc] at h1 ⊢
          exact h1
        · simpa [List.flatten_cons, List.append_assoc] using h2
        · simpa [List.flatten_cons, List.append_assoc] using h3
        · simpa [List.flatten_cons, List.append_assoc] using h3'

/-- what the readers leave unchanged -/
def Same (b : Bin) (i : Inp) (b' : Bin) (i' : Inp) : Prop :=
  b'.started = b.started ∧ b'.oids = b.oids ∧ i'.L = i.L ∧ i'.unsup = i.unsup ∧ i'.tail = i.tail

theorem Same.refl (b : Bin) (i : Inp) : Same b i b i := ⟨rfl, rfl, rfl, rfl, rfl⟩

theorem Same.trans {b i b1 i1 b2 i2} (h1 : Same b i b1 i1) (h2 : Same b1 i1 b2 i2) : Same b i b2 i2 :=
  ⟨h2.1.trans h1.1, h2.2.1.trans h1.2.1, h2.2.2.1.trans h1.2.2.1, h2.2.2.2.1.trans h1.2.2.2.1,
   h2.2.2.2.2.trans h1.2.2.2.2⟩

/-- `fill` in terms of the remaining stream only -/
theorem fill_rel (n : Nat) (b : Bin) (i : Inp) (V : Bytes) (rest : List Item) (hr : Rel b i V rest) :
    ∃ b' i', binFill n (binFuel i) b i = (if n ≤ V.length then FillRes.ok else FillRes.eof, b', i') ∧
      Rel b' i' V rest ∧ (n ≤ V.length → n ≤ b'.pending.length) ∧
      (¬ n ≤ V.length → b'.pending = V) ∧ Same b i b' i' := by
  cases hr with
  | live chunks _ hd hi =>
    have hf : chunks.length + 1 ≤ binFuel i := by
      simp [binFuel, hi, streamItems]; omega
    obtain ⟨b', i', h1, h2, h3, h3', h4, h5, h6, h7, h8⟩ := fill_spec n chunks b i rest (binFuel i) hd hi hf
    exact ⟨b', i', h1, h2, h3, h3', h4, h5, h6, h7, h8⟩
  | ended _ hd hi =>
    refine ⟨b, i, ?_, Rel.ended b i rest hd hi, fun h => h, fun _ => rfl, Same.refl b i⟩
    unfold binFuel binFill
    by_cases hn : n ≤ b.pending.length
    · simp [hn]
    · have : ¬ b.pending.length ≥ n := by omega
      simp [hn, this, hd]

theorem Rel.advance {b : Bin} {i : Inp} {V : Bytes} {rest : List Item} (hr : Rel b i V rest)
    (n : Nat) (hn : n ≤ b.pending.length) :
    b.pending.take n = V.take n ∧ Rel { b with pending := b.pending.drop n } i (V.drop n) rest := by
  cases hr with
  | live chunks _ hd hi =>
    constructor
    · rw [List.take_append_of_le_length hn]
    · rw [List.drop_append_of_le_length hn]
      exact Rel.live { b with pending := b.pending.drop n } i chunks rest hd hi
  | ended _ hd hi => exact ⟨rfl, Rel.ended { b with pending := b.pending.drop n } i rest hd hi⟩

open Spec in
/-- **take**: the reader's `take n` is the flat stream's `take n`, for every chunking -/
theorem take_sim (n : Nat) (b : Bin) (i : Inp) (V : Bytes) (rest : List Item) (hr : Rel b i V rest) :
    match fTake n V with
    | .ok v V' => ∃ b' i', binTake n b i = (.ok v, b', i') ∧ Rel b' i' V' rest ∧ Same b i b' i'
    | .err e => ∃ b' i', binTake n b i = (.err e, b', i')
    | .unsupported => False := by
  obtain ⟨b1, i1, h1, h2, h3, h4, h5⟩ := fill_rel n b i V rest hr
  unfold fTake binTake
  by_cases hn : n ≤ V.length
  · simp only [hn, if_true] at h1 ⊢
    rw [h1]
    obtain ⟨a, r⟩ := h2.advance n (h3 hn)
    exact ⟨_, _, by simp only [a], r, h5⟩
  · simp only [hn, if_false] at h1 ⊢
    rw [h1]
    exact ⟨_, _, rfl⟩

open Spec in
theorem takeLength_sim (b : Bin) (i : Inp) (V : Bytes) (rest : List Item) (hr : Rel b i V rest) :
    match fTakeLength i.L V with
    | .ok n V' => ∃ b' i', binTakeLength b i = (.ok n, b', i') ∧ Rel b' i' V' rest ∧ Same b i b' i'
    | .err e => ∃ b' i', binTakeLength b i = (.err e, b', i')
    | .unsupported => False := by
  have ht := take_sim 4 b i V rest hr
  unfold fTakeLength binTakeLength
  cases hf : fTake 4 V with
  | unsupported => simp [hf] at ht
  | err e =>
    rw [hf] at ht
    obtain ⟨b', i', h⟩ := ht
    simp only [h]
    exact ⟨_, _, rfl⟩
  | ok v V' =>
    rw [hf] at ht
    obtain ⟨b', i', h, hr', hs⟩ := ht
    simp only [h]
    cases hrd : rd32 v with
    | none => simp only []; exact ⟨_, _, rfl⟩
    | some p =>
      obtain ⟨m, r⟩ := p
      simp only []
      have hL : i'.L = i.L := hs.2.2.1
      rw [hL]
      by_cases hc : m ≠ 4294967295 ∧ m > i.L
      · rw [if_pos hc, if_pos hc]; exact ⟨_, _, rfl⟩
      · rw [if_neg hc, if_neg hc]; exact ⟨_, _, rfl, hr', hs⟩

open Spec in
/-- **fields**: the field loop decodes exactly what the flat decoder decodes -/
theorem fields_sim : ∀ (oids : List Nat) (b : Bin) (i : Inp) (V : Bytes) (rest : List Item), Rel b i V rest →
    match fFields i.L oids V with
    | .ok vals V' => ∃ b' i', binFields oids b i = (.ok vals, b', i') ∧ Rel b' i' V' rest ∧ Same b i b' i'
    | .err e => ∃ b' i', binFields oids b i = (.err e, b', i')
    | .unsupported => ∃ b' i', binFields oids b i = (.unsupported, b', i') := by
  intro oids
  induction oids with
  | nil => intro b i V rest hr; exact ⟨b, i, rfl, hr, Same.refl b i⟩
  | cons oid oids ih =>
    intro b i V rest hr
    have hl := takeLength_sim b i V rest hr
    unfold fFields binFields
    cases hfl : fTakeLength i.L V with
    | unsupported => simp [hfl] at hl
    | err e =>
      rw [hfl] at hl
      obtain ⟨b', i', h⟩ := hl
      simp only [h]
      exact ⟨_, _, rfl⟩
    | ok len V1 =>
      rw [hfl] at hl
      obtain ⟨b1, i1, h, hr1, hs1⟩ := hl
      simp only [h]
      have hL1 : i1.L = i.L := hs1.2.2.1
      by_cases hnull : len = 4294967295
      · simp only [hnull, if_true]
        have := ih b1 i1 V1 rest hr1
        rw [hL1] at this
        cases hff : fFields i.L oids V1 with
        | ok vs V2 =>
          rw [hff] at this
          obtain ⟨b2, i2, h2, hr2, hs2⟩ := this
          simp only [h2]
          exact ⟨_, _, rfl, hr2, hs1.trans hs2⟩
        | err e =>
          rw [hff] at this
          obtain ⟨b2, i2, h2⟩ := this
          simp only [h2]
          exact ⟨_, _, rfl⟩
        | unsupported =>
          rw [hff] at this
          obtain ⟨b2, i2, h2⟩ := this
          simp only [h2]
          exact ⟨_, _, rfl⟩
      · simp only [hnull, if_false]
        have ht := take_sim len b1 i1 V1 rest hr1
        cases hft : fTake len V1 with
        | unsupported => simp [hft] at ht
        | err e =>
          rw [hft] at ht
          obtain ⟨b2, i2, h2⟩ := ht
          simp only [h2]
          exact ⟨_, _, rfl⟩
        | ok v V2 =>
          rw [hft] at ht
          obtain ⟨b2, i2, h2, hr2, hs2⟩ := ht
          simp only [h2]
          cases hdec : decodeVal oid 1 (some v) with
          | unsupported => simp only []; exact ⟨_, _, rfl⟩
          | err => simp only []; exact ⟨_, _, rfl⟩
          | ok val =>
            simp only []
            have := ih b2 i2 V2 rest hr2
            have hL2 : i2.L = i.L := (hs1.trans hs2).2.2.1
            rw [hL2] at this
            cases hff : fFields i.L oids V2 with
            | ok vs V3 =>
              rw [hff] at this
              obtain ⟨b3, i3, h3, hr3, hs3⟩ := this
              simp only [h3]
              exact ⟨_, _, rfl, hr3, (hs1.trans hs2).trans hs3⟩
            | err e =>
              rw [hff] at this
              obtain ⟨b3, i3, h3⟩ := this
              simp only [h3]
              exact ⟨_, _, rfl⟩
            | unsupported =>
              rw [hff] at this
              obtain ⟨b3, i3, h3⟩ := this
              simp only [h3]
              exact ⟨_, _, rfl⟩

open Spec in
theorem rowBody_sim (b : Bin) (i : Inp) (V : Bytes) (rest : List Item) (hr : Rel b i V rest) :
    match fRowBody i.L b.oids V with
    | .row vals V' => ∃ b' i', binRowBody b i = (some (.row vals), b', i') ∧ Rel b' i' V' rest ∧ Same b i b' i'
    | .eof => ∃ b' i', binRowBody b i = (some .eof, b', i')
    | .err e => ∃ b' i', binRowBody b i = (some (.err e), b', i')
    | .unsupported => ∃ b' i', binRowBody b i = (some (.err .pgxDec), b', i') := by
  have ht := take_sim 2 b i V rest hr
  unfold binRowBody fRowBody
  cases hft : fTake 2 V with
  | unsupported => simp [hft] at ht
  | err e =>
    rw [hft] at ht
    obtain ⟨b2, i2, h2⟩ := ht
    simp only [h2]
    exact ⟨_, _, rfl⟩
  | ok v V1 =>
    rw [hft] at ht
    obtain ⟨b2, i2, h2, hr2, hs2⟩ := ht
    simp only [h2]
    have hoids : b2.oids = b.oids := hs2.2.1
    have hL : i2.L = i.L := hs2.2.2.1
    generalize fieldCount v = fields
    by_cases htr : fields = 65535
    · simp only [htr, if_true]
      obtain ⟨b3, i3, hf3, _, _, _, _⟩ := fill_rel 1 b2 i2 V1 rest hr2
      rw [hf3]
      by_cases hv1 : V1 = []
      · simp [hv1]
      · have : 1 ≤ V1.length := by cases V1 <;> simp_all
        simp [hv1, this]
    · simp only [htr, if_false, hoids]
      by_cases hce : ¬ fields = b.oids.length
      · simp only [ne_eq, hce, not_false_eq_true, if_true]; exact ⟨_, _, rfl⟩
      · have hce' : fields = b.oids.length := by simpa using hce
        simp only [ne_eq, hce', not_true_eq_false, if_false]
        have hfs := fields_sim b.oids b2 i2 V1 rest hr2
        rw [hL] at hfs
        cases hff : fFields i.L b.oids V1 with
        | ok vals V2 =>
          rw [hff] at hfs
          obtain ⟨b3, i3, h3, hr3, hs3⟩ := hfs
          simp only [h3]
          exact ⟨_, _, rfl, hr3, hs2.trans hs3⟩
        | err e =>
          rw [hff] at hfs
          obtain ⟨b3, i3, h3⟩ := hfs
          simp only [h3]
          exact ⟨_, _, rfl⟩
        | unsupported =>
          rw [hff] at hfs
          obtain ⟨b3, i3, h3⟩ := hfs
          simp only [h3]
          exact ⟨_, _, rfl⟩

open Spec in
/-- **one row**: for every chunking, reading a row (header already handled) returns what the
    flat decoder returns on the remaining stream: the row, end-of-data (at a row boundary or at
    the trailer), or an error — a wrong field count, a truncated field, data after the trailer -/
theorem row_sim (b : Bin) (i : Inp) (V : Bytes) (rest : List Item) (hr : Rel b i V rest) :
    match fRow i.L b.oids V with
    | .row vals V' => ∃ b' i', binRowStart b i = (some (.row vals), b', i') ∧ Rel b' i' V' rest ∧ Same b i b' i'
    | .eof => ∃ b' i', binRowStart b i = (some .eof, b', i')
    | .err e => ∃ b' i', binRowStart b i = (some (.err e), b', i')
    | .unsupported => ∃ b' i', binRowStart b i = (some (.err .pgxDec), b', i') := by
  obtain ⟨b1, i1, hf, hr1, h3, h4, hs1⟩ := fill_rel 2 b i V rest hr
  have hb := rowBody_sim b1 i1 V rest hr1
  rw [hs1.2.1, hs1.2.2.1] at hb
  unfold fRow
  by_cases hV : V = []
  · subst hV
    have : b1.pending = [] := h4 (by simp)
    unfold binRowStart
    rw [hf]
    simp [this]
  · simp only [hV, if_false]
    have hbody : binRowStart b i = binRowBody b1 i1 := by
      unfold binRowStart
      rw [hf]
      by_cases h2 : 2 ≤ V.length
      · simp [h2]
      · have hp : b1.pending = V := h4 h2
        have hne : b1.pending.isEmpty = false := by rw [hp]; cases V <;> simp_all
        simp [h2, hne]
    rw [hbody]
    generalize fRowBody i.L b.oids V = q at hb ⊢
    cases q with
    | row vals V' => obtain ⟨b', i', e, r, sm⟩ := hb; exact ⟨b', i', e, r, hs1.trans sm⟩
    | eof => exact hb
    | err e => exact hb
    | unsupported => exact hb

open Spec in
theorem headerRest_sim (b : Bin) (i : Inp) (V : Bytes) (rest : List Item) (hr : Rel b i V rest) :
    match fHeaderRest i.L V with
    | .ok _ V' => ∃ b' i', binHeaderRest b i = (.ok, b', i') ∧ Rel b' i' V' rest ∧ Same b i b' i'
    | .err e => ∃ b' i', binHeaderRest b i = (.err e, b', i')
    | .unsupported => False := by
  have ht := take_sim (copySignature.length + 4) b i V rest hr
  unfold binHeaderRest fHeaderRest
  cases hft : fTake (copySignature.length + 4) V with
  | unsupported => simp [hft] at ht
  | err e =>
    rw [hft] at ht; obtain ⟨b2, i2, h2⟩ := ht
    simp only [h2]; exact ⟨_, _, rfl⟩
  | ok v V1 =>
    rw [hft] at ht
    obtain ⟨b2, i2, h2, hr2, hs2⟩ := ht
    simp only [h2]
    have hl := takeLength_sim b2 i2 V1 rest hr2
    rw [hs2.2.2.1] at hl
    cases hfl : fTakeLength i.L V1 with
    | unsupported => simp [hfl] at hl
    | err e =>
      rw [hfl] at hl; obtain ⟨b3, i3, h3⟩ := hl
      simp only [h3]; exact ⟨_, _, rfl⟩
    | ok ext V2 =>
      rw [hfl] at hl
      obtain ⟨b3, i3, h3, hr3, hs3⟩ := hl
      simp only [h3]
      by_cases hx : ext = 4294967295
      · simp only [hx, if_true]; exact ⟨_, _, rfl⟩
      · simp only [hx, if_false]
        have ht3 := take_sim ext b3 i3 V2 rest hr3
        cases hf3 : fTake ext V2 with
        | unsupported => simp [hf3] at ht3
        | err e =>
          rw [hf3] at ht3; obtain ⟨b4, i4, h4⟩ := ht3
          simp only [h4]; exact ⟨_, _, rfl⟩
        | ok w V3 =>
          rw [hf3] at ht3
          obtain ⟨b4, i4, h4, hr4, hs4⟩ := ht3
          simp only [h4]
          exact ⟨_, _, rfl, hr4, (hs2.trans hs3).trans hs4⟩

open Spec in
/-- **header**: recognised (and skipped, extension area included) exactly when the stream
    starts with the signature — wherever the CopyData boundaries fall, e.g. a header sent in a
    message of its own or cut in the middle of the signature -/
theorem skipHeader_sim (b : Bin) (i : Inp) (V : Bytes) (rest : List Item) (hr : Rel b i V rest) :
    match fSkipHeader i.L V with
    | .ok _ V' => ∃ b' i', binSkipHeader b i = (.ok, b', i') ∧ Rel b' i' V' rest ∧ Same b i b' i'
    | .err e => ∃ b' i', binSkipHeader b i = (.err e, b', i')
    | .unsupported => False := by
  obtain ⟨b1, i1, hf, hr1, h3, h4, hs1⟩ := fill_rel copySignature.length b i V rest hr
  have hpre : b1.pending.take copySignature.length = V.take copySignature.length := by
    by_cases hn : copySignature.length ≤ V.length
    · exact (hr1.advance _ (h3 hn)).1
    · rw [h4 hn]
  have hstep : binSkipHeader b i = binHeaderCheck b1 i1 := by
    unfold binSkipHeader
    rw [hf]
    by_cases hn : copySignature.length ≤ V.length <;> simp [hn]
  rw [hstep]
  unfold binHeaderCheck fSkipHeader
  rw [hpre]
  by_cases hsig : V.take copySignature.length ≠ copySignature
  · rw [if_pos hsig, if_pos hsig]
    exact ⟨_, _, rfl, hr1, hs1⟩
  · rw [if_neg hsig, if_neg hsig]
    have hh := headerRest_sim b1 i1 V rest hr1
    rw [hs1.2.2.1] at hh
    generalize fHeaderRest i.L V = q at hh ⊢
    cases q with
    | ok u V' => obtain ⟨b', i', e, r, sm⟩ := hh; exact ⟨b', i', e, r, hs1.trans sm⟩
    | err e => exact hh
    | unsupported => exact hh

/-- the reader state a handler starts with, for a given chunking of the COPY stream -/
def startState (oids : List Nat) : Bin := { oids := oids }

open Spec in
/-- the flat decoder's first `Read`: header, then a row -/
def fFirst (L : Nat) (oids : List Nat) (V : Bytes) : FRow :=
  match fSkipHeader L V with
  | .ok _ V' => fRow L oids V'
  | .err e => .err (wrapOp "unexpected header: " e)
  | .unsupported => .unsupported

open Spec in
/-- **C14 (first Read).** For every chunking of the stream, the first `Read` (which deals with
    the optional header) returns what the flat decoder returns on the concatenated stream -/
theorem first_sim (b : Bin) (i : Inp) (V : Bytes) (rest : List Item) (hr : Rel b i V rest)
    (hst : b.started = false) :
    match fFirst i.L b.oids V with
    | .row vals V' => ∃ b' i', binRead b i = (some (.row vals), b', i') ∧ Rel b' i' V' rest ∧
        b'.started = true ∧ b'.oids = b.oids ∧ i'.L = i.L
    | .eof => ∃ b' i', binRead b i = (some .eof, b', i')
    | .err e => ∃ b' i', binRead b i = (some (.err e), b', i')
    | .unsupported => ∃ b' i', binRead b i = (some (.err .pgxDec), b', i') := by
  have hr0 : Rel { b with started := true } i V rest := by
    cases hr with
    | live chunks _ hd hi => exact Rel.live { b with started := true } i chunks rest hd hi
    | ended _ hd hi => exact Rel.ended { b with started := true } i rest hd hi
  have hh := skipHeader_sim { b with started := true } i V rest hr0
  unfold binRead fFirst
  simp only [hst, Bool.false_eq_true, if_false]
  cases hfs : fSkipHeader i.L V with
  | unsupported => simp [hfs] at hh
  | err e =>
    rw [hfs] at hh; obtain ⟨b1, i1, h1⟩ := hh
    simp only [h1]; exact ⟨_, _, rfl⟩
  | ok u V1 =>
    rw [hfs] at hh
    obtain ⟨b1, i1, h1, hr1, hs1⟩ := hh
    simp only [h1]
    have hrow := row_sim b1 i1 V1 rest hr1
    rw [hs1.2.1, hs1.2.2.1] at hrow
    generalize fRow i.L b.oids V1 = q at hrow ⊢
    cases q with
    | row vals V' =>
      obtain ⟨b', i', e, r, sm⟩ := hrow
      exact ⟨b', i', e, r, by rw [sm.1, hs1.1], by rw [sm.2.1, hs1.2.1], by rw [sm.2.2.1, hs1.2.2.1]⟩
    | eof => exact hrow
    | err e => exact hrow
    | unsupported => exact hrow

open Spec in
/-- **C14 (later Reads).** -/
theorem later_sim (b : Bin) (i : Inp) (V : Bytes) (rest : List Item) (hr : Rel b i V rest)
    (hst : b.started = true) :
    match fRow i.L b.oids V with
    | .row vals V' => ∃ b' i', binRead b i = (some (.row vals), b', i') ∧ Rel b' i' V' rest ∧
        b'.started = true ∧ b'.oids = b.oids ∧ i'.L = i.L
    | .eof => ∃ b' i', binRead b i = (some .eof, b', i')
    | .err e => ∃ b' i', binRead b i = (some (.err e), b', i')
    | .unsupported => ∃ b' i', binRead b i = (some (.err .pgxDec), b', i') := by
  have hrow := row_sim b i V rest hr
  have : binRead b i = binRowStart b i := by simp [binRead, hst]
  rw [this]
  generalize fRow i.L b.oids V = q at hrow ⊢
  cases q with
  | row vals V' =>
    obtain ⟨b', i', e, r, sm⟩ := hrow
    exact ⟨b', i', e, r, by rw [sm.1, hst], sm.2.1, sm.2.2.1⟩
  | eof => exact hrow
  | err e => exact hrow
  | unsupported => exact hrow

/-- **C14 (chunking independence).** Two reader states that stand for the SAME remaining
    stream — reached through any two ways of cutting it into CopyData messages — give the same
    `Read` result: the same row values, end-of-data, or error. (And after a row both again
    stand for one and the same remaining stream, by `first_sim` / `later_sim`.) -/
theorem C14_chunking (b1 b2 : Bin) (i1 i2 : Inp) (V : Bytes) (rest1 rest2 : List Item)
    (h1 : Rel b1 i1 V rest1) (h2 : Rel b2 i2 V rest2)
    (hst : b1.started = b2.started) (ho : b1.oids = b2.oids) (hL : i1.L = i2.L) :
    (binRead b1 i1).1 = (binRead b2 i2).1 := by
  cases hs : b1.started with
  | true =>
    have a1 := later_sim b1 i1 V rest1 h1 hs
    have a2 := later_sim b2 i2 V rest2 h2 (by rw [← hst]; exact hs)
    rw [← ho, ← hL] at a2
    generalize Spec.fRow i1.L b1.oids V = q at a1 a2
    cases q with
    | row vals V' => obtain ⟨_, _, e1, _⟩ := a1; obtain ⟨_, _, e2, _⟩ := a2; rw [e1, e2]
    | eof => obtain ⟨_, _, e1⟩ := a1; obtain ⟨_, _, e2⟩ := a2; rw [e1, e2]
    | err e => obtain ⟨_, _, e1⟩ := a1; obtain ⟨_, _, e2⟩ := a2; rw [e1, e2]
    | unsupported => obtain ⟨_, _, e1⟩ := a1; obtain ⟨_, _, e2⟩ := a2; rw [e1, e2]
  | false =>
    have a1 := first_sim b1 i1 V rest1 h1 hs
    have a2 := first_sim b2 i2 V rest2 h2 (by rw [← hst]; exact hs)
    rw [← ho, ← hL] at a2
    generalize fFirst i1.L b1.oids V = q at a1 a2
    cases q with
    | row vals V' => obtain ⟨_, _, e1, _⟩ := a1; obtain ⟨_, _, e2, _⟩ := a2; rw [e1, e2]
    | eof => obtain ⟨_, _, e1⟩ := a1; obtain ⟨_, _, e2⟩ := a2; rw [e1, e2]
    | err e => obtain ⟨_, _, e1⟩ := a1; obtain ⟨_, _, e2⟩ := a2; rw [e1, e2]
    | unsupported => obtain ⟨_, _, e1⟩ := a1; obtain ⟨_, _, e2⟩ := a2; rw [e1, e2]

open Spec in
/-- **reject**: a row whose field count differs from the declared columns is an error —
    never a row, never a crash (the decoder is total; no panic outcome exists in its type) -/
theorem C14_count_mismatch (L : Nat) (oids : List Nat) (n : Nat) (rest : Bytes)
    (hn : n < 65536) (h1 : n ≠ 65535) (h2 : n ≠ oids.length) :
    fRow L oids (be16 n ++ rest) = .err (.lib (errFieldCount oids.length n)) := by
  have hne : be16 n ++ rest ≠ [] := by simp [be16]
  have htk : List.take 2 (be16 n ++ rest) = be16 n := by simp [be16]
  have hfc : fieldCount (be16 n) = n := by
    have := rd16_be16 n hn []
    simp only [List.append_nil] at this
    simp [fieldCount, this]
  have hlen : 2 ≤ (be16 n ++ rest).length := by simp [be16]
  simp only [fRow, hne, if_false, fRowBody, fTake, hlen, if_true, htk, hfc, h1, ne_eq, h2,
    not_false_eq_true]

open Spec in
/-- a stream that ends inside a row is an error (unexpected EOF), not a fabricated row -/
theorem C14_truncated_count (L : Nat) (oids : List Nat) (x : UInt8) :
    fRow L oids [x] = .err (.lib errUnexpectedEOF) := by
  simp [fRow, fRowBody, fTake]

/-- non-vacuity: one int4 column, the row (7) after a 19-byte header, the trailer, sent (A) in
    one CopyData and (B) cut inside the signature, inside the length word and inside the value:
    both chunkings decode to the same first row -/
def exStream : Bytes :=
  copySignature ++ [0, 0, 0, 0, 0, 0, 0, 0] ++ [0, 1, 0, 0, 0, 4, 0, 0, 0, 7] ++ [255, 255]

def exInp (chunks : List Bytes) : Inp := { L := 100, tail := .wait, items := streamItems chunks [] }

set_option maxRecDepth 100000 in
example : (binRead (startState [23]) (exInp [exStream])).1 = some (.row [.int 7]) := by decide +kernel

set_option maxRecDepth 100000 in
example : (binRead (startState [23])
    (exInp [exStream.take 5, (exStream.drop 5).take 17, (exStream.drop 22).take 5, exStream.drop 27])).1
      = some (.row [.int 7]) := by decide +kernel +kernel

end Pw.Props.C14
