import Pw.Props.C06
import Pw.Props.C07
import Pw.Spec.Ext
/-
  C06 — refinement: the command loop of the model refines the reference machine `ExtSpec`
  (Spec/Ext.lean), the same machine that is replayed as the oracle over the implementation's
  per-message reply groups.
-/
namespace Pw
open Pw.Spec Pw.Props.C05

/-- the type letter of a backend message, as the oracle sees it on the wire -/
def tagChar (m : BMsg) : Char := Char.ofNat m.tag.toNat

def isDCG (m : BMsg) : Bool := match m with | .dataRow _ | .complete _ | .copyIn _ _ => true | _ => false

/-- what a run adds to the output and to the callback trace -/
structure Adds (s s' : Sess) (new : List BMsg) (nev : List Event) : Prop where
  out : s'.out = new ++ s.out
  ev : s'.ev = nev ++ s.ev
  wl : s.wleft = none → s'.wleft = none
  stmts : s'.stmts = s.stmts
  portals : s'.portals = s.portals
  discard : s'.discard = s.discard

def isCallback : Event → Bool | .parse _ => true | .exec _ _ _ => true | _ => false

theorem Adds.refl (s : Sess) : Adds s s [] [] := ⟨rfl, rfl, id, rfl, rfl, rfl⟩

theorem Adds.trans {a b c : Sess} {n1 n2 : List BMsg} {e1 e2 : List Event}
    (h1 : Adds a b n1 e1) (h2 : Adds b c n2 e2) : Adds a c (n2 ++ n1) (e2 ++ e1) :=
  ⟨by rw [h2.out, h1.out, List.append_assoc], by rw [h2.ev, h1.ev, List.append_assoc], fun h => h2.wl (h1.wl h),
   h2.stmts.trans h1.stmts, h2.portals.trans h1.portals, h2.discard.trans h1.discard⟩

theorem send_adds (s : Sess) (m : BMsg) (hw : s.wleft = none) :
    s.send m = ({ s with out := m :: s.out }, true) := by
  unfold Sess.send; rw [hw]

theorem Adds.log (s : Sess) (e : Event) : Adds s (s.log e) [] [e] := ⟨rfl, rfl, id, rfl, rfl, rfl⟩

theorem dwRow_adds (d : DW) (s : Sess) (vals : List Val) (hw : s.wleft = none) :
    ∃ new, Adds s (dwRow d s vals).2.2 new [] ∧ (∀ m ∈ new, isDCG m = true) := by
  unfold dwRow
  split
  · exact ⟨[], Adds.refl s, by simp⟩
  · split
    · exact ⟨[], Adds.refl s, by simp⟩
    · split
      · exact ⟨[], ⟨rfl, rfl, id, rfl, rfl, rfl⟩, by simp⟩
      · exact ⟨[], Adds.refl s, by simp⟩
      · exact ⟨[], Adds.refl s, by simp⟩
      · rename_i fields _
        rw [send_adds s _ hw]
        exact ⟨[.dataRow fields], ⟨rfl, rfl, id, rfl, rfl, rfl⟩, by simp [isDCG]⟩

theorem dwComplete_adds (d : DW) (s : Sess) (tag : Bytes) (hw : s.wleft = none) :
    ∃ new, Adds s (dwComplete d s tag).2.2 new [] ∧ (∀ m ∈ new, isDCG m = true) := by
  unfold dwComplete
  split
  · exact ⟨[], Adds.refl s, by simp⟩
  · dsimp only
    rw [send_adds s _ hw]
    exact ⟨[.complete tag], ⟨rfl, rfl, id, rfl, rfl, rfl⟩, by simp [isDCG]⟩

theorem dwCopyIn_adds (d : DW) (s : Sess) (fmt : Nat) (hw : s.wleft = none) :
    ∃ new, Adds s (dwCopyIn d s fmt).2.2 new [] ∧ (∀ m ∈ new, isDCG m = true) := by
  unfold dwCopyIn
  split
  · exact ⟨[], Adds.refl s, by simp⟩
  · split
    · exact ⟨[], Adds.refl s, by simp⟩
    · rw [send_adds s _ hw]
      exact ⟨[.copyIn (fmt % 256) d.cols.length], ⟨rfl, rfl, id, rfl, rfl, rfl⟩, by simp [isDCG]⟩

/-- composition used below: one operation with `Adds s s1 n1 []`, one logged observation that is
    not a callback, then the rest of the program -/
theorem shape_step {s s1 s2 : Sess} {n1 new : List BMsg} {nev : List Event} (e : Event)
    (h1 : Adds s s1 n1 []) (hn1 : ∀ m ∈ n1, isDCG m = true) (he : isCallback e = false)
    (h2 : Adds (s1.log e) s2 new nev) (hn : ∀ m ∈ new, isDCG m = true) (hc : nev.countP isCallback = 0) :
    ∃ new' nev', Adds s s2 new' nev' ∧ (∀ m ∈ new', isDCG m = true) ∧ nev'.countP isCallback = 0 := by
  refine ⟨new ++ n1, nev ++ [e], ?_, ?_, ?_⟩
  · have := (h1.trans (Adds.log s1 e)).trans h2
    simpa using this
  · intro m hm; simp at hm; rcases hm with hm | hm; exact hn m hm; exact hn1 m hm
  · simp [List.countP_append, hc, he]

/-- a handler program adds only DataRow / CommandComplete / CopyInResponse messages and no
    parser / statement-function events of its own -/
theorem runProg_shape : ∀ (p : Prog) (d : DW) (s : Sess), s.wleft = none →
    ∃ new nev, Adds s (runProg p d s).2 new nev ∧ (∀ m ∈ new, isDCG m = true) ∧ nev.countP isCallback = 0 := by
  intro p
  induction p with
  | ret e => intro d s _; exact ⟨[], [], Adds.refl s, by simp, rfl⟩
  | note n k ih =>
    intro d s hw
    simp only [runProg]
    obtain ⟨new, nev, a, b, c⟩ := ih d (s.log (.note n)) hw
    exact shape_step (.note n) (Adds.refl s) (by simp) rfl a b c
  | row vals k ih =>
    intro d s hw
    simp only [runProg]
    obtain ⟨n1, a1, b1⟩ := dwRow_adds d s vals hw
    rcases hr : dwRow d s vals with ⟨ro, d', s'⟩
    rw [hr] at a1
    cases ro with
    | panic m => exact ⟨n1, [], a1, b1, rfl⟩
    | res r =>
      simp only []
      obtain ⟨new, nev, a, b, c⟩ := ih r d' (s'.log (.rowRes r)) (a1.wl hw)
      exact shape_step (.rowRes r) a1 b1 rfl a b c
  | complete tag k ih =>
    intro d s hw
    simp only [runProg]
    obtain ⟨n1, a1, b1⟩ := dwComplete_adds d s tag hw
    rcases hr : dwComplete d s tag with ⟨r, d', s'⟩
    rw [hr] at a1
    obtain ⟨new, nev, a, b, c⟩ := ih r d' (s'.log (.completeRes r)) (a1.wl hw)
    exact shape_step (.completeRes r) a1 b1 rfl a b c
  | empty k ih =>
    intro d s hw
    simp only [runProg]
    rcases hr : dwEmpty d with ⟨r, d'⟩
    obtain ⟨new, nev, a, b, c⟩ := ih r d' (s.log (.emptyRes r)) hw
    exact shape_step (.emptyRes r) (Adds.refl s) (by simp) rfl a b c
  | written k ih =>
    intro d s hw
    simp only [runProg]
    obtain ⟨new, nev, a, b, c⟩ := ih d.written d (s.log (.written d.written)) hw
    exact shape_step (.written d.written) (Adds.refl s) (by simp) rfl a b c
  | copyIn fmt k ih =>
    intro d s hw
    simp only [runProg]
    obtain ⟨n1, a1, b1⟩ := dwCopyIn_adds d s fmt hw
    rcases hr : dwCopyIn d s fmt with ⟨r, d', s'⟩
    rw [hr] at a1
    obtain ⟨new, nev, a, b, c⟩ := ih r d' (s'.log (.copyInRes r)) (a1.wl hw)
    exact shape_step (.copyInRes r) a1 b1 rfl a b c
  | copyRead k ih =>
    intro d s hw
    simp only [runProg]
    split
    · obtain ⟨new, nev, a, b, c⟩ := ih (.err errNoReader) d (s.log (.copyRes (.err errNoReader))) hw
      exact shape_step _ (Adds.refl s) (by simp) rfl a b c
    · split
      · exact ⟨[], [], ⟨rfl, rfl, id, rfl, rfl, rfl⟩, by simp, rfl⟩
      · rename_i r i _
        obtain ⟨new, nev, a, b, c⟩ := ih r d (({ s with inp := i } : Sess).log (.copyRes r)) hw
        exact shape_step (.copyRes r) (⟨rfl, rfl, id, rfl, rfl, rfl⟩ : Adds s { s with inp := i } [] []) (by simp) rfl a b c
  | binNew k ih =>
    intro d s hw
    simp only [runProg]
    split
    · obtain ⟨new, nev, a, b, c⟩ := ih (some errNoReader) d (s.log (.binNewRes (some errNoReader))) hw
      exact shape_step _ (Adds.refl s) (by simp) rfl a b c
    · split
      · obtain ⟨new, nev, a, b, c⟩ := ih none { d with bin := some { oids := d.cols.map (·.oid) } } (s.log (.binNewRes none)) hw
        exact shape_step _ (Adds.refl s) (by simp) rfl a b c
      · obtain ⟨new, nev, a, b, c⟩ := ih none { d with bin := some { oids := d.cols.map (·.oid) } } (s.markUnsup.log (.binNewRes none)) hw
        exact shape_step (.binNewRes none) (⟨rfl, rfl, id, rfl, rfl, rfl⟩ : Adds s s.markUnsup [] []) (by simp) rfl a b c
  | binRead k ih =>
    intro d s hw
    simp only [runProg]
    split
    · obtain ⟨new, nev, a, b, c⟩ := ih (.err errNoReader) d (s.log (.binRes (.err errNoReader))) hw
      exact shape_step _ (Adds.refl s) (by simp) rfl a b c
    · split
      · exact ⟨[], [], ⟨rfl, rfl, id, rfl, rfl, rfl⟩, by simp, rfl⟩
      · rename_i b _ r b' i _
        obtain ⟨new, nev, a, b2, c⟩ := ih r { d with bin := some b' } (({ s with inp := i } : Sess).log (.binRes r)) hw
        exact shape_step (.binRes r) (⟨rfl, rfl, id, rfl, rfl, rfl⟩ : Adds s { s with inp := i } [] []) (by simp) rfl a b2 c

/-! ### the abstraction relation and the reply of one message -/

/-- the parser predicate the specification is instantiated with -/
def oneOf (h : Handlers) (q : Bytes) : Bool := match h.parse q with | .ok [_] => true | _ => false

def Rel (s : Sess) (st : ExtState) : Prop :=
  st.skipping = s.discard ∧ st.closed = false ∧
  (∀ n, st.stmts.contains n = (lookup n s.stmts).isSome) ∧
  (∀ n, st.portals.contains n = (lookup n s.portals).isSome)

/-- oldest first, as type letters -/
def replyOf (new : List BMsg) : List Char := new.reverse.map tagChar

theorem contains_store {α} (l : List Bytes) (m : List (Bytes × α)) (name : Bytes) (v : α)
    (h : ∀ n, l.contains n = (lookup n m).isSome) :
    ∀ n, (name :: rm name l).contains n = (lookup n (store name v m)).isSome := by
  intro n
  by_cases hn : n = name
  · subst hn; simp [Pw.Props.C07.lookup_store_same]
  · rw [Pw.Props.C07.lookup_store_other name n v m hn, ← h n]
    have : ¬ (name = n) := fun e => hn e.symm
    simp [rm, List.contains_eq_mem, List.mem_filter, hn, this]

theorem contains_remove {α} (l : List Bytes) (m : List (Bytes × α)) (name : Bytes)
    (h : ∀ n, l.contains n = (lookup n m).isSome) :
    ∀ n, (rm name l).contains n = (lookup n (remove name m)).isSome := by
  intro n
  by_cases hn : n = name
  · subst hn; simp [Pw.Props.C07.lookup_remove_same, rm, List.contains_eq_mem, List.mem_filter]
  · rw [Pw.Props.C07.lookup_remove_other name n m hn, ← h n]
    simp [rm, List.contains_eq_mem, List.mem_filter, hn]

theorem afterWrite_adds (s s' : Sess) (m : BMsg) (hc : afterWrite (s.send m) = .cont s') (hw : s.wleft = none) :
    s' = { s with out := m :: s.out } := by
  rw [send_adds s m hw] at hc
  simp [afterWrite] at hc
  exact hc.symm

theorem extendedError_adds (s s' : Sess) (e : Option Err) (hc : extendedError s e = .cont s') (hw : s.wleft = none) :
    s' = { s with discard := true, out := .error (errorBody (flatten e)) :: s.out } := by
  unfold extendedError sendError at hc
  exact afterWrite_adds { s with discard := true } s' _ hc hw

theorem errorCode_adds (s s' : Sess) (e : Option Err) (hc : errorCode s e = .cont s') (hw : s.wleft = none) :
    s' = { s with out := .ready (ch 'I') :: .error (errorBody (flatten e)) :: s.out } := by
  unfold errorCode sendError at hc
  rw [send_adds s _ hw] at hc
  simp only at hc
  exact afterWrite_adds { s with out := .error (errorBody (flatten e)) :: s.out } s' _ hc hw

theorem tag_error (b : Bytes) : tagChar (.error b) = 'E' := by simp [tagChar, BMsg.tag, ch]
theorem tag_ready (x : UInt8) : tagChar (.ready x) = 'Z' := by simp [tagChar, BMsg.tag, ch]
theorem tag_parseComplete : tagChar .parseComplete = '1' := by simp [tagChar, BMsg.tag, ch]
theorem tag_bindComplete : tagChar .bindComplete = '2' := by simp [tagChar, BMsg.tag, ch]
theorem tag_closeComplete : tagChar .closeComplete = '3' := by simp [tagChar, BMsg.tag, ch]
theorem tag_noData : tagChar .noData = 'n' := by simp [tagChar, BMsg.tag, ch]
theorem tag_paramDesc (o : List Nat) : tagChar (.paramDesc o) = 't' := by simp [tagChar, BMsg.tag, ch]
theorem tag_rowDesc (c : List (ColDesc × Nat)) : tagChar (.rowDesc c) = 'T' := by simp [tagChar, BMsg.tag, ch]
theorem tag_emptyQuery : tagChar .emptyQuery = 'I' := by simp [tagChar, BMsg.tag, ch]

theorem tag_dcg (m : BMsg) (h : isDCG m = true) : tagChar m = 'D' ∨ tagChar m = 'C' ∨ tagChar m = 'G' := by
  cases m <;> simp [isDCG] at h
  · left; simp [tagChar, BMsg.tag, ch]
  · right; left; simp [tagChar, BMsg.tag, ch]
  · right; right; simp [tagChar, BMsg.tag, ch]

/-- result of one refinement step -/
def Refines (h : Handlers) (L : Nat) (t : UInt8) (s s' : Sess) (st : ExtState) : Prop :=
  ∃ new nev st', s'.out = new ++ s.out ∧ s'.ev = nev ++ s.ev ∧ s'.wleft = none ∧
    extStepG (oneOf h) L st (.msg t s.inp.msg) (replyOf new) (nev.countP isCallback) = .ok st' ∧ Rel s' st'

theorem ref_skip (h : Handlers) (L : Nat) (t : UInt8) (s : Sess) (st : ExtState) (hw : s.wleft = none) (hr : Rel s st)
    (hd : s.discard = true) (h1 : t ≠ ch 'S') (h2 : t ≠ ch 'X') : Refines h L t s s st := by
  refine ⟨[], [], st, rfl, rfl, hw, ?_, hr⟩
  have hs : st.skipping = true := by rw [hr.1, hd]
  simp [extStepG, hr.2.1, h1, h2, hs, replyOf]

theorem ref_sync (h : Handlers) (L : Nat) (s s' : Sess) (st : ExtState) (hw : s.wleft = none) (hr : Rel s st)
    (hc : afterWrite (({ s with discard := false } : Sess).send (.ready (ch 'I'))) = .cont s') :
    Refines h L (ch 'S') s s' st := by
  have := afterWrite_adds { s with discard := false } s' _ hc hw
  subst this
  refine ⟨[.ready (ch 'I')], [], { st with skipping := false }, rfl, rfl, hw, ?_, ⟨rfl, hr.2.1, hr.2.2.1, hr.2.2.2⟩⟩
  simp [extStepG, hr.2.1, replyOf, tag_ready, ch]

theorem ref_noop (h : Handlers) (L : Nat) (t : UInt8) (s : Sess) (st : ExtState) (hw : s.wleft = none) (hr : Rel s st)
    (hd : s.discard = false) (ht : t = ch 'H' ∨ t = ch 'd' ∨ t = ch 'c' ∨ t = ch 'f') : Refines h L t s s st := by
  refine ⟨[], [], st, rfl, rfl, hw, ?_, hr⟩
  have hs : st.skipping = false := by rw [hr.1, hd]
  rcases ht with rfl | rfl | rfl | rfl <;> simp [extStepG, hr.2.1, hs, replyOf, ch]

theorem ref_unknown (h : Handlers) (L : Nat) (t : UInt8) (s s' : Sess) (st : ExtState) (hw : s.wleft = none) (hr : Rel s st)
    (hd : s.discard = false)
    (hn : t ≠ ch 'X' ∧ t ≠ ch 'S' ∧ t ≠ ch 'H' ∧ t ≠ ch 'd' ∧ t ≠ ch 'c' ∧ t ≠ ch 'f' ∧ t ≠ ch 'Q' ∧ t ≠ ch 'P' ∧
      t ≠ ch 'B' ∧ t ≠ ch 'D' ∧ t ≠ ch 'C' ∧ t ≠ ch 'E')
    (hc : errorCode s (some (errUnimplemented t)) = .cont s') : Refines h L t s s' st := by
  have := errorCode_adds s s' _ hc hw
  subst this
  have hs : st.skipping = false := by rw [hr.1, hd]
  refine ⟨[.ready (ch 'I'), .error (errorBody (flatten (some (errUnimplemented t))))], [], st, rfl, rfl, hw, ?_,
    ⟨hr.1, hr.2.1, hr.2.2.1, hr.2.2.2⟩⟩
  obtain ⟨a1, a2, a3, a4, a5, a6, a7, a8, a9, a10, a11, a12⟩ := hn
  simp [extStepG, hr.2.1, hs, replyOf, tag_ready, tag_error, a1, a2, a3, a4, a5, a6, a7, a8, a9, a10, a11, a12]

theorem ref_parse (h : Handlers) (L : Nat) (s s' : Sess) (st : ExtState) (hw : s.wleft = none) (hr : Rel s st)
    (hd : s.discard = false) (hc : handleParse h s = .cont s') : Refines h L (ch 'P') s s' st := by
  have hs : st.skipping = false := by rw [hr.1, hd]
  unfold handleParse at hc
  cases hg : getString s.inp.msg with
  | none => simp [hg] at hc
  | some p =>
    obtain ⟨name, r1⟩ := p
    simp only [hg] at hc
    cases hg2 : getString r1 with
    | none => simp [hg2] at hc
    | some p2 =>
      obtain ⟨q, r2⟩ := p2
      simp only [hg2] at hc
      cases hg3 : getU16 r2 with
      | none => simp [hg3] at hc
      | some p3 =>
        obtain ⟨np, r3⟩ := p3
        simp only [hg3] at hc
        have hspec : ∀ reply evs, extStepG (oneOf h) L st (.msg (ch 'P') s.inp.msg) reply evs =
            (if oneOf h q then (if reply = ['1'] then .ok { st with stmts := name :: rm name st.stmts } else .error "parse-reply")
             else (if reply = ['E'] then .ok { st with skipping := true } else .error "parse-error-reply")) := by
          intro reply evs
          have c1 : cstr s.inp.msg = some (name, r1) := hg
          have c2 : cstr r1 = some (q, r2) := hg2
          simp [extStepG, hr.2.1, hs, ch, c1, c2]
        have errCase : ∀ e, oneOf h q = false →
            extendedError ((s.setMsg r3).log (.parse q)) (some e) = .cont s' → Refines h L (ch 'P') s s' st := by
          intro e ho hc
          have := extendedError_adds _ s' _ hc hw
          subst this
          refine ⟨[.error (errorBody (flatten (some e)))], [.parse q], { st with skipping := true }, rfl, rfl, hw, ?_,
            ⟨rfl, hr.2.1, hr.2.2.1, hr.2.2.2⟩⟩
          rw [hspec]; simp [ho, replyOf, tag_error]
        cases hp : h.parse q with
        | error e =>
          simp only [hp] at hc
          exact errCase e (by simp [oneOf, hp]) hc
        | ok sts =>
          simp only [hp] at hc
          match sts, hp, hc with
          | [], hp, hc => exact errCase _ (by simp [oneOf, hp]) hc
          | [stm], hp, hc =>
            have := afterWrite_adds _ s' _ hc hw
            subst this
            refine ⟨[.parseComplete], [.parse q], { st with stmts := name :: rm name st.stmts }, rfl, rfl, hw, ?_,
              ⟨hr.1, hr.2.1, contains_store _ _ name _ hr.2.2.1, hr.2.2.2⟩⟩
            rw [hspec]; simp [oneOf, hp, replyOf, tag_parseComplete]
          | _ :: _ :: _, hp, hc => exact errCase _ (by simp [oneOf, hp]) hc

theorem ref_bind (h : Handlers) (L : Nat) (s s' : Sess) (st : ExtState) (hw : s.wleft = none) (hr : Rel s st)
    (hd : s.discard = false) (hc : handleBind s = .cont s') : Refines h L (ch 'B') s s' st := by
  have hs : st.skipping = false := by rw [hr.1, hd]
  unfold handleBind at hc
  cases hg : getString s.inp.msg with
  | none => simp [hg] at hc
  | some p =>
    obtain ⟨pname, r1⟩ := p
    simp only [hg] at hc
    cases hg2 : getString r1 with
    | none => simp [hg2] at hc
    | some p2 =>
      obtain ⟨sname, r2⟩ := p2
      simp only [hg2] at hc
      cases hdec : decodeBindTail r2 with
      | none => simp [hdec] at hc
      | some p3 =>
        obtain ⟨params, rfmts, r3⟩ := p3
        simp only [hdec] at hc
        have hspec : ∀ reply evs, extStepG (oneOf h) L st (.msg (ch 'B') s.inp.msg) reply evs =
            (if st.stmts.contains sname then (if reply = ['2'] then .ok { st with portals := pname :: rm pname st.portals } else .error "bind-reply")
             else (if reply = ['E'] then .ok { st with skipping := true } else .error "bind-unknown-statement-reply")) := by
          intro reply evs
          have c1 : cstr s.inp.msg = some (pname, r1) := hg
          have c2 : cstr r1 = some (sname, r2) := hg2
          simp [extStepG, hr.2.1, hs, ch, c1, c2]
        cases hl : lookup sname (s.setMsg r3).stmts with
        | none =>
          simp only [hl] at hc
          have := extendedError_adds _ s' _ hc hw
          subst this
          have hcnt : st.stmts.contains sname = false := by rw [hr.2.2.1]; simpa [Sess.setMsg] using congrArg Option.isSome hl
          refine ⟨[.error (errorBody (flatten (some (errUnknownStatement sname))))], [], { st with skipping := true }, rfl, rfl, hw, ?_,
            ⟨rfl, hr.2.1, hr.2.2.1, hr.2.2.2⟩⟩
          have hm : sname ∉ st.stmts := by simpa using hcnt
          rw [hspec]; simp [hm, replyOf, tag_error]
        | some stm =>
          simp only [hl] at hc
          have := afterWrite_adds _ s' _ hc hw
          subst this
          have hcnt : st.stmts.contains sname = true := by rw [hr.2.2.1]; simpa [Sess.setMsg] using congrArg Option.isSome hl
          refine ⟨[.bindComplete], [], { st with portals := pname :: rm pname st.portals }, rfl, rfl, hw, ?_,
            ⟨hr.1, hr.2.1, hr.2.2.1, contains_store _ _ pname _ hr.2.2.2⟩⟩
          have hm : sname ∈ st.stmts := by simpa using hcnt
          rw [hspec]; simp [hm, replyOf, tag_bindComplete]

theorem getBytes1 (m d r : Bytes) (h : getBytes 1 m = some (d, r)) : ∃ k, m = k :: r ∧ d = [k] := by
  unfold getBytes at h
  split at h
  · simp at h
  · simp at h
    obtain ⟨rfl, rfl⟩ := h
    cases m with
    | nil => simp at *
    | cons k r => exact ⟨k, by simp, by simp⟩

theorem describeCols_adds (s s' : Sess) (f : List Nat) (cols : List ColDesc)
    (hc : afterWrite (describeCols s f cols) = .cont s') (hw : s.wleft = none) :
    ∃ m, s' = { s with out := m :: s.out } ∧ (tagChar m = 'n' ∨ tagChar m = 'T') := by
  unfold describeCols at hc
  split at hc
  · exact ⟨_, afterWrite_adds _ _ _ hc hw, Or.inl tag_noData⟩
  · exact ⟨_, afterWrite_adds _ _ _ hc hw, Or.inr (tag_rowDesc _)⟩

theorem ref_describe (h : Handlers) (L : Nat) (s s' : Sess) (st : ExtState) (hw : s.wleft = none) (hr : Rel s st)
    (hd : s.discard = false) (hc : handleDescribe s = .cont s') : Refines h L (ch 'D') s s' st := by
  have hs : st.skipping = false := by rw [hr.1, hd]
  unfold handleDescribe at hc
  cases hg : getBytes 1 s.inp.msg with
  | none => simp [hg] at hc
  | some p =>
    obtain ⟨d, r1⟩ := p
    simp only [hg] at hc
    obtain ⟨kind, hbody, rfl⟩ := getBytes1 _ _ _ hg
    cases hg2 : getString r1 with
    | none => simp [hg2] at hc
    | some p2 =>
      obtain ⟨name, r2⟩ := p2
      simp only [hg2, List.headD_cons] at hc
      have c2 : cstr r1 = some (name, r2) := hg2
      have errCase : ∀ e,
          (∀ evs, extStepG (oneOf h) L st (.msg (ch 'D') s.inp.msg) ['E'] evs = .ok { st with skipping := true }) →
          extendedError (s.setMsg r2) (some e) = .cont s' → Refines h L (ch 'D') s s' st := by
        intro e hsp hc
        have := extendedError_adds _ s' _ hc hw
        subst this
        exact ⟨[.error (errorBody (flatten (some e)))], [], { st with skipping := true }, rfl, rfl, hw,
          by simpa [replyOf, tag_error] using hsp 0, ⟨rfl, hr.2.1, hr.2.2.1, hr.2.2.2⟩⟩
      by_cases hk : kind = ch 'S'
      · simp only [hk, if_true] at hc
        cases hl : lookup name (s.setMsg r2).stmts with
        | none =>
          simp only [hl] at hc
          have hm : name ∉ st.stmts := by
            have : st.stmts.contains name = false := by rw [hr.2.2.1]; simpa [Sess.setMsg] using congrArg Option.isSome hl
            simpa using this
          refine errCase _ ?_ hc
          intro evs
          simp [extStepG, hr.2.1, hs, ch, hbody, c2, hk, hm]
        | some stm =>
          simp only [hl] at hc
          rw [send_adds _ _ (by exact hw)] at hc
          simp only at hc
          obtain ⟨m, rfl, hm⟩ := describeCols_adds _ s' _ _ hc hw
          have hmem : name ∈ st.stmts := by
            have : st.stmts.contains name = true := by rw [hr.2.2.1]; simpa [Sess.setMsg] using congrArg Option.isSome hl
            simpa using this
          refine ⟨[m, .paramDesc stm.params], [], st, rfl, rfl, hw, ?_, ⟨hr.1, hr.2.1, hr.2.2.1, hr.2.2.2⟩⟩
          rcases hm with hm | hm <;> simp [extStepG, hr.2.1, hs, ch, hbody, c2, hk, hmem, replyOf, tag_paramDesc, hm]
      · simp only [hk, if_false] at hc
        by_cases hk2 : kind = ch 'P'
        · simp only [hk2, if_true] at hc
          have hne : ¬ (ch 'P' = ch 'S') := by decide
          cases hl : lookup name (s.setMsg r2).portals with
          | none =>
            simp only [hl] at hc
            have hm : name ∉ st.portals := by
              have : st.portals.contains name = false := by rw [hr.2.2.2]; simpa [Sess.setMsg] using congrArg Option.isSome hl
              simpa using this
            refine errCase _ ?_ hc
            intro evs
            simp [extStepG, hr.2.1, hs, ch, hbody, c2, hk2, hm]
          | some p =>
            simp only [hl] at hc
            obtain ⟨m, rfl, hm⟩ := describeCols_adds _ s' _ _ hc hw
            have hmem : name ∈ st.portals := by
              have : st.portals.contains name = true := by rw [hr.2.2.2]; simpa [Sess.setMsg] using congrArg Option.isSome hl
              simpa using this
            refine ⟨[m], [], st, rfl, rfl, hw, ?_, ⟨hr.1, hr.2.1, hr.2.2.1, hr.2.2.2⟩⟩
            rcases hm with hm | hm <;> simp [extStepG, hr.2.1, hs, ch, hbody, c2, hk2, hmem, replyOf, hm]
        · simp only [hk2, if_false] at hc
          refine errCase _ ?_ hc
          intro evs
          have a1 : ¬ (kind = 83) := by simpa [ch] using hk
          have a2 : ¬ (kind = 80) := by simpa [ch] using hk2
          simp [extStepG, hr.2.1, hs, ch, hbody, c2, a1, a2]

theorem ref_close (h : Handlers) (L : Nat) (s s' : Sess) (st : ExtState) (hw : s.wleft = none) (hr : Rel s st)
    (hd : s.discard = false) (hc : handleClose s = .cont s') : Refines h L (ch 'C') s s' st := by
  have hs : st.skipping = false := by rw [hr.1, hd]
  unfold handleClose at hc
  cases hg : getBytes 1 s.inp.msg with
  | none => simp [hg] at hc
  | some p =>
    obtain ⟨d, r1⟩ := p
    simp only [hg] at hc
    obtain ⟨kind, hbody, rfl⟩ := getBytes1 _ _ _ hg
    cases hg2 : getString r1 with
    | none => simp [hg2] at hc
    | some p2 =>
      obtain ⟨name, r2⟩ := p2
      simp only [hg2, List.headD_cons] at hc
      have c2 : cstr r1 = some (name, r2) := hg2
      by_cases hk : kind = ch 'S'
      · simp only [hk, if_true] at hc
        have := afterWrite_adds _ s' _ hc hw
        subst this
        refine ⟨[.closeComplete], [], { st with stmts := rm name st.stmts }, rfl, rfl, hw, ?_,
          ⟨hr.1, hr.2.1, contains_remove _ _ name hr.2.2.1, hr.2.2.2⟩⟩
        simp [extStepG, hr.2.1, hs, ch, hbody, c2, hk, replyOf, tag_closeComplete]
      · simp only [hk, if_false] at hc
        by_cases hk2 : kind = ch 'P'
        · simp only [hk2, if_true] at hc
          have := afterWrite_adds _ s' _ hc hw
          subst this
          refine ⟨[.closeComplete], [], { st with portals := rm name st.portals }, rfl, rfl, hw, ?_,
            ⟨hr.1, hr.2.1, hr.2.2.1, contains_remove _ _ name hr.2.2.2⟩⟩
          simp [extStepG, hr.2.1, hs, ch, hbody, c2, hk2, replyOf, tag_closeComplete]
        · simp only [hk2, if_false] at hc
          have := extendedError_adds _ s' _ hc hw
          subst this
          have a1 : ¬ (kind = 83) := by simpa [ch] using hk
          have a2 : ¬ (kind = 80) := by simpa [ch] using hk2
          refine ⟨[.error _], [], { st with skipping := true }, rfl, rfl, hw, ?_, ⟨rfl, hr.2.1, hr.2.2.1, hr.2.2.2⟩⟩
          simp [extStepG, hr.2.1, hs, ch, hbody, c2, a1, a2, replyOf, tag_error]

/-! ### reply shapes -/

def okExec (c : Char) : Prop := c = 'D' ∨ c = 'C' ∨ c = 'G'
def okSimple (c : Char) : Prop := c = 'T' ∨ c = 'D' ∨ c = 'C' ∨ c = 'G'

theorem isSeq_exec (ts : List Char) (h : ∀ c ∈ ts, okExec c) : isSeq ['D', 'C', 'G'] ts = true := by
  simp only [isSeq, List.all_eq_true]
  intro c hc
  rcases h c hc with rfl | rfl | rfl <;> decide

theorem isSeq_simple (ts : List Char) (h : ∀ c ∈ ts, okSimple c) : isSeq ['T', 'D', 'C', 'G'] ts = true := by
  simp only [isSeq, List.all_eq_true]
  intro c hc
  rcases h c hc with rfl | rfl | rfl | rfl <;> decide

theorem stripE_none (ts : List Char) (h : 'E' ∉ ts) : stripE ts = ts := by
  unfold stripE
  split
  · rename_i r heq
    have : 'E' ∈ ts.reverse := by rw [heq]; simp
    exact absurd (List.mem_reverse.mp this) h
  · rfl

theorem stripE_some (ts : List Char) : stripE (ts ++ ['E']) = ts := by
  simp [stripE]

theorem executeShape_plain (ts : List Char) (h : ∀ c ∈ ts, okExec c) :
    executeShape ts = true ∧ ts.getLast? ≠ some 'E' := by
  have hE : 'E' ∉ ts := by
    intro hm; rcases h _ hm with h | h | h <;> simp at h
  constructor
  · unfold executeShape; rw [stripE_none ts hE]; exact isSeq_exec ts h
  · intro hl
    have := List.mem_of_getLast? hl
    exact hE this

theorem executeShape_err (ts : List Char) (h : ∀ c ∈ ts, okExec c) :
    executeShape (ts ++ ['E']) = true ∧ (ts ++ ['E']).getLast? = some 'E' := by
  constructor
  · unfold executeShape; rw [stripE_some]; exact isSeq_exec ts h
  · simp

theorem simpleShape_ok (ts : List Char) (h : ∀ c ∈ ts, okSimple c) (e : Bool) :
    simpleShape (ts ++ (if e then ['E'] else []) ++ ['Z']) = true := by
  have hE : 'E' ∉ ts := by
    intro hm; rcases h _ hm with h | h | h | h <;> simp at h
  unfold simpleShape
  cases e with
  | true =>
    simp only [if_true, List.reverse_append, List.reverse_cons, List.reverse_nil, List.nil_append, List.cons_append,
      List.reverse_reverse, List.append_assoc, List.singleton_append]
    have := stripE_some ts
    simp [this, isSeq_simple ts h]
  | false =>
    simp only [Bool.false_eq_true, if_false, List.append_nil, List.reverse_append, List.reverse_cons, List.reverse_nil,
      List.nil_append, List.cons_append, List.reverse_reverse]
    rw [stripE_none ts hE]
    simp [isSeq_simple ts h]

theorem replyOf_cons (m : BMsg) (new : List BMsg) : replyOf (m :: new) = replyOf new ++ [tagChar m] := by
  simp [replyOf]

theorem replyOf_exec (new : List BMsg) (h : ∀ m ∈ new, isDCG m = true) : ∀ c ∈ replyOf new, okExec c := by
  intro c hc
  simp only [replyOf, List.mem_map, List.mem_reverse] at hc
  obtain ⟨m, hm, rfl⟩ := hc
  exact tag_dcg m (h m hm)

theorem ref_execute (h : Handlers) (L : Nat) (s s' : Sess) (st : ExtState) (hw : s.wleft = none) (hr : Rel s st)
    (hd : s.discard = false) (hc : handleExecute s = .cont s') : Refines h L (ch 'E') s s' st := by
  have hs : st.skipping = false := by rw [hr.1, hd]
  unfold handleExecute at hc
  cases hg : getString s.inp.msg with
  | none => simp [hg] at hc
  | some p =>
    obtain ⟨name, r1⟩ := p
    simp only [hg] at hc
    have c1 : cstr s.inp.msg = some (name, r1) := hg
    cases hg2 : getU32 r1 with
    | none => simp [hg2] at hc
    | some p2 =>
      obtain ⟨lim, r2⟩ := p2
      simp only [hg2] at hc
      cases hl : lookup name (s.setMsg r2).portals with
      | none =>
        simp only [hl] at hc
        have := extendedError_adds _ s' _ hc hw
        subst this
        have hm : name ∉ st.portals := by
          have : st.portals.contains name = false := by rw [hr.2.2.2]; simpa [Sess.setMsg] using congrArg Option.isSome hl
          simpa using this
        refine ⟨[.error _], [], { st with skipping := true }, rfl, rfl, hw, ?_, ⟨rfl, hr.2.1, hr.2.2.1, hr.2.2.2⟩⟩
        simp [extStepG, hr.2.1, hs, ch, c1, hm, replyOf, tag_error]
      | some p =>
        simp only [hl] at hc
        have hmem : name ∈ st.portals := by
          have : st.portals.contains name = true := by rw [hr.2.2.2]; simpa [Sess.setMsg] using congrArg Option.isSome hl
          simpa using this
        obtain ⟨new, nev, a, b, c⟩ := runProg_shape (p.stmt.body p.params) { cols := p.stmt.cols, formats := p.formats }
          ((s.setMsg r2).log (.exec p.stmt.q p.stmt.idx p.params)) hw
        rcases hrun : runProg (p.stmt.body p.params) { cols := p.stmt.cols, formats := p.formats }
          ((s.setMsg r2).log (.exec p.stmt.q p.stmt.idx p.params)) with ⟨o, s2⟩
        rw [hrun] at a hc
        simp only at a
        have hw2 : s2.wleft = none := a.wl hw
        have hexec := replyOf_exec new b
        have hspec : ∀ reply evs, extStepG (oneOf h) L st (.msg (ch 'E') s.inp.msg) reply evs =
            (if executeShape reply then .ok { st with skipping := reply.getLast? = some 'E' } else .error "execute-shape") := by
          intro reply evs
          simp [extStepG, hr.2.1, hs, ch, c1, hmem]
        have errCase : ∀ e, extendedError s2 (some e) = .cont s' → Refines h L (ch 'E') s s' st := by
          intro e hc
          have := extendedError_adds _ s' _ hc hw2
          subst this
          obtain ⟨x, y⟩ := executeShape_err (replyOf new) hexec
          refine ⟨.error (errorBody (flatten (some e))) :: new, nev ++ [.exec p.stmt.q p.stmt.idx p.params],
            { st with skipping := true }, ?_, ?_, hw2, ?_, ⟨rfl, hr.2.1, ?_, ?_⟩⟩
          · simp [a.out, Sess.log, Sess.setMsg]
          · simp [a.ev, Sess.log, Sess.setMsg]
          · rw [hspec, replyOf_cons, tag_error, x]; simp [y]
          · intro n; simp only []; rw [a.stmts]; exact hr.2.2.1 n
          · intro n; simp only []; rw [a.portals]; exact hr.2.2.2 n
        cases o with
        | blocked => simp at hc
        | panicked m => exact errCase _ hc
        | done e =>
          cases e with
          | some e => exact errCase _ hc
          | none =>
            simp only at hc
            cases hc
            obtain ⟨x, y⟩ := executeShape_plain (replyOf new) hexec
            refine ⟨new, nev ++ [.exec p.stmt.q p.stmt.idx p.params], { st with skipping := false }, ?_, ?_, hw2, ?_,
              ⟨?_, hr.2.1, ?_, ?_⟩⟩
            · simp [a.out, Sess.log, Sess.setMsg]
            · simp [a.ev, Sess.log, Sess.setMsg]
            · rw [hspec, x]; simp [y]
            · simp only []; rw [a.discard]; simp [Sess.log, Sess.setMsg, hd]
            · intro n; simp only []; rw [a.stmts]; exact hr.2.2.1 n
            · intro n; simp only []; rw [a.portals]; exact hr.2.2.2 n

def isTDCG (m : BMsg) : Bool := match m with | .rowDesc _ => true | m => isDCG m

theorem tag_tdcg (m : BMsg) (h : isTDCG m = true) : okSimple (tagChar m) := by
  cases m <;> simp [isTDCG, isDCG] at h
  · left; simp [tagChar, BMsg.tag, ch]
  · right; left; simp [tagChar, BMsg.tag, ch]
  · right; right; left; simp [tagChar, BMsg.tag, ch]
  · right; right; right; simp [tagChar, BMsg.tag, ch]

/-- the whole statement loop of a simple query that goes on: rows/descriptions/completions, then
    at most one ErrorResponse, then ReadyForQuery; nothing else in the session changes -/
theorem runStatements_shape : ∀ (sts : List Stmt) (s s' : Sess), s.wleft = none → runStatements sts s = .cont s' →
    ∃ body nev, (∃ eb : Bool, ∃ b, s'.out = .ready (ch 'I') :: ((if eb then [BMsg.error b] else []) ++ body) ++ s.out) ∧
      (∀ m ∈ body, isTDCG m = true) ∧ s'.ev = nev ++ s.ev ∧ s'.wleft = none ∧
      s'.stmts = s.stmts ∧ s'.portals = s.portals ∧ s'.discard = s.discard := by
  intro sts
  induction sts with
  | nil =>
    intro s s' hw hc
    have := afterWrite_adds s s' _ hc hw
    subst this
    exact ⟨[], [], ⟨false, [], by simp⟩, by simp, rfl, hw, rfl, rfl, rfl⟩
  | cons stm rest ih =>
    intro s s' hw hc
    simp only [runStatements] at hc
    -- the optional RowDescription
    have hdef : ∃ (pre : List BMsg), (if stm.cols.length = 0 then (s, true) else s.send (.rowDesc (colFormats [] stm.cols)))
        = ({ s with out := pre ++ s.out }, true) ∧ (∀ m ∈ pre, isTDCG m = true) := by
      split
      · exact ⟨[], by simp, by simp⟩
      · rw [send_adds s _ hw]; exact ⟨[.rowDesc (colFormats [] stm.cols)], by simp, by simp [isTDCG]⟩
    obtain ⟨pre, hdef, hpre⟩ := hdef
    rw [hdef] at hc
    simp only at hc
    obtain ⟨new, nev, a, b, c⟩ := runProg_shape (stm.body []) { cols := stm.cols, formats := [] }
      (({ s with out := pre ++ s.out } : Sess).log (.exec stm.q stm.idx [])) hw
    rcases hrun : runProg (stm.body []) { cols := stm.cols, formats := [] }
      (({ s with out := pre ++ s.out } : Sess).log (.exec stm.q stm.idx [])) with ⟨o, s2⟩
    rw [hrun] at a hc
    simp only at a
    have hw2 : s2.wleft = none := a.wl hw
    have hbody : ∀ m ∈ new ++ pre, isTDCG m = true := by
      intro m hm
      simp at hm
      rcases hm with hm | hm
      · have := b m hm; cases m <;> simp_all [isTDCG, isDCG]
      · exact hpre m hm
    cases o with
    | blocked => simp at hc
    | panicked m => simp at hc
    | done e =>
      cases e with
      | some e =>
        simp only at hc
        have := errorCode_adds _ s' _ hc hw2
        subst this
        refine ⟨new ++ pre, nev ++ [.exec stm.q stm.idx []], ⟨true, errorBody (flatten (some e)), ?_⟩, hbody, ?_, hw2, ?_, ?_, ?_⟩
        · simp [a.out, Sess.log]
        · simp [a.ev, Sess.log]
        · simp only []; rw [a.stmts]; rfl
        · simp only []; rw [a.portals]; rfl
        · simp only []; rw [a.discard]; rfl
      | none =>
        simp only at hc
        obtain ⟨body, nev2, ⟨eb, bb, ho⟩, hb, hev, hwl, h1, h2, h3⟩ := ih s2 s' hw2 hc
        refine ⟨body ++ (new ++ pre), nev2 ++ (nev ++ [.exec stm.q stm.idx []]), ⟨eb, bb, ?_⟩, ?_, ?_, hwl, ?_, ?_, ?_⟩
        · rw [ho, a.out]; simp [Sess.log]
        · intro m hm
          simp only [List.mem_append] at hm
          rcases hm with hm | hm
          · exact hb m hm
          · exact hbody m (by simpa using hm)
        · rw [hev, a.ev]; simp [Sess.log]
        · rw [h1, a.stmts]; rfl
        · rw [h2, a.portals]; rfl
        · rw [h3, a.discard]; rfl

theorem replyOf_simple (body : List BMsg) (h : ∀ m ∈ body, isTDCG m = true) : ∀ c ∈ replyOf body, okSimple c := by
  intro c hc
  simp only [replyOf, List.mem_map, List.mem_reverse] at hc
  obtain ⟨m, hm, rfl⟩ := hc
  exact tag_tdcg m (h m hm)

theorem ref_query (h : Handlers) (L : Nat) (s s' : Sess) (st : ExtState) (hw : s.wleft = none) (hr : Rel s st)
    (hd : s.discard = false) (hc : handleSimpleQuery h s = .cont s') : Refines h L (ch 'Q') s s' st := by
  have hs : st.skipping = false := by rw [hr.1, hd]
  have hspec : ∀ reply evs, extStepG (oneOf h) L st (.msg (ch 'Q') s.inp.msg) reply evs =
      (if simpleShape reply then .ok st else .error "simple-cycle-shape") := by
    intro reply evs
    simp [extStepG, hr.2.1, hs, ch]
  unfold handleSimpleQuery at hc
  cases hg : getString s.inp.msg with
  | none => simp [hg] at hc
  | some p =>
    obtain ⟨q, rest⟩ := p
    simp only [hg] at hc
    by_cases hb : isBlank q = true
    · simp only [hb, if_true] at hc
      rw [send_adds _ _ (by exact hw)] at hc
      simp only at hc
      have := afterWrite_adds _ s' _ hc hw
      subst this
      refine ⟨[.ready (ch 'I'), .emptyQuery], [], st, rfl, rfl, hw, ?_, ⟨hr.1, hr.2.1, hr.2.2.1, hr.2.2.2⟩⟩
      rw [hspec]
      have : simpleShape (replyOf [.ready (ch 'I'), .emptyQuery]) = true := by
        simp [replyOf, tag_ready, tag_emptyQuery, simpleShape]
      simp [this]
    · simp only [hb, if_false, Bool.false_eq_true] at hc
      have errCase : ∀ e, errorCode ((s.setMsg rest).log (.parse q)) (some e) = .cont s' → Refines h L (ch 'Q') s s' st := by
        intro e hc
        have := errorCode_adds _ s' _ hc hw
        subst this
        refine ⟨[.ready (ch 'I'), .error (errorBody (flatten (some e)))], [.parse q], st, rfl, rfl, hw, ?_,
          ⟨hr.1, hr.2.1, hr.2.2.1, hr.2.2.2⟩⟩
        rw [hspec]
        have := simpleShape_ok [] (by simp) true
        simp at this
        simp [replyOf, tag_ready, tag_error, this]
      cases hp : h.parse q with
      | error e => simp only [hp] at hc; exact errCase e hc
      | ok sts =>
        simp only [hp] at hc
        cases sts with
        | nil => exact errCase _ hc
        | cons stm sts =>
          simp only at hc
          obtain ⟨body, nev, ⟨eb, bb, ho⟩, hbd, hev, hwl, h1, h2, h3⟩ :=
            runStatements_shape _ ((s.setMsg rest).log (.parse q)) s' hw hc
          refine ⟨.ready (ch 'I') :: ((if eb then [BMsg.error bb] else []) ++ body), nev ++ [.parse q], st, ?_, ?_, hwl, ?_,
            ⟨?_, hr.2.1, ?_, ?_⟩⟩
          · rw [ho]; simp [Sess.log, Sess.setMsg]
          · rw [hev]; simp [Sess.log, Sess.setMsg]
          · rw [hspec]
            have hshape := simpleShape_ok (replyOf body) (replyOf_simple body hbd) eb
            have hrep : replyOf (.ready (ch 'I') :: ((if eb then [BMsg.error bb] else []) ++ body))
                = replyOf body ++ (if eb then ['E'] else []) ++ ['Z'] := by
              cases eb <;> simp [replyOf, tag_ready, tag_error]
            rw [hrep, hshape]; simp
          · rw [h3]; simp [Sess.log, Sess.setMsg, hr.1]
          · intro n; rw [h1]; exact hr.2.2.1 n
          · intro n; rw [h2]; exact hr.2.2.2 n

/-- **C06 (refinement).** Every message the command loop handles and survives is a step of the
    reference machine `ExtSpec`: the reply group the model writes for it (and the callbacks it
    runs) is exactly what `extStepG` admits in the current abstract state — designated reply,
    `Z` only for Sync (and at the end of a simple-query cycle), one `E` and silence until Sync
    after a failure, nothing for Flush and stray COPY messages — and the abstraction relation
    (names defined, skipping) is re-established. For every handler set, every session state
    reachable or not, every message. (`wleft = none`: the transport accepts writes.) -/
theorem C06_refines (h : Handlers) (L : Nat) (t : UInt8) (s s' : Sess) (st : ExtState)
    (hw : s.wleft = none) (hr : Rel s st) (hc : handleCommand h t s = .cont s') : Refines h L t s s' st := by
  unfold handleCommand at hc
  by_cases hdisc : s.discard = true ∧ t ≠ ch 'S' ∧ t ≠ ch 'X'
  · rw [if_pos hdisc] at hc
    cases hc
    exact ref_skip h L t s st hw hr hdisc.1 hdisc.2.1 hdisc.2.2
  · rw [if_neg hdisc] at hc
    by_cases hS : t = ch 'S'
    · subst hS
      have e1 : ¬ (ch 'S' = ch 'Q') := by decide
      have e2 : ¬ (ch 'S' = ch 'E') := by decide
      have e3 : ¬ (ch 'S' = ch 'P') := by decide
      have e4 : ¬ (ch 'S' = ch 'D') := by decide
      simp only [e1, e2, e3, e4, if_false, if_true] at hc
      exact ref_sync h L s s' st hw hr hc
    · by_cases hX : t = ch 'X'
      · subst hX
        have e1 : ¬ (ch 'X' = ch 'Q') := by decide
        have e2 : ¬ (ch 'X' = ch 'E') := by decide
        have e3 : ¬ (ch 'X' = ch 'P') := by decide
        have e4 : ¬ (ch 'X' = ch 'D') := by decide
        have e5 : ¬ (ch 'X' = ch 'S') := by decide
        have e6 : ¬ (ch 'X' = ch 'B') := by decide
        have e7 : ¬ (ch 'X' = ch 'H') := by decide
        have e8 : ¬ (ch 'X' = ch 'd' ∨ ch 'X' = ch 'c' ∨ ch 'X' = ch 'f') := by decide
        have e9 : ¬ (ch 'X' = ch 'C') := by decide
        simp only [e1, e2, e3, e4, e5, e6, e7, e8, e9, if_false, if_true] at hc
        split at hc <;> simp at hc
      · have hd : s.discard = false := by
          cases hdv : s.discard with
          | false => rfl
          | true => exact absurd ⟨hdv, hS, hX⟩ hdisc
        by_cases hQ : t = ch 'Q'
        · subst hQ; rw [if_pos rfl] at hc; exact ref_query h L s s' st hw hr hd hc
        · rw [if_neg hQ] at hc
          by_cases hE : t = ch 'E'
          · subst hE; rw [if_pos rfl] at hc; exact ref_execute h L s s' st hw hr hd hc
          · rw [if_neg hE] at hc
            by_cases hP : t = ch 'P'
            · subst hP; rw [if_pos rfl] at hc; exact ref_parse h L s s' st hw hr hd hc
            · rw [if_neg hP] at hc
              by_cases hD : t = ch 'D'
              · subst hD; rw [if_pos rfl] at hc; exact ref_describe h L s s' st hw hr hd hc
              · rw [if_neg hD, if_neg hS] at hc
                by_cases hB : t = ch 'B'
                · subst hB; rw [if_pos rfl] at hc; exact ref_bind h L s s' st hw hr hd hc
                · rw [if_neg hB] at hc
                  by_cases hH : t = ch 'H'
                  · rw [if_pos hH] at hc; cases hc; exact ref_noop h L t s st hw hr hd (Or.inl hH)
                  · rw [if_neg hH] at hc
                    by_cases hdcf : t = ch 'd' ∨ t = ch 'c' ∨ t = ch 'f'
                    · rw [if_pos hdcf] at hc; cases hc; exact ref_noop h L t s st hw hr hd (Or.inr hdcf)
                    · rw [if_neg hdcf] at hc
                      by_cases hC : t = ch 'C'
                      · subst hC; rw [if_pos rfl] at hc; exact ref_close h L s s' st hw hr hd hc
                      · rw [if_neg hC, if_neg hX] at hc
                        have hd' : t ≠ ch 'd' := fun e => hdcf (Or.inl e)
                        have hc' : t ≠ ch 'c' := fun e => hdcf (Or.inr (Or.inl e))
                        have hf' : t ≠ ch 'f' := fun e => hdcf (Or.inr (Or.inr e))
                        exact ref_unknown h L t s s' st hw hr hd ⟨hX, hS, hH, hd', hc', hf', hQ, hP, hB, hD, hC, hE⟩ hc

/-- Terminate: no reply; the reference machine moves to `closed` -/
theorem C06_terminate_refines (h : Handlers) (L : Nat) (s : Sess) (st : ExtState) (hr : Rel s st) :
    (∃ s', handleCommand h (ch 'X') s = .stop s' .closed ∧ s'.out = s.out) ∧
    extStepG (oneOf h) L st (.msg (ch 'X') s.inp.msg) [] 0 = .ok { st with closed := true } := by
  constructor
  · unfold handleCommand
    have e0 : ¬ (s.discard = true ∧ ch 'X' ≠ ch 'S' ∧ ch 'X' ≠ ch 'X') := by simp
    have e1 : ¬ (ch 'X' = ch 'Q') := by decide
    have e2 : ¬ (ch 'X' = ch 'E') := by decide
    have e3 : ¬ (ch 'X' = ch 'P') := by decide
    have e4 : ¬ (ch 'X' = ch 'D') := by decide
    have e5 : ¬ (ch 'X' = ch 'S') := by decide
    have e6 : ¬ (ch 'X' = ch 'B') := by decide
    have e7 : ¬ (ch 'X' = ch 'H') := by decide
    have e8 : ¬ (ch 'X' = ch 'd' ∨ ch 'X' = ch 'c' ∨ ch 'X' = ch 'f') := by decide
    have e9 : ¬ (ch 'X' = ch 'C') := by decide
    simp only [e0, e1, e2, e3, e4, e5, e6, e7, e8, e9, if_false, if_true]
    split
    · exact ⟨_, rfl, rfl⟩
    · exact ⟨_, rfl, rfl⟩
  · simp [extStepG, hr.2.1, ch]

/-- the session that has just reached ReadyForQuery is related to the initial abstract state -/
theorem Rel_init (s : Sess) (h1 : s.stmts = []) (h2 : s.portals = []) (h3 : s.discard = false) : Rel s {} := by
  refine ⟨by simp [h3], rfl, ?_, ?_⟩
  · intro n; simp [h1, lookup]
  · intro n; simp [h2, lookup]

/-- a history of complete, in-limit messages handled one after the other (as the command loop does
    with each item it reads) -/
def runMsgs (h : Handlers) : List (UInt8 × Bytes) → Sess → Option Sess
  | [], s => some s
  | (t, b) :: r, s =>
    match handleCommand h t (s.setMsg b) with
    | .cont s' => runMsgs h r s'
    | .stop _ _ => none

/-- the reference machine run over the same history, given the reply group and the callback count
    of every message -/
def specRun (one : Bytes → Bool) (L : Nat) : ExtState → List ((UInt8 × Bytes) × List Char × Nat) → Except String ExtState
  | st, [] => .ok st
  | st, ((t, b), reply, evs) :: r =>
    match extStepG one L st (.msg t b) reply evs with
    | .ok st' => specRun one L st' r
    | .error e => .error e

/-- **C06 (whole histories).** For every history of messages the session survives there is a
    division of everything it wrote into one reply group per message, in request order, such that
    the reference machine accepts the whole history — by induction on the history from
    `C06_refines`. -/
theorem C06_history (h : Handlers) (L : Nat) : ∀ (msgs : List (UInt8 × Bytes)) (s s' : Sess) (st : ExtState),
    s.wleft = none → Rel s st → runMsgs h msgs s = some s' →
    ∃ (groups : List (List BMsg)) (evs : List Nat) (st' : ExtState),
      groups.length = msgs.length ∧ evs.length = msgs.length ∧
      s'.out = (groups.reverse.flatten) ++ s.out ∧
      specRun (oneOf h) L st (msgs.zip ((groups.map replyOf).zip evs)) = .ok st' ∧ Rel s' st' := by
  intro msgs
  induction msgs with
  | nil =>
    intro s s' st hw hr hrun
    simp [runMsgs] at hrun
    subst hrun
    exact ⟨[], [], st, rfl, rfl, by simp, rfl, hr⟩
  | cons m rest ih =>
    intro s s' st hw hr hrun
    obtain ⟨t, b⟩ := m
    simp only [runMsgs] at hrun
    cases hstep : handleCommand h t (s.setMsg b) with
    | stop s1 e => simp [hstep] at hrun
    | cont s1 =>
      simp only [hstep] at hrun
      have hr0 : Rel (s.setMsg b) st := hr
      obtain ⟨new, nev, st1, ho, hev, hw1, hspec, hr1⟩ := C06_refines h L t (s.setMsg b) s1 st hw hr0 hstep
      obtain ⟨groups, evs, st', hl1, hl2, hout, hrun', hr'⟩ := ih s1 s' st1 hw1 hr1 hrun
      refine ⟨new :: groups, nev.countP isCallback :: evs, st', by simp [hl1], by simp [hl2], ?_, ?_, hr'⟩
      · rw [hout, ho]; simp [Sess.setMsg]
      · simp only [List.map_cons, List.zip_cons_cons, specRun]
        have : (s.setMsg b).inp.msg = b := rfl
        rw [this] at hspec
        rw [hspec]
        exact hrun'

end Pw

namespace Pw
/-- non-vacuity: a pipelined history with a failing Parse, a skipped Bind and a Sync is survived by
    the session, from the state the session has right after its first ReadyForQuery -/
example : (runMsgs Props.C06.exHandlers [(80, [0, 113, 0, 0, 0]), (66, [0, 0, 0, 0, 0, 0, 0, 0]), (83, [])]
    { inp := { L := 100, items := [], tail := .wait } }).isSome = true := by decide

example : Rel ({ inp := { L := 100, items := [], tail := .wait } } : Sess) {} := Rel_init _ rfl rfl rfl
end Pw
