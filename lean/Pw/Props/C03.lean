import Pw.Model.Stream
import Pw.Spec.Cursor
import Pw.Model.Serve
import Pw.Props.C10
/-
  C03 — request parsing depends only on the byte stream, message by message.
-/
namespace Pw.Props.C03
open Pw Pw.Stream Pw.Spec

/-! ### 1. `io.ReadFull` over any segmentation returns the flat stream's prefix -/

theorem rawRead_spec : ∀ (segs : Segs) (n : Nat) (got : Bytes) (rest : Segs), 0 < n →
    rawRead n segs = some (got, rest) →
    got ≠ [] ∧ got.length ≤ n ∧ got ++ rest.flatten = segs.flatten := by
  intro segs
  induction segs with
  | nil => intro n got rest _ h; simp [rawRead] at h
  | cons seg segs ih =>
    intro n got rest hn h
    unfold rawRead at h
    by_cases hs : seg = []
    · simp only [hs, if_true] at h
      have := ih n got rest hn h
      simpa [hs] using this
    · simp only [hs, if_false, Option.some.injEq, Prod.mk.injEq] at h
      obtain ⟨rfl, rfl⟩ := h
      refine ⟨?_, ?_, ?_⟩
      · cases seg with
        | nil => exact absurd rfl hs
        | cons b bs => cases n with
          | zero => omega
          | succ k => simp
      · simp [List.length_take]; omega
      · by_cases hd : seg.drop n = []
        · simp only [hd, if_true, List.flatten_cons]
          have : seg.take n = seg := by
            have := List.take_append_drop n seg
            rw [hd] at this; simpa using this
          rw [this]
        · simp only [hd, if_false, List.flatten_cons, ← List.append_assoc, List.take_append_drop]

/-- **soundness of ReadFull over segments**: whatever the segmentation, the bytes returned
    are the first `n` bytes of the flat stream and what remains is the flat remainder -/
theorem readFull_flat : ∀ (fuel n : Nat) (segs : Segs) (got : Bytes) (rest : Segs),
    readFull fuel n segs = some (got, rest) →
    got = segs.flatten.take n ∧ rest.flatten = segs.flatten.drop n := by
  intro fuel
  induction fuel with
  | zero =>
    intro n segs got rest h
    cases n with
    | zero => simp [readFull] at h; obtain ⟨rfl, rfl⟩ := h; simp
    | succ n => simp [readFull] at h
  | succ fuel ih =>
    intro n segs got rest h
    cases n with
    | zero => simp [readFull] at h; obtain ⟨rfl, rfl⟩ := h; simp
    | succ n =>
      simp only [readFull] at h
      cases hr : rawRead (n + 1) segs with
      | none => simp [hr] at h
      | some p =>
        obtain ⟨g, s'⟩ := p
        simp only [hr] at h
        cases hf : readFull fuel (n + 1 - g.length) s' with
        | none => simp [hf] at h
        | some q =>
          obtain ⟨more, s''⟩ := q
          simp only [hf, Option.some.injEq, Prod.mk.injEq] at h
          obtain ⟨rfl, rfl⟩ := h
          obtain ⟨hne, hlen, hflat⟩ := rawRead_spec segs (n + 1) g s' (by omega) hr
          obtain ⟨hm, hrest⟩ := ih _ _ _ _ hf
          rw [← hflat]
          constructor
          · rw [hm, List.take_append]
            have : List.take (n + 1) g = g := List.take_of_length_le hlen
            rw [this]
          · rw [hrest, List.drop_append]
            have : List.drop (n + 1) g = [] := List.drop_of_length_le hlen
            rw [this]; simp

/-- **C03 (segmentation)**, transport level: two segmentations of the same bytes give the
    same `ReadFull` result (bytes and remaining flat stream) -/
theorem C03_readFull_segmentation (f1 f2 n : Nat) (s1 s2 : Segs) (h : s1.flatten = s2.flatten)
    (g1 g2 : Bytes) (r1 r2 : Segs)
    (h1 : readFull f1 n s1 = some (g1, r1)) (h2 : readFull f2 n s2 = some (g2, r2)) :
    g1 = g2 ∧ r1.flatten = r2.flatten := by
  obtain ⟨a1, b1⟩ := readFull_flat _ _ _ _ _ h1
  obtain ⟨a2, b2⟩ := readFull_flat _ _ _ _ _ h2
  rw [a1, a2, b1, b2, h]
  exact ⟨rfl, rfl⟩

/-- the connection model reads its input only through the flat stream: delivering the same
    bytes in any segmentation yields the identical result (transcript, events, fate) -/
theorem C03_segmentation (cfg : Config) (h : Handlers) (segs1 segs2 : Segs) (tin : Bytes)
    (hflat : segs1.flatten = segs2.flatten) :
    serve cfg h segs1.flatten tin = serve cfg h segs2.flatten tin := by rw [hflat]

/-! ### 2. every message is consumed in exactly its declared length -/

/-- whatever a complete message contains — surplus fields, unread fields, bytes that look
    like other messages — reading it leaves the stream exactly at the next message -/
theorem C03_exact_consumption (L : Nat) (t : UInt8) (body rest : Bytes)
    (h2 : body.length + 4 < 4294967296) :
    ∃ it, readItem L (frame t body ++ rest) = some (it, rest) := by
  by_cases h1 : body.length ≤ L
  · exact ⟨_, C10.C10_accept L t body rest h1 h2⟩
  · exact ⟨_, C10.C10_skip L t body rest (by omega) h2⟩

theorem deframeAux_step (L : Nat) (inp rest : Bytes) (fuel : Nat) (it : Item)
    (hr : readItem L inp = some (it, rest)) :
    deframeAux L (fuel + 1) inp = it :: deframeAux L fuel rest := by
  simp only [deframeAux, hr]

/-- a stream of in-limit messages deframes to exactly those messages, one item per message,
    bodies byte-exact: the interpretation of message k+1 cannot depend on message k's content -/
theorem C03_framing (L : Nat) (ms : List (UInt8 × Bytes))
    (h : ∀ m ∈ ms, m.2.length ≤ L ∧ m.2.length + 4 < 4294967296) :
    ∀ fuel, ms.length ≤ fuel →
      deframeAux L fuel (ms.flatMap fun m => frame m.1 m.2) = ms.map fun m => Item.msg m.1 m.2 := by
  induction ms with
  | nil => intro fuel _; cases fuel <;> simp [deframeAux, readItem]
  | cons m ms ih =>
    intro fuel hf
    obtain ⟨h1, h2⟩ := h m (by simp)
    have hms : ∀ m ∈ ms, m.2.length ≤ L ∧ m.2.length + 4 < 4294967296 := fun x hx => h x (by simp [hx])
    cases fuel with
    | zero => simp at hf
    | succ fuel =>
      have hf' : ms.length ≤ fuel := by simpa using hf
      simp only [List.flatMap_cons, List.map_cons]
      rw [deframeAux_step L _ _ fuel _ (C10.C10_accept L m.1 m.2 _ h1 h2), ih hms fuel hf']

/-! ### 3. the field accessors agree with an independent cursor and never pass the end -/

theorem cstr_findIdx : ∀ (m : Bytes),
    cstr m = (m.findIdx? (· = 0)).map fun i => (m.take i, m.drop (i + 1)) := by
  intro m
  induction m with
  | nil => simp [cstr]
  | cons b m ih =>
    unfold cstr
    by_cases hb : b = 0
    · simp [hb, List.findIdx?_cons]
    · simp only [hb, if_false, ih, List.findIdx?_cons, decide_false, Bool.false_eq_true]
      cases m.findIdx? (· = 0) with
      | none => simp
      | some i => simp

theorem rd16_shape (m : Bytes) : (rd16 m).map (·.2) = if 2 ≤ m.length then some (m.drop 2) else none := by
  rcases m with _ | ⟨a, _ | ⟨b, r⟩⟩ <;> simp [rd16]

theorem rd32_shape (m : Bytes) : (rd32 m).map (·.2) = if 4 ≤ m.length then some (m.drop 4) else none := by
  rcases m with _ | ⟨a, _ | ⟨b, _ | ⟨c, _ | ⟨d, r⟩⟩⟩⟩ <;> simp [rd32]

theorem u16_step (m : Bytes) : modelStep m .u16 = if 2 ≤ m.length then (some (m.take 2), m.drop 2) else (none, m) := by
  have := rd16_shape m
  simp only [modelStep, getU16]
  cases h : rd16 m with
  | none => simp [h] at this; simp [this]
  | some p => simp [h] at this; obtain ⟨p1, p2⟩ := p; simp_all

theorem u32_step (m : Bytes) : modelStep m .u32 = if 4 ≤ m.length then (some (m.take 4), m.drop 4) else (none, m) := by
  have := rd32_shape m
  simp only [modelStep, getU32]
  cases h : rd32 m with
  | none => simp [h] at this; simp [this]
  | some p => simp [h] at this; obtain ⟨p1, p2⟩ := p; simp_all

theorem bytes_step (m : Bytes) (n : Nat) : modelStep m (.bytes n) = if n ≤ m.length then (some (m.take n), m.drop n) else (none, m) := by
  simp only [modelStep, getBytes]
  by_cases h : m.length < n
  · have : ¬ n ≤ m.length := by omega
    simp [h, this]
  · have : n ≤ m.length := by omega
    simp [h, this]

theorem fixed_agree (body : Bytes) (pos n : Nat) (hp : pos ≤ body.length) :
    let ms := if n ≤ (body.drop pos).length then (some ((body.drop pos).take n), (body.drop pos).drop n) else ((none : AccRes), body.drop pos)
    let cs := if pos + n ≤ body.length then (some ((body.drop pos).take n), pos + n) else ((none : AccRes), pos)
    ms.1 = cs.1 ∧ ms.2 = body.drop cs.2 ∧ cs.2 ≤ body.length := by
  intro ms cs
  by_cases h : pos + n ≤ body.length
  · have h' : n ≤ (body.drop pos).length := by simp; omega
    refine ⟨?_, ?_, ?_⟩
    · simp only [ms, cs, h, h', if_true]
    · simp only [ms, cs, h, h', if_true]; rw [List.drop_drop]
    · simp only [cs, h, if_true]
  · have h' : ¬ n ≤ (body.drop pos).length := by simp; omega
    refine ⟨?_, ?_, ?_⟩
    · simp only [ms, cs, h, h', if_false]
    · simp only [ms, cs, h, h', if_false]
    · simp only [cs, h, if_false]; exact hp

theorem step_agree (body : Bytes) (pos : Nat) (hp : pos ≤ body.length) (a : Acc) :
    (modelStep (body.drop pos) a).1 = (cursorStep body pos a).1 ∧
    (modelStep (body.drop pos) a).2 = body.drop (cursorStep body pos a).2 ∧
    (cursorStep body pos a).2 ≤ body.length := by
  cases a with
  | str =>
    simp only [modelStep, getString, cstr_findIdx, cursorStep, findNul]
    cases hfi : (body.drop pos).findIdx? (· = 0) with
    | none => exact ⟨rfl, rfl, hp⟩
    | some i =>
      obtain ⟨hi, _⟩ := List.findIdx?_eq_some_iff_getElem.mp hfi
      simp only [List.length_drop] at hi
      refine ⟨?_, ?_, ?_⟩
      · simp
      · simp only [Option.map_some, List.drop_drop]; congr 1; omega
      · simp only [Option.map_some]; omega
  | bytes n => rw [bytes_step]; exact fixed_agree body pos n hp
  | u16 => rw [u16_step]; exact fixed_agree body pos 2 hp
  | u32 => rw [u32_step]; exact fixed_agree body pos 4 hp

/-- **C03 (accessors).** For every message body and every sequence of accessor calls with
    non-negative sizes, the accessors of the reader return what an independent cursor over the
    body returns — data exactly when the cursor stays within the body (for strings: a NUL is
    found), an error otherwise —, they never read beyond the current message
    (`pos ≤ body.length` throughout), and the reader's remaining window is `body.drop pos`. -/
theorem C03_accessors (body : Bytes) (ops : List Acc) :
    ∀ pos, pos ≤ body.length →
      (modelRun (body.drop pos) ops).1 = (cursorRun body pos ops).1 ∧
      (modelRun (body.drop pos) ops).2 = body.drop (cursorRun body pos ops).2 ∧
      (cursorRun body pos ops).2 ≤ body.length := by
  induction ops with
  | nil => intro pos hp; simp [modelRun, cursorRun, hp]
  | cons a as ih =>
    intro pos hp
    obtain ⟨hr, hmsg, hpos⟩ := step_agree body pos hp a
    simp only [modelRun, cursorRun]
    rw [hmsg, hr]
    have := ih (cursorStep body pos a).2 hpos
    exact ⟨by rw [this.1], this.2.1, this.2.2⟩

/-- non-vacuity: a Bind-like body read with a call that would pass the end -/
example : modelRun [97, 0, 0, 2, 120] [.str, .u16, .bytes 2, .u32, .bytes 1] =
    ([some [97], some [0, 2], none, none, some [120]], []) := by decide

end Pw.Props.C03
