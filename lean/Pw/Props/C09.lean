import Pw.Props.C08
import Pw.Lemmas.Decimal
import Pw.Lemmas.Frame
/-
  C09 — row values round-trip to the client and NULL stays NULL.
-/
namespace Pw.Props.C09
open Pw

/-- the values that stand for SQL NULL: an untyped nil, a nil pointer, an invalid nullable value -/
def isNull : Val → Bool
  | .null | .tnull | .invalid => true
  | _ => false

/-- **NULL stays NULL**: for every supported column type and both formats, the encoder yields
    "no value" (sent as length −1) exactly for the three NULL forms; every other accepted value
    — the empty string and the empty bytea included — yields a value (sent with its length,
    0 for empty) -/
theorem C09_null_iff (o fmt : Nat) (v : Val) (hs : supportedOid o = true) (hf : fmt = 0 ∨ fmt = 1) :
    (encodeVal o fmt v = .ok none ↔ isNull v = true) := by
  have hf' : ¬ (fmt ≠ 0 ∧ fmt ≠ 1) := by omega
  cases v <;> simp [encodeVal, encodeTyped, isNull, hs, hf'] <;> (repeat' split) <;> simp_all

/-- NULL on the wire: length −1 and no payload; an empty value: length 0 -/
theorem C09_null_wire : encField none = [255, 255, 255, 255] ∧ encField (some []) = [0, 0, 0, 0] := by
  constructor <;> decide

/-- the DataRow has exactly one field per declared column -/
theorem encodeRow_length (formats : List Nat) : ∀ (cols : List ColDesc) (vals : List Val) (i : Nat) (fields : List (Option Bytes)),
    vals.length = cols.length → encodeRow formats i cols vals = .ok fields → fields.length = cols.length := by
  intro cols
  induction cols with
  | nil => intro vals i fields _ h; simp [encodeRow] at h; simp [h]
  | cons c cs ih =>
    intro vals i fields hl h
    cases vals with
    | nil => simp at hl
    | cons v vs =>
      simp only [encodeRow] at h
      cases he : encodeVal c.oid (formatFor formats i) v with
      | err => simp [he] at h
      | panic f => simp [he] at h
      | unsupported => simp [he] at h
      | ok f =>
        simp only [he] at h
        cases hr : encodeRow formats (i + 1) cs vs with
        | ok fs =>
          simp only [hr, EncRow.ok.injEq] at h
          subst h
          have := ih vs (i + 1) fs (by simpa using hl) hr
          simp [this]
        | err => simp [hr] at h
        | panic f => simp [hr] at h
        | unsupported => simp [hr] at h

/-- **DataRow**: field `k` of the row is the encoding of value `k` for column `k`'s type in the
    format the portal's result-format codes assign to column `k` (the same `formatFor` the
    RowDescription announces, C08_announced_is_used) -/
theorem encodeRow_fields (formats : List Nat) : ∀ (cols : List ColDesc) (vals : List Val) (i : Nat) (fields : List (Option Bytes)),
    encodeRow formats i cols vals = .ok fields →
    ∀ k (hk : k < cols.length) (hv : k < vals.length),
      ∃ f, fields[k]? = some f ∧ encodeVal (cols[k]).oid (formatFor formats (i + k)) (vals[k]) = .ok f := by
  intro cols
  induction cols with
  | nil => intro vals i fields _ k hk; simp at hk
  | cons c cs ih =>
    intro vals i fields h k hk hv
    cases vals with
    | nil => simp at hv
    | cons v vs =>
      simp only [encodeRow] at h
      cases he : encodeVal c.oid (formatFor formats i) v with
      | err => simp [he] at h
      | panic f => simp [he] at h
      | unsupported => simp [he] at h
      | ok f =>
        simp only [he] at h
        cases hr : encodeRow formats (i + 1) cs vs with
        | ok fs =>
          simp only [hr, EncRow.ok.injEq] at h
          subst h
          cases k with
          | zero => exact ⟨f, by simp, by simpa using he⟩
          | succ k =>
            obtain ⟨g, hg1, hg2⟩ := ih vs (i + 1) fs hr k (by simpa using hk) (by simpa using hv)
            refine ⟨g, by simpa using hg1, ?_⟩
            have : i + 1 + k = i + (k + 1) := by omega
            simpa [this] using hg2
        | err => simp [hr] at h
        | panic f => simp [hr] at h
        | unsupported => simp [hr] at h

/-- **the row on the wire**: when `Row` reports success, exactly one message was written, it is
    the DataRow whose fields are `encodeRow` of the values — so (with `encodeRow_length`,
    `encodeRow_fields`, C02_roundtrip for the framing) the client receives one field per declared
    column, each the encoding of the value the handler wrote; in every other case nothing is
    written at all: no partial or altered row ever reaches the client -/
theorem C09_row_message (d : DW) (s : Sess) (vals : List Val) :
    let r := dwRow d s vals
    (r.1 = .res none → ∃ fields, encodeRow d.formats 0 d.cols vals = .ok fields ∧
        fields.length = d.cols.length ∧ r.2.2.out = .dataRow fields :: s.out) ∧
    (r.1 ≠ .res none → r.2.2.out = s.out) := by
  intro r
  simp only [r]
  unfold dwRow
  split
  · simp
  · split
    · simp
    · rename_i hl
      cases he : encodeRow d.formats 0 d.cols vals with
      | unsupported => simp [Sess.markUnsup]
      | err => simp
      | panic f => simp
      | ok fields =>
        simp only []
        rcases hs : s.send (.dataRow fields) with ⟨s', ok⟩
        cases ok with
        | true =>
          obtain ⟨a, _⟩ := send_ok s s' _ hs
          simp only [true_implies, ne_eq, not_true_eq_false, false_implies, and_true]
          exact ⟨fields, rfl, encodeRow_length _ _ _ _ _ (by simpa using hl) he, a⟩
        | false =>
          have := send_fail s s' _ hs
          subst this
          simp

/-! ### codec round trips (model of the pgx codecs; tied by the campaign's independent decoder) -/

theorem toU16_ofU16 (i : Int) (h1 : -32768 ≤ i) (h2 : i ≤ 32767) : ofU16 (toU16 i) = i := by
  unfold ofU16 toU16; split <;> omega

theorem toU64_ofU64 (i : Int) (h1 : -9223372036854775808 ≤ i) (h2 : i ≤ 9223372036854775807) :
    ofU64 (toU64 i) = i := by
  unfold ofU64 toU64; split <;> omega

theorem rd64_be64 (n : Nat) (h : n < 18446744073709551616) : rd64 (be64 n) = some (n, []) := by
  unfold rd64 be64
  rw [rd32_be32 _ (by omega)]
  simp only []
  have := rd32_be32 (n % 4294967296) (by omega) []
  simp only [List.append_nil] at this
  rw [this]
  simp only []
  congr 2
  omega

/-- binary integers of every width round-trip over their whole range -/
theorem C09_int_binary (o : Nat) (i : Int) (lo hi : Int) (hr : intRange o = some (lo, hi)) (h1 : lo ≤ i) (h2 : i ≤ hi) :
    ∀ b, encodeVal o 1 (.int i) = .ok (some b) → decodeVal o 1 (some b) = .ok (.int i) := by
  intro b he
  have hsup : supportedOid o = true := by
    unfold intRange at hr
    split at hr
    · rename_i h; simp [supportedOid, h, Oid.int2]
    · split at hr
      · rename_i h; simp [supportedOid, h, Oid.int4]
      · split at hr
        · rename_i h; simp [supportedOid, h, Oid.int8]
        · simp at hr
  have hrange : ¬ (i < lo ∨ i > hi) := by omega
  simp only [encodeVal, encodeTyped, hsup, hr, hrange] at he
  simp at he
  subst he
  unfold intRange at hr
  by_cases h2' : o = Oid.int2
  · subst h2'
    simp [Oid.int2] at hr
    obtain ⟨rfl, rfl⟩ := hr
    have := rd16_be16 (toU16 i) (toU16_lt i) []
    simp only [List.append_nil] at this
    simp [decodeVal, supportedOid, Oid.int2, Oid.text, Oid.varchar, Oid.ztext, Oid.int4, Oid.int8, intWidth, beInt, this,
      toU16_ofU16 i h1 h2]
  · by_cases h4 : o = Oid.int4
    · subst h4
      simp [Oid.int4, Oid.int2] at hr
      obtain ⟨rfl, rfl⟩ := hr
      have := rd32_be32 (toU32 i) (toU32_lt i) []
      simp only [List.append_nil] at this
      simp [decodeVal, supportedOid, Oid.int2, Oid.text, Oid.varchar, Oid.ztext, Oid.int4, Oid.int8, intWidth, beInt, this,
        ofU32_toU32 i h1 (by omega)]
    · by_cases h8 : o = Oid.int8
      · subst h8
        simp [Oid.int4, Oid.int2, Oid.int8] at hr
        obtain ⟨rfl, rfl⟩ := hr
        have hlt : toU64 i < 18446744073709551616 := by unfold toU64; omega
        have := rd64_be64 (toU64 i) hlt
        have hl : (be64 (toU64 i)).length = 8 := rfl
        simp [decodeVal, supportedOid, Oid.int2, Oid.text, Oid.varchar, Oid.ztext, Oid.int4, Oid.int8, intWidth, beInt, this,
          toU64_ofU64 i h1 h2, hl]
      · simp [h2', h4, h8] at hr

/-- text-format integers of every width round-trip over their whole range
    (`strconv.ParseInt` inverts `strconv.FormatInt`, `parseIntText_decInt`) -/
theorem C09_int_text (o : Nat) (i : Int) (lo hi : Int) (hr : intRange o = some (lo, hi)) (h1 : lo ≤ i) (h2 : i ≤ hi) :
    encodeVal o 0 (.int i) = .ok (some (decInt i)) ∧ decodeVal o 0 (some (decInt i)) = .ok (.int i) := by
  have ho : o = Oid.int2 ∨ o = Oid.int4 ∨ o = Oid.int8 := by
    unfold intRange at hr
    by_cases a : o = Oid.int2
    · exact Or.inl a
    · by_cases b : o = Oid.int4
      · exact Or.inr (Or.inl b)
      · by_cases c : o = Oid.int8
        · exact Or.inr (Or.inr c)
        · simp [a, b, c] at hr
  have hsup : supportedOid o = true := by
    rcases ho with rfl | rfl | rfl <;> decide
  have hnt : ¬ (o = Oid.text ∨ o = Oid.varchar ∨ o = Oid.ztext) := by
    rcases ho with rfl | rfl | rfl <;> decide
  have hrange : ¬ (i < lo ∨ i > hi) := by omega
  constructor
  · simp [encodeVal, encodeTyped, hsup, hr, hrange]
  · simp [decodeVal, hsup, hnt, ho, hr, parseIntText_decInt i lo hi h1 h2]

/-- text and varchar: every byte string round-trips in both formats (the empty one included) -/
theorem C09_text (o fmt : Nat) (s : Bytes) (ho : o = Oid.text ∨ o = Oid.varchar ∨ o = Oid.ztext) (hf : fmt = 0 ∨ fmt = 1) :
    encodeVal o fmt (.text s) = .ok (some s) ∧ decodeVal o fmt (some s) = .ok (.text s) := by
  have hf' : ¬ (fmt ≠ 0 ∧ fmt ≠ 1) := by omega
  rcases ho with rfl | rfl | rfl <;> simp [encodeVal, encodeTyped, decodeVal, supportedOid, Oid.text, Oid.varchar, Oid.ztext, hf']

/-- bytea, bool, uuid in binary format -/
theorem C09_bytea_binary (s : Bytes) :
    encodeVal Oid.bytea 1 (.bytea s) = .ok (some s) ∧ decodeVal Oid.bytea 1 (some s) = .ok (.bytea s) := by
  simp [encodeVal, encodeTyped, decodeVal, supportedOid, Oid.bytea, Oid.text, Oid.varchar, Oid.ztext, Oid.int2, Oid.int4, Oid.int8, Oid.bool]

theorem C09_bool_binary (b : Bool) :
    ∃ e, encodeVal Oid.bool 1 (.bool b) = .ok (some e) ∧ decodeVal Oid.bool 1 (some e) = .ok (.bool b) := by
  cases b <;> simp [encodeVal, encodeTyped, decodeVal, supportedOid, Oid.bool, Oid.text, Oid.varchar, Oid.ztext, Oid.int2, Oid.int4, Oid.int8]

theorem C09_uuid_binary (s : Bytes) (h : s.length = 16) :
    encodeVal Oid.uuid 1 (.uuid s) = .ok (some s) ∧ decodeVal Oid.uuid 1 (some s) = .ok (.uuid s) := by
  simp [encodeVal, encodeTyped, decodeVal, supportedOid, Oid.uuid, Oid.bytea, Oid.bool, Oid.text, Oid.varchar, Oid.ztext, Oid.int2, Oid.int4,
    Oid.int8, h]

end Pw.Props.C09
